import random
from asa_lib import *
def verdict(acl, sem, p):
    for (b,_) in acl:
        act,ms=sem[b]
        if p in ms: return act
    return 'deny'
def moves_down_over_delete(al,bl,rs):
    # moved = body deleted in a D range and inserted in an I range
    delpos={}; pure_del=set()
    ins={}
    for r in rs:
        la,ha,lb,hb=r
        if kind(r)=='D':
            for i in range(la,ha): delpos[al[i][0]]=i
        if kind(r)=='I':
            for j in range(lb,hb): ins[bl[j][0]]=la
    moved={b for b in delpos if b in ins}
    pure=[delpos[b] for b in delpos if b not in ins]
    for b in moved:
        i=delpos[b]; g=ins[b]
        if g>i and any(i<j<g for j in pure): return True
    return False
