import random
from asa_lib import rand_script, kind
# line = (body, log); action from sem[body][0] in {'permit','deny','remark'}
def blocks(al, act):
    res=[0]*len(al); bid=1; action=''
    for i,l in enumerate(al):
        a=act(l)
        if a==action or a=='remark': pass
        else:
            if action!='': bid+=1
            action=a
        res[i]=bid
    return res,bid
def diff_ios(al,bl,rs,act,fixed=False):
    changes=[]
    idx2Block,maxID=blocks(al,act)
    dele=[]; delMap={}
    def insideBlock(pos):
        low=high=''; id_=0
        for i in range(pos-1,-1,-1):
            a=act(al[i])
            if a!='remark': low=a; id_=idx2Block[i]; break
        for i in range(pos,len(al)):
            a=act(al[i])
            if a!='remark': high=a; id_=idx2Block[i]; break
        if low==high: return low,id_
        return '',0
    for r in rs:
        la,ha,lb,hb=r
        if kind(r)=='I':
            action,id_=insideBlock(la)
            if action!='':
                for c in bl[lb:hb]:
                    if action!=act(c):
                        maxID+=1
                        for i in range(la,len(al)):
                            if idx2Block[i]!=id_: break
                            idx2Block[i]=maxID
                        break
        elif kind(r)=='D':
            for i in range(la,ha):
                cp={'cmd':al[i],'pos':i}
                delMap[al[i][0]]=cp; dele.append(cp)
    for r in rs:
        la,ha,lb,hb=r
        if kind(r)=='I':
            action0=act(bl[lb]); moveOK=True
            seg=bl[lb:hb]
            for i,b in enumerate(seg):
                moveOK=moveOK and action0==act(b)
                cp=delMap.get(b[0])
                if cp is not None and cp['cmd'] is not None:
                    # moveACL
                    skip=False
                    if moveOK:
                        oldID=idx2Block[cp['pos']]
                        if la>0 and idx2Block[la-1]==oldID: skip=True
                        if la<len(idx2Block) and idx2Block[la]==oldID: skip=True
                    if fixed and not skip:
                        pass
                    if fixed:
                        # recompute skip with proper side conditions
                        skip=False
                        oldID=idx2Block[cp['pos']]
                        upOK=all(act(x)==act(b) or act(x)=='remark' for x in seg[:i])
                        downOK=all(act(x)==act(b) or act(x)=='remark' for x in seg[i+1:])
                        if cp['pos']<la:
                            if upOK and idx2Block[la-1]==oldID: skip=True
                        else:
                            if downOK and idx2Block[la]==oldID: skip=True
                    if not skip:
                        changes.append(('move',(cp['pos']+1)*10000, la*10000+i+1, b))
                    cp['cmd']=None
                else:
                    changes.append(('add',la*10000+i+1,b))
    for cp in reversed(dele):
        if cp['cmd'] is not None:
            changes.append(('del',(cp['pos']+1)*10000))
    return changes
def exec_ios(al,changes):
    acl=[((i+1)*10000,l) for i,l in enumerate(al)]
    states=[[l for _,l in acl]]
    for c in changes:
        if c[0]=='add':
            _,n,l=c
            if any(x==n for x,_ in acl): return 'dupnum',states
            if any(y[0]==l[0] for _,y in acl): return 'dupline',states
            acl.append((n,l)); acl.sort(key=lambda t:t[0])
        elif c[0]=='del':
            if not any(x==c[1] for x,_ in acl): return 'nonum',states
            acl=[t for t in acl if t[0]!=c[1]]
        else:
            _,d,n,l=c
            if not any(x==d for x,_ in acl): return 'nonum',states
            acl=[t for t in acl if t[0]!=d]
            if any(x==n for x,_ in acl): return 'dupnum',states
            if any(y[0]==l[0] for _,y in acl): return 'dupline',states
            acl.append((n,l)); acl.sort(key=lambda t:t[0])
        states.append([l for _,l in acl])
    return [l for _,l in acl],states
def verdict(acl,sem,p):
    for (b,_) in acl:
        a,ms=sem[b]
        if a!='remark' and p in ms: return a
    return 'deny'
def gen(rng,nb=8):
    n=rng.randint(0,6); bodies=list(range(nb))
    al=[(b,0) for b in rng.sample(bodies,n)]
    bl=list(al)
    for _ in range(rng.randint(0,4)):
        op=rng.choice(['ins','del','move'])
        if op=='ins':
            free=[b for b in bodies if b not in [x[0] for x in bl]]
            if free: bl.insert(rng.randint(0,len(bl)),(rng.choice(free),0))
        elif op=='del' and bl: del bl[rng.randrange(len(bl))]
        elif op=='move' and bl:
            x=bl.pop(rng.randrange(len(bl))); bl.insert(rng.randint(0,len(bl)),x)
    return al,bl
if __name__=="__main__":
    import sys
    fixed = len(sys.argv)>1 and sys.argv[1]=='fixed'
    rng=random.Random(3); U=range(4)
    tot=conv_bad=exec_bad=0; shown=0
    for t in range(300000):
        al,bl=gen(rng)
        rs=rand_script(al,bl,rng)
        if not any(kind(r)=='E' for r in rs): continue
        sem={b:(rng.choice(['permit','deny','permit','deny','remark']), {p for p in U if rng.random()<0.4}) for b in range(8)}
        act=lambda l: sem[l[0]][0]
        ch=diff_ios(al,bl,rs,act,fixed)
        res,states=exec_ios(al,ch)
        tot+=1
        if isinstance(res,str):
            exec_bad+=1
            if shown<3: shown+=1; print("EXECFAIL",res,al,bl,rs,ch)
            continue
        if any(verdict(res,sem,p)!=verdict(bl,sem,p) for p in U) or sorted(res)!=sorted(bl):
            conv_bad+=1
            if shown<6: shown+=1; print("CONVFAIL",al,bl,rs,ch,res,{b:sem[b][0] for b in range(8)})
    print("fixed" if fixed else "orig",tot,exec_bad,conv_bad)
