import random, itertools
# Faithful S1 model of diffASAACLs (no groups): lines are (body, log)
def rand_script(al, bl, rng):
    """random VALID edit script: ranges tiling A and B; Eq pairs equal full lines"""
    # choose a random common subsequence (not nec. longest), then random order of Del/Ins in gaps
    n, m = len(al), len(bl)
    # DP-free: greedy random matching
    pairs=[]; i=j=0
    while i<n and j<m:
        # find candidates
        cands=[(x,y) for x in range(i,n) for y in range(j,m) if al[x]==bl[y]]
        if not cands or rng.random()<0.15: break
        x,y=rng.choice(cands[:3]); pairs.append((x,y)); i=x+1; j=y+1
    ranges=[]; i=j=0
    def gap(i,j,x,y):
        segs=[]
        if x>i: segs.append(('D',i,x,j,j))
        if y>j: segs.append(('I',x if rng.random()<0.5 else i, None,j,y))
        return segs
    def emit_gap(i,j,x,y):
        d = (i,x,j,j) if x>i else None
        if rng.random()<0.5:
            # Del then Ins (Myers order)
            if d: ranges.append((i,x,j,j))
            if y>j: ranges.append((x,x,j,y))
        else:
            # Ins then Del
            if y>j: ranges.append((i,i,j,y))
            if d: ranges.append((i,x,y,y))
    for (x,y) in pairs:
        emit_gap(i,j,x,y)
        if ranges and ranges[-1][1]-ranges[-1][0]==ranges[-1][3]-ranges[-1][2] and ranges[-1][1]==x and ranges[-1][3]==y and ranges[-1][1]>ranges[-1][0]:
            r=ranges.pop(); ranges.append((r[0],x+1,r[2],y+1))
        else:
            ranges.append((x,x+1,y,y+1))
        i,j=x+1,y+1
    emit_gap(i,j,n,m)
    return ranges
def kind(r):
    la,ha,lb,hb=r
    if la==ha: return 'I'
    if lb==hb: return 'D'
    return 'E'
def diff_asa(al, bl, ranges):
    changes=[]
    pos={}
    add=[];dele=[]
    A=[('a',i) for i in range(len(al))]; B=[('b',j) for j in range(len(bl))]
    line=lambda c: al[c[1]] if c[0]=='a' else bl[c[1]]
    needed=set()
    for r in ranges:
        la,ha,lb,hb=r
        k=kind(r)
        if k=='I':
            for c in B[lb:hb]: pos[c]=la
            add+=B[lb:hb]
        elif k=='D':
            for i,c in enumerate(A[la:ha]): pos[c]=i+la
            dele+=A[la:ha]
        else:
            for i,a in enumerate(A[la:ha]):
                b=B[lb+i]; pos[a]=la+i; pos[b]=la+i; needed.add(a)
    def addACL(b):
        changes.append(('add',pos[b]+1,line(b)))
        i=pos[b]
        for c,p in pos.items():
            if p>=i: pos[c]=p+1
    def delACL(a):
        changes.append(('del',pos[a]+1,line(a)))
        needed.add(a)
        i=pos[a]
        for c,p in pos.items():
            if p>i: pos[c]=p-1
    def moveACL(a,b):
        delACL(a); addACL(b)
        ad=changes.pop(); de=changes.pop(); changes.append(('move',de,ad))
    delMap={}
    for a in dele: delMap[line(a)[0]]=a
    for b in add:
        a=delMap.get(line(b)[0])
        if a is not None: moveACL(a,b); continue
        addACL(b)
    for a in reversed(dele):
        if a not in needed: delACL(a)
    return changes
def exec_strict(al, changes):
    acl=list(al); states=[list(acl)]
    def do(c):
        nonlocal acl
        if c[0]=='add':
            _,n,l=c
            if not (1<=n<=len(acl)+1): return 'badline'
            if any(x[0]==l[0] for x in acl): return 'dup'
            acl.insert(n-1,l)
        elif c[0]=='del':
            _,n,l=c
            if not (1<=n<=len(acl)) or acl[n-1]!=l: return 'wrongline'
            del acl[n-1]
        return None
    for c in changes:
        if c[0]=='move':
            for h in (c[1],c[2]):
                e=do(h)
                if e: return e,states
        else:
            e=do(c)
            if e: return e,states
        states.append(list(acl))
    return acl,states
def gen(rng):
    n=rng.randint(0,6)
    bodies=list(range(8))
    al=[(b,rng.choice([0,0,1])) for b in rng.sample(bodies,n)]
    # bl: mutate
    bl=list(al)
    for _ in range(rng.randint(0,4)):
        op=rng.choice(['ins','del','move','log'])
        if op=='ins':
            free=[b for b in bodies if b not in [x[0] for x in bl]]
            if free: bl.insert(rng.randint(0,len(bl)),(rng.choice(free),rng.choice([0,1])))
        elif op=='del' and bl: del bl[rng.randrange(len(bl))]
        elif op=='move' and bl:
            x=bl.pop(rng.randrange(len(bl))); bl.insert(rng.randint(0,len(bl)),x)
        elif op=='log' and bl:
            i=rng.randrange(len(bl)); bl[i]=(bl[i][0],1-bl[i][1])
    return al,bl
