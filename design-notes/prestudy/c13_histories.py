import itertools, sys
# world: policies list of code ids (per single device); cur = last; dev = code id carried
# events: NP(c) new policy with code c in {0,1}; AOK; AF; CMP; DR(c) drift to code c in {0,1,2}; DMG; RM (remove oldest non-current policy)
FIX = len(sys.argv)>1 and sys.argv[1]=='fix'
def run(h):
    pol=[0]; removed=set(); dev=2; t=0
    S=dict(Ar='',Ap=None,At=0,Cr='',Cp=None,Ct=0)
    obs=None  # latest conclusive observation: ('OK'|'UP'|'DIFF', policy index)
    for e in h:
        t+=1; cur=len(pol)-1
        if e[0]=='NP': pol.append(e[1])
        elif e=='AOK':
            dev=pol[cur]; S.update(Ar='OK',Ap=cur,At=t); obs=('OK',cur)
        elif e=='AF':
            if FIX and S['Ar']=='OK': pass
            else: S.update(Ar='FAILED',Ap=cur,At=t)
        elif e=='CMP':
            changed = dev!=pol[cur]
            obs=('DIFF' if changed else 'UP',cur)
            if not changed: S.update(Cr='UPTODATE',Cp=cur,Ct=t)
            elif S['Cr']!='DIFF' or S['Ct']<S['At']: S.update(Cr='DIFF',Cp=cur,Ct=t)
        elif e[0]=='DR': dev=e[1]
        elif e=='DMG':
            S=dict(Ar='',Ap=None,At=0,Cr='',Cp=None,Ct=0); obs=None
        elif e=='RM':
            for i in range(cur):
                if i not in removed: removed.add(i); break
    cur=len(pol)-1
    # check
    dp=None; at=0
    if S['Ar']=='OK': dp=S['Ap']; at=S['At']
    if at<S['Ct']:
        if S['Cr']=='UPTODATE': dp=S['Cp']
        elif S['Cr']=='DIFF': dp=None
    if dp is None: listed=True
    elif dp==cur: listed=False
    else:
        c1 = None if dp in removed else pol[dp]
        listed = c1!=pol[cur]
    est = obs is not None and obs[0] in('OK','UP') and pol[obs[1]]==pol[cur]
    est_disk = est and obs[1] not in removed
    return listed, est, est_disk, dev==pol[cur]
EV=[('NP',0),('NP',1),'AOK','AF','CMP',('DR',2),'DMG','RM']
bad1=[];bad2=[]
for n in range(1,7):
    for h in itertools.product(EV,repeat=n):
        listed,est,estd,same=run(h)
        if not listed and not est: bad1.append(h)
        if estd and listed: bad2.append(h)
    if bad1 or bad2:
        pass
def minimal(bads):
    out=[]
    for h in bads:
        if not any(len(g)<len(h) and all(x in h for x in g) and is_subseq(g,h) for g in out): out.append(h)
    return out
def is_subseq(g,h):
    it=iter(h); return all(x in it for x in g)
m1=minimal(bad1); m2=minimal(bad2)
print("never_forgets violations:",len(bad1),"minimal:",len(m1))
for h in m1[:12]: print("  ",h)
print("omits violations:",len(bad2),"minimal:",len(m2))
for h in m2[:12]: print("  ",h)
