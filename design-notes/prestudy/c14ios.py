import random
from ios_core import diff_ios, exec_ios, verdict, gen, rand_script, kind
from predlib import pred2
rng=random.Random(11); U=range(4)
tot=bad=known=unk=0
for t in range(300000):
    al,bl=gen(rng)
    rs=rand_script(al,bl,rng)
    if not any(kind(r)=='E' for r in rs): continue
    sem={b:(rng.choice(['permit','deny']), {p for p in U if rng.random()<0.4}) for b in range(8)}
    act=lambda l: sem[l[0]][0]
    ch=diff_ios(al,bl,rs,act,True)
    res,states=exec_ios(al,ch)
    tot+=1
    viol=False
    for st in states:
        for p in U:
            if verdict(al,sem,p)==verdict(bl,sem,p)!=verdict(st,sem,p): viol=True
    if viol:
        bad+=1
        if pred2(al,bl,rs): known+=1
        else:
            unk+=1
            if unk<=4: print("UNEXPLAINED",al,bl,rs,ch,{b:sem[b] for b in set(x[0] for x in al+bl)})
print(tot,bad,known,unk)
