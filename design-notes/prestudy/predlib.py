import random
from c14lib import *
def pred2(al,bl,rs):
    delpos={}; insgap={}; insidx={}
    for r in rs:
        la,ha,lb,hb=r
        if kind(r)=='D':
            for i in range(la,ha): delpos[al[i][0]]=i
        if kind(r)=='I':
            for j in range(lb,hb): insgap[bl[j][0]]=la; insidx[bl[j][0]]=j
    for b,i in delpos.items():
        if b not in insgap: continue
        g=insgap[b]
        if g<=i: continue
        for b2,j in delpos.items():
            if i<j<g:
                if b2 not in insgap: return True          # pure delete pending
                if insidx[b2]>insidx[b]: return True      # moved later -> still at old place
    return False
