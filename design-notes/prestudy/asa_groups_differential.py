import random, subprocess, os, sys, re, json
DRC='/tmp/probe/drc' if len(sys.argv)<2 else sys.argv[1]
os.makedirs('code',exist_ok=True)
open('code/router.info','w').write('{"model":"ASA","name_list":["router"],"ip_list":["10.1.13.33"]}')
HOSTS=[f"10.0.0.{i}" for i in range(1,7)]
def render(cfg):
    out=["interface Ethernet0/0"," nameif inside","interface Ethernet0/1"," nameif outside"]
    for g,(members) in cfg['groups'].items():
        out.append(f"object-group network {g}")
        for m in members: out.append(f" network-object host {m}")
    for a,lines in cfg['acls'].items():
        for l in lines: out.append(f"access-list {a} extended {render_line(l)}")
    for intf,a in cfg['bind'].items():
        out.append(f"access-group {a} in interface {intf}")
    return "\n".join(out)+"\n"
def render_line(l):
    act,src,dst=l
    f=lambda x: f"object-group {x[1]}" if x[0]=='g' else (f"host {x[1]}" if x[0]=='h' else 'any4')
    return f"{act} ip {f(src)} {f(dst)}"
def gen_cfg(rng, names_prefix, ngroups):
    groups={}
    for i in range(ngroups):
        k=rng.randint(1,4)
        groups[f"{names_prefix}{i}"]=sorted(rng.sample(HOSTS,k))
    def obj():
        r=rng.random()
        if r<0.45 and groups: return ('g',rng.choice(list(groups)))
        if r<0.9: return ('h',rng.choice(HOSTS))
        return ('a',None)
    acls={}
    nacl=rng.choice([1,1,2])
    for i in range(nacl):
        n=rng.randint(1,5); lines=[]
        for _ in range(n):
            l=(rng.choice(['permit','deny']),obj(),obj())
            lines.append(l)
        seen=[]
        for l in lines:
            if l not in seen: seen.append(l)
        acls[f"acl{i}"]=seen
    bind={'inside':'acl0'}
    if nacl==2 or rng.random()<0.3: bind['outside']=rng.choice(list(acls))
    # drop unreferenced groups? keep (garbage on device allowed); for target remove unreferenced
    return {'groups':groups,'acls':acls,'bind':bind}
def semantic(cfg):
    """canonical: per interface, list of lines with groups expanded to frozenset"""
    res={}
    for intf,a in cfg['bind'].items():
        ls=[]
        for act,src,dst in cfg['acls'][a]:
            e=lambda x: ('g',frozenset(cfg['groups'][x[1]])) if x[0]=='g' else x
            ls.append((act,e(src),e(dst)))
        res[intf]=ls
    return res
def mutate(rng,cfg):
    import copy
    c=copy.deepcopy(cfg)
    # rename groups/acls (device names differ: -DRC-n)
    ren={g:f"{g}-DRC-{rng.randint(0,1)}" for g in c['groups']}
    c['groups']={ren[g]:m for g,m in c['groups'].items()}
    rn=lambda x: ('g',ren[x[1]]) if x[0]=='g' else x
    c['acls']={a:[(act,rn(s),rn(d)) for act,s,d in ls] for a,ls in c['acls'].items()}
    for _ in range(rng.randint(0,4)):
        op=rng.choice(['insline','delline','moveline','gadd','gdel','gdup','chgref'])
        a=rng.choice(list(c['acls'])); ls=c['acls'][a]
        gl=list(c['groups'])
        if op=='insline':
            o=lambda: rng.choice([('h',rng.choice(HOSTS)),('a',None)]+([('g',rng.choice(gl))] if gl else []))
            ls.insert(rng.randint(0,len(ls)),(rng.choice(['permit','deny']),o(),o()))
        elif op=='delline' and len(ls)>1: del ls[rng.randrange(len(ls))]
        elif op=='moveline' and ls:
            x=ls.pop(rng.randrange(len(ls))); ls.insert(rng.randint(0,len(ls)),x)
        elif op=='gadd' and gl:
            g=rng.choice(gl); h=rng.choice(HOSTS)
            if h not in c['groups'][g]: c['groups'][g]=sorted(c['groups'][g]+[h])
        elif op=='gdel' and gl:
            g=rng.choice(gl)
            if len(c['groups'][g])>1: c['groups'][g].pop(rng.randrange(len(c['groups'][g])))
        elif op=='gdup' and gl:
            g=rng.choice(gl); c['groups'][g+"x-DRC-0"]=list(c['groups'][g])
        elif op=='chgref' and gl and ls:
            i=rng.randrange(len(ls)); act,s,d=ls[i]; ls[i]=(act,('g',rng.choice(gl)),d)
    # dedupe lines within ACL (device invariant)
    for a in c['acls']:
        seen=[];
        for l in c['acls'][a]:
            if l not in seen: seen.append(l)
        c['acls'][a]=seen
    return c
class Refuse(Exception): pass
def apply(dev, script):
    """strict ASA executor on structured cfg"""
    import copy
    d=copy.deepcopy(dev); mode=None
    def refs_of(name):
        return [(a,i) for a,ls in d['acls'].items() for i,l in enumerate(ls) for x in (l[1],l[2]) if x[0]=='g' and x[1]==name]
    def parse_obj(tok,i):
        if tok[i]=='object-group': return ('g',tok[i+1]),i+2
        if tok[i]=='host': return ('h',tok[i+1]),i+2
        if tok[i]=='any4': return ('a',None),i+1
        raise Refuse("syntax "+ " ".join(tok))
    def parse_line(tok):
        act=tok[0]; assert tok[1]=='ip'
        s,i=parse_obj(tok,2); dd,i=parse_obj(tok,i)
        if i!=len(tok): raise Refuse("trailing")
        return (act,s,dd)
    for cmd in script:
        for c in cmd.split("\\N "):
            c=c.strip(); tok=c.split()
            neg = tok[0]=='no'
            if neg: tok=tok[1:]
            if tok[0]=='exit': mode=None; continue
            if tok[0]=='network-object':
                if mode is None: raise Refuse("subcmd outside mode: "+c)
                m=tok[2]
                if neg:
                    if m not in d['groups'][mode]: raise Refuse("member missing "+c)
                    d['groups'][mode].remove(m)
                else:
                    if m in d['groups'][mode]: raise Refuse("member dup "+c)
                    d['groups'][mode].append(m)
                continue
            if tok[0]=='object-group':
                name=tok[2]
                if neg:
                    if name not in d['groups']: raise Refuse("no such group "+c)
                    if refs_of(name): raise Refuse("group still referenced "+c)
                    del d['groups'][name]; mode=None
                else:
                    d['groups'].setdefault(name,[]); mode=name
                continue
            mode=None
            if tok[0]=='access-list':
                name=tok[1]; i=2; ln=None
                if tok[i]=='line': ln=int(tok[i+1]); i+=2
                assert tok[i]=='extended'; l=parse_line(tok[i+1:])
                for x in (l[1],l[2]):
                    if x[0]=='g' and x[1] not in d['groups']: raise Refuse("unknown group in "+c)
                ls=d['acls'].setdefault(name,[])
                if neg:
                    if ln is not None:
                        if not(1<=ln<=len(ls)) or ls[ln-1]!=l: raise Refuse("wrong line "+c)
                        del ls[ln-1]
                    else:
                        if l not in ls: raise Refuse("no such line "+c)
                        ls.remove(l)
                    if not ls:
                        del d['acls'][name]
                        for k in [k for k,v in d['bind'].items() if v==name]: del d['bind'][k]
                else:
                    if l in ls: raise Refuse("duplicate line "+c)
                    if ln is None: ls.append(l)
                    else:
                        if not(1<=ln<=len(ls)+1): raise Refuse("line out of range "+c)
                        ls.insert(ln-1,l)
            elif tok[0]=='access-group':
                name=tok[1]; intf=tok[4]
                if neg:
                    if d['bind'].get(intf)!=name: raise Refuse("no such binding "+c)
                    del d['bind'][intf]
                else:
                    if name not in d['acls']: raise Refuse("unknown acl "+c)
                    d['bind'][intf]=name
            elif tok[0]=='clear':
                assert tok[1]=='configure' and tok[2]=='access-list'
                name=tok[3]
                if name not in d['acls']: raise Refuse("clear unknown "+c)
                if name in d['bind'].values(): raise Refuse("clear bound acl "+c)
                del d['acls'][name]
            else: raise Refuse("unknown cmd "+c)
    # empty groups are illegal at end
    for g,m in d['groups'].items():
        if not m and refs_of(g): raise Refuse("empty referenced group "+g)
    return d
def drc(devtxt,spoctxt):
    open('dev','w').write(devtxt); open('code/router','w').write(spoctxt)
    p=subprocess.run([DRC,'-q','dev','code/router'],capture_output=True,text=True)
    return p.returncode,p.stdout,p.stderr
def target_clean(B):
    used={x[1] for a in B['bind'].values() for l in B['acls'][a] for x in (l[1],l[2]) if x[0]=='g'}
    B['groups']={g:m for g,m in B['groups'].items() if g in used}
    B['acls']={a:l for a,l in B['acls'].items() if a in B['bind'].values()}
    return B
seed=int(os.environ.get('SEED','1')); N=int(os.environ.get('N','300'))
rng=random.Random(seed)
stats=dict(n=0,empty=0,refuse=0,noconv=0,notidem=0,err=0)
fails=[]
for t in range(N):
    B=target_clean(gen_cfg(rng,'g',rng.randint(0,3)))
    A=mutate(rng,B)
    if 'outside' in B['bind'] and 'outside' not in A['bind']: pass
    rc,out,err=drc(render(A),render(B))
    stats['n']+=1
    if rc!=0: stats['err']+=1; fails.append(('ERR',A,B,err[:300])); continue
    script=[l for l in out.split("\n") if l]
    if not script: stats['empty']+=1
    try:
        A2=apply(A,script)
    except Refuse as e:
        stats['refuse']+=1; fails.append(('REFUSE',str(e),A,B,script)); continue
    if semantic(A2)!=semantic(B) :
        stats['noconv']+=1; fails.append(('NOCONV',A,B,script,A2)); continue
    rc2,out2,err2=drc(render(A2),render(B))
    if out2.strip():
        stats['notidem']+=1; fails.append(('NOTIDEM',A,B,script,A2,out2))
print(stats)
import collections
print(collections.Counter((f[0], (f[1].split(' access-list')[0].split(' object-group')[0] if f[0]=='REFUSE' else '')) for f in fails))
shown=set()
for f in fails:
    k=(f[0], f[1].split()[0] if f[0]=='REFUSE' else '')
    if k in shown: continue
    shown.add(k)
    print("-----",f[0])
    for x in f[1:]: print(json.dumps(x,default=list) if not isinstance(x,str) else x)
