#!/usr/bin/env python3
"""Prints the table of DESIGN.md section 10.4 from seeded/*/meta.json (field "ran", written by tools/seedall.py)."""
import json, os, re
V = os.path.dirname(os.path.dirname(os.path.abspath(__file__)))
rows = []
for sid in sorted(os.listdir(os.path.join(V, 'seeded'))):
    mp = os.path.join(V, 'seeded', sid, 'meta.json')
    if not os.path.isfile(mp):
        continue
    m = json.load(open(mp))
    first = re.split(r'(?<=[a-z\)\']{2})\. ', m.get('summary', '').replace('\n', ' ').replace('|', '/'))[0][:170]
    caught, weak, missed = [], [], []
    for r in m.get('ran', []):
        p = r['command'].split('./check ')[1].split(' ')[0]
        (caught if r['detected'] and r['with_failing_input'] else weak if r['detected'] else missed).append(p)
    rows.append('| %s | %s | %s | %s |' % (sid, first, ', '.join(caught) + ((' (' + ', '.join(weak) + ': tie broken, no failing input)') if weak else ''), ', '.join(missed)))
print('| seed | change (first sentence of its description) | caught by (quick) | run, not caught |')
print('|------|------|------|------|')
print('\n'.join(rows))
