#!/usr/bin/env python3
"""Writes /verif/MANIFEST.json from the table below (keeps it schema-valid)."""
import json, os, sys
V = os.path.dirname(os.path.dirname(os.path.abspath(__file__)))
sys.path.insert(0, V)
from vlib.claims import CLAIMS, NOT_BUILT

ALL = ['C%02d' % i for i in range(1, 21)]
checks = []
for pid in ALL:
    if pid not in CLAIMS:
        continue
    c = CLAIMS[pid]
    checks.append(dict(
        property_id=pid,
        quick_cmd='./check %s quick' % pid,
        thorough_cmd='./check %s thorough' % pid,
        evidence_file='/verif/evidence/%s.json' % pid,
        replay_cmd_template='./check replay {path}',
        engine='coq-proof+correspondence',
        level_claimed=dict(category='proof', text=c['text'], design_ref=c['design_ref']),
        level_note=c['note'] + c.get('extra_note', ''),
        technique=c['technique']))
man = dict(
    version=1,
    setup_cmd='cd /verif && ./check setup',
    hooks=dict(guard='verif', enable='go build -tags verif -o nah ./cmd/nah in /verif/harness (replace => /repo/go): compiles go/pkg/cisco/verif_hooks.go (//go:build verif), which only exports dumps of parsed configurations, command descriptions, name tables and dstOfRoute',
               baseline_off_cmd='python3 /verif/tools/baseline.py',
               source_commits=['d143c60'], add_only=True),
    engines=[dict(name='coq-proof+correspondence', path='/verif/check',
                  serves_properties=sorted(CLAIMS),
                  kind_free_text='Coq 8.16.1 theorems over hand-written Gallina models (coq/theories), tied to /repo on every run '
                                 'by translators (vlib/translators.py -> theories/Gen) and by differential runs of the implementation '
                                 'against the model evaluated with vm_compute; property oracles defined in Coq are evaluated on the '
                                 'implementation output to find failing inputs')],
    checks=checks,
    notes='See DESIGN.md. known-findings.json lists genuine defects recorded or fixed.',
    not_applicable=[dict(property_id=p, reason=NOT_BUILT.get(p, 'check not built yet in this session (planned, see DESIGN.md section 8)'))
                    for p in ALL if p not in CLAIMS])
json.dump(man, open(os.path.join(V, 'MANIFEST.json'), 'w'), indent=1)
print('MANIFEST.json written:', len(checks), 'checks')
