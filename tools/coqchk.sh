#!/bin/bash
# Re-checks every compiled file of the development with the independent checker and lists the axioms.
cd /verif/coq || exit 2
make -j16 >/dev/null 2>&1 || { echo "build failed"; exit 1; }
mods=$(grep "^theories/" _CoqProject | sed 's#theories/#NA.#; s#/#.#g; s#\.v$##' | tr '\n' ' ')
mkdir -p /verif/evidence
{ echo "coqchk -silent -o -Q theories NA <all $(echo $mods | wc -w) modules of _CoqProject>"; coqchk -silent -o -Q theories NA $mods 2>&1; echo "exit=$?"; } > /verif/evidence/coqchk.txt
tail -14 /verif/evidence/coqchk.txt
grep -q "^exit=0" /verif/evidence/coqchk.txt && grep -q "Axioms: <none>" /verif/evidence/coqchk.txt
