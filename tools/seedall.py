#!/usr/bin/env python3
"""Applies every kept seeded change to /repo, runs the quick check of its property
(and of properties listed in EXTRA), undoes it; records the outcome in
seeded/<id>/meta.json (field "ran") and seeded/RESULTS.json."""
import json, os, subprocess, sys, time
V = os.path.dirname(os.path.dirname(os.path.abspath(__file__)))
EXTRA = {'C14-1': ['C02'], 'C02-2': ['C14'], 'C02-1': ['C14'], 'C01-1': ['C08', 'C10'], 'C08-1': ['C01'], 'C10-1': ['C01'], 'C07-1': ['C01'], 'C18-1': ['C20']}
only = sys.argv[1:]
results = json.load(open(os.path.join(V, 'seeded', 'RESULTS.json'))) if os.path.exists(os.path.join(V, 'seeded', 'RESULTS.json')) else {}
if subprocess.run(['git', '-C', '/repo', 'status', '--short'], capture_output=True, text=True).stdout.strip():
    sys.exit('/repo not clean')
head = subprocess.run(['git', '-C', '/repo', 'rev-parse', '--short', 'HEAD'], capture_output=True, text=True).stdout.strip()
for sid in sorted(os.listdir(os.path.join(V, 'seeded'))):
    d = os.path.join(V, 'seeded', sid)
    if not os.path.isdir(d) or (only and sid not in only):
        continue
    prop = sid.split('-')[0]
    patch = os.path.join(d, 'patch.diff')
    if subprocess.run(['git', '-C', '/repo', 'apply', patch]).returncode != 0:
        results[sid] = dict(error='patch does not apply on ' + head)
        continue
    ran = []
    try:
        for p in [prop] + EXTRA.get(sid, []):
            t0 = time.time()
            r = subprocess.run(['./check', p, 'quick'], cwd=V, capture_output=True, text=True, env=dict(os.environ, VERIF_EVIDENCE_SKIP='1'))
            lines = [l for l in r.stdout.split('\n') if l.startswith('VIOLATION')]
            ran.append(dict(command='git -C /repo apply seeded/%s/patch.diff; ./check %s quick; git -C /repo checkout -- .' % (sid, p), exit=r.returncode,
                            violation_lines=lines[:3], detected=(r.returncode == 1 and bool(lines)),
                            with_failing_input=any('no-failing-input-found' not in l for l in lines), seconds=round(time.time() - t0)))
    finally:
        subprocess.run(['git', '-C', '/repo', 'checkout', '--', '.'])
    results[sid] = dict(repo_head=head, ran=ran)
    mp = os.path.join(d, 'meta.json')
    meta = json.load(open(mp))
    meta['ran'] = ran
    meta['ran_on_repo_head'] = head
    json.dump(meta, open(mp, 'w'), indent=2)
    json.dump(results, open(os.path.join(V, 'seeded', 'RESULTS.json'), 'w'), indent=1)
    print(sid, [(x['command'].split('./check ')[1].split(' ')[0], x['detected'], x['with_failing_input']) for x in ran], flush=True)
# the generated Coq files (coq/theories/Gen) now reflect the last seeded tree: regenerate them from the clean tree
subprocess.run(['./check', 'C16', 'quick'], cwd=V, capture_output=True, text=True, env=dict(os.environ, VERIF_EVIDENCE_SKIP='1'))
