#!/bin/bash
# usage: tools/runall.sh [quick|thorough] — every claimed check on /repo's current tree; prints one line per property
tier=${1:-quick}
cd /verif
for i in $(seq -w 1 20); do
  p=C$i
  s=$(date +%s)
  out=$(./check $p $tier 2>&1); rc=$?
  echo "$p rc=$rc $(( $(date +%s) - s ))s $(echo "$out" | grep -c '^VIOLATION') violation line(s) $(echo "$out" | grep -c '^KNOWN-FINDING') known"
  echo "$out" | grep '^VIOLATION'
done
