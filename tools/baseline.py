#!/usr/bin/env python3
"""Run the repository's test-suite (hooks off: no build tag) and compare with
/root/.vp/BASELINE.json: every stable_pass test must pass.  Exit 0 iff so."""
import json, os, subprocess, sys

def main():
    base = json.load(open('/root/.vp/BASELINE.json'))
    env = dict(os.environ, GOFLAGS='-mod=mod', GOPROXY='off', GOSUMDB='off',
               GOTOOLCHAIN='local')
    p = subprocess.run(['go', 'test', '-json', '-vet=off', '-count=1',
                        '-timeout', '25m', './...'], cwd='/repo/go', env=env,
                       stdout=subprocess.PIPE, stderr=subprocess.STDOUT, text=True)
    res = {}
    for line in p.stdout.splitlines():
        try:
            e = json.loads(line)
        except Exception:
            continue
        if e.get('Test') and e.get('Action') in ('pass', 'fail', 'skip'):
            res[e['Package'] + '::' + e['Test']] = e['Action']
    missing = [t for t in base['stable_pass'] if res.get(t) != 'pass']
    failed = sorted(t for t, a in res.items() if a == 'fail')
    unexpected = [t for t in failed if t not in base.get('always_fail', [])]
    print('stable_pass: %d, passing now: %d, not passing: %d' %
          (len(base['stable_pass']), len(base['stable_pass']) - len(missing), len(missing)))
    for t in missing[:40]:
        print('  NOT PASSING:', t, res.get(t))
    print('failed now: %d (always_fail in baseline: %d), unexpected: %d' %
          (len(failed), len(base.get('always_fail', [])), len(unexpected)))
    for t in unexpected[:40]:
        print('  UNEXPECTED FAIL:', t)
    return 0 if not missing else 1

if __name__ == '__main__':
    sys.exit(main())
