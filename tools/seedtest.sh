#!/bin/bash
# usage: tools/seedtest.sh PATCH ID [ID...]  — apply a seeded change to /repo, run quick checks, undo.
patch=$1; shift
cd /repo && git status --short | grep -q . && { echo "/repo not clean"; exit 2; }
git -C /repo apply "$patch" || exit 2
for id in "$@"; do
  (cd /verif && VERIF_EVIDENCE_SKIP=1 ./check $id quick 2>&1 | tail -4; echo "rc($id)=${PIPESTATUS[0]}")
done
git -C /repo checkout -- .
git -C /repo status --short
