#!/usr/bin/env python3
"""Refreshes the generated parts of DESIGN.md: the seed table of section 10.4 and the numbers of section 10."""
import glob, os, re, subprocess, sys
V = os.path.dirname(os.path.dirname(os.path.abspath(__file__)))
p = os.path.join(V, 'DESIGN.md')
s = open(p).read()
table = subprocess.run([sys.executable, os.path.join(V, 'tools', 'seedtable.py')], capture_output=True, text=True).stdout.rstrip('\n')
a = s.index('| seed | change (first sentence of its description)')
b = s.index('\n\n', a)
s = s[:a] + table + s[b:]
files = glob.glob(os.path.join(V, 'coq', 'theories', '*', '*.v'))
lines = sum(sum(1 for _ in open(f)) for f in files)
thms = sum(len(re.findall(r'^Theorem ', open(f).read(), re.M)) for f in glob.glob(os.path.join(V, 'coq', 'theories', 'Properties', '*.v')))
nseeds = len([d for d in os.listdir(os.path.join(V, 'seeded')) if os.path.isdir(os.path.join(V, 'seeded', d))])
s = re.sub(r'Numbers: about [0-9 A-Z]+ lines of Coq in [0-9A-Z]+ files, [0-9A-Z]+ property theorems',
           'Numbers: about %s lines of Coq in %d files, %d property theorems' % ('{:,}'.format(lines // 100 * 100).replace(',', ' '), len(files), thms), s)
s = re.sub(r'under each of the [0-9A-Z]+ property theorems', 'under each of the %d property theorems' % thms, s)
open(p, 'w').write(s)
print('seeds', nseeds, 'lines', lines, 'files', len(files), 'theorems', thms)
