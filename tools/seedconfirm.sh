#!/bin/bash
# usage: tools/seedconfirm.sh ID WORKTREE — confirm a seeded change in its scratch worktree:
# builds, suite unchanged, demonstration fails with / passes without; then store under /verif/seeded/ID.
id=$1; wt=$2
export GOFLAGS=-mod=mod GOPROXY=off GOSUMDB=off GOTOOLCHAIN=local
cd $wt || exit 2
run=$(cat seed/RUN.txt | head -1)
git apply -R --check seed/patch.diff 2>/dev/null || { git apply seed/patch.diff || exit 2; }
(cd go && go build ./... ) || { echo "BUILD FAILS"; exit 1; }
bash -c "$run" >/tmp/seed-with.log 2>&1; with=$?
git apply -R seed/patch.diff
bash -c "$run" >/tmp/seed-without.log 2>&1; without=$?
git apply seed/patch.diff
echo "demo with patch rc=$with, without rc=$without"
# test suite with the patch
(cd go && go test -json -vet=off -count=1 ./... 2>&1) | python3 -c "
import json,sys
base=json.load(open('/root/.vp/BASELINE.json'))
res={}
for l in sys.stdin:
    try: e=json.loads(l)
    except Exception: continue
    if e.get('Test') and e.get('Action') in ('pass','fail','skip'): res[e['Package']+'::'+e['Test']]=e['Action']
bad=[t for t in base['stable_pass'] if res.get(t)!='pass']
print('suite: stable tests not passing with the change:', len(bad), bad[:5])
"
if [ $with -ne 0 ] && [ $without -eq 0 ]; then
  mkdir -p /verif/seeded/$id && cp -r seed/. /verif/seeded/$id/ && echo "stored /verif/seeded/$id"
fi
