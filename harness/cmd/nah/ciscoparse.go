package main

import (
	"encoding/json"
	"fmt"
	"os"
	"runtime"

	"github.com/hknutzen/Netspoc-Approve/go/pkg/asa"
	"github.com/hknutzen/Netspoc-Approve/go/pkg/cisco"
	"github.com/hknutzen/Netspoc-Approve/go/pkg/deviceconf"
	"github.com/hknutzen/Netspoc-Approve/go/pkg/ios"
)

type parseJob struct {
	Model string
	Fname string
	Data  string
}

type parseResult struct {
	Config []cisco.VerifEntry
	Err    string
	Panic  string
}

type routeJob struct {
	Prefix string
	Parsed string
}

func init() {
	// ciscotables: command descriptions of ASA and IOS as read by the real
	// setupCmdDescr, and the name tables of the ACL normalisation.
	subcmds["ciscotables"] = func(args []string) int {
		out := map[string]any{
			"ASA":    asa.Setup().VerifCmdDescr(),
			"IOS":    ios.Setup().VerifCmdDescr(),
			"tables": cisco.VerifNameTables(),
		}
		b, _ := json.Marshal(out)
		fmt.Println(string(b))
		return 0
	}
	// ciscoparse: JSON list of {Model, Fname, Data} on stdin -> list of
	// {Config | Err | Panic}: the real ParseConfig (including postprocessing
	// and the check of references).
	subcmds["ciscoparse"] = func(args []string) int {
		var jobs []parseJob
		if err := json.NewDecoder(os.Stdin).Decode(&jobs); err != nil {
			fmt.Fprintln(os.Stderr, err)
			return 2
		}
		results := make([]parseResult, len(jobs))
		for i, j := range jobs {
			func() {
				defer func() {
					if e := recover(); e != nil {
						if fmt.Sprintf("%T", e) == "errlog.bailout" {
							results[i] = parseResult{Err: "ABORT"}
						} else if _, ok := e.(runtime.Error); ok {
							results[i] = parseResult{Panic: "runtime: " + fmt.Sprint(e)}
						} else {
							results[i] = parseResult{Panic: fmt.Sprint(e)}
						}
					}
				}()
				var cf deviceconf.Config
				var err error
				if j.Model == "IOS" {
					cf, err = ios.Setup().ParseConfig([]byte(j.Data), j.Fname)
				} else {
					cf, err = asa.Setup().ParseConfig([]byte(j.Data), j.Fname)
				}
				if err != nil {
					results[i] = parseResult{Err: err.Error()}
				} else {
					results[i] = parseResult{Config: cisco.VerifDumpConfig(cf)}
				}
			}()
		}
		b, _ := json.Marshal(results)
		fmt.Println(string(b))
		return 0
	}
	// ciscoroutes: JSON list of {Prefix, Parsed} -> list of [vrf, dst] or panic text
	subcmds["ciscoroutes"] = func(args []string) int {
		var jobs []routeJob
		if err := json.NewDecoder(os.Stdin).Decode(&jobs); err != nil {
			fmt.Fprintln(os.Stderr, err)
			return 2
		}
		results := make([][]string, len(jobs))
		for i, j := range jobs {
			func() {
				defer func() {
					if e := recover(); e != nil {
						results[i] = []string{"panic", fmt.Sprint(e)}
					}
				}()
				vrf, dst := cisco.VerifDstOfRoute(j.Prefix, j.Parsed)
				results[i] = []string{vrf, dst}
			}()
		}
		b, _ := json.Marshal(results)
		fmt.Println(string(b))
		return 0
	}
}
