package main

import (
	"bufio"
	"encoding/json"
	"fmt"
	"os"

	"github.com/pkg/diff/myers"
)

type strPair struct{ a, b []string }

func (p *strPair) LenA() int             { return len(p.a) }
func (p *strPair) LenB() int             { return len(p.b) }
func (p *strPair) Equal(ai, bi int) bool { return p.a[ai] == p.b[bi] }

// myers: reads JSON lines {"a":[...],"b":[...]}, prints the ranges the
// library returns for these two key lists (the same call diffCmdLists makes).
func init() {
	subcmds["myers"] = func(args []string) int {
		sc := bufio.NewScanner(os.Stdin)
		sc.Buffer(make([]byte, 1<<20), 1<<26)
		for sc.Scan() {
			var in struct{ A, B []string }
			if err := json.Unmarshal(sc.Bytes(), &in); err != nil {
				fmt.Fprintln(os.Stderr, err)
				return 2
			}
			s := myers.Diff(nil, &strPair{in.A, in.B})
			out := [][4]int{}
			for _, r := range s.Ranges {
				out = append(out, [4]int{r.LowA, r.HighA, r.LowB, r.HighB})
			}
			data, _ := json.Marshal(out)
			fmt.Println(string(data))
		}
		return 0
	}
}
