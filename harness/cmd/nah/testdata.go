package main

import (
	"encoding/json"
	"fmt"
	"os"
	"path"
	"path/filepath"
	"regexp"
	"strings"

	"github.com/hknutzen/testtxt"
)

type tdescr struct {
	Title     string
	Device    string
	Scenario  string
	Netspoc   string
	Options   string
	Params    string
	Setup     string
	Output    string
	Warning   string
	Error     string
	DoApprove bool
	Todo      bool
}

// testdata TESTDATA-DIR OUTDIR — expands the repository's test descriptions
// (templates, substitutions) with the library the tests use and writes, for
// every file-compare test, its input files; prints a JSON index.
func init() {
	subcmds["testdata"] = func(args []string) int {
		files, _ := filepath.Glob(path.Join(args[0], "*.t"))
		out := args[1]
		var index []map[string]any
		re := regexp.MustCompile(`(?ms)^-+[ ]*\S+[ ]*\n`)
		for _, file := range files {
			base := path.Base(file)
			prefix, _, _ := strings.Cut(strings.TrimSuffix(base, ".t"), "_")
			model := strings.ToUpper(prefix)
			if model == "LINUX" {
				model = "Linux"
			}
			var l []tdescr
			if err := testtxt.ParseFile(file, &l); err != nil {
				fmt.Fprintln(os.Stderr, file, err)
				continue
			}
			for i, d := range l {
				if d.Scenario != "" || d.Todo || d.Netspoc == "" {
					continue
				}
				dir := path.Join(out, strings.TrimSuffix(base, ".t"), fmt.Sprint(i))
				code := path.Join(dir, "code")
				os.MkdirAll(code, 0755)
				input := d.Netspoc
				if input == "NONE" {
					input = ""
				}
				il := re.FindAllStringIndex(input, -1)
				var written []string
				write := func(f, data string) {
					os.MkdirAll(path.Dir(f), 0755)
					os.WriteFile(f, []byte(data), 0644)
					rel, _ := filepath.Rel(dir, f)
					written = append(written, rel)
				}
				if il == nil {
					write(path.Join(code, "router"), input)
				} else {
					for k, p := range il {
						name := strings.Trim(input[p[0]:p[1]-1], "- ")
						end := len(input)
						if k+1 < len(il) {
							end = il[k+1][0]
						}
						write(path.Join(code, name), input[p[1]:end])
					}
				}
				if _, err := os.Stat(path.Join(code, "router.info")); err != nil {
					if _, err := os.Stat(path.Join(code, "ipv6", "router.info")); err != nil {
						info := fmt.Sprintf("{\"model\": \"%s\", \"name_list\": [\"router\"], \"ip_list\": [\"10.1.13.33\"]}\n", model)
						write(path.Join(code, "router.info"), info)
					}
				}
				dev := d.Device
				if dev == "NONE" {
					dev = ""
				}
				write(path.Join(dir, "device"), dev)
				index = append(index, map[string]any{"file": base, "title": d.Title, "dir": dir, "model": model,
					"options": d.Options, "files": written, "expect_error": d.Error != ""})
			}
		}
		b, _ := json.Marshal(index)
		fmt.Println(string(b))
		return 0
	}
}
