package main

import (
	"encoding/json"
	"fmt"
	"io"
	"net/http"
	"net/http/httptest"
	"os"
	"strings"
	"sync"
	"time"
)

// httpsim SCENARIO.json — a scripted PAN-OS XML-API / NSX policy-API manager
// behind TLS.  Prints its URL on stdout (first line), then serves until stdin
// is closed.  Every request is appended to the transcript with its ordinal and
// class; a fault plan replaces the reply to the k-th request.
type httpScenario struct {
	Family     string `json:"family"`
	Transcript string `json:"transcript"`
	Faults     []struct {
		At   int    `json:"at"`
		Kind string `json:"kind"` // status500 | eof | malformed | failure | stall | jobfail
	} `json:"faults"`
	StallS int `json:"stall_s"`
	// PAN-OS
	Key         string `json:"key"`
	HAEnabled   string `json:"ha_enabled"`
	HAMode      string `json:"ha_mode"`
	HAState     string `json:"ha_state"`
	DevicesXML  string `json:"devices_xml"` // content of <devices>…</devices>
	JobPending  int    `json:"job_pending"`
	CommitNoChg bool   `json:"commit_nochange"`
	// NSX
	Token    string            `json:"token"`
	Policies []json.RawMessage `json:"policies"`
	Services []json.RawMessage `json:"services"`
	Groups   []json.RawMessage `json:"groups"`
	PageSize int               `json:"page_size"`
}

func init() {
	subcmds["httpsim"] = func(args []string) int {
		data, err := os.ReadFile(args[0])
		if err != nil {
			fmt.Fprintln(os.Stderr, err)
			return 2
		}
		var sc httpScenario
		if err := json.Unmarshal(data, &sc); err != nil {
			fmt.Fprintln(os.Stderr, err)
			return 2
		}
		var mu sync.Mutex
		count := 0
		polls := 0
		var server *httptest.Server
		logReq := func(n int, class, method, uri, body, fault string) {
			fh, err := os.OpenFile(sc.Transcript, os.O_APPEND|os.O_CREATE|os.O_WRONLY, 0644)
			if err != nil {
				return
			}
			defer fh.Close()
			e := map[string]any{"n": n, "class": class, "method": method, "uri": uri, "body": body, "fault": fault}
			b, _ := json.Marshal(e)
			fh.Write(append(b, '\n'))
		}
		handler := func(w http.ResponseWriter, r *http.Request) {
			mu.Lock()
			count++
			n := count
			mu.Unlock()
			body, _ := io.ReadAll(r.Body)
			q := r.URL.Query()
			class := "other"
			if sc.Family == "PAN-OS" {
				switch {
				case q.Get("type") == "keygen":
					class = "login"
				case q.Get("type") == "op" && strings.Contains(q.Get("cmd"), "high-availability"):
					class = "name"
				case q.Get("type") == "config" && q.Get("action") == "get":
					class = "conf"
				case q.Get("type") == "config":
					class = "change"
				case q.Get("type") == "commit":
					class = "commit"
				case q.Get("type") == "op" && strings.Contains(q.Get("cmd"), "<jobs>"):
					class = "poll"
				}
			} else {
				switch {
				case strings.HasSuffix(r.URL.Path, "/api/session/create"):
					class = "login"
				case r.Method == "GET":
					class = "conf"
				default:
					class = "change"
				}
			}
			fault := ""
			for _, f := range sc.Faults {
				// a closed or stalled connection stays that way (the HTTP client retries idempotent requests)
				if f.At == n || (f.At < n && (f.Kind == "eof" || f.Kind == "stall")) {
					fault = f.Kind
				}
			}
			uri := r.URL.Path
			if r.URL.RawQuery != "" {
				uri += "?" + r.URL.RawQuery
			}
			logReq(n, class, r.Method, uri, string(body), fault)
			switch fault {
			case "status500":
				w.WriteHeader(500)
				w.Write([]byte("device not ready\n"))
				return
			case "eof":
				server.CloseClientConnections()
				return
			case "stall":
				time.Sleep(time.Duration(sc.StallS) * time.Second)
				server.CloseClientConnections()
				return
			case "malformed":
				w.Write([]byte("<response status=\"success\"><result><unclosed>"))
				if sc.Family != "PAN-OS" {
					w.Write([]byte("{{{"))
				}
				return
			case "failure":
				if sc.Family == "PAN-OS" {
					w.Write([]byte("<response status=\"error\"><msg>command failed</msg></response>"))
				} else {
					w.WriteHeader(400)
					w.Write([]byte("{\"error_message\":\"rejected\"}"))
				}
				return
			}
			if sc.Family == "PAN-OS" {
				switch class {
				case "login":
					fmt.Fprintf(w, "<response status = 'success'>\n <result><key>%s</key></result>\n</response>\n", sc.Key)
				case "name":
					if sc.HAEnabled == "" {
						fmt.Fprint(w, "<response status='success'><result><enabled>no</enabled></result></response>")
					} else {
						fmt.Fprintf(w, "<response status='success'><result><enabled>%s</enabled><group><mode>%s</mode><local-info><state>%s</state></local-info></group></result></response>",
							sc.HAEnabled, sc.HAMode, sc.HAState)
					}
				case "conf":
					fmt.Fprintf(w, "<response status='success'><result><devices>%s</devices></result></response>", sc.DevicesXML)
				case "change":
					fmt.Fprint(w, "<response status=\"success\" code=\"20\"><msg>command succeeded</msg></response>")
				case "commit":
					if sc.CommitNoChg {
						fmt.Fprint(w, "<response status=\"success\" code=\"19\"><msg>There are no changes to commit.</msg></response>")
					} else {
						fmt.Fprint(w, "<response status=\"success\" code=\"19\"><result><msg><line>Commit job enqueued with jobid 17</line></msg><job>17</job></result></response>")
					}
				case "poll":
					mu.Lock()
					polls++
					p := polls
					mu.Unlock()
					res := "OK"
					if p <= sc.JobPending {
						res = "PEND"
					}
					if fault == "jobfail" {
						res = "FAIL"
					}
					fmt.Fprintf(w, "<response status=\"success\"><result><job><id>17</id><result>%s</result></job></result></response>", res)
				default:
					if q.Get("type") == "op" {
						// an operational command the tool does not send today: a device that answers in the affirmative
						// (e.g. "are there pending changes" on a candidate configuration that somebody else has edited)
						fmt.Fprint(w, "<response status=\"success\"><result>yes</result></response>")
					} else {
						w.WriteHeader(404)
					}
				}
				return
			}
			// NSX
			switch {
			case class == "login":
				w.Header().Set("x-xsrf-token", sc.Token)
				w.Header().Set("Set-Cookie", "JSESSIONID=abc; Path=/")
				w.Write([]byte("{}"))
			case r.Method == "GET" && strings.HasSuffix(r.URL.Path, "/gateway-policies"):
				ids := []map[string]string{}
				for _, p := range sc.Policies {
					var v struct{ Id string }
					json.Unmarshal(p, &v)
					ids = append(ids, map[string]string{"id": v.Id})
				}
				ids = append(ids, map[string]string{"id": "other-policy"})
				b, _ := json.Marshal(map[string]any{"results": ids})
				w.Write(b)
			case r.Method == "GET" && strings.Contains(r.URL.Path, "/gateway-policies/"):
				id := r.URL.Path[strings.LastIndex(r.URL.Path, "/")+1:]
				for _, p := range sc.Policies {
					var v struct{ Id string }
					json.Unmarshal(p, &v)
					if v.Id == id {
						w.Write(p)
						return
					}
				}
				w.WriteHeader(404)
			case r.Method == "GET" && (strings.HasSuffix(r.URL.Path, "/services") || strings.HasSuffix(r.URL.Path, "/groups")):
				l := sc.Services
				if strings.HasSuffix(r.URL.Path, "/groups") {
					l = sc.Groups
				}
				ps := sc.PageSize
				if ps <= 0 {
					ps = 1000
				}
				start := 0
				fmt.Sscanf(q.Get("cursor"), "%d", &start)
				end := start + ps
				cursor := ""
				if end < len(l) {
					cursor = fmt.Sprint(end)
				} else {
					end = len(l)
				}
				b, _ := json.Marshal(map[string]any{"results": l[start:end], "cursor": cursor})
				w.Write(b)
			default:
				w.Write([]byte("{}"))
			}
		}
		server = httptest.NewTLSServer(http.HandlerFunc(handler))
		fmt.Println(server.URL)
		os.Stdout.Sync()
		io.Copy(io.Discard, os.Stdin)
		server.Close()
		return 0
	}
}
