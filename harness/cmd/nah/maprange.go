package main

import (
	"crypto/sha1"
	"encoding/json"
	"fmt"
	"go/ast"
	"go/importer"
	"go/parser"
	"go/printer"
	"go/token"
	"go/types"
	"os"
	"path/filepath"
	"sort"
	"strings"
)

// maprange DIR... — inventory of every `range` over a map in the given package
// directories of /repo/go: file, enclosing function, the loop header, a hash of
// the normalised loop text.  Type information comes from go/types with the
// source importer (works offline from the module cache).
func init() {
	subcmds["maprange"] = func(args []string) int {
		type site struct {
			Pkg, File, Func, Header, Hash, Body string
			Line                              int
		}
		var sites []site
		fset := token.NewFileSet()
		imp := importer.ForCompiler(fset, "source", nil)
		for _, dir := range args {
			pkgs, err := parser.ParseDir(fset, dir, func(fi os.FileInfo) bool {
				return !strings.HasSuffix(fi.Name(), "_test.go")
			}, 0)
			if err != nil {
				fmt.Fprintln(os.Stderr, err)
				return 2
			}
			for _, pkg := range pkgs {
				var files []*ast.File
				var names []string
				for n := range pkg.Files {
					names = append(names, n)
				}
				sort.Strings(names)
				for _, n := range names {
					files = append(files, pkg.Files[n])
				}
				info := &types.Info{Types: make(map[ast.Expr]types.TypeAndValue)}
				conf := types.Config{Importer: imp, Error: func(error) {}}
				conf.Check(dir, fset, files, info)
				for i, f := range files {
					fname := filepath.Base(names[i])
					var cur string
					isSel := func(e ast.Expr, pkg string, names ...string) bool {
						sel, ok := e.(*ast.SelectorExpr)
						if !ok {
							return false
						}
						id, ok := sel.X.(*ast.Ident)
						if !ok || id.Name != pkg {
							return false
						}
						for _, n := range names {
							if sel.Sel.Name == n {
								return true
							}
						}
						return false
					}
					// iterators over a map that are consumed directly by a sorting collector
					sortedArg := map[ast.Expr]bool{}
					ast.Inspect(f, func(n ast.Node) bool {
						switch x := n.(type) {
						case *ast.FuncDecl:
							cur = x.Name.Name
						case *ast.CallExpr:
							if isSel(x.Fun, "slices", "Sorted", "SortedFunc", "SortedStableFunc") && len(x.Args) > 0 {
								sortedArg[x.Args[0]] = true
							}
							if (isSel(x.Fun, "maps", "Keys", "Values", "All") || isSel(x.Fun, "reflect", "MapKeys", "MapRange")) && !sortedArg[x] {
								var sb strings.Builder
								printer.Fprint(&sb, token.NewFileSet(), x)
								text := strings.Join(strings.Fields(sb.String()), " ")
								h := sha1.Sum([]byte(text))
								sites = append(sites, site{Pkg: filepath.Base(dir), File: fname, Func: cur, Header: "unsorted " + text,
									Hash: fmt.Sprintf("%x", h[:6]), Body: text, Line: fset.Position(x.Pos()).Line})
							}
						case *ast.RangeStmt:
							tv, ok := info.Types[x.X]
							if !ok || tv.Type == nil {
								return true
							}
							if _, isMap := tv.Type.Underlying().(*types.Map); !isMap {
								return true
							}
							var sb strings.Builder
							printer.Fprint(&sb, token.NewFileSet(), x)
							text := strings.Join(strings.Fields(sb.String()), " ")
							header := text
							if j := strings.Index(text, "{"); j > 0 {
								header = strings.TrimSpace(text[:j])
							}
							h := sha1.Sum([]byte(text))
							sites = append(sites, site{Pkg: filepath.Base(dir), File: fname, Func: cur, Header: header,
								Hash: fmt.Sprintf("%x", h[:6]), Body: text, Line: fset.Position(x.Pos()).Line})
						}
						return true
					})
				}
			}
		}
		out, _ := json.MarshalIndent(sites, "", " ")
		fmt.Println(string(out))
		return 0
	}
}
