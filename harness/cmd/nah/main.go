// nah — thin driver that runs the implementation under /repo/go on inputs
// supplied by the /verif checks and reports what it did as JSON.
package main

import (
	"fmt"
	"os"
)

type subcmd func(args []string) int

var subcmds = map[string]subcmd{}

func main() {
	if len(os.Args) < 2 {
		fmt.Fprintln(os.Stderr, "usage: nah SUBCOMMAND ...")
		os.Exit(2)
	}
	f, ok := subcmds[os.Args[1]]
	if !ok {
		fmt.Fprintln(os.Stderr, "unknown subcommand", os.Args[1])
		os.Exit(2)
	}
	os.Exit(f(os.Args[2:]))
}
