package main

import (
	"bufio"
	"encoding/json"
	"fmt"
	"os"
	"strings"

	"github.com/hknutzen/Netspoc-Approve/go/pkg/program"
	"github.com/hknutzen/Netspoc-Approve/go/pkg/status"
)

// status: reads lines "TIME approve|compare DEVICE POLICY FLAG" from stdin,
// sets TEST_TIME and calls the real status writers.  HOME selects the basedir.
func init() {
	subcmds["status"] = func(args []string) int {
		cfg, err := program.LoadConfig()
		if err != nil {
			fmt.Fprintln(os.Stderr, err)
			return 2
		}
		sc := bufio.NewScanner(os.Stdin)
		for sc.Scan() {
			f := strings.Split(sc.Text(), "\t")
			if len(f) != 5 {
				fmt.Fprintln(os.Stderr, "bad line", sc.Text())
				return 2
			}
			os.Setenv("TEST_TIME", f[0])
			flag := f[4] == "1"
			switch f[1] {
			case "approve":
				status.SetApprove(cfg, f[2], f[3], flag)
			case "compare":
				status.SetCompare(cfg, f[2], f[3], flag)
			case "read":
				v := status.Read(cfg, f[2])
				data, _ := json.Marshal(v)
				fmt.Println(string(data))
				continue
			}
			fmt.Println("ok")
		}
		return 0
	}
}
