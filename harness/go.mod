module verif/harness

go 1.23.1

require (
	github.com/hknutzen/Netspoc-Approve/go v0.0.0
	github.com/hknutzen/testtxt v0.0.0-20240408182449-0168fe18ebfb
	github.com/pkg/diff v0.0.0-20210226163009-20ebb0f2a09e
)

require (
	github.com/google/goterm v0.0.0-20200907032337-555d40f16ae2 // indirect
	github.com/tailscale/goexpect v0.0.0-20210902213824-6e8c725cea41 // indirect
	golang.org/x/crypto v0.35.0 // indirect
	golang.org/x/sys v0.30.0 // indirect
	golang.org/x/term v0.29.0 // indirect
	gopkg.in/yaml.v3 v3.0.1 // indirect
)

replace github.com/hknutzen/Netspoc-Approve/go => /repo/go
