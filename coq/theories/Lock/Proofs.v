From Coq Require Import List Arith Bool Lia.
From NA Require Import Lock.Model.
Import ListNotations.

Lemma nth_upd_same st i f p : nth_error st i = Some p -> nth_error (upd st i f) i = Some (f p).
Proof.
  revert i; induction st as [|q r IH]; intros [|i] H; simpl in *; try discriminate.
  - injection H as ->. reflexivity.
  - apply IH. exact H.
Qed.

Lemma nth_upd_other st i j f : i <> j -> nth_error (upd st i f) j = nth_error st j.
Proof.
  revert i j; induction st as [|q r IH]; intros [|i] [|j] H; simpl; try reflexivity; try congruence.
  apply IH. congruence.
Qed.

Lemma held_false st k : held st k = false ->
  forall j q, nth_error st j = Some q -> ph q = Holding -> key q <> k.
Proof.
  unfold held. intros H j q Hq Hh E.
  assert (X : existsb (fun p => is_holding p && Nat.eqb (key p) k) st = true).
  { apply existsb_exists. exists q. split; [eapply nth_error_In; exact Hq|].
    unfold is_holding. rewrite Hh, E, Nat.eqb_refl. reflexivity. }
  congruence.
Qed.

Lemma step_exclusive st e : exclusive st -> exclusive (step st e).
Proof.
  intros X. destruct e as [i|i|i|i]; simpl.
  - destruct (nth_error st i) as [p|] eqn:Ep; [|exact X].
    destruct (ph p) eqn:Eph; try exact X.
    destruct (held st (key p)) eqn:Eh.
    + (* rejected: no new holder *)
      intros a b pa pb Ha Hb Hpa Hpb Hk.
      destruct (Nat.eq_dec i a) as [<-|Na].
      * rewrite (nth_upd_same _ _ _ _ Ep) in Ha. injection Ha as <-. simpl in Hpa. discriminate.
      * destruct (Nat.eq_dec i b) as [<-|Nb].
        -- rewrite (nth_upd_same _ _ _ _ Ep) in Hb. injection Hb as <-. simpl in Hpb. discriminate.
        -- rewrite nth_upd_other in Ha, Hb by assumption. eapply X; eauto.
    + (* acquired: nobody held this key *)
      intros a b pa pb Ha Hb Hpa Hpb Hk.
      destruct (Nat.eq_dec i a) as [<-|Na]; destruct (Nat.eq_dec i b) as [<-|Nb]; try reflexivity.
      * rewrite (nth_upd_same _ _ _ _ Ep) in Ha. injection Ha as <-. simpl in Hk.
        rewrite nth_upd_other in Hb by assumption.
        exfalso. apply (held_false _ _ Eh b pb Hb Hpb). symmetry. exact Hk.
      * rewrite (nth_upd_same _ _ _ _ Ep) in Hb. injection Hb as <-. simpl in Hk.
        rewrite nth_upd_other in Ha by assumption.
        exfalso. apply (held_false _ _ Eh a pa Ha Hpa). exact Hk.
      * rewrite nth_upd_other in Ha, Hb by assumption. eapply X; eauto.
  - destruct (nth_error st i) as [p|] eqn:Ep; [|exact X].
    destruct (is_holding p); [|exact X].
    intros a b pa pb Ha Hb Hpa Hpb Hk.
    assert (G : forall c pc, nth_error (upd st i bump) c = Some pc ->
              exists pc0, nth_error st c = Some pc0 /\ ph pc0 = ph pc /\ key pc0 = key pc).
    { intros c pc Hc. destruct (Nat.eq_dec i c) as [<-|N].
      - rewrite (nth_upd_same _ _ _ _ Ep) in Hc. injection Hc as <-. exists p. auto.
      - rewrite nth_upd_other in Hc by assumption. exists pc. auto. }
    destruct (G a pa Ha) as (pa0 & A1 & A2 & A3). destruct (G b pb Hb) as (pb0 & B1 & B2 & B3).
    eapply X; eauto; congruence.
  - destruct (nth_error st i) as [p|] eqn:Ep; [|exact X].
    destruct (ph p) eqn:Eph; try exact X;
      (intros a b pa pb Ha Hb Hpa Hpb Hk;
       destruct (Nat.eq_dec i a) as [<-|Na];
       [rewrite (nth_upd_same _ _ _ _ Ep) in Ha; injection Ha as <-; simpl in Hpa; discriminate|];
       destruct (Nat.eq_dec i b) as [<-|Nb];
       [rewrite (nth_upd_same _ _ _ _ Ep) in Hb; injection Hb as <-; simpl in Hpb; discriminate|];
       rewrite nth_upd_other in Ha, Hb by assumption; eapply X; eauto).
  - destruct (nth_error st i) as [p|] eqn:Ep; [|exact X].
    destruct (ph p) eqn:Eph; try exact X;
      (intros a b pa pb Ha Hb Hpa Hpb Hk;
       destruct (Nat.eq_dec i a) as [<-|Na];
       [rewrite (nth_upd_same _ _ _ _ Ep) in Ha; injection Ha as <-; simpl in Hpa; discriminate|];
       destruct (Nat.eq_dec i b) as [<-|Nb];
       [rewrite (nth_upd_same _ _ _ _ Ep) in Hb; injection Hb as <-; simpl in Hpb; discriminate|];
       rewrite nth_upd_other in Ha, Hb by assumption; eapply X; eauto).
Qed.

Lemma step_no_effect st e : no_effect_without_lock st -> no_effect_without_lock (step st e).
Proof.
  intros X. destruct e as [i|i|i|i]; simpl.
  - destruct (nth_error st i) as [p|] eqn:Ep; [|exact X].
    destruct (ph p) eqn:Eph; try exact X.
    destruct (held st (key p)); intros a pa Ha Hpa;
      (destruct (Nat.eq_dec i a) as [<-|Na];
       [rewrite (nth_upd_same _ _ _ _ Ep) in Ha; injection Ha as <-; simpl in *;
        first [apply (X i p Ep); left; exact Eph | destruct Hpa; discriminate]
       | rewrite nth_upd_other in Ha by assumption; apply (X a pa Ha Hpa)]).
  - destruct (nth_error st i) as [p|] eqn:Ep; [|exact X].
    destruct (is_holding p) eqn:Eh; [|exact X].
    intros a pa Ha Hpa. destruct (Nat.eq_dec i a) as [<-|Na].
    + rewrite (nth_upd_same _ _ _ _ Ep) in Ha. injection Ha as <-. simpl in Hpa.
      unfold is_holding in Eh. destruct (ph p); destruct Hpa; discriminate.
    + rewrite nth_upd_other in Ha by assumption. apply (X a pa Ha Hpa).
  - destruct (nth_error st i) as [p|] eqn:Ep; [|exact X].
    destruct (ph p) eqn:Eph; try exact X;
      (intros a pa Ha Hpa; destruct (Nat.eq_dec i a) as [<-|Na];
       [rewrite (nth_upd_same _ _ _ _ Ep) in Ha; injection Ha as <-; simpl in Hpa; destruct Hpa; discriminate
       | rewrite nth_upd_other in Ha by assumption; apply (X a pa Ha Hpa)]).
  - destruct (nth_error st i) as [p|] eqn:Ep; [|exact X].
    destruct (ph p) eqn:Eph; try exact X;
      (intros a pa Ha Hpa; destruct (Nat.eq_dec i a) as [<-|Na];
       [rewrite (nth_upd_same _ _ _ _ Ep) in Ha; injection Ha as <-; simpl in Hpa; destruct Hpa; discriminate
       | rewrite nth_upd_other in Ha by assumption; apply (X a pa Ha Hpa)]).
Qed.

Lemma fresh_exclusive keys : exclusive (fresh keys).
Proof.
  intros i j p q Hi Hj Hp. unfold fresh in Hi. apply nth_error_In in Hi. apply in_map_iff in Hi.
  destruct Hi as [k [<- _]]. discriminate.
Qed.
Lemma fresh_no_effect keys : no_effect_without_lock (fresh keys).
Proof.
  intros i p Hi _. unfold fresh in Hi. apply nth_error_In in Hi. apply in_map_iff in Hi.
  destruct Hi as [k [<- _]]. reflexivity.
Qed.

(* C12: for every schedule of lock attempts, effects, exits and kills of any
   number of invocations, at most one process per device holds the lock, and a
   process that was rejected has touched nothing. *)
Theorem mutual_exclusion_proved :
  forall keys es, exclusive (run (fresh keys) es) /\ no_effect_without_lock (run (fresh keys) es).
Proof.
  intros keys es. unfold run.
  assert (G : forall st, exclusive st -> no_effect_without_lock st ->
            exclusive (fold_left step es st) /\ no_effect_without_lock (fold_left step es st)).
  { induction es as [|e es IH]; intros st X N; [split; assumption|]. simpl.
    apply IH; [apply step_exclusive; exact X | apply step_no_effect; exact N]. }
  apply G; [apply fresh_exclusive | apply fresh_no_effect].
Qed.

(* the lock disappears with its holder: once no live process holds the key a new attempt succeeds *)
Theorem lock_released_proved :
  forall st i p, nth_error st i = Some p -> ph p = Init -> held st (key p) = false ->
    exists p', nth_error (step st (TryLock i)) i = Some p' /\ ph p' = Holding.
Proof.
  intros st i p Hp Hi Hh. simpl. rewrite Hp, Hi, Hh.
  exists (set_ph Holding p). split; [apply nth_upd_same; exact Hp | reflexivity].
Qed.

Theorem holder_gone_releases_proved :
  forall st i p k, exclusive st -> nth_error st i = Some p -> ph p = Holding -> key p = k ->
    held (step st (Kill i)) k = false /\ held (step st (Exit i)) k = false.
Proof.
  intros st i p k X Hp Hh Hk.
  assert (G : held (upd st i (set_ph Gone)) k = false).
  { unfold held. destruct (existsb _ _) eqn:E; [|reflexivity]. exfalso.
    apply existsb_exists in E. destruct E as [q [Hq Hc]]. apply andb_true_iff in Hc. destruct Hc as [H1 H2].
    apply In_nth_error in Hq. destruct Hq as [j Hj]. apply Nat.eqb_eq in H2.
    destruct (Nat.eq_dec i j) as [<-|N].
    - rewrite (nth_upd_same _ _ _ _ Hp) in Hj. injection Hj as <-. simpl in H1. discriminate.
    - rewrite nth_upd_other in Hj by assumption.
      assert (ph q = Holding) by (unfold is_holding in H1; destruct (ph q); try discriminate; reflexivity).
      apply N. eapply X; eauto. congruence. }
  simpl. rewrite Hp, Hh. split; exact G.
Qed.

Example three_invocations :
  let st := run (fresh [7; 7; 7; 8]) [TryLock 0; Effect 0; TryLock 1; Effect 1; TryLock 3; TryLock 2; Kill 0; Effect 3] in
  map ph st = [Gone; Rejected; Rejected; Holding] /\ map effects st = [1; 0; 0; 1].
Proof. split; vm_compute; reflexivity. Qed.
