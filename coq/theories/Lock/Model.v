(* Lock/Model.v — runs of drc / do-approve contending for per-device locks:
   each process tries the lock of its key once (flock LOCK_EX|LOCK_NB on
   lock/<basename>), performs effects on device, status, history and logs only
   while it holds the lock, and releases it by exiting or being killed.
   The scheduler is an arbitrary list of events. *)
From Coq Require Import List Arith Bool Lia.
Import ListNotations.

Inductive phase := Init | Holding | Rejected | Gone.
Record proc := { key : nat; ph : phase; effects : nat }.

Inductive event := TryLock (i : nat) | Effect (i : nat) | Exit (i : nat) | Kill (i : nat).

Definition is_holding (p : proc) : bool := match ph p with Holding => true | _ => false end.
Definition held (st : list proc) (k : nat) : bool :=
  existsb (fun p => is_holding p && Nat.eqb (key p) k) st.

Fixpoint upd (st : list proc) (i : nat) (f : proc -> proc) : list proc :=
  match st, i with
  | [], _ => []
  | p :: r, O => f p :: r
  | p :: r, S j => p :: upd r j f
  end.

Definition set_ph (x : phase) (p : proc) : proc := {| key := key p; ph := x; effects := effects p |}.
Definition bump (p : proc) : proc := {| key := key p; ph := ph p; effects := S (effects p) |}.

Definition step (st : list proc) (e : event) : list proc :=
  match e with
  | TryLock i =>
      match nth_error st i with
      | Some p => match ph p with
                  | Init => if held st (key p) then upd st i (set_ph Rejected) else upd st i (set_ph Holding)
                  | _ => st
                  end
      | None => st
      end
  | Effect i =>
      match nth_error st i with
      | Some p => if is_holding p then upd st i bump else st    (* program order: effects only after SetLock succeeded *)
      | None => st
      end
  | Exit i | Kill i =>
      match nth_error st i with
      | Some p => match ph p with Gone => st | _ => upd st i (set_ph Gone) end
      | None => st
      end
  end.

Definition run (st : list proc) (es : list event) : list proc := fold_left step es st.

Definition fresh (keys : list nat) : list proc := map (fun k => {| key := k; ph := Init; effects := 0 |}) keys.

(* at most one holder per key *)
Definition exclusive (st : list proc) : Prop :=
  forall i j p q, nth_error st i = Some p -> nth_error st j = Some q ->
    ph p = Holding -> ph q = Holding -> key p = key q -> i = j.

(* a process that was rejected, or has not got the lock, has performed no effect *)
Definition no_effect_without_lock (st : list proc) : Prop :=
  forall i p, nth_error st i = Some p -> (ph p = Init \/ ph p = Rejected) -> effects p = 0.

(* the order of calls in a main function, as extracted from the Go source *)
Inductive call := CLoadConfig | CResolveCurrent | CSetLock | CCheckLock | COpenHistory | CLogHistory | CRunDevice | CReadLog | CSetStatus | COther.
Definition call_eqb (a b : call) : bool :=
  match a, b with
  | CLoadConfig, CLoadConfig | CResolveCurrent, CResolveCurrent | CSetLock, CSetLock | CCheckLock, CCheckLock
  | COpenHistory, COpenHistory | CLogHistory, CLogHistory | CRunDevice, CRunDevice | CReadLog, CReadLog
  | CSetStatus, CSetStatus | COther, COther => true
  | _, _ => false
  end.
Definition effectful (c : call) : bool :=
  match c with COpenHistory | CLogHistory | CRunDevice | CSetStatus => true | _ => false end.

(* nothing effectful before the lock is taken and checked; the lock is checked right after it is taken *)
Fixpoint order_ok (l : list call) (locked : bool) : bool :=
  match l with
  | [] => true
  | CSetLock :: CCheckLock :: r => order_ok r true
  | CSetLock :: _ => false
  | c :: r => (locked || negb (effectful c)) && order_ok r locked
  end.
