(* C11 — compare never changes the device: a plan without changing requests
   never sends one, whatever the device answers; the compare plans of the tool
   contain none. *)
From Coq Require Import List.
From NA Require Import Session.Model Session.Proofs.

Theorem C11_compare_is_read_only :
  forall p o k g, forallb (fun r => negb (is_effect (r_cls r))) p = true ->
    read_only (fst (run p o k g)) = true.
Proof. exact compare_read_only_proved. Qed.
Print Assumptions C11_compare_is_read_only.

Theorem C11_compare_plans_effect_free :
  forall login setup script,
  forallb (fun r => negb (is_effect (r_cls r))) setup = true ->
  forallb (fun r => negb (is_effect (r_cls r))) (asa_plan login setup false script) = true /\
  forallb (fun r => negb (is_effect (r_cls r))) (ios_plan login false script) = true.
Proof. exact compare_plans_effect_free_proved. Qed.
Print Assumptions C11_compare_plans_effect_free.
