(* C08 — every emitted command is executable when it is sent (ASA line core:
   line numbers address the intended position, no entry is added that the ACL
   already contains modulo the log attribute, deletes name the stated entry). *)
From Coq Require Import List.
From NA Require Import Cisco.AsaAcl Cisco.AsaAclProofs.

Theorem C08_asa_acl_every_prefix_accepted_partial :
  forall m k, NoDup (bodies (listA m)) -> NoDup (bodies (listB m)) ->
    exists lk, dexec_prefix k (listA m) (diff_asa m) = Some lk /\ NoDup (bodies lk).
Proof. exact asa_acl_every_prefix_accepted_proved. Qed.
Print Assumptions C08_asa_acl_every_prefix_accepted_partial.
