(* C08 — every emitted command is executable when it is sent (ASA line core:
   line numbers address the intended position, no entry is added that the ACL
   already contains modulo the log attribute, deletes name the stated entry). *)
From Coq Require Import List.
From NA Require Import Cisco.AsaAcl Cisco.AsaAclProofs.

Theorem C08_asa_acl_every_prefix_accepted_partial :
  forall m k, NoDup (bodies (listA m)) -> NoDup (bodies (listB m)) ->
    exists lk, dexec_prefix k (listA m) (diff_asa m) = Some lk /\ NoDup (bodies lk).
Proof. exact asa_acl_every_prefix_accepted_proved. Qed.
Print Assumptions C08_asa_acl_every_prefix_accepted_partial.

(* IOS numbering core, for EVERY edit script (moves included; no line twice per ACL, runs < 10000):
   every prefix of the numbered commands is accepted by the strict numbered ACL — sequence
   numbers are free when used, no entry is added that the ACL already contains, every deleted
   number exists. *)
From Coq Require Import NArith.
From NA Require Import Cisco.IosAcl Cisco.IosAclFresh Cisco.IosAclMoves Cisco.IosAclResume.
Theorem C08_ios_acl_every_prefix_accepted :
  forall m cs, nodupA m -> nodupB m -> short_runs m 0 -> diff_ios m = Some cs ->
  forall k, exists lk, iexec_all (reseq (listA m)) (firstn k cs) = Some lk.
Proof. exact ios_every_prefix_accepted. Qed.
Print Assumptions C08_ios_acl_every_prefix_accepted.
