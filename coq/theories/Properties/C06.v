(* C06 — approve never changes a wrong, unmanaged or passive device.
   In the dialogue model a wrong hostname (or a non-active HA state) is junk at
   an inspected request, so by C09_fault_stops_run nothing changing follows; a
   missing marker leaves a plan without changing requests, which never sends one. *)
From Coq Require Import List.
From NA Require Import Session.Model Session.Proofs.

Theorem C06_wrong_device_receives_no_change :
  forall p o k g, after_fault_ok (fst (run p o k g)) = true.
Proof. exact fault_stops_run_proved. Qed.
Print Assumptions C06_wrong_device_receives_no_change.

Theorem C06_unmanaged_device_receives_no_change :
  forall p o k g, forallb (fun r => negb (is_effect (r_cls r))) p = true ->
    read_only (fst (run p o k g)) = true.
Proof. exact compare_read_only_proved. Qed.
Print Assumptions C06_unmanaged_device_receives_no_change.

Theorem C06_wrong_device_fails :
  forall p o k g i r, nth_error p i = Some r -> effective r (o (k + i)) = true -> snd (run p o k g) = false.
Proof. exact effective_fault_fails_proved. Qed.
Print Assumptions C06_wrong_device_fails.
