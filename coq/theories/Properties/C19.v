(* C19 — the policy database always points to a complete, compiled policy.
   Gen/NewpolicyScript.v is regenerated from bin/newpolicy.sh on every run. *)
From Coq Require Import List.
From NA Require Import Newpolicy.Model Newpolicy.Proofs Gen.NewpolicyScript.

(* the script of the current tree passes the verified checker *)
Theorem C19_script_passes_checker : check_script newpolicy_script = true.
Proof. vm_compute. reflexivity. Qed.
Print Assumptions C19_script_passes_checker.

(* For every history of compiling and non-compiling revisions and every kill
   position of every run: current is absent or names a complete directory,
   nothing was moved into an existing directory, the numbers current has taken
   strictly increase. *)
Theorem C19_invariant_for_all_histories_and_kill_points :
  forall h, inv (runs newpolicy_script init_db h).
Proof. intros h. apply newpolicy_invariant_proved. exact C19_script_passes_checker. Qed.
Print Assumptions C19_invariant_for_all_histories_and_kill_points.

Theorem C19_bad_commit_never_changes_current :
  forall d k, cur (run1 newpolicy_script d false k) = cur d /\ dirs (run1 newpolicy_script d false k) = dirs d.
Proof. intros d k. apply bad_commit_keeps_current_proved. exact C19_script_passes_checker. Qed.
Print Assumptions C19_bad_commit_never_changes_current.

(* an undisturbed run that gets to compile a good revision publishes a fresh, larger number *)
Theorem C19_undisturbed_run_publishes_partial :
  forall d, inv d ->
    let d' := run1 newpolicy_script d true (length (run_ops newpolicy_script true)) in
    cur d' = Some (S (maxc d)) /\ In (S (maxc d)) (dirs d') /\ ~ In (S (maxc d)) (dirs d).
Proof. intros d. apply undisturbed_run_publishes_proved. exact C19_script_passes_checker. Qed.
Print Assumptions C19_undisturbed_run_publishes_partial.
