(* C19 — the policy database always points to a complete, compiled policy.
   Gen/NewpolicyScript.v is regenerated from bin/newpolicy.sh on every run. *)
From Coq Require Import List.
From NA Require Import Newpolicy.Model Newpolicy.Proofs Gen.NewpolicyScript.

(* the script of the current tree passes the verified checker *)
Theorem C19_script_passes_checker : check_script newpolicy_script = true.
Proof. vm_compute. reflexivity. Qed.
Print Assumptions C19_script_passes_checker.

(* For every history of compiling and non-compiling revisions and every kill
   position of every run: current is absent or names a complete directory,
   nothing was moved into an existing directory, the numbers current has taken
   strictly increase. *)
Theorem C19_invariant_for_all_histories_and_kill_points :
  forall h, inv (runs newpolicy_script init_db h).
Proof. intros h. apply newpolicy_invariant_proved. exact C19_script_passes_checker. Qed.
Print Assumptions C19_invariant_for_all_histories_and_kill_points.

Theorem C19_bad_commit_never_changes_current :
  forall d k, cur (run1 newpolicy_script d false k) = cur d /\ dirs (run1 newpolicy_script d false k) = dirs d.
Proof. intros d k. apply bad_commit_keeps_current_proved. exact C19_script_passes_checker. Qed.
Print Assumptions C19_bad_commit_never_changes_current.

(* an undisturbed run that gets to compile a good revision publishes a fresh, larger number *)
Theorem C19_undisturbed_run_publishes_partial :
  forall d, inv d ->
    let d' := run1 newpolicy_script d true (length (run_ops newpolicy_script true)) in
    cur d' = Some (S (maxc d)) /\ In (S (maxc d)) (dirs d') /\ ~ In (S (maxc d)) (dirs d).
Proof. intros d. apply undisturbed_run_publishes_proved. exact C19_script_passes_checker. Qed.
Print Assumptions C19_undisturbed_run_publishes_partial.

(* ---- liveness: "the next undisturbed run makes the newest compiling revision current" ----
   Newpolicy/Live.v models what decides whether a run does anything: the directory next, the marker
   failed, the revision current was compiled from, the head of the repository, and the test uptodate
   (whose text in the script is tied by its hash, see vlib/translators.py). *)
From Coq Require Import Bool Arith.
From NA Require Import Newpolicy.Live Newpolicy.LiveProofs.

Theorem C19_script_passes_liveness_checker : check_live newpolicy_script = true.
Proof. vm_compute. reflexivity. Qed.
Print Assumptions C19_script_passes_liveness_checker.

(* after every history of commits (compiling or not, [good] is arbitrary) and runs killed after any number of
   operations, the marker exists only together with the directory of a compile that failed *)
Theorem C19_marker_only_with_failed_compile :
  forall good h, marker_ok good (steps newpolicy_script good linit h).
Proof. intros good h. apply marker_ok_history. exact C19_script_passes_liveness_checker. Qed.
Print Assumptions C19_marker_only_with_failed_compile.

(* ... and then, if the head of the repository compiles, one undisturbed run makes it current,
   and a further run finds everything up to date *)
Theorem C19_newest_compiling_head_becomes_current :
  forall good h, let s := steps newpolicy_script good linit h in
  good (head s) = true ->
  curr (undisturbed newpolicy_script good s) = Some (head s) /\ uptodate (undisturbed newpolicy_script good s) = true.
Proof.
  intros good h s G. split.
  - apply newest_compiling_head_becomes_current; [exact C19_script_passes_liveness_checker | exact G].
  - apply then_up_to_date; [exact C19_script_passes_liveness_checker | apply marker_ok_history; exact C19_script_passes_liveness_checker | exact G].
Qed.
Print Assumptions C19_newest_compiling_head_becomes_current.

(* a head that does not compile never changes current, wherever the run is killed *)
Theorem C19_bad_head_keeps_current :
  forall good s k, good (head s) = false -> curr (live_run newpolicy_script good s k) = curr s.
Proof. intros good s k G. apply bad_head_keeps_current; [exact C19_script_passes_liveness_checker | exact G]. Qed.
Print Assumptions C19_bad_head_keeps_current.

(* The script before the repair 8e2c570 (the marker was not removed together with the old directory next):
   revision 5 is published; revision 1 does not compile and is not reverted; revision 2 compiles, the run
   that processes it is killed right after the clone; from then on every undisturbed run finds "everything
   up to date" and current stays at revision 5. *)
Definition script_before_8e2c570 : script :=
  {| prepare := filter (fun o => negb (op_eqb o RmFailed)) (prepare newpolicy_script);
     on_success := on_success newpolicy_script; on_failure := on_failure newpolicy_script |}.
Theorem C19_liveness_before_8e2c570_refuted :
  exists good h, let s := steps script_before_8e2c570 good linit h in
    good (head s) = true /\
    curr (undisturbed script_before_8e2c570 good s) <> Some (head s) /\
    curr (undisturbed script_before_8e2c570 good (undisturbed script_before_8e2c570 good s)) <> Some (head s).
Proof.
  exists (fun r => negb (Nat.eqb r 1)). exists (Commit 5 :: Run 100 :: Commit 1 :: Run 100 :: Commit 2 :: Run 11 :: nil).
  vm_compute. repeat split; discriminate.
Qed.
Print Assumptions C19_liveness_before_8e2c570_refuted.
(* the same history on the repaired script *)
Example C19_same_history_after_the_repair :
  let good := fun r => negb (Nat.eqb r 1) in
  let s := steps newpolicy_script good linit (Commit 5 :: Run 100 :: Commit 1 :: Run 100 :: Commit 2 :: Run 12 :: nil) in
  nxt s = Some (Some 2) /\ failed s = false /\ curr s = Some 5 /\ curr (undisturbed newpolicy_script good s) = Some 2.
Proof. vm_compute. repeat split. Qed.
