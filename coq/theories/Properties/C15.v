(* C15 — IOS changes always run under a reload guard.  For every plan that is
   statically well-bracketed — and the IOS plan of the tool is, for every script —
   every change of every run (any device behaviour, any fault) is sent after an
   accepted "reload in" and before its cancellation, and the configuration is
   saved only after the cancellation. *)
From Coq Require Import List.
From NA Require Import Session.Model Session.Proofs.

Theorem C15_guard_brackets_changes :
  forall p o k g, plan_guarded p g = true -> guard_ok (fst (run p o k g)) g = true.
Proof. exact guard_brackets_changes_proved. Qed.
Print Assumptions C15_guard_brackets_changes.

Theorem C15_ios_plan_is_guarded :
  forall login approve script, plan_guarded (ios_plan login approve script) false = true.
Proof. exact ios_plan_guarded_proved. Qed.
Print Assumptions C15_ios_plan_is_guarded.

(* saved only if all changes were accepted: success implies no effective fault *)
Theorem C15_saved_only_if_all_accepted :
  forall p o k g, snd (run p o k g) = true ->
    length (fst (run p o k g)) = length p /\
    forallb (fun x => negb (teff x)) (fst (run p o k g)) = true /\
    (forall i r, nth_error p i = Some r -> effective r (o (k + i)) = false).
Proof. exact ok_only_if_all_accepted_proved. Qed.
Print Assumptions C15_saved_only_if_all_accepted.
