(* C09 — any device-side failure stops the run and is reported truthfully.
   Theorems over the dialogue interpreter Session.Model.run, for every plan
   (request sequence), every oracle (device behaviour) and every position. *)
From Coq Require Import List.
From NA Require Import Session.Model Session.Proofs.

(* After an effective fault (no answer: stall, closed connection, HTTP error,
   malformed reply; or junk where the tool inspects the reply) no change, save
   or commit is sent except the already-sent second half of the same joined line. *)
Theorem C09_fault_stops_run :
  forall p o k g, after_fault_ok (fst (run p o k g)) = true.
Proof. exact fault_stops_run_proved. Qed.
Print Assumptions C09_fault_stops_run.

(* Success is reported only if every request was sent and no answer was an effective fault. *)
Theorem C09_ok_only_if_all_accepted :
  forall p o k g, snd (run p o k g) = true ->
    length (fst (run p o k g)) = length p /\
    forallb (fun x => negb (teff x)) (fst (run p o k g)) = true /\
    (forall i r, nth_error p i = Some r -> effective r (o (k + i)) = false).
Proof. exact ok_only_if_all_accepted_proved. Qed.
Print Assumptions C09_ok_only_if_all_accepted.

Theorem C09_effective_fault_fails :
  forall p o k g i r, nth_error p i = Some r -> effective r (o (k + i)) = true -> snd (run p o k g) = false.
Proof. exact effective_fault_fails_proved. Qed.
Print Assumptions C09_effective_fault_fails.

(* The literal statement (ANY unexpected output stops the run) is false: known finding F-C09-1. *)
Theorem C09_uninspected_junk_refuted :
  exists p o, after_any_junk_ok (fst (run p o 0 false)) = false /\ snd (run p o 0 false) = true.
Proof. exact c09_uninspected_junk_refuted. Qed.
Print Assumptions C09_uninspected_junk_refuted.
