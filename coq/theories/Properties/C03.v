(* C03 — PAN-OS approve converges to the Netspoc-equivalent rulebase.
   Panos/Device.v: candidate configuration and the XML-API commands (set = merge,
   edit = replace, delete, move before) with strict reference checks;
   Panos/Rules.v: the position logic of diffRules on rule names. *)
From Coq Require Import List String.
From NA Require Import Panos.Device Panos.Oracle Panos.Rules Panos.RulesProofs Panos.Proofs.
Import ListNotations.

(* deletions at once, insertions appended and moved before the next surviving
   rule: for every device rulebase A and every edit script in the normal form the
   Myers library guarantees, all commands are accepted and the resulting order is
   the one the script describes *)
Theorem C03_rule_order :
  forall s A, NoDup (A ++ inserted s) -> normal s = true -> consumed s = List.length A ->
              nrun A (plan s A) = Some (spec s A).
Proof. exact rule_order_proved. Qed.
Print Assumptions C03_rule_order.

(* set / move / delete of a rule act on the candidate configuration exactly as in
   that list model; every other command leaves the rule sequence unchanged *)
Theorem C03_rule_commands_on_names :
  forall v o c v', proj o = Some c -> exec v o = Done v' -> nexec (names v) c = Some (names v').
Proof. exact rule_commands_on_names. Qed.
Print Assumptions C03_rule_commands_on_names.

Theorem C03_other_commands_keep_rule_order :
  forall v o v', proj o = None -> exec v o = Done v' -> names v' = names v.
Proof. exact other_commands_keep_rule_order. Qed.
Print Assumptions C03_other_commands_keep_rule_order.

(* the oracle of the check is equality of the rulebases with addresses, groups,
   services and service-groups expanded to their content *)
Theorem C03_oracle_is_expanded_equality : forall a b, equiv a b = true <-> sem a = sem b.
Proof. exact equiv_is_equal_semantics. Qed.
Print Assumptions C03_oracle_is_expanded_equality.

(* equalising the members of an address-group incrementally (one delete per member
   the target does not have, then one set with the new members): for all member
   lists the commands are accepted by the candidate configuration and the group
   then holds exactly the target's members *)
From NA Require Import Nsx.Proofs Panos.Members.
Theorem C03_member_plan_converges :
  forall v g old new, lookup g (v_grp v) = Some old -> NoDup old -> forallb (plain_addr_ok v) new = true ->
  exists v' cur, run_ops v (member_plan g old new) = Some v' /\ lookup g (v_grp v') = Some cur /\ forall x, In x cur <-> In x new.
Proof. exact member_plan_converges_proved. Qed.
Print Assumptions C03_member_plan_converges.

(* genUniqRuleNames / genUniqGroupNames (the same code in pkg/panos and pkg/nsx):
   the search for a free name NAME-i always ends, the new names are pairwise
   different and none of them is a name of the device *)
From NA Require Import Panos.Uniq.
Theorem C03_unique_names :
  forall a b, NoDup b ->
    NoDup (gen_uniq a b) /\ List.length (gen_uniq a b) = List.length b /\ forall x, In x (gen_uniq a b) -> smem x a = false.
Proof.
  intros a b ND. split; [apply gen_uniq_nodup_proved, ND|]. split; [apply gen_uniq_length_proved | apply gen_uniq_renamed_avoid_device_proved].
Qed.
Print Assumptions C03_unique_names.
Theorem C03_unique_name_search_terminates : forall base used i, exists n, search (S (List.length used)) i base used = Some n.
Proof. exact search_finds. Qed.
Print Assumptions C03_unique_name_search_terminates.
