(* C05 — Linux approve converges for static routes and iptables. *)
From Coq Require Import List String.
From NA Require Import Base.Str Linux.Model Linux.Proofs.

(* Executing the emitted `ip route` commands on a kernel table that holds the
   device's static routes never fails and yields exactly the target's routes,
   for every pair of duplicate-free route lists. *)
Theorem C05_routes_converge :
  forall a b, NoDup (specs a) -> NoDup (specs b) ->
  exists t, kexec_all (specs a) (diff_routes a b) = Some t /\ NoDup t /\
            (forall s, In s t <-> In s (specs b)).
Proof. exact linux_routes_conv_proved. Qed.
Print Assumptions C05_routes_converge.

(* No route command is emitted iff the device already has exactly the target's routes. *)
Theorem C05_routes_unchanged_iff :
  forall a b, NoDup (specs a) -> NoDup (specs b) ->
  (diff_routes a b = nil <-> (forall s, In s (specs a) <-> In s (specs b))).
Proof. exact linux_routes_unchanged_iff_proved. Qed.
Print Assumptions C05_routes_unchanged_iff.

(* iptables: no difference is reported only for a device with the same tables, the
   same chains with the same policies and, rule by rule in order, the same options
   with the same values (after the normalisation both sides went through) *)
From NA Require Import Linux.IptProofs.
Theorem C05_iptables_unchanged_only_if_equal :
  forall a b, diff_iptables a b = None ->
  ~ In ""%string (map tb_name a) -> ~ In ""%string (map tb_name b) -> Forall table_ok a -> Forall table_ok b ->
  (forall n, In n (map tb_name a) <-> In n (map tb_name b)) /\
  forall ta, In ta a -> exists tb, find_table b (tb_name ta) = Some tb /\ table_same ta tb.
Proof. exact diff_iptables_none_sound. Qed.
Print Assumptions C05_iptables_unchanged_only_if_equal.
