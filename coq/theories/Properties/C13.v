(* C13 — missing-approve never forgets a device that needs approve.
   Only theorem statements, closed by [exact], and Print Assumptions. *)
From Coq Require Import List ZArith NArith.
From NA Require Import Status.Model Status.Proofs.

(* For every history (clock strictly increasing by construction), every device
   that is enumerated and not listed has a latest conclusive observation that
   establishes identity of its code with the current policy's code. *)
Theorem C13_never_forgets :
  forall c h d,
    missing (run c h) d = false ->
    present (run c h) d = true ->
    establishes (run c h) (latest_obs h d) d.
Proof. exact never_forgets_proved. Qed.
Print Assumptions C13_never_forgets.

(* A device whose latest conclusive observation establishes identity while the
   observed policy is still on disk (plain or bzip2) is omitted. *)
Theorem C13_omits_established :
  forall c h d,
    establishes (run c h) (latest_obs h d) d ->
    on_disk (run c h) (obs_policy (latest_obs h d)) = true ->
    missing (run c h) d = false.
Proof. exact omits_established_proved. Qed.
Print Assumptions C13_omits_established.

(* The pinned tree before the two fix: commits violates both halves. *)
Theorem C13_never_forgets_orig_refuted :
  exists c h d,
    missing_gen false (run_orig c h) d = false /\
    present (run_orig c h) d = true /\
    ~ establishes (run_orig c h) (latest_obs h d) d.
Proof. exact never_forgets_orig_refuted. Qed.
Print Assumptions C13_never_forgets_orig_refuted.

Theorem C13_omits_established_orig_refuted :
  exists c h d,
    establishes (run_orig c h) (latest_obs h d) d /\
    on_disk (run_orig c h) (obs_policy (latest_obs h d)) = true /\
    missing_gen false (run_orig c h) d = true.
Proof. exact omits_established_orig_refuted. Qed.
Print Assumptions C13_omits_established_orig_refuted.

Theorem C13_never_forgets_nodirfix_refuted :
  exists c h d,
    missing_gen false (run c h) d = false /\
    present (run c h) d = true /\
    ~ establishes (run c h) (latest_obs h d) d.
Proof. exact never_forgets_nodirfix_refuted. Qed.
Print Assumptions C13_never_forgets_nodirfix_refuted.
