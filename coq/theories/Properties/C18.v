(* C18 — raw and IPv6 parts are merged completely and in the documented order
   (list-level model of mergeASAACLs / mergeIOSACLs / the Linux rule loop / the
   PAN-OS rulebase merge; for every ACL, raw part and permit predicate). *)
From Coq Require Import List Permutation.
From NA Require Import Merge.Model Merge.Proofs.

Theorem C18_every_entry_exactly_once :
  forall (A : Type) (permits : A -> bool) acl raw,
    Permutation (merge_acl permits acl raw) (prepends raw ++ acl ++ appends raw).
Proof. exact merge_acl_permutation_proved. Qed.
Print Assumptions C18_every_entry_exactly_once.

Theorem C18_order_inside_each_part_preserved :
  forall (A : Type) (permits : A -> bool) acl raw,
    sub A acl (merge_acl permits acl raw) /\ sub A (prepends raw) (merge_acl permits acl raw) /\
    sub A (appends raw) (merge_acl permits acl raw).
Proof. exact merge_acl_keeps_order_proved. Qed.
Print Assumptions C18_order_inside_each_part_preserved.

Theorem C18_raw_entries_first :
  forall (A : Type) (permits : A -> bool) acl raw,
    appends raw = nil -> merge_acl permits acl raw = prepends raw ++ acl.
Proof. exact merge_acl_raw_first_proved. Qed.
Print Assumptions C18_raw_entries_first.

Theorem C18_append_behind_last_permit_before_trailing_denies :
  forall (A : Type) (permits : A -> bool) acl raw,
  appends raw <> nil ->
  exists l1 l2, merge_acl permits acl raw = l1 ++ appends raw ++ l2 /\
                l1 ++ l2 = prepends raw ++ acl /\
                forallb (fun x => negb (permits x)) l2 = true /\
                (l1 = nil \/ exists x, last l1 x = x /\ In x l1 /\ permits (last l1 x) = true).
Proof. exact merge_acl_append_placement_proved. Qed.
Print Assumptions C18_append_behind_last_permit_before_trailing_denies.
