(* C01 — ASA approve converges.  Proved here: the line-number core of
   diffASAACLs (inserts, deletes, joined moves incl. log changes) for EVERY valid
   edit script between entry lists without repeated bodies.  Object-groups,
   several ACLs, bindings and routes are decided by executing the
   implementation's script on the strict device of Cisco/Device.v (oracle);
   see DESIGN.md (asa_conv_partial). *)
From Coq Require Import List.
From NA Require Import Cisco.AsaAcl Cisco.AsaAclProofs.
Import ListNotations.

Theorem C01_asa_acl_lines_converge_partial :
  forall m, NoDup (bodies (listA m)) -> NoDup (bodies (listB m)) ->
    dexec_all (listA m) (diff_asa m) = Some (listB m).
Proof. exact asa_acl_lines_conv_proved. Qed.
Print Assumptions C01_asa_acl_lines_converge_partial.

(* 'device unchanged' is reported only for an already equal entry list *)
Theorem C01_asa_acl_unchanged_only_if_equal :
  forall m, NoDup (bodies (listA m)) -> NoDup (bodies (listB m)) ->
    diff_asa m = [] -> listA m = listB m.
Proof. exact asa_acl_unchanged_iff_proved. Qed.
Print Assumptions C01_asa_acl_unchanged_only_if_equal.

(* Routes of one VRF / address family (ASA and IOS share cisco.diffRoutes): for every edit script between route
   lists with at most one route per destination, every command (add, delete, replacement of the next hop in one
   transaction) is accepted by a routing table that allows one route per destination, after any number k of commands
   every destination routed before and after still has a route, and after the last command the table holds exactly
   the target routes. *)
From NA Require Import Cisco.Routes Cisco.RoutesProofs.
Theorem C01_cisco_routes_converge_stepwise :
  forall m : Routes.script, NoDup (map dst (Routes.listA m)) -> NoDup (map dst (Routes.listB m)) ->
  forall k, exists tk, rexec_all (Routes.listA m) (firstn k (diff_croutes m)) = Some tk /\
    (forall d, has_dst (Routes.listA m) d = true -> has_dst (Routes.listB m) d = true -> has_dst tk d = true) /\
    (length (diff_croutes m) <= k -> forall r, In r tk <-> In r (Routes.listB m)).
Proof. exact croutes_conv_stepwise. Qed.
Print Assumptions C01_cisco_routes_converge_stepwise.
