(* C01 — ASA approve converges.  Proved here: the line-number core of
   diffASAACLs (inserts, deletes, joined moves incl. log changes) for EVERY valid
   edit script between entry lists without repeated bodies.  Object-groups,
   several ACLs, bindings and routes are decided by executing the
   implementation's script on the strict device of Cisco/Device.v (oracle);
   see DESIGN.md (asa_conv_partial). *)
From Coq Require Import List.
From NA Require Import Cisco.AsaAcl Cisco.AsaAclProofs.
Import ListNotations.

Theorem C01_asa_acl_lines_converge_partial :
  forall m, NoDup (bodies (listA m)) -> NoDup (bodies (listB m)) ->
    dexec_all (listA m) (diff_asa m) = Some (listB m).
Proof. exact asa_acl_lines_conv_proved. Qed.
Print Assumptions C01_asa_acl_lines_converge_partial.

(* 'device unchanged' is reported only for an already equal entry list *)
Theorem C01_asa_acl_unchanged_only_if_equal :
  forall m, NoDup (bodies (listA m)) -> NoDup (bodies (listB m)) ->
    diff_asa m = [] -> listA m = listB m.
Proof. exact asa_acl_unchanged_iff_proved. Qed.
Print Assumptions C01_asa_acl_unchanged_only_if_equal.

(* Routes of one VRF / address family (ASA and IOS share cisco.diffRoutes): for every edit script between route
   lists with at most one route per destination, every command (add, delete, replacement of the next hop in one
   transaction) is accepted by a routing table that allows one route per destination, after any number k of commands
   every destination routed before and after still has a route, and after the last command the table holds exactly
   the target routes. *)
From NA Require Import Cisco.Routes Cisco.RoutesProofs.
Theorem C01_cisco_routes_converge_stepwise :
  forall m : Routes.script, NoDup (map dst (Routes.listA m)) -> NoDup (map dst (Routes.listB m)) ->
  forall k, exists tk, rexec_all (Routes.listA m) (firstn k (diff_croutes m)) = Some tk /\
    (forall d, has_dst (Routes.listA m) d = true -> has_dst (Routes.listB m) d = true -> has_dst tk d = true) /\
    (length (diff_croutes m) <= k -> forall r, In r tk <-> In r (Routes.listB m)).
Proof. exact croutes_conv_stepwise. Qed.
Print Assumptions C01_cisco_routes_converge_stepwise.

(* "equivalent to the target up to generated object names", for the oracle of the tunnel-group / user model
   (Cisco/Tunnel.v): renaming the group-policies injectively (e.g. NAME -> NAME-DRC-0), together with the references
   to them, changes neither the semantics nor the verdict of the oracle; the premise (every reference names an
   existing group-policy) is decidable and holds in every state the strict device accepts a reference in
   (Cisco/TunnelProofs.v tsub_reference_exists). *)
From Coq Require Import String.
From NA Require Import Cisco.Tunnel Cisco.TunnelNames.
Theorem C01_tunnel_oracle_independent_of_group_policy_names :
  forall (rho : string -> string), (forall a b, rho a = rho b -> a = b) ->
  forall d t, gps_knownb d = true ->
    tsem (rename_gps rho d) = tsem d /\ tequiv (rename_gps rho d) t = tequiv d t.
Proof.
  intros rho inj d t K. apply gps_knownb_sound in K. split.
  - exact (tsem_independent_of_group_policy_names rho inj d K).
  - exact (tequiv_up_to_group_policy_names rho inj d t K).
Qed.
Print Assumptions C01_tunnel_oracle_independent_of_group_policy_names.
