(* C01 — ASA approve converges.  Proved here: the line-number core of
   diffASAACLs (inserts, deletes, joined moves incl. log changes) for EVERY valid
   edit script between entry lists without repeated bodies.  Object-groups,
   several ACLs, bindings and routes are decided by executing the
   implementation's script on the strict device of Cisco/Device.v (oracle);
   see DESIGN.md (asa_conv_partial). *)
From Coq Require Import List.
From NA Require Import Cisco.AsaAcl Cisco.AsaAclProofs.
Import ListNotations.

Theorem C01_asa_acl_lines_converge_partial :
  forall m, NoDup (bodies (listA m)) -> NoDup (bodies (listB m)) ->
    dexec_all (listA m) (diff_asa m) = Some (listB m).
Proof. exact asa_acl_lines_conv_proved. Qed.
Print Assumptions C01_asa_acl_lines_converge_partial.

(* 'device unchanged' is reported only for an already equal entry list *)
Theorem C01_asa_acl_unchanged_only_if_equal :
  forall m, NoDup (bodies (listA m)) -> NoDup (bodies (listB m)) ->
    diff_asa m = [] -> listA m = listB m.
Proof. exact asa_acl_unchanged_iff_proved. Qed.
Print Assumptions C01_asa_acl_unchanged_only_if_equal.
