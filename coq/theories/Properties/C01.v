(* C01 — ASA approve converges.  Proved here: the line-number core of
   diffASAACLs (inserts, deletes, joined moves incl. log changes) for EVERY valid
   edit script between entry lists without repeated bodies.  Object-groups,
   several ACLs, bindings and routes are decided by executing the
   implementation's script on the strict device of Cisco/Device.v (oracle);
   see DESIGN.md (asa_conv_partial). *)
From Coq Require Import List.
From NA Require Import Cisco.AsaAcl Cisco.AsaAclProofs.
Import ListNotations.

Theorem C01_asa_acl_lines_converge_partial :
  forall m, NoDup (bodies (listA m)) -> NoDup (bodies (listB m)) ->
    dexec_all (listA m) (diff_asa m) = Some (listB m).
Proof. exact asa_acl_lines_conv_proved. Qed.
Print Assumptions C01_asa_acl_lines_converge_partial.

(* 'device unchanged' is reported only for an already equal entry list *)
Theorem C01_asa_acl_unchanged_only_if_equal :
  forall m, NoDup (bodies (listA m)) -> NoDup (bodies (listB m)) ->
    diff_asa m = [] -> listA m = listB m.
Proof. exact asa_acl_unchanged_iff_proved. Qed.
Print Assumptions C01_asa_acl_unchanged_only_if_equal.

(* Routes of one VRF / address family (ASA and IOS share cisco.diffRoutes): for every edit script between route
   lists with at most one route per destination, every command (add, delete, replacement of the next hop in one
   transaction) is accepted by a routing table that allows one route per destination, after any number k of commands
   every destination routed before and after still has a route, and after the last command the table holds exactly
   the target routes. *)
From NA Require Import Cisco.Routes Cisco.RoutesProofs.
Theorem C01_cisco_routes_converge_stepwise :
  forall m : Routes.script, NoDup (map dst (Routes.listA m)) -> NoDup (map dst (Routes.listB m)) ->
  forall k, exists tk, rexec_all (Routes.listA m) (firstn k (diff_croutes m)) = Some tk /\
    (forall d, has_dst (Routes.listA m) d = true -> has_dst (Routes.listB m) d = true -> has_dst tk d = true) /\
    (length (diff_croutes m) <= k -> forall r, In r tk <-> In r (Routes.listB m)).
Proof. exact croutes_conv_stepwise. Qed.
Print Assumptions C01_cisco_routes_converge_stepwise.

(* "equivalent to the target up to generated object names", for the oracle of the tunnel-group / user model
   (Cisco/Tunnel.v): renaming ACLs, address pools and group-policies injectively (e.g. NAME -> NAME-DRC-0), together
   with the references to them, changes neither the semantics nor the verdict of the oracle, provided every reference
   names an existing object (decidable: refs_knownb) ... *)
From Coq Require Import String.
From NA Require Import Cisco.Vpn Cisco.Tunnel Cisco.TunnelNames Cisco.TunnelKnown.
Theorem C01_tunnel_oracle_independent_of_generated_names :
  forall (ra rp rg : string -> string),
  (forall a b, ra a = ra b -> a = b) -> (forall a b, rp a = rp b -> a = b) -> (forall a b, rg a = rg b -> a = b) ->
  forall d t, refs_knownb d = true ->
    tsem (rename_all ra rp rg d) = tsem d /\ tequiv (rename_all ra rp rg d) t = tequiv d t.
Proof.
  intros ra rp rg ia ip ig d t K. apply refs_knownb_sound in K. split.
  - exact (tsem_independent_of_names ra rp rg ia ip ig d K).
  - exact (tequiv_up_to_names ra rp rg ia ip ig d t K).
Qed.
Print Assumptions C01_tunnel_oracle_independent_of_generated_names.

(* ... and the strict device keeps that premise: in every state an accepted script passes through, starting from a
   device whose references all name existing objects, every reference names an existing object; so the verdict of
   the oracle on the result of any accepted script does not depend on the names of these objects. *)
Theorem C01_tunnel_accepted_script_result_independent_of_generated_names :
  forall (ra rp rg : string -> string),
  (forall a b, ra a = ra b -> a = b) -> (forall a b, rp a = rp b -> a = b) -> (forall a b, rg a = rg b -> a = b) ->
  forall d cs d' t, refs_knownb d = true -> trun d cs 0 = (d', 0, 0) ->
    refs_known d' /\ tsem (rename_all ra rp rg d') = tsem d' /\ tequiv (rename_all ra rp rg d') t = tequiv d' t.
Proof.
  intros ra rp rg ia ip ig d cs d' t K H. apply refs_knownb_sound in K. split.
  - exact (accepted_script_keeps_known cs d 0 d' K H).
  - exact (oracle_after_accepted_script_independent_of_names ra rp rg ia ip ig d cs d' t K H).
Qed.
Print Assumptions C01_tunnel_accepted_script_result_independent_of_generated_names.
