(* C12 — at most one approve or compare session per device at any time. *)
From Coq Require Import List.
From NA Require Import Lock.Model Lock.Proofs Gen.LockOrder.

(* For every schedule of lock attempts, effects, exits and kills of any number
   of invocations: one holder per device; a rejected run has touched nothing. *)
Theorem C12_mutual_exclusion :
  forall keys es, exclusive (run (fresh keys) es) /\ no_effect_without_lock (run (fresh keys) es).
Proof. exact mutual_exclusion_proved. Qed.
Print Assumptions C12_mutual_exclusion.

Theorem C12_lock_released_with_holder :
  forall st i p k, exclusive st -> nth_error st i = Some p -> ph p = Holding -> key p = k ->
    held (step st (Kill i)) k = false /\ held (step st (Exit i)) k = false.
Proof. exact holder_gone_releases_proved. Qed.
Print Assumptions C12_lock_released_with_holder.

Theorem C12_free_lock_is_acquired :
  forall st i p, nth_error st i = Some p -> ph p = Init -> held st (key p) = false ->
    exists p', nth_error (step st (TryLock i)) i = Some p' /\ ph p' = Holding.
Proof. exact lock_released_proved. Qed.
Print Assumptions C12_free_lock_is_acquired.

(* Tie to the source (regenerated on every run): in both front-ends nothing that
   touches device, status, history or logs is called before the lock is taken
   and checked. *)
Theorem C12_call_order_of_the_front_ends :
  order_ok doapprove_calls false = true /\ order_ok drc_calls false = true.
Proof. split; vm_compute; reflexivity. Qed.
Print Assumptions C12_call_order_of_the_front_ends.
