(* C10 — an interrupted approve can be resumed (ASA line core; Linux routes). *)
From Coq Require Import List.
From NA Require Import Cisco.AsaAcl Cisco.AsaAclProofs.

(* Cut after any number k of commands (a joined move counts as one command; the
   state between its halves is covered by dexec_keeps_nodup): every valid edit
   script from the reached state to the same target converges. *)
Theorem C10_asa_acl_resume_partial :
  forall m k lk m',
    NoDup (bodies (listA m)) -> NoDup (bodies (listB m)) ->
    dexec_prefix k (listA m) (diff_asa m) = Some lk ->
    listA m' = lk -> listB m' = listB m ->
    dexec_all lk (diff_asa m') = Some (listB m).
Proof. exact asa_acl_resume_proved. Qed.
Print Assumptions C10_asa_acl_resume_partial.

Theorem C10_device_states_stay_wellformed :
  forall l c l', dexec l c = Some l' -> NoDup (bodies l) -> NoDup (bodies l').
Proof. exact dexec_keeps_nodup_proved. Qed.
Print Assumptions C10_device_states_stay_wellformed.

(* ASA crypto maps (Cisco/Vpn.v): the state the resume check starts from after k
   commands is a state the accepted run passes through, the last one is its result;
   the oracle used for it is equality of the entries with their references expanded. *)
From NA Require Import Cisco.Vpn Cisco.VpnProofs.
Theorem C10_crypto_prefix_states_are_run_states :
  forall d cs d', vrun d cs 0 = (d', 0, 0) -> vprefix d cs (List.length cs) = d'.
Proof. exact vprefix_full_is_final. Qed.
Print Assumptions C10_crypto_prefix_states_are_run_states.

Theorem C10_crypto_oracle_is_expanded_equality : forall a b, vequiv a b = true <-> vsem a = vsem b.
Proof. exact vequiv_is_equal_semantics. Qed.
Print Assumptions C10_crypto_oracle_is_expanded_equality.

(* IOS numbering core: an approve cut after any number k of its numbered commands leaves an ACL
   (again without a line twice) from which every run of the tool — for every edit script between
   that ACL and the same target — is accepted and ends in an ACL that filters like the target. *)
From Coq Require Import NArith.
From NA Require Import Cisco.IosAcl Cisco.IosAclFresh Cisco.IosAclMoves Cisco.IosAclEquiv Cisco.IosAclResume.
Theorem C10_ios_acl_resume :
  forall m cs k lk, nodupA m -> nodupB m -> short_runs m 0 -> diff_ios m = Some cs ->
  iexec_all (reseq (listA m)) (firstn k cs) = Some lk ->
  forall m' cs', listA m' = map snd lk -> listB m' = listB m -> short_runs m' 0 -> diff_ios m' = Some cs' ->
  exists l', iexec_all (reseq (listA m')) cs' = Some l' /\ sw_equiv (rules (listB m)) (rules (map snd l')).
Proof. exact ios_acl_resume. Qed.
Print Assumptions C10_ios_acl_resume.
