(* C07 — configuration outside Netspoc's scope is never deleted or altered.
   On the strict device semantics: an accepted command changes only the objects
   it names; hence a script that never names an object outside the scope leaves
   every such ACL, object-group, binding and route untouched after EVERY prefix
   (interrupted runs included).  The premise is a syntactic check that the
   oracle evaluates on each script the implementation prints; the conclusion is
   additionally observed directly (Cisco.Oracle.frame_scan). *)
From Coq Require Import List String.
From NA Require Import Base.Str Cisco.Device Cisco.DeviceFrame.

Theorem C07_frame_every_prefix :
  forall u l d k dk,
    script_avoids u (d_mode d) l = true ->
    exec_prefix k d l = Some dk ->
    same_outside u d dk.
Proof. exact frame_every_prefix_proved. Qed.
Print Assumptions C07_frame_every_prefix.
