(* C02 — IOS approve converges.  The numbering core of diffIOSACLs (resequence
   to 10000, numbered inserts, deletes by number, joined moves, direction-aware
   move suppression inside a block) is the executable model Cisco/IosAcl.v, tied
   to the implementation by exact comparison of the emitted numbers and executed
   on the strict numbered-ACL device; see DESIGN.md for what is proved. *)
From Coq Require Import List NArith.
From NA Require Import Cisco.IosAcl Cisco.IosAclProofs.
Import ListNotations.

Theorem C02_ios_example_converges :
  exists m cs, diff_ios m = Some cs /\ cs <> [] /\
    match iexec_all (reseq (listA m)) cs with
    | Some r => equiv (map snd r) (listB m) = true
    | None => False
    end.
Proof. exact ios_example. Qed.
Print Assumptions C02_ios_example_converges.
