(* C02 — IOS approve converges.  The numbering core of diffIOSACLs (resequence
   to 10000, numbered inserts, deletes by number, joined moves, direction-aware
   move suppression inside a block) is the executable model Cisco/IosAcl.v, tied
   to the implementation by exact comparison of the emitted numbers and executed
   on the strict numbered-ACL device; see DESIGN.md for what is proved. *)
From Coq Require Import List NArith Lia.
From NA Require Import Cisco.IosAcl Cisco.IosAclProofs.
Import ListNotations.

Theorem C02_ios_example_converges :
  exists m cs, diff_ios m = Some cs /\ cs <> [] /\
    match iexec_all (reseq (listA m)) cs with
    | Some r => equiv (map snd r) (listB m) = true
    | None => False
    end.
Proof. exact ios_example. Qed.
Print Assumptions C02_ios_example_converges.

(* For every edit script in which no line occurs twice (so that nothing is moved)
   and every inserted run has fewer than 10000 lines: all numbered commands are
   accepted by the device ACL (resequenced to 10000, 20000, ...) and the result
   is exactly the target ACL.  Scripts with repeated lines (moves, the
   direction-aware suppression inside a block) are not covered by this theorem;
   for them the model is evaluated per case. *)
From NA Require Import Cisco.IosAclFresh Cisco.IosAclMoves.
Theorem C02_ios_fresh_script_converges_partial :
  forall m cs, fresh m -> short_runs m 0 -> diff_ios m = Some cs ->
  exists l', iexec_all (reseq (listA m)) cs = Some l' /\ map snd l' = listB m.
Proof. exact ios_fresh_converges. Qed.
Print Assumptions C02_ios_fresh_script_converges_partial.

(* the hypotheses are satisfiable by a script that inserts, keeps and deletes *)
Example C02_fresh_example :
  let m := [(Keep, P 1); (Add, D 7); (Add, P 8); (Drop, P 2); (Keep, P 3); (Add, P 9)] in
  fresh m /\ short_runs m 0 /\ exists cs, diff_ios m = Some cs /\ cs <> [].
Proof.
  cbv zeta. split; [|split].
  - unfold fresh. cbn. repeat constructor; cbn; intuition discriminate.
  - cbn. repeat split; lia.
  - eexists. split; [vm_compute; reflexivity | discriminate].
Qed.

(* For EVERY edit script, moves included: if no line occurs twice in the device
   ACL nor in the target ACL (IOS refuses such ACLs) and every inserted run has
   fewer than 10000 lines, every numbered command — insert, joined "no N / M line",
   delete — is accepted by the numbered ACL of the device, and the resulting ACL is
   final_list m: the kept lines, the deleted lines whose move was suppressed at
   their old place, the new and the really moved lines at their new place.
   (That final_list m filters like the target is the block logic; see
   C02_ios_final_filters_like_target.) *)
Theorem C02_ios_every_script_accepted :
  forall m cs, nodupA m -> nodupB m -> short_runs m 0 -> diff_ios m = Some cs ->
  exists l', iexec_all (reseq (listA m)) cs = Some l' /\ map snd l' = final_list m.
Proof. exact ios_moves_accepted. Qed.
Print Assumptions C02_ios_every_script_accepted.

(* satisfiable: a script with a real move (P 4 across the new D 9) and one with a suppressed move *)
Example C02_moves_example :
  let m1 := [(Keep, P 1); (Add, P 4); (Add, D 9); (Keep, P 2); (Keep, P 3); (Drop, P 4)] in
  let m2 := [(Drop, P 1); (Keep, P 2); (Add, P 1); (Keep, D 7)] in
  (nodupA m1 /\ nodupB m1 /\ short_runs m1 0 /\ diff_ios m1 = Some [IMove 40000 10001 (P 4); INum 10002 (D 9)]%N /\ final_list m1 = listB m1) /\
  (nodupA m2 /\ nodupB m2 /\ short_runs m2 0 /\ diff_ios m2 = Some [] /\ final_list m2 = [P 1; P 2; D 7] /\ listB m2 = [P 2; P 1; D 7]).
Proof.
  cbv zeta. split.
  - split; [unfold nodupA; cbn; repeat constructor; cbn; intuition discriminate|].
    split; [unfold nodupB; cbn; repeat constructor; cbn; intuition discriminate|].
    split; [cbn; repeat split; lia|]. split; vm_compute; reflexivity.
  - split; [unfold nodupA; cbn; repeat constructor; cbn; intuition discriminate|].
    split; [unfold nodupB; cbn; repeat constructor; cbn; intuition discriminate|].
    split; [cbn; repeat split; lia|]. repeat split; vm_compute; reflexivity.
Qed.

From NA Require Import Cisco.IosAclEquiv Cisco.IosAclFinal.

(* The ACL core of C02 in full, for EVERY edit script (all block structures, remarks,
   log variants, moves in both directions, any number of insert ranges): if no line
   occurs twice in the device ACL nor in the target ACL and every inserted run has fewer
   than 10000 lines, then all numbered commands are accepted and the rules of the ACL the
   device then holds (remarks and log attributes dropped) differ from the rules of the
   target only by exchanges of neighbouring rules with the same action — "entries inside
   a run of consecutive rules with the same action may be in any order". *)
Theorem C02_ios_acl_equiv :
  forall m cs, nodupA m -> nodupB m -> short_runs m 0 -> diff_ios m = Some cs ->
  exists l', iexec_all (reseq (listA m)) cs = Some l' /\ sw_equiv (rules (listB m)) (rules (map snd l')).
Proof. exact ios_acl_equiv. Qed.
Print Assumptions C02_ios_acl_equiv.

(* such ACLs filter alike: whatever the lines match, the first matching rule has the same action *)
Theorem C02_sw_equiv_same_filtering :
  forall (matches : ientry -> bool) a b, sw_equiv a b -> fm_verdict matches a = fm_verdict matches b.
Proof. exact sw_equiv_verdict. Qed.
Print Assumptions C02_sw_equiv_same_filtering.

Theorem C02_ios_acl_same_verdicts :
  forall m cs (matches : ientry -> bool), nodupA m -> nodupB m -> short_runs m 0 -> diff_ios m = Some cs ->
  exists l', iexec_all (reseq (listA m)) cs = Some l' /\
             fm_verdict matches (rules (map snd l')) = fm_verdict matches (rules (listB m)).
Proof. exact ios_acl_same_verdicts. Qed.
Print Assumptions C02_ios_acl_same_verdicts.

(* the relation is not trivial: a permit and a deny that may both match are never exchanged *)
Example C02_sw_equiv_distinguishes :
  fm_verdict (fun _ => true) [P 1; D 2] <> fm_verdict (fun _ => true) [D 2; P 1].
Proof. cbn. discriminate. Qed.

(* the executable oracle that judges every generated case (Cisco.IosAcl.equiv) accepts
   whatever sw_equiv relates: the check cannot raise an alarm on a script covered by C02_ios_acl_equiv *)
From NA Require Import Cisco.IosAclOracle.
Theorem C02_oracle_accepts_equivalent_acls :
  forall a b, sw_equiv (rules a) (rules b) -> equiv a b = true.
Proof. exact sw_equiv_oracle. Qed.
Print Assumptions C02_oracle_accepts_equivalent_acls.

(* The relation is not weaker than the property demands either: rule lists without repeated
   lines that give every packet the same verdict for every matcher are sw_equiv.  Hence
   sw_equiv is exactly "filter alike, entries inside a run of the same action in any order". *)
From NA Require Import Cisco.IosAclTight.
Theorem C02_same_filtering_is_sw_equiv :
  forall a b, NoDup a -> NoDup b ->
  (forall matches : ientry -> bool, fm_verdict matches a = fm_verdict matches b) -> sw_equiv a b.
Proof. exact same_verdicts_sw_equiv. Qed.
Print Assumptions C02_same_filtering_is_sw_equiv.
