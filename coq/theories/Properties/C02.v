(* C02 — IOS approve converges.  The numbering core of diffIOSACLs (resequence
   to 10000, numbered inserts, deletes by number, joined moves, direction-aware
   move suppression inside a block) is the executable model Cisco/IosAcl.v, tied
   to the implementation by exact comparison of the emitted numbers and executed
   on the strict numbered-ACL device; see DESIGN.md for what is proved. *)
From Coq Require Import List NArith Lia.
From NA Require Import Cisco.IosAcl Cisco.IosAclProofs.
Import ListNotations.

Theorem C02_ios_example_converges :
  exists m cs, diff_ios m = Some cs /\ cs <> [] /\
    match iexec_all (reseq (listA m)) cs with
    | Some r => equiv (map snd r) (listB m) = true
    | None => False
    end.
Proof. exact ios_example. Qed.
Print Assumptions C02_ios_example_converges.

(* For every edit script in which no line occurs twice (so that nothing is moved)
   and every inserted run has fewer than 10000 lines: all numbered commands are
   accepted by the device ACL (resequenced to 10000, 20000, ...) and the result
   is exactly the target ACL.  Scripts with repeated lines (moves, the
   direction-aware suppression inside a block) are not covered by this theorem;
   for them the model is evaluated per case. *)
From NA Require Import Cisco.IosAclFresh.
Theorem C02_ios_fresh_script_converges_partial :
  forall m cs, fresh m -> short_runs m 0 -> diff_ios m = Some cs ->
  exists l', iexec_all (reseq (listA m)) cs = Some l' /\ map snd l' = listB m.
Proof. exact ios_fresh_converges. Qed.
Print Assumptions C02_ios_fresh_script_converges_partial.

(* the hypotheses are satisfiable by a script that inserts, keeps and deletes *)
Example C02_fresh_example :
  let m := [(Keep, P 1); (Add, D 7); (Add, P 8); (Drop, P 2); (Keep, P 3); (Add, P 9)] in
  fresh m /\ short_runs m 0 /\ exists cs, diff_ios m = Some cs /\ cs <> [].
Proof.
  cbv zeta. split; [|split].
  - unfold fresh. cbn. repeat constructor; cbn; intuition discriminate.
  - cbn. repeat split; lia.
  - eexists. split; [vm_compute; reflexivity | discriminate].
Qed.
