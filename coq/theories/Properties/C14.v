(* C14 — incremental changes are safe at every intermediate step.
   Proved: the route half for Linux (every address covered by a route before
   and after the change is covered after every command; a joined del/add line
   is one step).  The ACL half is decided by evaluating the verdict of every
   packet of a finite universe after every step of the implementation's script
   on the strict device (Cisco.Oracle.step_scan); see DESIGN.md for the known
   findings F-C14-1 and F-C14-2 and for the statement that is refuted. *)
From Coq Require Import List String.
From NA Require Import Base.Str Linux.Model Linux.Proofs.

Theorem C14_linux_routes_covered_stepwise :
  forall (addr : Type) (covers : spec -> addr -> bool),
    (forall s s' x, dst_eqb s s' = true -> covers s x = covers s' x) ->
    forall a b, NoDup (specs a) -> NoDup (specs b) ->
    forall k t x, kexec_prefix k (specs a) (diff_routes a b) = Some t ->
      covered addr covers (specs a) x -> covered addr covers (specs b) x -> covered addr covers t x.
Proof. exact routes_covered_stepwise_proved. Qed.
Print Assumptions C14_linux_routes_covered_stepwise.
