(* C14 — incremental changes are safe at every intermediate step.
   Proved: the route half for Linux (every address covered by a route before
   and after the change is covered after every command; a joined del/add line
   is one step).  The ACL half is decided by evaluating the verdict of every
   packet of a finite universe after every step of the implementation's script
   on the strict device (Cisco.Oracle.step_scan); see DESIGN.md for the known
   findings F-C14-1 and F-C14-2 and for the statement that is refuted. *)
From Coq Require Import List String NArith.
From NA Require Import Base.Str Linux.Model Linux.Proofs.

Theorem C14_linux_routes_covered_stepwise :
  forall (addr : Type) (covers : spec -> addr -> bool),
    (forall s s' x, dst_eqb s s' = true -> covers s x = covers s' x) ->
    forall a b, NoDup (specs a) -> NoDup (specs b) ->
    forall k t x, kexec_prefix k (specs a) (diff_routes a b) = Some t ->
      covered addr covers (specs a) x -> covered addr covers (specs b) x -> covered addr covers t x.
Proof. exact routes_covered_stepwise_proved. Qed.
Print Assumptions C14_linux_routes_covered_stepwise.

(* The same with the containment the check evaluates: a route to IP/LEN covers the IPv4 addresses that agree
   with IP in the first LEN bits (Linux.Check.covers_addr); e.g. a /16 replaced by a /24 and a /8. *)
From NA Require Import Linux.Check Linux.PrefixCover.
Theorem C14_linux_routes_prefix_cover_stepwise :
  forall a b, NoDup (specs a) -> NoDup (specs b) ->
  forall k t (x : N), kexec_prefix k (specs a) (diff_routes a b) = Some t ->
    covered_addr (specs a) x = true -> covered_addr (specs b) x = true -> covered_addr t x = true.
Proof. exact routes_prefix_cover_stepwise. Qed.
Print Assumptions C14_linux_routes_prefix_cover_stepwise.

(* ACL half, for the scripts without moves: new lines are inserted top-down, then
   old lines are deleted bottom-up.  For every first-match semantics (any packet
   type, matcher, action and default) and every packet on which the old and the
   new ACL agree, every intermediate ACL of that shape gives the same verdict.
   The check evaluates the shape (safe_shape) on every intermediate ACL of the
   implementation's scripts that have no move; scripts with moves are decided by
   the packet scan and the known findings F-C14-1 / F-C14-2. *)
From NA Require Import Cisco.AsaAcl Cisco.StepSafe.
Theorem C14_acl_insert_then_delete_safe_partial :
  forall (packet : Type) (matches : entry -> packet -> bool) (permit : entry -> bool) (default : bool) st p,
    (inserting st || deleting st)%bool = true ->
    verdict packet matches permit default (old st) p = verdict packet matches permit default (new st) p ->
    verdict packet matches permit default (dev st) p = verdict packet matches permit default (old st) p.
Proof. exact insert_then_delete_safe_proved. Qed.
Print Assumptions C14_acl_insert_then_delete_safe_partial.

(* IOS, proved for EVERY move-free edit script (no line occurs twice, runs < 10000): after
   any number k of the numbered commands the device ACL exists and gives every packet on
   which the old and the new ACL agree that same verdict, for every first-match semantics.
   (The new lines are inserted top-down, then the old lines deleted bottom-up; with moves
   the statement is false for the current algorithm: known findings F-C14-1, F-C14-2.) *)
From NA Require Import Cisco.IosAcl Cisco.IosAclFresh Cisco.IosStepSafe.
Theorem C14_ios_move_free_script_safe_at_every_step :
  forall m cs, fresh m -> short_runs m 0 -> diff_ios m = Some cs ->
  forall k, exists lk, iexec_all (reseq (listA m)) (firstn k cs) = Some lk /\
    forall (packet : Type) (matches : ientry -> packet -> bool) (permit : ientry -> bool) (default : bool) (p : packet),
      fverdict packet matches permit default (listA m) p = fverdict packet matches permit default (listB m) p ->
      fverdict packet matches permit default (map snd lk) p = fverdict packet matches permit default (listA m) p.
Proof. exact ios_fresh_stepwise. Qed.
Print Assumptions C14_ios_move_free_script_safe_at_every_step.

(* ASA, proved for EVERY move-free edit script (no body of an added line equals the body of a
   deleted line; no body twice per ACL): after any number k of the commands of diff_asa the
   device ACL gives every packet on which the old and the new ACL agree that same verdict. *)
From NA Require Import Cisco.AsaAclProofs Cisco.AsaStepSafe.
Theorem C14_asa_move_free_script_safe_at_every_step :
  forall m : AsaAcl.script, NoDup (bodies (AsaAcl.listA m)) -> NoDup (bodies (AsaAcl.listB m)) -> move_freeP m ->
  forall k, exists lk, dexec_all (AsaAcl.listA m) (firstn k (diff_asa m)) = Some lk /\
    forall (packet : Type) (matches : AsaAcl.entry -> packet -> bool) (permit : AsaAcl.entry -> bool) (default : bool) (p : packet),
      StepSafe.verdict packet matches permit default (AsaAcl.listA m) p = StepSafe.verdict packet matches permit default (AsaAcl.listB m) p ->
      StepSafe.verdict packet matches permit default lk p = StepSafe.verdict packet matches permit default (AsaAcl.listA m) p.
Proof. exact asa_move_free_stepwise. Qed.
Print Assumptions C14_asa_move_free_script_safe_at_every_step.
