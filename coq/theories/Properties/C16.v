(* C16 — output is a deterministic function of the inputs.
   Every `range` over a Go map in the planning code is inventoried from the
   current source on every run (Gen/MapRanges.v); each site must have been
   reviewed as an instance of one of five patterns, and for each pattern the
   result is proved independent of the iteration order. *)
From Coq Require Import List NArith Permutation.
From NA Require Import Determinism.Model Determinism.Proofs Gen.MapRanges.
Import ListNotations.

(* no map-range loop is new or changed since it was reviewed *)
Theorem C16_every_map_range_site_reviewed : unreviewed = [].
Proof. reflexivity. Qed.
Print Assumptions C16_every_map_range_site_reviewed.

(* PerKey / SetUnion *)
Theorem C16_commuting_updates_order_independent :
  forall (S K : Type) (f : S -> K -> S),
  (forall s a b, f (f s a) b = f (f s b) a) ->
  forall l1 l2, Permutation l1 l2 -> forall s, fold_left f l1 s = fold_left f l2 s.
Proof. exact fold_commuting_order_independent_proved. Qed.
Print Assumptions C16_commuting_updates_order_independent.

(* CollectSort *)
Theorem C16_sorted_collection_order_independent :
  forall (K : Type) (leb : K -> K -> bool),
  (forall a b, leb a b = true \/ leb b a = true) ->
  (forall a b c, leb a b = true -> leb b c = true -> leb a c = true) ->
  (forall a b, leb a b = true -> leb b a = true -> a = b) ->
  forall l1 l2, Permutation l1 l2 -> sort K leb l1 = sort K leb l2.
Proof. exact sorted_collection_order_independent_proved. Qed.
Print Assumptions C16_sorted_collection_order_independent.

(* Exists *)
Theorem C16_existential_search_order_independent :
  forall (K : Type) (p : K -> bool) l1 l2, Permutation l1 l2 -> existsb p l1 = existsb p l2.
Proof. exact existsb_order_independent_proved. Qed.
Print Assumptions C16_existential_search_order_independent.

(* AnyAgree *)
Theorem C16_any_element_order_independent :
  forall (K V : Type) (g : K -> V) l1 l2 d, Permutation l1 l2 -> (forall a b, In a l1 -> In b l1 -> g a = g b) ->
    match l1 with x :: _ => g x | [] => d end = match l2 with x :: _ => g x | [] => d end.
Proof. exact any_agree_order_independent_proved. Qed.
Print Assumptions C16_any_element_order_independent.
