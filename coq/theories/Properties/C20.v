(* C20 — malformed input ends in a diagnostic, never in a crash (Cisco parser).
   The model (Robust/Parse.v, Robust/Routes.v) writes every index and slice
   expression of go/pkg/cisco/parse.go and of the route field extraction as an
   operation that can panic; the command descriptions and name tables are
   regenerated from the source on every run (Gen/CiscoTables.v). *)
From Coq Require Import List String.
From NA Require Import Robust.GoStr Robust.Parse Robust.AclProofs Robust.ParseProofs Robust.PostProofs Robust.Routes Gen.CiscoTables.
Import ListNotations.

(* the tables read from the current source satisfy what the proof relies on *)
Theorem C20_generated_tables_ok : tables_ok asa_descrs = true /\ tables_ok ios_descrs = true.
Proof. split; vm_compute; reflexivity. Qed.
Print Assumptions C20_generated_tables_ok.

(* ParseConfig (line loop, matching, postprocessing, check of references):
   for every text, raw or not, with the ASA and the IOS descriptions, and for
   every content of the name tables, the outcome is a configuration, an error
   message or the deliberate "Incomplete string" panic — never a runtime panic *)
Theorem C20_parse_config_never_runtime_panic :
  forall descrs, tables_ok descrs = true ->
  forall tb is_ios is_raw text, parse_config descrs tb is_ios is_raw text <> Panic.
Proof. exact parse_config_total_proved. Qed.
Print Assumptions C20_parse_config_never_runtime_panic.

Theorem C20_asa_ios_parse_never_runtime_panic :
  forall tb is_raw text,
    parse_config asa_descrs tb false is_raw text <> Panic /\ parse_config ios_descrs tb true is_raw text <> Panic.
Proof.
  intros tb is_raw text. split; apply parse_config_total_proved; apply C20_generated_tables_ok.
Qed.
Print Assumptions C20_asa_ios_parse_never_runtime_panic.

(* postprocessACLParts: total on every token list, keeps the number of tokens,
   at most five references (c.typ.ref has five entries) *)
Theorem C20_acl_parts_total :
  forall tb parts, exists a, postprocess_acl_parts tb parts = Ok a
    /\ List.length (ap_tokens a) = List.length parts /\ List.length (ap_ref a) <= 5.
Proof. exact postprocess_acl_parts_total. Qed.
Print Assumptions C20_acl_parts_total.

(* dstOfRoute and routeVRF: total on every command text *)
Theorem C20_route_fields_total :
  forall prefix parsed, (exists r, dst_of_route prefix parsed = Ok r) /\ (exists v, route_vrf parsed = Ok v).
Proof. intros prefix parsed. split; [apply dst_of_route_total_proved | apply route_vrf_total_proved]. Qed.
Print Assumptions C20_route_fields_total.

(* the Linux parser (ParseConfig, parseRoutes, parseIPTables of go/pkg/linux/parse.go):
   for every text the outcome is acceptance or one of its eight diagnostics *)
From NA Require Import Robust.LinuxParse Robust.LinuxProofs.
Theorem C20_linux_parse_never_runtime_panic : forall text, parse_linux text <> LPanic.
Proof. exact parse_linux_total_proved. Qed.
Print Assumptions C20_linux_parse_never_runtime_panic.
