(* C04 — NSX approve converges to the Netspoc-equivalent gateway policies.
   Nsx/Device.v: object store of the manager and the REST calls drc emits, with
   strict checks; the oracle compares, per policy, the multiset of rules with
   groups expanded to address sets and services to their definitions. *)
From Coq Require Import List String.
From NA Require Import Panos.Device Nsx.Device Nsx.Proofs.
Import ListNotations.

Theorem C04_oracle_is_expanded_equality : forall a b, nequiv a b = true <-> nsem a = nsem b.
Proof. exact nequiv_is_equal_semantics. Qed.
Print Assumptions C04_oracle_is_expanded_equality.

(* equalising a group on the manager: removing what the target does not have and
   adding what is new is accepted and yields the target's address set; so does the
   PATCH of the whole expression *)
Theorem C04_group_incremental_converges :
  forall m id old new, lookup id (m_grp m) = Some old ->
  exists m1 m2, nexec_req m (GrpRemove id (to_remove old new)) = NDone m1
             /\ nexec_req m1 (GrpAdd id (to_add old new)) = NDone m2
             /\ exists ips, lookup id (m_grp m2) = Some ips /\ forall x, In x ips <-> In x new.
Proof. exact group_incremental_converges. Qed.
Print Assumptions C04_group_incremental_converges.

Theorem C04_group_patch_converges :
  forall m id old new, lookup id (m_grp m) = Some old ->
  exists m1, nexec_req m (GrpPatch id new) = NDone m1 /\ lookup id (m_grp m1) = Some new.
Proof. exact group_patch_converges. Qed.
Print Assumptions C04_group_patch_converges.

(* what must not change: requests on groups and services leave the policies
   untouched, requests on policies and rules leave groups and services untouched *)
Theorem C04_object_requests_keep_policies :
  forall m q m', is_rule_req q = false -> nexec_req m q = NDone m' -> m_pol m' = m_pol m.
Proof. exact object_requests_keep_policies. Qed.
Print Assumptions C04_object_requests_keep_policies.

Theorem C04_rule_requests_keep_objects :
  forall m q m', is_rule_req q = true -> nexec_req m q = NDone m' -> m_grp m' = m_grp m /\ m_svc m' = m_svc m.
Proof. exact rule_requests_keep_objects. Qed.
Print Assumptions C04_rule_requests_keep_objects.
