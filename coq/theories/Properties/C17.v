(* C17 — passwords and API keys never reach logs, history or terminal.
   Proved: the PAN-OS login URL as logged (and as embedded in error messages) is
   the same string for every password, in particular it does not contain it:
   url.QueryEscape never emits '&', so (password=).*?(&|$) covers the whole value.
   All other sinks are decided by scanning every file, stdout and stderr of
   real runs for the secrets (plain and URL-encoded). *)
From Coq Require Import String Ascii.
From NA Require Import Base.Str Secrets.Model Secrets.Proofs.
Open Scope string_scope.

Theorem C17_masked_login_url_independent_of_password :
  forall user pass fuel, 19 <= fuel ->
    mask fuel (login_query user pass) = "password=xxx&type=keygen&user=" ++ query_escape user.
Proof. exact masked_login_independent_of_password_proved. Qed.
Print Assumptions C17_masked_login_url_independent_of_password.

Theorem C17_escaped_value_has_no_separator :
  forall s c, (c = "&"%char \/ c = "="%char) -> has_char c (query_escape s) = false.
Proof. exact escape_no_special. Qed.
Print Assumptions C17_escaped_value_has_no_separator.
