(* Panos/Oracle.v — what "equivalent rulebase" means (rules in order, members
   compared by expanded content) and the rendering of a vsys for the next compare. *)
From Coq Require Import List String Bool Arith.
From NA Require Import Base.Str Panos.Device.
Import ListNotations.
Open Scope string_scope.

Definition addr_value (v : vsys) (n : string) : string :=
  match lookup n (v_addr v) with Some val => "=" ++ val | None => "name:" ++ n end.
Definition expand_addr (v : vsys) (n : string) : list string :=
  match lookup n (v_grp v) with
  | Some ms => map (addr_value v) ms
  | None => [addr_value v n]
  end.
Definition svc_value (v : vsys) (n : string) : string :=
  match lookup n (v_svc v) with Some val => "=" ++ val | None => "name:" ++ n end.
Definition expand_svc (v : vsys) (n : string) : list string :=
  match lookup n (v_sgrp v) with
  | Some ms => map (svc_value v) ms
  | None => [svc_value v n]
  end.

Fixpoint dedup (l : list string) : list string :=
  match l with [] => [] | x :: r => if mem x r then dedup r else x :: dedup r end.
Definition norm (l : list string) : list string := sort_strings (dedup l).

Definition erule := (string * list string * list string * list string)%type.
Definition expand_rule (v : vsys) (r : rule) : erule :=
  (r_misc r, norm (flat_map (expand_addr v) (r_src r)), norm (flat_map (expand_addr v) (r_dst r)),
   norm (flat_map (expand_svc v) (r_srv r))).
Definition sem (v : vsys) : list erule := map (expand_rule v) (v_rules v).

Fixpoint strs_eqb (a b : list string) : bool :=
  match a, b with
  | [], [] => true
  | x :: a', y :: b' => (String.eqb x y && strs_eqb a' b')%bool
  | _, _ => false
  end.
Definition erule_eqb (a b : erule) : bool :=
  match a, b with
  | (m1, s1, d1, v1), (m2, s2, d2, v2) => (String.eqb m1 m2 && strs_eqb s1 s2 && strs_eqb d1 d2 && strs_eqb v1 v2)%bool
  end.
Fixpoint sem_eqb (a b : list erule) : bool :=
  match a, b with
  | [], [] => true
  | x :: a', y :: b' => (erule_eqb x y && sem_eqb a' b')%bool
  | _, _ => false
  end.
(* the rulebases are equivalent *)
Definition equiv (a b : vsys) : bool := sem_eqb (sem a) (sem b).

(* a member list without duplicates and dangling names (what the device accepts as a state) *)
Definition state_ok (v : vsys) : bool :=
  (forallb (fun r => (forallb (addr_ref_ok v) (r_src r) && forallb (addr_ref_ok v) (r_dst r) && forallb (svc_ref_ok v) (r_srv r))%bool) (v_rules v)
   && forallb (fun g : string * list string => forallb (plain_addr_ok v) (snd g)) (v_grp v)
   && forallb (fun g : string * list string => forallb (plain_svc_ok v) (snd g)) (v_sgrp v))%bool.

(* objects that no rule needs any more *)
Definition unused_objects (v : vsys) : list string :=
  (map fst (filter (fun g : string * list string => negb (existsb (fun r => (mem (fst g) (r_src r) || mem (fst g) (r_dst r))%bool) (v_rules v))) (v_grp v))
   ++ map fst (filter (fun a : string * string => negb (addr_used v (fst a))) (v_addr v))
   ++ map fst (filter (fun g : string * list string => negb (existsb (fun r => mem (fst g) (r_srv r)) (v_rules v))) (v_sgrp v))
   ++ map fst (filter (fun s : string * string => negb (svc_used v (fst s))) (v_svc v)))%list.

(* ---- rendering: one line per entry, fields separated by '|', members by ';' ---- *)
Definition tab : string := "|".
Definition render_rule (r : rule) : string :=
  "R" ++ tab ++ r_name r ++ tab ++ r_misc r ++ tab ++ join ";" (r_src r) ++ tab ++ join ";" (r_dst r) ++ tab ++ join ";" (r_srv r).
Definition render_val (k : string) (a : string * string) : string := k ++ tab ++ fst a ++ tab ++ snd a.
Definition render_grp (k : string) (g : string * list string) : string := k ++ tab ++ fst g ++ tab ++ join ";" (snd g).
Definition render (v : vsys) : list string :=
  (map render_rule (v_rules v) ++ map (render_val "A") (v_addr v) ++ map (render_grp "G") (v_grp v)
   ++ map (render_val "S") (v_svc v) ++ map (render_grp "T") (v_sgrp v))%list.

(* ---- one case of the check ---- *)
Record pcase := { pc_dev : vsys; pc_tgt : vsys; pc_ops : list op }.
(* verdict: refused position, reason, converged, leftover objects, final state *)
Definition judge (c : pcase) : nat * nat * bool * list string * list string :=
  match run (pc_dev c) (pc_ops c) 0 with
  | (v', pos, why) => (pos, why, equiv v' (pc_tgt c), unused_objects v', render v')
  end.
Definition already_equiv (c : pcase) : bool := equiv (pc_dev c) (pc_tgt c).
