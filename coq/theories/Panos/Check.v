(* Panos/Check.v — reconstruction of the edit script from the observed rule
   commands and comparison with the plan of Panos/Rules.v. *)
From Coq Require Import List String Bool Arith.
From NA Require Import Base.Str Panos.Device Panos.Oracle Panos.Rules Panos.Proofs.
Import ListNotations.
Open Scope string_scope.

Definition obs_rule_cmds (ops : list op) : list ncmd :=
  flat_map (fun o => match proj o with Some c => [c] | None => [] end) ops.

Definition deleted (cs : list ncmd) : list string :=
  flat_map (fun c => match c with NDel n => [n] | _ => [] end) cs.
(* inserted rules with their anchors, in command order *)
Fixpoint inserts (cs : list ncmd) : list (option string * string) :=
  match cs with
  | NSet b :: r =>
      match r with
      | NMove b' a :: _ => if String.eqb b b' then (Some a, b) :: inserts r else (None, b) :: inserts r
      | _ => (None, b) :: inserts r
      end
  | _ :: r => inserts r
  | [] => []
  end.
Definition anchored (a : option string) (ins : list (option string * string)) : list string :=
  map snd (filter (fun x => match fst x, a with
                            | Some u, Some w => String.eqb u w
                            | None, None => true
                            | _, _ => false
                            end) ins).
Definition ins_rng (l : list string) : list rng := match l with [] => [] | _ => [Ins l] end.
Fixpoint raw_script (A : list string) (D : list string) (ins : list (option string * string)) : list rng :=
  match A with
  | [] => ins_rng (anchored None ins)
  | x :: t => (ins_rng (anchored (Some x) ins) ++ (if mem x D then Del 1 else Keep 1) :: raw_script t D ins)%list
  end.
Fixpoint compress (s : list rng) : list rng :=
  match s with
  | [] => []
  | r :: t =>
      match r, compress t with
      | Keep a, Keep b :: u => Keep (a + b) :: u
      | Del a, Del b :: u => Del (a + b) :: u
      | _, ct => r :: ct
      end
  end.
Definition script_of (A : list string) (cs : list ncmd) : list rng := compress (raw_script A (deleted cs) (inserts cs)).

Definition ncmd_eqb (a b : ncmd) : bool :=
  match a, b with
  | NDel x, NDel y => String.eqb x y
  | NSet x, NSet y => String.eqb x y
  | NMove x u, NMove y w => (String.eqb x y && String.eqb u w)%bool
  | _, _ => false
  end.
Fixpoint ncmds_eqb (a b : list ncmd) : bool :=
  match a, b with
  | [], [] => true
  | x :: a', y :: b' => (ncmd_eqb x y && ncmds_eqb a' b')%bool
  | _, _ => false
  end.
Fixpoint nodup_b (l : list string) : bool := match l with [] => true | x :: r => (negb (mem x r) && nodup_b r)%bool end.

(* 0: the observed rule commands are the plan of the reconstructed script and the
   hypotheses of rule_order_proved hold; 1: shape differs; 2: hypotheses fail *)
Definition plan_verdict (A : list string) (ops : list op) : nat :=
  let cs := obs_rule_cmds ops in
  let s := script_of A cs in
  if negb (ncmds_eqb (plan s A) cs) then 1
  else if (normal s && Nat.eqb (consumed s) (List.length A) && nodup_b (A ++ inserted s))%bool then 0 else 2.

(* the names under which new rules are sent are names the model of
   genUniqRuleNames computes for the target rules *)
From NA Require Import Panos.Uniq.
Definition uniq_verdict (A B : list string) (ops : list op) : bool :=
  let names := gen_uniq A B in
  forallb (fun c => match c with NSet n => smem n names | _ => true end) (obs_rule_cmds ops).
