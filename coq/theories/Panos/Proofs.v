(* Panos/Proofs.v — the device semantics on rule names, what the other commands
   leave untouched, and the oracle as semantic equality. *)
From Coq Require Import List String Bool Arith Lia.
From NA Require Import Base.Str Panos.Device Panos.Oracle Panos.Rules Panos.RulesProofs.
Import ListNotations.
Open Scope string_scope.

Definition names (v : vsys) : list string := map r_name (v_rules v).

Lemma find_rule_mem n l : (exists r, find_rule n l = Some r) <-> mem n (map r_name l) = true.
Proof.
  induction l as [|r t IH]; simpl; [split; [intros [? H]; discriminate | discriminate]|].
  unfold mem in *. simpl. destruct (String.eqb n (r_name r)); [split; eauto|]. simpl. exact IH.
Qed.
Lemma find_rule_none n l : find_rule n l = None <-> mem n (map r_name l) = false.
Proof.
  destruct (find_rule n l) eqn:E.
  - split; [discriminate|]. intros H. assert (X : mem n (map r_name l) = true) by (apply find_rule_mem; eauto). congruence.
  - split; [|reflexivity]. intros _. destruct (mem n (map r_name l)) eqn:M; [|reflexivity].
    apply find_rule_mem in M. destruct M as [r H]. congruence.
Qed.
Lemma remove_rule_names n l : map r_name (remove_rule n l) = nremove n (map r_name l).
Proof. induction l as [|r t IH]; simpl; [reflexivity|]. destruct (String.eqb n (r_name r)); simpl; congruence. Qed.
Lemma insert_before_names r dst l : map r_name (insert_before r dst l) = ninsert_before (r_name r) dst (map r_name l).
Proof. induction l as [|x t IH]; simpl; [reflexivity|]. destruct (String.eqb dst (r_name x)); simpl; congruence. Qed.
Lemma replace_rule_names r l : find_rule (r_name r) l <> None -> map r_name (replace_rule r l) = map r_name l.
Proof.
  induction l as [|x t IH]; simpl; [reflexivity|]. destruct (String.eqb (r_name r) (r_name x)) eqn:E.
  - intros _. simpl. apply String.eqb_eq in E. congruence.
  - intros H. simpl. f_equal. apply IH, H.
Qed.
Lemma find_rule_name n l r : find_rule n l = Some r -> r_name r = n.
Proof.
  induction l as [|x t IH]; simpl; [discriminate|]. destruct (String.eqb n (r_name x)) eqn:E; [|exact IH].
  intros H. injection H as <-. apply String.eqb_eq in E. congruence.
Qed.

Definition proj (o : op) : option ncmd :=
  match o with
  | RuleSet r => Some (NSet (r_name r))
  | RuleMove n d => Some (NMove n d)
  | RuleDel n => Some (NDel n)
  | _ => None
  end.

(* the three commands that change the rule sequence act on the names exactly
   like the list model of Panos/Rules.v *)
Theorem rule_commands_on_names v o c v' :
  proj o = Some c -> exec v o = Done v' -> nexec (names v) c = Some (names v').
Proof.
  unfold names. destruct o; simpl; intros P E; try discriminate; injection P as <-.
  - destruct (negb _ || negb _ || negb _)%bool; [discriminate|].
    destruct (find_rule (r_name r) (v_rules v)) eqn:F; [discriminate|]. injection E as <-. simpl.
    apply find_rule_none in F. rewrite F. rewrite map_app. reflexivity.
  - destruct (find_rule name (v_rules v)) as [r|] eqn:F; [|discriminate].
    destruct (find_rule dst (remove_rule name (v_rules v))) eqn:F2; [|discriminate]. injection E as <-. simpl.
    assert (M : mem name (map r_name (v_rules v)) = true) by (apply find_rule_mem; eauto). rewrite M.
    rewrite <- remove_rule_names.
    assert (M2 : mem dst (map r_name (remove_rule name (v_rules v))) = true) by (apply find_rule_mem; eauto). rewrite M2.
    rewrite insert_before_names. rewrite (find_rule_name _ _ _ F). reflexivity.
  - destruct (find_rule name (v_rules v)) eqn:F; [|discriminate]. injection E as <-. simpl.
    assert (M : mem name (map r_name (v_rules v)) = true) by (apply find_rule_mem; eauto). rewrite M.
    rewrite remove_rule_names. reflexivity.
Qed.

(* all other commands leave the sequence of rule names as it is *)
Theorem other_commands_keep_rule_order v o v' :
  proj o = None -> exec v o = Done v' -> names v' = names v.
Proof.
  unfold names. destruct o; simpl; intros P E; try discriminate.
  - destruct (find_rule name (v_rules v)) as [r|] eqn:F; [|discriminate].
    destruct (mem m (get_field f r)); [|discriminate]. injection E as <-. simpl.
    apply replace_rule_names. destruct f; simpl; rewrite (find_rule_name _ _ _ F), F; discriminate.
  - destruct (find_rule name (v_rules v)) as [r|] eqn:F; [|discriminate].
    destruct (field_ok v f ms); [|discriminate]. injection E as <-. simpl.
    apply replace_rule_names. destruct f; simpl; rewrite (find_rule_name _ _ _ F), F; discriminate.
  - destruct (find_rule name (v_rules v)) as [r|] eqn:F; [|discriminate].
    destruct (field_ok v f ms); [|discriminate]. injection E as <-. simpl.
    apply replace_rule_names. destruct f; simpl; rewrite (find_rule_name _ _ _ F), F; discriminate.
  - destruct (has name (v_addr v)); [injection E as <-; reflexivity|]. destruct (has name (v_grp v)); [discriminate|]. injection E as <-. reflexivity.
  - destruct (has name (v_addr v)); [injection E as <-; reflexivity | discriminate].
  - destruct (negb (has name (v_addr v))); [discriminate|]. destruct (addr_used v name); [discriminate|]. injection E as <-. reflexivity.
  - destruct (negb (forallb (plain_addr_ok v) ms)); [discriminate|]. destruct (lookup name (v_grp v)); [injection E as <-; reflexivity|].
    destruct (has name (v_addr v)); [discriminate|]. injection E as <-. reflexivity.
  - destruct (lookup name (v_grp v)); [|discriminate]. destruct (mem m l); [injection E as <-; reflexivity | discriminate].
  - destruct (negb (has name (v_grp v))); [discriminate|]. destruct (existsb _ _); [discriminate|]. injection E as <-. reflexivity.
  - destruct (has name (v_svc v)); [injection E as <-; reflexivity|]. destruct (has name (v_sgrp v)); [discriminate|]. injection E as <-. reflexivity.
  - destruct (has name (v_svc v)); [injection E as <-; reflexivity | discriminate].
  - destruct (negb (has name (v_svc v))); [discriminate|]. destruct (svc_used v name); [discriminate|]. injection E as <-. reflexivity.
  - destruct (negb (forallb (plain_svc_ok v) ms)); [discriminate|]. destruct (lookup name (v_sgrp v)); [injection E as <-; reflexivity|].
    destruct (has name (v_svc v)); [discriminate|]. injection E as <-. reflexivity.
  - destruct (negb (has name (v_sgrp v))); [discriminate|]. destruct (existsb _ _); [discriminate|]. injection E as <-. reflexivity.
Qed.

(* ---- the oracle is equality of the expanded rulebases ---- *)
Lemma strs_eqb_eq a b : strs_eqb a b = true <-> a = b.
Proof.
  revert b; induction a as [|x a IH]; intros [|y b]; simpl; split; try congruence; auto.
  - intros H. apply andb_true_iff in H. destruct H as [H1 H2]. apply String.eqb_eq in H1. apply IH in H2. congruence.
  - intros H. injection H as -> ->. rewrite String.eqb_refl. apply IH. reflexivity.
Qed.
Lemma erule_eqb_eq a b : erule_eqb a b = true <-> a = b.
Proof.
  destruct a as [[[m1 s1] d1] v1], b as [[[m2 s2] d2] v2]. simpl. rewrite !andb_true_iff, !strs_eqb_eq, String.eqb_eq.
  split; [intros [[[-> ->] ->] ->]; reflexivity | intros H; injection H as -> -> -> ->; auto].
Qed.
Lemma sem_eqb_eq a b : sem_eqb a b = true <-> a = b.
Proof.
  revert b; induction a as [|x a IH]; intros [|y b]; simpl; split; try congruence; auto.
  - intros H. apply andb_true_iff in H. destruct H as [H1 H2]. apply erule_eqb_eq in H1. apply IH in H2. congruence.
  - intros H. injection H as -> ->. apply andb_true_iff. split; [apply erule_eqb_eq; reflexivity | apply IH; reflexivity].
Qed.
Theorem equiv_is_equal_semantics a b : equiv a b = true <-> sem a = sem b.
Proof. apply sem_eqb_eq. Qed.
Corollary equiv_refl a : equiv a a = true. Proof. apply equiv_is_equal_semantics. reflexivity. Qed.
Corollary equiv_sym a b : equiv a b = true -> equiv b a = true.
Proof. rewrite !equiv_is_equal_semantics. auto. Qed.
Corollary equiv_trans a b c : equiv a b = true -> equiv b c = true -> equiv a c = true.
Proof. rewrite !equiv_is_equal_semantics. congruence. Qed.

(* renaming a rule does not matter to the oracle; its members do *)
Lemma expand_rule_name_irrelevant v r n :
  expand_rule v {| r_name := n; r_misc := r_misc r; r_src := r_src r; r_dst := r_dst r; r_srv := r_srv r |} = expand_rule v r.
Proof. reflexivity. Qed.
