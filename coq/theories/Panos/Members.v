(* Panos/Members.v — equalising the members of an address-group incrementally:
   one delete per member the target does not have, then one set with the new
   members.  For all member lists the commands are accepted and the group then
   holds exactly the target's members (as a set). *)
From Coq Require Import List String Bool Arith Lia.
From NA Require Import Base.Str Panos.Device Nsx.Proofs.
Import ListNotations.
Open Scope string_scope.

Fixpoint run_ops (v : vsys) (ops : list op) : option vsys :=
  match ops with
  | [] => Some v
  | o :: r => match exec v o with Done v' => run_ops v' r | Refused _ => None end
  end.

Lemma lookup_replace_key {A} k (x : A) l : has k l = true -> lookup k (replace_key k x l) = Some x.
Proof.
  unfold has. induction l as [|[k' v'] r IH]; simpl; [discriminate|]. destruct (String.eqb k k') eqn:E; simpl.
  - rewrite String.eqb_refl. reflexivity.
  - rewrite E. exact IH.
Qed.
Lemma has_replace_key {A} k (x : A) l : has k l = true -> has k (replace_key k x l) = true.
Proof. intros H. unfold has. rewrite (lookup_replace_key k x l H). reflexivity. Qed.

Lemma remove_str_in x y l : In x (remove_str y l) -> In x l.
Proof.
  induction l as [|z r IH]; simpl; [auto|]. destruct (String.eqb y z); [auto|]. intros [H|H]; [left; exact H | right; apply IH, H].
Qed.
Lemma remove_str_other x y l : x <> y -> In x l -> In x (remove_str y l).
Proof.
  intros NE. induction l as [|z r IH]; simpl; [auto|]. destruct (String.eqb y z) eqn:E.
  - apply String.eqb_eq in E. subst z. intros [H|H]; [congruence | exact H].
  - intros [H|H]; [left; exact H | right; apply IH, H].
Qed.
Lemma remove_str_gone y l : NoDup l -> ~ In y (remove_str y l).
Proof.
  induction l as [|z r IH]; simpl; [auto|]. intros ND. inversion ND as [|? ? NI ND']; subst. destruct (String.eqb y z) eqn:E.
  - apply String.eqb_eq in E. subst z. exact NI.
  - intros [H|H]; [subst z; rewrite String.eqb_refl in E; discriminate | apply (IH ND' H)].
Qed.
Lemma remove_str_nodup y l : NoDup l -> NoDup (remove_str y l).
Proof.
  induction l as [|z r IH]; simpl; [auto|]. intros ND. inversion ND as [|? ? NI ND']; subst. destruct (String.eqb y z); [exact ND'|].
  constructor; [intros H; apply NI, (remove_str_in _ _ _ H) | apply IH, ND'].
Qed.

(* deleting members one by one *)
Lemma run_member_dels g : forall dels v old, lookup g (v_grp v) = Some old -> NoDup old -> NoDup dels -> (forall x, In x dels -> In x old) ->
  exists v', run_ops v (map (GrpMemberDel g) dels) = Some v' /\ v_addr v' = v_addr v /\
             exists cur, lookup g (v_grp v') = Some cur /\ NoDup cur /\ forall x, In x cur <-> (In x old /\ ~ In x dels).
Proof.
  induction dels as [|d r IH]; intros v old L ND NDd Sub.
  - exists v. split; [reflexivity|]. split; [reflexivity|]. exists old. split; [exact L|]. split; [exact ND|]. intros x. tauto.
  - cbn [map run_ops exec]. rewrite L. assert (M : mem d old = true) by (apply mem_in, Sub; left; reflexivity). rewrite M.
    apply NoDup_cons_iff in NDd. destruct NDd as [NId NDr].
    assert (H : has g (v_grp v) = true) by (unfold has; rewrite L; reflexivity).
    destruct (IH (with_grp v (replace_key g (remove_str d old) (v_grp v))) (remove_str d old)) as (v' & R & A & cur & Lc & NDc & Hc).
    + cbn [v_grp with_grp]. apply lookup_replace_key, H.
    + apply remove_str_nodup, ND.
    + exact NDr.
    + intros x Hx. apply remove_str_other; [intros ->; contradiction | apply Sub; right; exact Hx].
    + exists v'. split; [exact R|]. split; [exact A|]. exists cur. split; [exact Lc|]. split; [exact NDc|]. intros x. rewrite Hc. split.
      * intros [H1 H2]. split; [apply (remove_str_in _ _ _ H1)|]. intros [E|H3]; [subst x; apply (remove_str_gone d old ND H1) | contradiction].
      * intros [H1 H2]. split; [apply remove_str_other; [intros E; apply H2; left; symmetry; exact E | exact H1] | intros H3; apply H2; right; exact H3].
Qed.

Fixpoint dedup_l (l : list string) : list string :=
  match l with [] => [] | x :: r => if mem x r then dedup_l r else x :: dedup_l r end.

(* the incremental plan of hasEqualizedLists for one group *)
Definition member_plan (g : string) (old new : list string) : list op :=
  (map (GrpMemberDel g) (to_remove old new) ++ [GrpSet g (to_add old new)])%list.

Lemma filter_nodup {A} (f : A -> bool) l : NoDup l -> NoDup (filter f l).
Proof.
  induction l as [|x r IH]; intros ND; [constructor|]. inversion ND as [|? ? NI ND']; subst. simpl.
  destruct (f x); [constructor; [intros H; apply NI; apply filter_In in H; apply H | apply IH, ND'] | apply IH, ND'].
Qed.

Theorem member_plan_converges_proved v g old new :
  lookup g (v_grp v) = Some old -> NoDup old ->
  forallb (plain_addr_ok v) new = true ->
  exists v' cur, run_ops v (member_plan g old new) = Some v' /\ lookup g (v_grp v') = Some cur /\ forall x, In x cur <-> In x new.
Proof.
  intros L ND OK. unfold member_plan.
  destruct (run_member_dels g (to_remove old new) v old L ND) as (v1 & R1 & A1 & cur1 & L1 & ND1 & H1).
  { unfold to_remove. apply filter_nodup, ND. }
  { intros x Hx. unfold to_remove in Hx. apply filter_In in Hx. apply Hx. }
  assert (RUN : forall v0 a b v1, run_ops v0 a = Some v1 -> run_ops v0 (a ++ b) = run_ops v1 b).
  { intros v0 a. revert v0. induction a as [|o r IHa]; intros v0 b v2 H; cbn [run_ops List.app] in *; [injection H as <-; reflexivity|].
    destruct (exec v0 o); [apply IHa, H | discriminate]. }
  rewrite (RUN _ _ _ _ R1). cbn [run_ops exec].
  assert (OK1 : forallb (plain_addr_ok v1) (to_add old new) = true).
  { apply forallb_forall. intros x Hx. unfold to_add in Hx. apply filter_In in Hx. destruct Hx as [Hx _].
    rewrite forallb_forall in OK. specialize (OK x Hx). unfold plain_addr_ok in *. rewrite A1. exact OK. }
  rewrite OK1. cbn [negb]. rewrite L1.
  eexists. eexists. split; [reflexivity|]. cbn [v_grp with_grp].
  assert (H : has g (v_grp v1) = true) by (unfold has; rewrite L1; reflexivity).
  split; [apply lookup_replace_key, H|].
  intros x. unfold merge_members. rewrite in_app_iff, filter_In. rewrite H1. unfold to_remove, to_add. rewrite !filter_In. split.
  - intros [[Io Hn] | [[In_ _] _]]; [|exact In_]. destruct (mem x new) eqn:M; [apply mem_in, M|]. exfalso. apply Hn. split; [exact Io | try rewrite M; reflexivity].
  - intros I. destruct (mem x old) eqn:M.
    + left. apply mem_in in M. split; [exact M|]. intros [_ Hn]. assert (Y : mem x new = true) by (apply mem_in, I). rewrite Y in Hn. discriminate.
    + right. split; [split; [exact I | try rewrite M; reflexivity]|].
      destruct (mem x cur1) eqn:Mc; [|reflexivity]. apply mem_in in Mc. apply H1 in Mc. destruct Mc as [Mo _]. apply mem_in in Mo. congruence.
Qed.
