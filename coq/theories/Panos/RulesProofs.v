(* Panos/RulesProofs.v — the commands planned by diffRules put the rules into
   the order the edit script describes. *)
From Coq Require Import List String Bool Arith Lia Permutation.
From NA Require Import Base.Str Panos.Device Panos.Rules.
Import ListNotations.
Open Scope string_scope.

Lemma mem_in x l : mem x l = true <-> In x l.
Proof.
  unfold mem. rewrite existsb_exists. split.
  - intros (y & I & E). apply String.eqb_eq in E. subst. exact I.
  - intros I. exists x. split; [exact I | apply String.eqb_refl].
Qed.
Lemma mem_false x l : ~ In x l -> mem x l = false.
Proof. intros H. destruct (mem x l) eqn:E; [apply mem_in in E; contradiction | reflexivity]. Qed.

Lemma nremove_notin_l n P X : ~ In n P -> nremove n (P ++ X) = (P ++ nremove n X)%list.
Proof.
  induction P as [|p P IH]; intros H; [reflexivity|]. simpl.
  destruct (String.eqb n p) eqn:E; [apply String.eqb_eq in E; subst; exfalso; apply H; left; reflexivity|].
  rewrite IH; [reflexivity|]. intros I. apply H. right. exact I.
Qed.
Lemma nremove_hd n X : nremove n (n :: X) = X.
Proof. simpl. rewrite String.eqb_refl. reflexivity. Qed.

(* ---- deletions ---- *)
Fixpoint kept (s : list rng) (X : list string) : list string :=
  match s with
  | [] => X
  | Keep n :: r => (firstn n X ++ kept r (skipn n X))%list
  | Del n :: r => kept r (skipn n X)
  | Ins _ :: r => kept r X
  end.

Lemma run_dels P X n : NoDup (P ++ X) -> nrun (P ++ X) (map NDel (firstn n X)) = Some (P ++ skipn n X)%list.
Proof.
  revert X. induction n as [|n IH]; intros X ND; [reflexivity|]. destruct X as [|x X]; [reflexivity|].
  cbn [firstn map nrun nexec skipn].
  assert (I : mem x (P ++ x :: X) = true) by (apply mem_in, in_or_app; right; left; reflexivity). rewrite I.
  assert (NP : ~ In x P).
  { intros H. apply NoDup_remove_2 in ND. apply ND. apply in_or_app. left. exact H. }
  rewrite nremove_notin_l by exact NP. rewrite nremove_hd. apply IH. apply NoDup_remove_1 in ND. exact ND.
Qed.

Lemma nrun_app l c1 c2 l1 : nrun l c1 = Some l1 -> nrun l (c1 ++ c2) = nrun l1 c2.
Proof.
  revert l. induction c1 as [|c r IH]; intros l H; simpl in *; [injection H as <-; reflexivity|].
  destruct (nexec l c); [apply IH, H | discriminate].
Qed.

Lemma skipn_skipn_add {A} (l : list A) a b : skipn a (skipn b l) = skipn (b + a) l.
Proof. revert l; induction b as [|b IH]; intros l; [reflexivity|]. destruct l; [destruct a; reflexivity | apply IH]. Qed.

Lemma deletes_ok s : forall Aall pos d P,
  NoDup (P ++ skipn pos Aall) ->
  nrun (P ++ skipn pos Aall) (fst (plan_go s Aall pos d)) = Some (P ++ kept s (skipn pos Aall))%list.
Proof.
  induction s as [|[n|n|bs] r IH]; intros Aall pos d P ND; cbn [plan_go kept].
  - reflexivity.
  - set (X := skipn pos Aall) in *. specialize (IH Aall (pos + n) d (P ++ firstn n X)%list).
    rewrite <- (skipn_skipn_add Aall n pos) in IH. fold X in IH. rewrite <- !app_assoc in IH. rewrite firstn_skipn in IH. apply IH, ND.
  - set (X := skipn pos Aall) in *. destruct (plan_go r Aall (pos + n) (pos + n)) as [now later] eqn:E. cbn [fst].
    rewrite (nrun_app _ _ _ _ (run_dels P X n ND)).
    specialize (IH Aall (pos + n) (pos + n) P). rewrite E in IH. cbn [fst] in IH.
    rewrite <- (skipn_skipn_add Aall n pos) in IH. fold X in IH. apply IH.
    rewrite <- (firstn_skipn n X) in ND. clear -ND. revert ND. generalize (skipn n X) as S0. generalize (firstn n X) as F.
    intros F S0. induction F as [|f F IHF]; intros ND; [exact ND|]. apply IHF.
    change (P ++ (f :: F) ++ S0)%list with (P ++ f :: (F ++ S0))%list in ND. apply NoDup_remove_1 in ND. exact ND.
  - destruct (plan_go r Aall pos d) as [now later] eqn:E. cbn [fst]. specialize (IH Aall pos d P ND). rewrite E in IH. exact IH.
Qed.

(* ---- deferred insertions ---- *)
Fixpoint blocks (s : list rng) (X : list string) : list (option string * list string) :=
  match s with
  | [] => []
  | Keep n :: r => blocks r (skipn n X)
  | Del n :: r => blocks r (skipn n X)
  | Ins bs :: r => (hd_error X, bs) :: blocks r X
  end.

Lemma nth_error_skipn_hd {A} (l : list A) n : nth_error l n = hd_error (skipn n l).
Proof. revert l; induction n as [|n IH]; intros [|x l]; simpl; auto. Qed.

Lemma blocks_ok s : forall Aall pos d, d <= pos -> snd (plan_go s Aall pos d) = blocks s (skipn pos Aall).
Proof.
  induction s as [|[n|n|bs] r IH]; intros Aall pos d L; cbn [plan_go blocks].
  - reflexivity.
  - rewrite skipn_skipn_add. apply IH. lia.
  - destruct (plan_go r Aall (pos + n) (pos + n)) as [now later] eqn:E. cbn [snd].
    rewrite skipn_skipn_add. specialize (IH Aall (pos + n) (pos + n) (Nat.le_refl _)). rewrite E in IH. exact IH.
  - destruct (plan_go r Aall pos d) as [now later] eqn:E. cbn [snd].
    rewrite Nat.max_l by exact L. rewrite nth_error_skipn_hd. f_equal. specialize (IH Aall pos d L). rewrite E in IH. exact IH.
Qed.

Lemma run_sets P bs : NoDup (P ++ bs) -> nrun P (map NSet bs) = Some (P ++ bs)%list.
Proof.
  revert P. induction bs as [|b bs IH]; intros P ND; [rewrite app_nil_r; reflexivity|].
  cbn [map nrun nexec]. rewrite mem_false.
  - specialize (IH (P ++ [b])%list). rewrite <- app_assoc in IH. apply IH. exact ND.
  - intros H. apply NoDup_remove_2 in ND. apply ND, in_or_app. left. exact H.
Qed.

Lemma ninsert_before_spec n a P K : ~ In a P -> ninsert_before n a (P ++ a :: K) = (P ++ n :: a :: K)%list.
Proof.
  induction P as [|p P IH]; intros H; simpl; [rewrite String.eqb_refl; reflexivity|].
  destruct (String.eqb a p) eqn:E; [apply String.eqb_eq in E; subst; exfalso; apply H; left; reflexivity|].
  rewrite IH; [reflexivity|]. intros I. apply H. right. exact I.
Qed.

(* set b, move b before a: b ends up directly in front of a *)
Lemma run_block_some a : forall bs P K, NoDup (P ++ a :: K ++ bs) ->
  nrun (P ++ a :: K) (flat_map (fun n => [NSet n; NMove n a]) bs) = Some (P ++ bs ++ a :: K)%list.
Proof.
  induction bs as [|b bs IH]; intros P K ND; [reflexivity|].
  cbn [flat_map List.app nrun nexec].
  assert (NB : ~ In b (P ++ a :: K)).
  { intros H. assert (EQ : (P ++ a :: K ++ b :: bs)%list = ((P ++ a :: K) ++ b :: bs)%list) by (rewrite <- app_assoc; reflexivity).
    rewrite EQ in ND. apply NoDup_remove_2 in ND. apply ND, in_or_app. left. exact H. }
  rewrite (mem_false _ _ NB).
  assert (IB : mem b ((P ++ a :: K) ++ [b]) = true) by (apply mem_in, in_or_app; right; left; reflexivity). rewrite IB.
  rewrite nremove_notin_l by exact NB. cbn [nremove]. rewrite String.eqb_refl. rewrite app_nil_r.
  assert (IA : mem a (P ++ a :: K) = true) by (apply mem_in, in_or_app; right; left; reflexivity). rewrite IA.
  assert (NA : ~ In a P).
  { intros H. apply NoDup_remove_2 in ND. apply ND, in_or_app. left. exact H. }
  rewrite ninsert_before_spec by exact NA.
  specialize (IH (P ++ [b])%list K). rewrite <- !app_assoc in IH. cbn [List.app] in IH. apply IH.
  (* NoDup (P ++ b :: a :: K ++ bs) from NoDup (P ++ a :: K ++ b :: bs) *)
  eapply Permutation_NoDup; [|exact ND]. apply Permutation_app_head.
  change (a :: K ++ b :: bs)%list with ((a :: K) ++ b :: bs)%list. change (b :: a :: K ++ bs)%list with (b :: (a :: K) ++ bs)%list.
  apply Permutation_sym, Permutation_middle.
Qed.

Lemma kept_nil s : kept s [] = [].
Proof. induction s as [|[n|n|bs] r IH]; cbn [kept]; rewrite ?firstn_nil, ?skipn_nil; auto. Qed.

Lemma block_cmds_some a bs : block_cmds (Some a, bs) = flat_map (fun n => [NSet n; NMove n a]) bs.
Proof. reflexivity. Qed.
Lemma block_cmds_none bs : block_cmds (None, bs) = map NSet bs.
Proof. unfold block_cmds. cbn [fst snd]. induction bs as [|b bs IH]; [reflexivity|]. cbn [flat_map map List.app]. rewrite IH. reflexivity. Qed.

Lemma NoDup_drop_mid {A} (P F S0 : list A) : NoDup (P ++ (F ++ S0)) -> NoDup (P ++ S0).
Proof.
  induction F as [|f F IHF]; intros ND; [exact ND|]. apply IHF.
  change (P ++ (f :: F) ++ S0)%list with (P ++ f :: (F ++ S0))%list in ND. apply NoDup_remove_1 in ND. exact ND.
Qed.

Lemma NoDup_app_l {A} (l r : list A) : NoDup (l ++ r) -> NoDup l.
Proof.
  induction l as [|x l IH]; intros H; [constructor|]. inversion H as [|? ? NI ND]; subst.
  constructor; [intros I; apply NI, in_or_app; left; exact I | apply IH, ND].
Qed.

Lemma NoDup_kept s : forall X P R, NoDup (P ++ X ++ R) -> NoDup (P ++ kept s X ++ R).
Proof.
  induction s as [|[n|n|bs] r IH]; intros X P R ND; cbn [kept].
  - exact ND.
  - rewrite <- (firstn_skipn n X) in ND. rewrite <- app_assoc in ND. rewrite app_assoc in ND.
    apply IH in ND. rewrite <- !app_assoc in ND. rewrite <- app_assoc. exact ND.
  - rewrite <- (firstn_skipn n X) in ND. rewrite <- app_assoc in ND. apply NoDup_drop_mid in ND. apply IH, ND.
  - apply IH, ND.
Qed.

Lemma inserts_ok s : forall X P, NoDup (P ++ X ++ inserted s) -> normal s = true -> consumed s = List.length X ->
  nrun (P ++ kept s X) (flat_map block_cmds (blocks s X)) = Some (P ++ spec s X)%list.
Proof.
  induction s as [|[n|n|bs] r IH]; intros X P ND NF CO.
  - reflexivity.
  - cbn [kept blocks spec]. cbn [consumed] in CO. destruct n as [|n]; [discriminate NF|].
    assert (NF' : normal r = true) by (destruct r as [|[|[]|] ?]; exact NF || reflexivity).
    rewrite !app_assoc. apply IH; [|exact NF'|].
    + cbn [inserted] in ND. rewrite <- app_assoc. rewrite (app_assoc (firstn (S n) X)). rewrite firstn_skipn. exact ND.
    + rewrite skipn_length. lia.
  - cbn [kept blocks spec]. cbn [consumed] in CO.
    assert (NF' : normal r = true) by (destruct r as [|[|[]|] ?]; exact NF || reflexivity).
    apply IH; [|exact NF'|rewrite skipn_length; lia].
    cbn [inserted] in ND. rewrite <- (firstn_skipn n X) in ND. revert ND. generalize (skipn n X) as S0. generalize (firstn n X) as F.
    intros F S0. induction F as [|f F IHF]; intros ND; [exact ND|]. apply IHF.
    change (P ++ ((f :: F) ++ S0) ++ inserted r)%list with (P ++ f :: ((F ++ S0) ++ inserted r))%list in ND. apply NoDup_remove_1 in ND. exact ND.
  - cbn [kept blocks spec inserted consumed flat_map] in *.
    destruct X as [|a X1].
    + (* at the end of the rulebase *)
      destruct r as [|[m|m|bs2] r'].
      * cbn [blocks flat_map kept spec List.app] in *. rewrite !app_nil_r in *. rewrite block_cmds_none. apply run_sets. exact ND.
      * destruct m; [discriminate NF|]. cbn [consumed] in CO. simpl in CO. lia.
      * discriminate NF.
      * discriminate NF.
    + destruct r as [|[m|m|bs2] r']; [simpl in CO; lia | | discriminate NF | discriminate NF].
      destruct m as [|m]; [discriminate NF|].
      cbn [hd_error]. rewrite block_cmds_some.
      assert (KS : kept (Keep (S m) :: r') (a :: X1) = a :: (firstn m X1 ++ kept r' (skipn m X1))%list) by reflexivity.
      rewrite KS.
      assert (NDk : NoDup (P ++ a :: (firstn m X1 ++ kept r' (skipn m X1)) ++ bs)).
      { assert (ND1 : NoDup (P ++ (a :: X1) ++ bs)).
        { rewrite !app_assoc in ND. apply NoDup_app_l in ND. rewrite <- !app_assoc in ND. exact ND. }
        pose proof (NoDup_kept (Keep (S m) :: r') (a :: X1) P bs ND1) as H. rewrite KS in H. exact H. }
      rewrite (nrun_app _ _ _ _ (run_block_some a bs P _ NDk)).
      rewrite <- KS. rewrite app_assoc. rewrite (app_assoc P bs). apply IH; [|exact NF|exact CO].
      eapply Permutation_NoDup; [|exact ND]. rewrite <- app_assoc. apply Permutation_app_head.
      rewrite !app_assoc. apply Permutation_app_tail. apply Permutation_app_comm.
Qed.

(* the whole plan: deletions at once, then every inserted rule appended and
   moved before the next surviving rule *)
Theorem rule_order_proved s A :
  NoDup (A ++ inserted s) -> normal s = true -> consumed s = List.length A ->
  nrun A (plan s A) = Some (spec s A).
Proof.
  intros ND NF CO. unfold plan. destruct (plan_go s A 0 0) as [now later] eqn:E.
  pose proof (deletes_ok s A 0 0 [] (NoDup_app_l _ _ ND)) as D. rewrite E in D. cbn [fst List.app skipn] in D.
  rewrite (nrun_app _ _ _ _ D).
  pose proof (blocks_ok s A 0 0 (Nat.le_refl 0)) as B. rewrite E in B. cbn [snd skipn] in B. rewrite B.
  apply (inserts_ok s A []); assumption.
Qed.

(* nothing is refused on the way: every prefix of the plan is accepted *)
Corollary rule_plan_accepted s A :
  NoDup (A ++ inserted s) -> normal s = true -> consumed s = List.length A -> nrun A (plan s A) <> None.
Proof. intros H1 H2 H3. rewrite (rule_order_proved s A H1 H2 H3). discriminate. Qed.

Example rule_order_example :
  let s := [Keep 1; Del 2; Ins ["x"; "y"]; Keep 1; Ins ["z"]] in
  let A := ["a"; "b"; "c"; "d"] in
  normal s = true /\ consumed s = List.length A /\ nrun A (plan s A) = Some ["a"; "x"; "y"; "d"; "z"].
Proof. vm_compute. repeat split; reflexivity. Qed.
