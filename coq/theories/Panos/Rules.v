(* Panos/Rules.v — the position logic of panos/diff.go diffRules on rule names:
   deletions at once, insertions deferred, every inserted rule appended with
   `set` and moved before the next surviving rule of the device.  For every
   edit script in the normal form that the Myers library guarantees (a deletion
   never directly follows an insertion) the resulting order is the intended one. *)
From Coq Require Import List String Bool Arith Lia.
From NA Require Import Base.Str Panos.Device.
Import ListNotations.
Open Scope string_scope.

Inductive rng := Keep (n : nat) | Del (n : nat) | Ins (bs : list string).

(* the order the script describes *)
Fixpoint spec (s : list rng) (A : list string) : list string :=
  match s with
  | [] => A
  | Keep n :: r => (firstn n A ++ spec r (skipn n A))%list
  | Del n :: r => spec r (skipn n A)
  | Ins bs :: r => (bs ++ spec r A)%list
  end.

Inductive ncmd := NDel (n : string) | NSet (n : string) | NMove (n dst : string).

(* diffRules: pos = r.LowA, del_idx = index behind the last deleted rule *)
Fixpoint plan_go (s : list rng) (Aall : list string) (pos del_idx : nat)
  : list ncmd * list (option string * list string) :=
  match s with
  | [] => ([], [])
  | Keep n :: r => plan_go r Aall (pos + n) del_idx
  | Del n :: r =>
      let (now, later) := plan_go r Aall (pos + n) (pos + n) in
      ((map NDel (firstn n (skipn pos Aall)) ++ now)%list, later)
  | Ins bs :: r =>
      let a_pos := Nat.max pos del_idx in
      let (now, later) := plan_go r Aall pos del_idx in
      (now, (nth_error Aall a_pos, bs) :: later)
  end.
Definition block_cmds (b : option string * list string) : list ncmd :=
  flat_map (fun n => NSet n :: match fst b with Some a => [NMove n a] | None => [] end) (snd b).
Definition plan (s : list rng) (A : list string) : list ncmd :=
  let (now, later) := plan_go s A 0 0 in (now ++ flat_map block_cmds later)%list.

(* the device on names (the list functions of Panos/Device.v on rules, here on strings) *)
Fixpoint nremove (n : string) (l : list string) : list string :=
  match l with [] => [] | x :: t => if String.eqb n x then t else x :: nremove n t end.
Fixpoint ninsert_before (n dst : string) (l : list string) : list string :=
  match l with [] => [] | x :: t => if String.eqb dst x then n :: x :: t else x :: ninsert_before n dst t end.
Definition nexec (l : list string) (c : ncmd) : option (list string) :=
  match c with
  | NDel n => if mem n l then Some (nremove n l) else None
  | NSet n => if mem n l then None else Some (l ++ [n])%list
  | NMove n dst => if mem n l then let rest := nremove n l in if mem dst rest then Some (ninsert_before n dst rest) else None else None
  end.
Fixpoint nrun (l : list string) (cs : list ncmd) : option (list string) :=
  match cs with [] => Some l | c :: r => match nexec l c with Some l' => nrun l' r | None => None end end.

Fixpoint normal (s : list rng) : bool :=
  match s with
  | Ins _ :: Del _ :: _ => false
  | Ins _ :: Ins _ :: _ => false
  | Keep 0 :: _ => false
  | _ :: r => normal r
  | [] => true
  end.
Fixpoint consumed (s : list rng) : nat :=
  match s with [] => 0 | Keep n :: r => n + consumed r | Del n :: r => n + consumed r | Ins _ :: r => consumed r end.
Fixpoint inserted (s : list rng) : list string :=
  match s with [] => [] | Ins bs :: r => (bs ++ inserted r)%list | _ :: r => inserted r end.
