(* Panos/Device.v — candidate configuration of one PAN-OS vsys and the XML-API
   commands that drc emits (set = merge / create, edit = replace, delete, move
   before), with strict checks: an object must exist where it is referenced,
   an object that is still referenced cannot be deleted, names are unique.
   Executable; the property predicates are in Panos/Oracle.v. *)
From Coq Require Import List String Bool Arith.
From NA Require Import Base.Str.
Import ListNotations.
Open Scope string_scope.

Inductive field := FSrc | FDst | FSrv.

Record rule := { r_name : string; r_misc : string;       (* action, zones, application, log, type, other attributes: canonical text *)
                 r_src : list string; r_dst : list string; r_srv : list string }.

Record vsys := { v_rules : list rule;
                 v_addr : list (string * string);          (* name -> canonical value *)
                 v_grp : list (string * list string);      (* address-group -> members *)
                 v_svc : list (string * string);           (* service -> canonical definition *)
                 v_sgrp : list (string * list string) }.   (* service-group -> members *)

Inductive op :=
| RuleSet (r : rule)                                   (* set .../rules/entry[@name]  element = whole rule *)
| RuleMove (name dst : string)                         (* move ... where=before dst *)
| RuleDel (name : string)
| RuleMemberDel (name : string) (f : field) (m : string)
| RuleMemberAdd (name : string) (f : field) (ms : list string)   (* set .../source  element = members *)
| RuleListEdit (name : string) (f : field) (ms : list string)    (* edit .../source element = <source>members</source> *)
| AddrSet (name value : string) | AddrEdit (name value : string) | AddrDel (name : string)
| GrpSet (name : string) (ms : list string)            (* set .../address-group/entry[@name]/static  element = members *)
| GrpMemberDel (name m : string) | GrpDel (name : string)
| SvcSet (name value : string) | SvcEdit (name value : string) | SvcDel (name : string)
| SGrpSet (name : string) (ms : list string) | SGrpDel (name : string).

(* why a command is refused: 1 unknown object referenced, 2 object still referenced,
   3 no such entry, 4 entry exists already, 5 member not present, 6 move target missing *)
Inductive outcome := Done (v : vsys) | Refused (why : nat).

Definition mem (x : string) (l : list string) : bool := existsb (String.eqb x) l.
Fixpoint lookup {A} (k : string) (l : list (string * A)) : option A :=
  match l with [] => None | (k', v) :: r => if String.eqb k k' then Some v else lookup k r end.
Fixpoint remove_key {A} (k : string) (l : list (string * A)) : list (string * A) :=
  match l with [] => [] | (k', v) :: r => if String.eqb k k' then r else (k', v) :: remove_key k r end.
Fixpoint replace_key {A} (k : string) (v : A) (l : list (string * A)) : list (string * A) :=
  match l with [] => [] | (k', v') :: r => if String.eqb k k' then (k, v) :: r else (k', v') :: replace_key k v r end.
Definition has {A} (k : string) (l : list (string * A)) : bool := match lookup k l with Some _ => true | None => false end.

(* names that need no definition in the vsys: keywords and objects of <shared> *)
Definition builtin (n : string) : bool := mem n ["any"; "application-default"].

Definition addr_ref_ok (v : vsys) (n : string) : bool := (builtin n || has n (v_addr v) || has n (v_grp v))%bool.
Definition plain_addr_ok (v : vsys) (n : string) : bool := has n (v_addr v).
Definition svc_ref_ok (v : vsys) (n : string) : bool := (builtin n || has n (v_svc v) || has n (v_sgrp v))%bool.
Definition plain_svc_ok (v : vsys) (n : string) : bool := has n (v_svc v).

Definition get_field (f : field) (r : rule) : list string :=
  match f with FSrc => r_src r | FDst => r_dst r | FSrv => r_srv r end.
Definition set_field (f : field) (r : rule) (l : list string) : rule :=
  match f with
  | FSrc => {| r_name := r_name r; r_misc := r_misc r; r_src := l; r_dst := r_dst r; r_srv := r_srv r |}
  | FDst => {| r_name := r_name r; r_misc := r_misc r; r_src := r_src r; r_dst := l; r_srv := r_srv r |}
  | FSrv => {| r_name := r_name r; r_misc := r_misc r; r_src := r_src r; r_dst := r_dst r; r_srv := l |}
  end.
Definition field_ok (v : vsys) (f : field) (l : list string) : bool :=
  match f with FSrv => forallb (svc_ref_ok v) l | _ => forallb (addr_ref_ok v) l end.

Fixpoint find_rule (n : string) (l : list rule) : option rule :=
  match l with [] => None | r :: t => if String.eqb n (r_name r) then Some r else find_rule n t end.
Fixpoint remove_rule (n : string) (l : list rule) : list rule :=
  match l with [] => [] | r :: t => if String.eqb n (r_name r) then t else r :: remove_rule n t end.
Fixpoint replace_rule (r' : rule) (l : list rule) : list rule :=
  match l with [] => [] | r :: t => if String.eqb (r_name r') (r_name r) then r' :: t else r :: replace_rule r' t end.
Fixpoint insert_before (r' : rule) (dst : string) (l : list rule) : list rule :=
  match l with [] => [] | r :: t => if String.eqb dst (r_name r) then r' :: r :: t else r :: insert_before r' dst t end.

Definition with_rules (v : vsys) (l : list rule) : vsys :=
  {| v_rules := l; v_addr := v_addr v; v_grp := v_grp v; v_svc := v_svc v; v_sgrp := v_sgrp v |}.
Definition with_addr (v : vsys) l : vsys :=
  {| v_rules := v_rules v; v_addr := l; v_grp := v_grp v; v_svc := v_svc v; v_sgrp := v_sgrp v |}.
Definition with_grp (v : vsys) l : vsys :=
  {| v_rules := v_rules v; v_addr := v_addr v; v_grp := l; v_svc := v_svc v; v_sgrp := v_sgrp v |}.
Definition with_svc (v : vsys) l : vsys :=
  {| v_rules := v_rules v; v_addr := v_addr v; v_grp := v_grp v; v_svc := l; v_sgrp := v_sgrp v |}.
Definition with_sgrp (v : vsys) l : vsys :=
  {| v_rules := v_rules v; v_addr := v_addr v; v_grp := v_grp v; v_svc := v_svc v; v_sgrp := l |}.

(* is the address object / group used by a rule or (for addresses) by a group *)
Definition addr_used (v : vsys) (n : string) : bool :=
  (existsb (fun r => (mem n (r_src r) || mem n (r_dst r))%bool) (v_rules v)
   || existsb (fun g : string * list string => mem n (snd g)) (v_grp v))%bool.
Definition svc_used (v : vsys) (n : string) : bool :=
  (existsb (fun r => mem n (r_srv r)) (v_rules v)
   || existsb (fun g : string * list string => mem n (snd g)) (v_sgrp v))%bool.

Fixpoint remove_str (x : string) (l : list string) : list string :=
  match l with [] => [] | y :: r => if String.eqb x y then r else y :: remove_str x r end.
(* merge: members that are new are appended *)
Definition merge_members (old new : list string) : list string :=
  (old ++ filter (fun m => negb (mem m old)) new)%list.

Definition exec (v : vsys) (o : op) : outcome :=
  match o with
  | RuleSet r =>
      if (negb (forallb (addr_ref_ok v) (r_src r)) || negb (forallb (addr_ref_ok v) (r_dst r)) || negb (forallb (svc_ref_ok v) (r_srv r)))%bool
      then Refused 1
      else match find_rule (r_name r) (v_rules v) with
           | Some _ => Refused 4
           | None => Done (with_rules v (v_rules v ++ [r])%list)
           end
  | RuleMove n dst =>
      match find_rule n (v_rules v) with
      | None => Refused 3
      | Some r =>
          let rest := remove_rule n (v_rules v) in
          match find_rule dst rest with
          | None => Refused 6
          | Some _ => Done (with_rules v (insert_before r dst rest))
          end
      end
  | RuleDel n =>
      match find_rule n (v_rules v) with
      | None => Refused 3
      | Some _ => Done (with_rules v (remove_rule n (v_rules v)))
      end
  | RuleMemberDel n f m =>
      match find_rule n (v_rules v) with
      | None => Refused 3
      | Some r => if mem m (get_field f r)
                  then Done (with_rules v (replace_rule (set_field f r (remove_str m (get_field f r))) (v_rules v)))
                  else Refused 5
      end
  | RuleMemberAdd n f ms =>
      match find_rule n (v_rules v) with
      | None => Refused 3
      | Some r => if field_ok v f ms
                  then Done (with_rules v (replace_rule (set_field f r (merge_members (get_field f r) ms)) (v_rules v)))
                  else Refused 1
      end
  | RuleListEdit n f ms =>
      match find_rule n (v_rules v) with
      | None => Refused 3
      | Some r => if field_ok v f ms
                  then Done (with_rules v (replace_rule (set_field f r ms) (v_rules v)))
                  else Refused 1
      end
  | AddrSet n val =>
      if has n (v_addr v) then Done (with_addr v (replace_key n val (v_addr v)))     (* set on an existing entry merges its leaves *)
      else if has n (v_grp v) then Refused 4
      else Done (with_addr v (v_addr v ++ [(n, val)])%list)
  | AddrEdit n val =>
      if has n (v_addr v) then Done (with_addr v (replace_key n val (v_addr v))) else Refused 3
  | AddrDel n =>
      if negb (has n (v_addr v)) then Refused 3
      else if addr_used v n then Refused 2
      else Done (with_addr v (remove_key n (v_addr v)))
  | GrpSet n ms =>
      if negb (forallb (plain_addr_ok v) ms) then Refused 1
      else match lookup n (v_grp v) with
           | Some old => Done (with_grp v (replace_key n (merge_members old ms) (v_grp v)))
           | None => if has n (v_addr v) then Refused 4 else Done (with_grp v (v_grp v ++ [(n, ms)])%list)
           end
  | GrpMemberDel n m =>
      match lookup n (v_grp v) with
      | None => Refused 3
      | Some old => if mem m old then Done (with_grp v (replace_key n (remove_str m old) (v_grp v))) else Refused 5
      end
  | GrpDel n =>
      if negb (has n (v_grp v)) then Refused 3
      else if existsb (fun r => (mem n (r_src r) || mem n (r_dst r))%bool) (v_rules v) then Refused 2
      else Done (with_grp v (remove_key n (v_grp v)))
  | SvcSet n val =>
      if has n (v_svc v) then Done (with_svc v (replace_key n val (v_svc v)))
      else if has n (v_sgrp v) then Refused 4
      else Done (with_svc v (v_svc v ++ [(n, val)])%list)
  | SvcEdit n val =>
      if has n (v_svc v) then Done (with_svc v (replace_key n val (v_svc v))) else Refused 3
  | SvcDel n =>
      if negb (has n (v_svc v)) then Refused 3
      else if svc_used v n then Refused 2
      else Done (with_svc v (remove_key n (v_svc v)))
  | SGrpSet n ms =>
      if negb (forallb (plain_svc_ok v) ms) then Refused 1
      else match lookup n (v_sgrp v) with
           | Some old => Done (with_sgrp v (replace_key n (merge_members old ms) (v_sgrp v)))
           | None => if has n (v_svc v) then Refused 4 else Done (with_sgrp v (v_sgrp v ++ [(n, ms)])%list)
           end
  | SGrpDel n =>
      if negb (has n (v_sgrp v)) then Refused 3
      else if existsb (fun r => mem n (r_srv r)) (v_rules v) then Refused 2
      else Done (with_sgrp v (remove_key n (v_sgrp v)))
  end.

(* run a script; result: final state, position and reason of the first refused command (0 = none) *)
Fixpoint run (v : vsys) (ops : list op) (i : nat) : vsys * nat * nat :=
  match ops with
  | [] => (v, 0, 0)
  | o :: r => match exec v o with
              | Done v' => run v' r (S i)
              | Refused why => (v, S i, why)
              end
  end.
