(* Panos/Uniq.v — genUniqRuleNames / genUniqGroupNames (PAN-OS and NSX, after the
   repair 466f163): every target object whose name is taken on the device gets
   NAME-i for the first i >= 1 that is used neither on the device nor by another
   target object.  The result has no duplicates and no name of the device is
   given to a renamed object; the search always terminates. *)
From Coq Require Import List String Bool Arith Lia FinFun.
From Coq Require DecimalString DecimalFacts DecimalNat.
From NA Require Import Base.Str.
Import ListNotations.
Open Scope string_scope.

Definition smem (x : string) (l : list string) : bool := existsb (String.eqb x) l.
Definition cand (base : string) (i : nat) : string := base ++ "-" ++ itoa i.

(* for i := start; ; i++ — with fuel; None only if the fuel is used up *)
Fixpoint search (fuel i : nat) (base : string) (used : list string) : option string :=
  match fuel with
  | O => None
  | S f => if smem (cand base i) used then search f (S i) base used else Some (cand base i)
  end.

(* the loop over the target names: used = device names ++ all target names (bNames grows by the new names) *)
Fixpoint rename_loop (a : list string) (todo : list string) (bnames : list string) : list string :=
  match todo with
  | [] => []
  | n :: r =>
      if smem n a then
        match search (S (List.length (a ++ bnames))) 1 n (a ++ bnames) with
        | Some n' => n' :: rename_loop a r (n' :: bnames)
        | None => n :: rename_loop a r bnames          (* unreachable, see search_finds *)
        end
      else n :: rename_loop a r bnames
  end.
Definition gen_uniq (a b : list string) : list string := rename_loop a b b.

(* ---- the candidates are pairwise different ---- *)
Lemma to_uint_nonnil n : Nat.to_uint n <> Decimal.Nil.
Proof.
  intros H. assert (E : Nat.of_uint (Nat.to_uint n) = Nat.of_uint Decimal.Nil) by (rewrite H; reflexivity).
  rewrite DecimalNat.Unsigned.of_to in E. cbn in E. subst n. vm_compute in H. discriminate.
Qed.

Lemma itoa_inj i j : itoa i = itoa j -> i = j.
Proof.
  unfold itoa. intros H.
  assert (E : DecimalString.NilZero.uint_of_string (DecimalString.NilZero.string_of_uint (Nat.to_uint i))
            = DecimalString.NilZero.uint_of_string (DecimalString.NilZero.string_of_uint (Nat.to_uint j))) by (rewrite H; reflexivity).
  rewrite !DecimalString.NilZero.usu in E by (apply to_uint_nonnil).
  injection E as E. apply DecimalNat.Unsigned.to_uint_inj in E. exact E.
Qed.

Lemma append_inj_l (p a b : string) : (p ++ a = p ++ b)%string -> a = b.
Proof. induction p; simpl; intros H; [exact H | injection H as H; auto]. Qed.
Lemma cand_inj base i j : cand base i = cand base j -> i = j.
Proof. unfold cand. intros H. apply append_inj_l in H. apply append_inj_l in H. apply itoa_inj, H. Qed.

Lemma smem_in x l : smem x l = true <-> In x l.
Proof.
  unfold smem. rewrite existsb_exists. split.
  - intros (y & I & E). apply String.eqb_eq in E. subst. exact I.
  - intros I. exists x. split; [exact I | apply String.eqb_refl].
Qed.

(* if all candidates i .. i+fuel-1 are used, the used list has at least fuel elements *)
Lemma search_none fuel : forall i base used, search fuel i base used = None ->
  forall k, k < fuel -> In (cand base (i + k)) used.
Proof.
  induction fuel as [|f IH]; intros i base used H k L; [lia|]. cbn [search] in H.
  destruct (smem (cand base i) used) eqn:M; [|discriminate].
  destruct k as [|k]; [rewrite Nat.add_0_r; apply smem_in, M|].
  replace (i + S k) with (S i + k) by lia. apply (IH (S i) base used H k). lia.
Qed.

Theorem search_finds base used i : exists n, search (S (List.length used)) i base used = Some n.
Proof.
  destruct (search (S (List.length used)) i base used) as [n|] eqn:E; [eauto|]. exfalso.
  pose proof (search_none _ _ _ _ E) as H.
  set (cs := map (fun k => cand base (i + k)) (seq 0 (S (List.length used)))).
  assert (ND : NoDup cs).
  { unfold cs. apply Injective_map_NoDup; [|apply seq_NoDup]. intros x y Hxy. apply cand_inj in Hxy. lia. }
  assert (INC : incl cs used).
  { intros c Hc. unfold cs in Hc. apply in_map_iff in Hc. destruct Hc as (k & <- & Hk). apply in_seq in Hk. apply H. lia. }
  pose proof (NoDup_incl_length ND INC) as L. unfold cs in L. rewrite map_length, seq_length in L. lia.
Qed.

Lemma search_spec fuel : forall i base used n, search fuel i base used = Some n -> ~ In n used /\ exists j, n = cand base j.
Proof.
  induction fuel as [|f IH]; intros i base used n H; [discriminate|]. cbn [search] in H.
  destruct (smem (cand base i) used) eqn:M.
  - apply (IH _ _ _ _ H).
  - injection H as <-. split; [|eauto]. intros I. apply smem_in in I. congruence.
Qed.

(* ---- the loop ---- *)
(* simpler statements, each by its own induction *)
Lemma rename_loop_length a : forall todo bnames, List.length (rename_loop a todo bnames) = List.length todo.
Proof.
  induction todo as [|n r IH]; intros bnames; [reflexivity|]. cbn [rename_loop].
  destruct (smem n a); [|simpl; f_equal; apply IH].
  destruct (search _ 1 n (a ++ bnames)); simpl; f_equal; apply IH.
Qed.

(* a renamed object never carries a name of the device; an object that keeps its name had no clash *)
Lemma rename_loop_avoids a : forall todo bnames x, In x (rename_loop a todo bnames) -> smem x a = false.
Proof.
  induction todo as [|n r IH]; intros bnames x H; [destruct H|]. cbn [rename_loop] in H.
  destruct (smem n a) eqn:M.
  - destruct (search_finds n (a ++ bnames) 1) as [n' E]. rewrite E in H.
    destruct H as [<-|H]; [|apply (IH _ _ H)].
    apply search_spec in E. destruct E as [NI _]. destruct (smem n' a) eqn:X; [|reflexivity].
    exfalso. apply NI, in_or_app. left. apply smem_in, X.
  - destruct H as [<-|H]; [exact M | apply (IH _ _ H)].
Qed.

(* all names of the result are pairwise different *)
Lemma rename_loop_nodup a : forall todo bnames, NoDup todo -> incl todo bnames ->
  NoDup (rename_loop a todo bnames) /\ forall x, In x (rename_loop a todo bnames) -> In x todo \/ ~ In x bnames.
Proof.
  induction todo as [|n r IH]; intros bnames ND INC; [split; [constructor | intros x []]|].
  inversion ND as [|? ? NI ND']; subst. cbn [rename_loop].
  assert (INCr : incl r bnames) by (intros y Hy; apply INC; right; exact Hy).
  destruct (smem n a) eqn:M.
  - destruct (search_finds n (a ++ bnames) 1) as [n' E]. rewrite E.
    pose proof (search_spec _ _ _ _ _ E) as [NIn' _].
    assert (NB : ~ In n' bnames) by (intros X; apply NIn', in_or_app; right; exact X).
    destruct (IH (n' :: bnames) ND' (fun y Hy => or_intror (INCr y Hy))) as [NDr Hr].
    split.
    + constructor; [|exact NDr]. intros X. destruct (Hr n' X) as [X1|X1]; [apply NB, INCr, X1 | apply X1; left; reflexivity].
    + intros x [<-|Hx]; [right; exact NB|]. destruct (Hr x Hx) as [X1|X1]; [left; right; exact X1 | right; intros Y; apply X1; right; exact Y].
  - destruct (IH bnames ND' INCr) as [NDr Hr]. split.
    + constructor; [|exact NDr]. intros X. destruct (Hr n X) as [X1|X1]; [contradiction | apply X1, INC; left; reflexivity].
    + intros x [<-|Hx]; [left; left; reflexivity|]. destruct (Hr x Hx) as [X1|X1]; [left; right; exact X1 | right; exact X1].
Qed.

Theorem gen_uniq_nodup_proved a b : NoDup b -> NoDup (gen_uniq a b).
Proof. intros ND. apply (rename_loop_nodup a b b ND (incl_refl b)). Qed.

Theorem gen_uniq_length_proved a b : List.length (gen_uniq a b) = List.length b.
Proof. apply rename_loop_length. Qed.

Theorem gen_uniq_renamed_avoid_device_proved a b x : In x (gen_uniq a b) -> smem x a = false.
Proof. apply rename_loop_avoids. Qed.

Example gen_uniq_example : gen_uniq ["x"; "y-1"] ["x"; "x-1"; "y"; "z"] = ["x-2"; "x-1"; "y"; "z"].
Proof. vm_compute. reflexivity. Qed.
