(* Linux/Check.v — correspondence and oracle functions evaluated by the
   generated case files of vlib/c05.py. *)
From Coq Require Import List String Ascii Bool Arith NArith.
From NA Require Import Base.Str Linux.Model.
Import ListNotations.
Open Scope string_scope.

Fixpoint list_str_eqb (a b : list string) : bool :=
  match a, b with
  | [], [] => true
  | x :: a', y :: b' => str_eqb x y && list_str_eqb a' b'
  | _, _ => false
  end.

Definition out_eqb (a b : option (list string)) : bool :=
  match a, b with
  | None, None => true
  | Some x, Some y => list_str_eqb x y
  | _, _ => false
  end.

(* A route command as printed by the implementation, parsed back by the harness. *)
Inductive icmd :=
| IAdd (rest : string) (ws : list string)
| IDel (rest : string) (ws : list string)
| IRepl (rest1 : string) (ws1 : list string) (rest2 : string) (ws2 : list string).

Definition to_rcmd (c : icmd) : option rcmd :=
  match c with
  | IAdd r w => match parse_route r w with PRoute x => Some (RAdd x) | _ => None end
  | IDel r w => match parse_route r w with PRoute x => Some (RDel x) | _ => None end
  | IRepl r1 w1 r2 w2 =>
      match parse_route r1 w1, parse_route r2 w2 with
      | PRoute x, PRoute y => Some (RRepl x y)
      | _, _ => None
      end
  end.

Fixpoint to_rcmds (l : list icmd) : option (list rcmd) :=
  match l with
  | [] => Some []
  | c :: t => match to_rcmd c, to_rcmds t with
              | Some x, Some y => Some (x :: y)
              | _, _ => None
              end
  end.

Definition subset (a b : list spec) : bool := forallb (fun s => mem_spec s b) a.
Definition set_eq (a b : list spec) : bool := subset a b && subset b a.

Fixpoint nodup_specs (l : list spec) : bool :=
  match l with [] => true | x :: r => negb (mem_spec x r) && nodup_specs r end.

Fixpoint merge_all (acc : option config) (ps : list rconfig) : option config :=
  match ps with
  | [] => acc
  | p :: r => match acc, parse_config p with
              | Some x, Some y => merge_all (merge_config x y) r
              | _, _ => None
              end
  end.
Definition target (parts : list rconfig) : option config :=
  match parts with [] => None | p :: r => merge_all (parse_config p) r end.

(* Stepwise coverage (C14): after every command every destination that has a
   route before and after still has one (replacement = one step). *)
Definition has_dst (t : list spec) (d : spec) : bool := existsb (dst_eqb d) t.
Fixpoint covered_steps (a b t : list spec) (l : list rcmd) : bool :=
  forallb (fun d => if has_dst b d then has_dst t d else true) a &&
  match l with
  | [] => true
  | c :: r => match kexec t c with Some t' => covered_steps a b t' r | None => false end
  end.

(* The same for addresses under prefix containment: a route to IP/LEN covers the
   IPv4 addresses that agree with IP in the first LEN bits; probed are the first and
   the last address of every destination of the old and of the new routes. *)
Definition ip_num (s : string) : option N :=
  match cut_char "." s with
  | Some (a, r1) =>
      match cut_char "." r1 with
      | Some (b, r2) =>
          match cut_char "." r2 with
          | Some (c, d) =>
              match parse_dec a, parse_dec b, parse_dec c, parse_dec d with
              | Some a', Some b', Some c', Some d' => Some (((a' * 256 + b') * 256 + c') * 256 + d')%N
              | _, _, _, _ => None
              end
          | None => None
          end
      | None => None
      end
  | None => None
  end.
Definition host_bits (s : spec) : N := N.of_nat (32 - r_len s).
Definition covers_addr (s : spec) (x : N) : bool :=
  match ip_num (r_ip s) with
  | Some n => N.eqb (N.shiftr n (host_bits s)) (N.shiftr x (host_bits s))
  | None => false
  end.
Definition covered_addr (t : list spec) (x : N) : bool := existsb (fun s => covers_addr s x) t.
Definition probes (l : list spec) : list N :=
  flat_map (fun s => match ip_num (r_ip s) with
                     | Some n => let lo := N.shiftl (N.shiftr n (host_bits s)) (host_bits s) in
                                 [lo; (lo + N.shiftl 1 (host_bits s) - 1)%N]
                     | None => []
                     end) l.
Fixpoint addr_steps (ps : list N) (a b t : list spec) (l : list rcmd) : bool :=
  forallb (fun x => if covered_addr a x && covered_addr b x then covered_addr t x else true) ps &&
  match l with
  | [] => true
  | c :: r => match kexec t c with Some t' => addr_steps ps a b t' r | None => false end
  end.

(* 0 = fine, 1 = a command is refused / not parsable, 2 = wrong final routes,
   3 = a destination loses its route at an intermediate step,
   4 = an address covered before and after is not covered at an intermediate step. *)
Definition oracle_routes (dev : rconfig) (parts : list rconfig) (cmds : list icmd) : nat :=
  match parse_config dev, target parts, to_rcmds cmds with
  | Some a, Some b, Some l =>
      let sa := map r_spec (c_routes a) in
      let sb := map r_spec (c_routes b) in
      if negb (nodup_specs sa && nodup_specs sb) then 0   (* outside the theorem's hypotheses *)
      else match kexec_all sa l with
           | Some t => if negb (set_eq t sb) then 2
                       else if negb (covered_steps sa sb sa l) then 3
                       else if addr_steps (probes (sa ++ sb)) sa sb sa l then 0 else 4
           | None => 1
           end
  | Some _, Some _, None => 1
  | _, _, _ => 0
  end%nat.

Record case := {
  k_dev : rconfig; k_parts : list rconfig;
  k_out : option (list string);      (* stdout lines of drc; None = aborted *)
  k_cmds : list icmd }.

Definition corr (k : case) : bool := out_eqb (drc_output (k_dev k) (k_parts k)) (k_out k).

Definition verdict (k : case) : list nat :=
  [if corr k then 0 else 1; oracle_routes (k_dev k) (k_parts k) (k_cmds k)]%nat.
Definition verdicts (l : list case) : list nat := flat_map verdict l.
