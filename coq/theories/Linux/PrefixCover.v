(* Linux/PrefixCover.v — the stepwise coverage theorem instantiated with IPv4 prefix
   containment (Linux.Check.covers_addr): the relation the check evaluates on the
   implementation's scripts. *)
From Coq Require Import List String Bool Arith NArith.
From NA Require Import Base.Str Linux.Model Linux.Proofs Linux.Check.
Import ListNotations.

Lemma covers_addr_dst s s' x : dst_eqb s s' = true -> covers_addr s x = covers_addr s' x.
Proof.
  unfold dst_eqb. intros H. apply andb_true_iff in H. destruct H as [H1 H2].
  apply str_eqb_eq in H1. apply Nat.eqb_eq in H2.
  unfold covers_addr, host_bits. rewrite H1, H2. reflexivity.
Qed.

Lemma covered_addr_iff t x : covered_addr t x = true <-> covered N covers_addr t x.
Proof.
  unfold covered_addr, covered. rewrite existsb_exists. reflexivity.
Qed.

Theorem routes_prefix_cover_stepwise a b :
  NoDup (specs a) -> NoDup (specs b) ->
  forall k t x, kexec_prefix k (specs a) (diff_routes a b) = Some t ->
    covered_addr (specs a) x = true -> covered_addr (specs b) x = true -> covered_addr t x = true.
Proof.
  intros Ha Hb k t x Hk Ca Cb. apply covered_addr_iff.
  apply (routes_covered_stepwise_proved N covers_addr covers_addr_dst a b Ha Hb k t x Hk); apply covered_addr_iff; assumption.
Qed.

(* Non-vacuity: the /16 is replaced by a /24 and a /8; 10.1.5.5 is covered before and after. *)
Example prefix_cover_example :
  let r ip len hop rest := {| r_spec := {| r_ip := ip; r_len := len; r_hop := hop |}; r_rest := rest |} in
  let a := [r "10.1.0.0" 16 "10.9.1.1" "10.1.0.0/16 via 10.9.1.1"]%string in
  let b := [r "10.1.0.0" 24 "10.9.1.2" "10.1.0.0/24 via 10.9.1.2"; r "10.0.0.0" 8 "10.9.1.1" "10.0.0.0/8 via 10.9.1.1"]%string in
  covered_addr (specs a) 167838981 = true /\ covered_addr (specs b) 167838981 = true /\
  List.length (diff_routes a b) = 3 /\
  forallb (fun k => match kexec_prefix k (specs a) (diff_routes a b) with Some t => covered_addr t 167838981 | None => false end) [0; 1; 2; 3] = true.
Proof. vm_compute. repeat split. Qed.
