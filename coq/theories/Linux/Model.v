(* Linux/Model.v — executable model of go/pkg/linux: parseRoutes, diffRoutes,
   parseIPTables (rule level), normalizeIPTables, diffIPTables, MergeSpoc (rule
   insertion), getIPTablesConfig; plus the kernel routing table the emitted
   `ip route` commands act upon.  No proofs in this file. *)
From Coq Require Import List String Ascii Bool Arith NArith Lia.
From NA Require Import Base.Str.
Import ListNotations.
Open Scope string_scope.

(* ------------------------------------------------------------------ *)
(* Routes                                                              *)

Record spec := { r_ip : string; r_len : nat; r_hop : string }.
Definition dst_eqb (a b : spec) : bool :=
  str_eqb (r_ip a) (r_ip b) && Nat.eqb (r_len a) (r_len b).
Definition spec_eqb (a b : spec) : bool := dst_eqb a b && str_eqb (r_hop a) (r_hop b).

(* A route as parsed: its key and the text after "ip route add ". *)
Record route := { r_spec : spec; r_rest : string }.

Inductive parsed_route := PIgnored | PRoute (r : route) | PBad.

(* strconv.Atoi with the error ignored: 0 on failure. *)
Definition atoi0 (s : string) : nat :=
  match parse_dec s with Some n => N.to_nat n | None => 0 end.

(* ` proto (?:kernel|boot|[0-9]+)` *)
Fixpoint has_proto_auto (s : string) : bool :=
  match cut_prefix s " proto " with
  | Some r =>
      if has_prefix "kernel" r || has_prefix "boot" r ||
         match first_char r with Some c => is_digit c | None => false end
      then true
      else match s with EmptyString => false | String _ t => has_proto_auto t end
  | None => match s with EmptyString => false | String _ t => has_proto_auto t end
  end.

(* One line "ip route add REST": REST given both as text and as strings.Fields. *)
Definition parse_route (rest : string) (words : list string) : parsed_route :=
  if contains " scope link" rest then PIgnored
  else if has_proto_auto rest then PIgnored
  else
    match words with
    | ip :: "via" :: hop :: more =>
        let okmore := match more with
                      | [] => true
                      | ["dev"; _] => true
                      | _ => false
                      end in
        if negb okmore then PBad
        else
          let '(ip', len) :=
            match cut_char "/" ip with
            | Some (a, b) => (a, atoi0 b)
            | None => if str_eqb ip "default" then ("0.0.0.0", 0) else (ip, 32)
            end in
          PRoute {| r_spec := {| r_ip := ip'; r_len := len; r_hop := hop |}; r_rest := rest |}
    | _ => PBad
    end.

Inductive rcmd := RAdd (r : route) | RDel (r : route) | RRepl (old new : route).

Definition mem_spec (s : spec) (l : list spec) : bool := existsb (spec_eqb s) l.
Fixpoint remove_spec (s : spec) (l : list spec) : list spec :=
  match l with
  | [] => []
  | x :: r => if spec_eqb s x then remove_spec s r else x :: remove_spec s r
  end.

(* aDstMap[r.dst]: the last route of a with that destination. *)
Fixpoint last_with_dst (a : list route) (s : spec) : option route :=
  match a with
  | [] => None
  | x :: r => match last_with_dst r s with
              | Some y => Some y
              | None => if dst_eqb (r_spec x) s then Some x else None
              end
  end.

(* Stable sort of b by prefix length, longest first (slices.SortFunc uses
   insertion sort for at most 12 elements; see DESIGN.md for longer lists). *)
Fixpoint insert_route (x : route) (l : list route) : list route :=
  match l with
  | [] => [x]
  | y :: r => if Nat.ltb (r_len (r_spec y)) (r_len (r_spec x)) then x :: l else y :: insert_route x r
  end.
Definition sort_routes (l : list route) : list route :=
  fold_left (fun acc x => insert_route x acc) l [].

Fixpoint loop_b (a : list route) (bs : list route) (amap : list spec) : list rcmd * list spec :=
  match bs with
  | [] => ([], amap)
  | r :: bs' =>
      if mem_spec (r_spec r) amap then loop_b a bs' (remove_spec (r_spec r) amap)
      else
        match last_with_dst a (r_spec r) with
        | Some r2 =>
            if mem_spec (r_spec r2) amap then
              let '(c, m) := loop_b a bs' (remove_spec (r_spec r2) amap) in (RRepl r2 r :: c, m)
            else let '(c, m) := loop_b a bs' amap in (RAdd r :: c, m)
        | None => let '(c, m) := loop_b a bs' amap in (RAdd r :: c, m)
        end
  end.

Definition diff_routes_sorted (a bsorted : list route) : list rcmd :=
  let '(c, m) := loop_b a bsorted (map r_spec a) in
  (c ++ map RDel (filter (fun r => mem_spec (r_spec r) m) a))%list.

Definition diff_routes (a b : list route) : list rcmd := diff_routes_sorted a (sort_routes b).

Definition render_rcmd (c : rcmd) : string :=
  match c with
  | RAdd r => "ip route add " ++ r_rest r
  | RDel r => "ip route del " ++ r_rest r
  | RRepl o n => "ip route del " ++ r_rest o ++ "\N ip route add " ++ r_rest n
  end.

(* The kernel's table of static routes: `add` of a route that is present and
   `del` of one that is absent fail. *)
Definition kadd (t : list spec) (s : spec) : option (list spec) :=
  if mem_spec s t then None else Some (t ++ [s])%list.
Definition kdel (t : list spec) (s : spec) : option (list spec) :=
  if mem_spec s t then Some (remove_spec s t) else None.

Definition kexec (t : list spec) (c : rcmd) : option (list spec) :=
  match c with
  | RAdd r => kadd t (r_spec r)
  | RDel r => kdel t (r_spec r)
  | RRepl o n => match kdel t (r_spec o) with
                 | Some t' => kadd t' (r_spec n)
                 | None => None
                 end
  end.

Fixpoint kexec_all (t : list spec) (l : list rcmd) : option (list spec) :=
  match l with
  | [] => Some t
  | c :: r => match kexec t c with Some t' => kexec_all t' r | None => None end
  end.

(* ------------------------------------------------------------------ *)
(* iptables rules                                                      *)

Definition smap := list (string * string).

Fixpoint sget (m : smap) (k : string) : option string :=
  match m with
  | [] => None
  | (k', v) :: r => if str_eqb k k' then Some v else sget r k
  end.
Fixpoint sdel (m : smap) (k : string) : smap :=
  match m with
  | [] => []
  | (k', v) :: r => if str_eqb k k' then sdel r k else (k', v) :: sdel r k
  end.
(* Go map assignment; the model keeps keys sorted so that equal maps are equal lists. *)
Fixpoint sset (m : smap) (k v : string) : smap :=
  match m with
  | [] => [(k, v)]
  | (k', v') :: r =>
      if str_eqb k k' then (k, v) :: r
      else if String.ltb k k' then (k, v) :: m
      else (k', v') :: sset r k v
  end.

Definition starts_dash (w : string) : bool :=
  match first_char w with Some c => Ascii.eqb c "-" | None => false end.

Fixpoint take_args (ws : list string) : list string * list string :=
  match ws with
  | [] => ([], [])
  | w :: r =>
      if starts_dash w || str_eqb w "!" then ([], ws)
      else let '(a, rest) := take_args r in (w :: a, rest)
  end.

Inductive perr := PAbort (msg : string).

(* The option loop of parseIPTables for one rule (words after "-A CHAIN"). *)
Fixpoint parse_opts (fuel : nat) (ws : list string) (m : smap) : option smap :=
  match fuel with
  | O => None
  | S f =>
      match ws with
      | [] => Some m
      | _ =>
          let '(neg, ws1, bad) :=
            match ws with
            | "!" :: r => ("!", r, match r with [] => true | _ => false end)
            | _ => ("", ws, false)
            end in
          if bad then None
          else
            match ws1 with
            | [] => None
            | key :: ws2 =>
                let '(neg2, ws3) :=
                  match ws2 with
                  | "!" :: w1 :: r => if negb (starts_dash w1) then ("!", w1 :: r) else (neg, ws2)
                  | _ => (neg, ws2)
                  end in
                let '(args, rest) := take_args ws3 in
                let v := neg2 ++ join " " args in
                let '(key', v') :=
                  if str_eqb key "--tcp-flags" && str_eqb v "!FIN,SYN,RST,ACK SYN"
                  then ("--syn", "!") else (key, v) in
                parse_opts f rest (sset m key' v')
            end
      end
  end.

(* strconv.ParseInt(v, 0, 32): sign, 0x / 0b / 0o / leading-0 prefixes (no
   underscores); None when not a number or out of the int32 range. *)
Definition parse_int0_32 (s : string) : option (bool * N) :=
  let '(negv, body) := match s with
                       | String "-"%char r => (true, r)
                       | String "+"%char r => (false, r)
                       | _ => (false, s)
                       end in
  let v :=
    match body with
    | String "0"%char (String x r) =>
        if Ascii.eqb x "x" || Ascii.eqb x "X" then
          match r with EmptyString => None | _ => hex_digits_val r 0%N end
        else if Ascii.eqb x "o" || Ascii.eqb x "O" then
          match r with EmptyString => None | _ => oct_digits_val r 0%N end
        else if Ascii.eqb x "b" || Ascii.eqb x "B" then None (* not generated *)
        else oct_digits_val (String x r) 0%N
    | _ => parse_dec body
    end in
  match v with
  | Some n => if negv then (if N.leb n 2147483648 then Some (true, n) else None)
              else (if N.leb n 2147483647 then Some (false, n) else None)
  | None => None
  end.

Definition norm_value (k v : string) : string :=
  if str_eqb k "-s" || str_eqb k "-d" then trim_suffix v "/32"
  else if str_eqb k "-p" then
    let l := to_lower v in
    if str_eqb l "vrrp" then "112" else if str_eqb l "ipv6-icmp" then "58" else l
  else if str_eqb k "--sport" || str_eqb k "--dport" then
    let t := trim_left_zero v in
    match cut_suffix t ":65535" with Some b => b ++ ":" | None => t end
  else if str_eqb k "--state" then join "," (sort_strings (split_char "," v))
  else if str_eqb k "--set-mark" then
    let l := trim_suffix (to_lower v) "/0xffffffff" in
    match parse_int0_32 l with
    | Some (false, n) => ntoa n
    | Some (true, n) => if N.eqb n 0 then "0" else "-" ++ ntoa n
    | None => l
    end
  else if str_eqb k "--log-level" then (if str_eqb v "debug" then "7" else v)
  else v.

Definition normalize (m : smap) : smap :=
  let m1 :=
    match sget m "-m" with
    | Some v =>
        let proto := match sget m "-p" with Some p => p | None => "" end in
        if str_eqb (to_lower v) (to_lower proto) then sdel m "-m" else m
    | None => m
    end in
  let m2 :=
    match sget m1 "--set-xmark" with
    | Some v =>
        match cut_char "/" v with
        | Some (_, mask) =>
            if str_eqb (to_lower mask) "0xffffffff" then sset (sdel m1 "--set-xmark") "--set-mark" v else m1
        | None => sset (sdel m1 "--set-xmark") "--set-mark" v
        end
    | None => m1
    end in
  map (fun kv => (fst kv, norm_value (fst kv) (snd kv))) m2.

Definition parse_rule (ws : list string) : option smap :=
  match parse_opts (S (List.length ws)) ws [] with
  | Some m => Some (normalize m)
  | None => None
  end.

(* Rules, chains, tables as lists sorted by name. *)
Record rule := { ru_orig : string; ru_pairs : smap; ru_append : bool }.
Record chain := { ch_name : string; ch_policy : string; ch_rules : list rule }.
Record table := { tb_name : string; tb_chains : list chain }.

Definition keys (m : smap) : list string := map fst m.
Definition extra_keys (a b : list string) : list string :=
  filter (fun k => negb (existsb (str_eqb k) b)) a.
Definition check_extra (a b : list string) : option string :=
  let ea := join "," (extra_keys a b) in
  let eb := join "," (extra_keys b a) in
  if str_eqb ea "" && str_eqb eb "" then None else Some (ea ++ "<->" ++ eb).

Fixpoint first_diff_pair (a b : smap) : option (string * string * string) :=
  match a with
  | [] => None
  | (k, v) :: r =>
      let v2 := match sget b k with Some x => x | None => "" end in
      if str_eqb v v2 then first_diff_pair r b else Some (k, v, v2)
  end.

Fixpoint diff_rules (tn cn : string) (i : nat) (a b : list rule) : option string :=
  match a, b with
  | ra :: a', rb :: b' =>
      match check_extra (keys (ru_pairs ra)) (keys (ru_pairs rb)) with
      | Some e => Some ("iptables differs at " ++ tn ++ ":" ++ cn ++ ":RULES:" ++ itoa i ++ ":[options: " ++ e ++ "]")
      | None =>
          match first_diff_pair (ru_pairs ra) (ru_pairs rb) with
          | Some (k, v, v2) =>
              Some ("iptables differs at " ++ tn ++ ":" ++ cn ++ ":RULES:" ++ itoa i ++ ":" ++ k ++ ":[" ++ v ++ "<->" ++ v2 ++ "]")
          | None => diff_rules tn cn (S i) a' b'
          end
      end
  | _, _ => None
  end.

Definition find_chain (l : list chain) (n : string) : option chain :=
  find (fun c => str_eqb (ch_name c) n) l.
Definition find_table (l : list table) (n : string) : option table :=
  find (fun t => str_eqb (tb_name t) n) l.

Fixpoint diff_chains (tn : string) (a : list chain) (b : list chain) : option string :=
  match a with
  | [] => None
  | ca :: a' =>
      match find_chain b (ch_name ca) with
      | None => None (* excluded by check_extra *)
      | Some cb =>
          if negb (str_eqb (ch_policy ca) (ch_policy cb)) then
            Some ("iptables differs at " ++ tn ++ ":" ++ ch_name ca ++ ":POLICY:[" ++ ch_policy ca ++ "<->" ++ ch_policy cb ++ "]")
          else if negb (Nat.eqb (List.length (ch_rules ca)) (List.length (ch_rules cb))) then
            Some ("iptables differs at " ++ tn ++ ":" ++ ch_name ca ++ ":RULES:[size: " ++
                  itoa (List.length (ch_rules ca)) ++ "<->" ++ itoa (List.length (ch_rules cb)) ++ "]")
          else
            match diff_rules tn (ch_name ca) 0 (ch_rules ca) (ch_rules cb) with
            | Some m => Some m
            | None => diff_chains tn a' b
            end
      end
  end.

Fixpoint diff_tables_loop (a b : list table) : option string :=
  match a with
  | [] => None
  | ta :: a' =>
      match find_table b (tb_name ta) with
      | None => None
      | Some tb =>
          match check_extra (map ch_name (tb_chains ta)) (map ch_name (tb_chains tb)) with
          | Some e => Some ("iptables differs at " ++ tb_name ta ++ ": [chains: " ++ e ++ "]")
          | None =>
              match diff_chains (tb_name ta) (tb_chains ta) (tb_chains tb) with
              | Some m => Some m
              | None => diff_tables_loop a' b
              end
          end
      end
  end.

(* diffIPTables; tables and chains are given sorted by name. *)
Definition diff_iptables (a b : list table) : option string :=
  match check_extra (map tb_name a) (map tb_name b) with
  | Some e => Some ("iptables differs at [tables: " ++ e ++ "]")
  | None => diff_tables_loop a b
  end.

(* ------------------------------------------------------------------ *)
(* Merge of raw rules into a chain (config.go MergeSpoc, rule loop)    *)

Definition is_drop (r : rule) : bool :=
  match sget (ru_pairs r) "-j" with Some v => str_eqb v "DROP" | None => false end.

(* index before the trailing run of DROP rules *)
Fixpoint trailing_drops (l : list rule) : nat :=
  match l with
  | [] => 0
  | r :: t => let n := trailing_drops t in
              if Nat.eqb n (List.length t) && is_drop r then S n else n
  end.
Definition append_index (l : list rule) : nat := List.length l - trailing_drops l.

Fixpoint insert_at {A} (i : nat) (x : A) (l : list A) : list A :=
  match i, l with
  | O, _ => x :: l
  | S k, y :: r => y :: insert_at k x r
  | S _, [] => [x]
  end.

(* the rule loop of MergeSpoc: prepended rules keep their order at the top; the
   position of the first [APPEND] rule is computed once (before the trailing
   DROP rules of the chain), the following ones are placed behind it *)
Fixpoint merge_rules_at (top : nat) (bottom : option nat) (arules : list rule) (braw : list rule) : list rule :=
  match braw with
  | [] => arules
  | ru :: rest =>
      if ru_append ru then
        let b := match bottom with Some b => b | None => append_index arules end in
        merge_rules_at top (Some (S b)) (insert_at b ru arules) rest
      else merge_rules_at (S top) (match bottom with Some b => Some (S b) | None => None end) (insert_at top ru arules) rest
  end.
Definition merge_rules (top : nat) (arules braw : list rule) : list rule := merge_rules_at top None arules braw.

(* ------------------------------------------------------------------ *)
(* Whole-config level: merge of a raw/IPv6 part, rendering, output     *)

Fixpoint insert_chain (c : chain) (l : list chain) : list chain :=
  match l with
  | [] => [c]
  | y :: r => if String.ltb (ch_name c) (ch_name y) then c :: l else y :: insert_chain c r
  end.
Fixpoint insert_table (t : table) (l : list table) : list table :=
  match l with
  | [] => [t]
  | y :: r => if String.ltb (tb_name t) (tb_name y) then t :: l else y :: insert_table t r
  end.

Fixpoint replace_chain (c : chain) (l : list chain) : list chain :=
  match l with
  | [] => []
  | y :: r => if str_eqb (ch_name c) (ch_name y) then c :: r else y :: replace_chain c r
  end.
Fixpoint replace_table (t : table) (l : list table) : list table :=
  match l with
  | [] => []
  | y :: r => if str_eqb (tb_name t) (tb_name y) then t :: r else y :: replace_table t r
  end.

(* None = "Must not redefine chain ... from rawdata" *)
Fixpoint merge_chains (a : list chain) (b : list chain) : option (list chain) :=
  match b with
  | [] => Some a
  | cb :: rest =>
      match find_chain a (ch_name cb) with
      | None => merge_chains (insert_chain cb a) rest
      | Some ca =>
          if str_eqb (ch_policy ca) "-" || str_eqb (ch_policy ca) "" then None
          else merge_chains
                 (replace_chain {| ch_name := ch_name ca; ch_policy := ch_policy ca;
                                   ch_rules := merge_rules 0 (ch_rules ca) (ch_rules cb) |} a) rest
      end
  end.

Fixpoint merge_tables (a : list table) (b : list table) : option (list table) :=
  match b with
  | [] => Some a
  | tb :: rest =>
      match find_table a (tb_name tb) with
      | None => merge_tables (insert_table tb a) rest
      | Some ta =>
          match merge_chains (tb_chains ta) (tb_chains tb) with
          | Some cs => merge_tables (replace_table {| tb_name := tb_name ta; tb_chains := cs |} a) rest
          | None => None
          end
      end
  end.

Definition render_table (t : table) : list string :=
  List.app (("*" ++ tb_name t) :: map (fun c => ":" ++ ch_name c ++ " " ++ ch_policy c) (tb_chains t))
   (List.app (flat_map (fun c => map ru_orig (ch_rules c)) (tb_chains t)) ["COMMIT"]).
Definition render_tables (l : list table) : list string := flat_map render_table l.

(* Input as the harness hands it over: rules with their words still unparsed. *)
Record rrule := { rr_orig : string; rr_words : list string; rr_append : bool }.
Record rchain := { rc_name : string; rc_policy : string; rc_rules : list rrule }.
Record rtable := { rt_name : string; rt_chains : list rchain }.
Record rconfig := { rc_routes : list (string * list string); rc_tables : list rtable }.

Fixpoint parse_rules (l : list rrule) : option (list rule) :=
  match l with
  | [] => Some []
  | r :: t =>
      match parse_rule (rr_words r), parse_rules t with
      | Some m, Some t' => Some ({| ru_orig := rr_orig r; ru_pairs := m; ru_append := rr_append r |} :: t')
      | _, _ => None
      end
  end.
Fixpoint parse_chains (l : list rchain) : option (list chain) :=
  match l with
  | [] => Some []
  | c :: t =>
      match parse_rules (rc_rules c), parse_chains t with
      | Some rs, Some t' => Some ({| ch_name := rc_name c; ch_policy := rc_policy c; ch_rules := rs |} :: t')
      | _, _ => None
      end
  end.
Fixpoint parse_tables (l : list rtable) : option (list table) :=
  match l with
  | [] => Some []
  | x :: t =>
      match parse_chains (rt_chains x), parse_tables t with
      | Some cs, Some t' => Some ({| tb_name := rt_name x; tb_chains := cs |} :: t')
      | _, _ => None
      end
  end.

Fixpoint parse_route_lines (l : list (string * list string)) : option (list route) :=
  match l with
  | [] => Some []
  | (rest, ws) :: t =>
      match parse_route rest ws, parse_route_lines t with
      | PBad, _ => None
      | _, None => None
      | PIgnored, Some t' => Some t'
      | PRoute r, Some t' => Some (r :: t')
      end
  end.

Record config := { c_routes : list route; c_tables : list table }.
Definition parse_config (c : rconfig) : option config :=
  match parse_route_lines (rc_routes c), parse_tables (rc_tables c) with
  | Some r, Some t => Some {| c_routes := r; c_tables := t |}
  | _, _ => None
  end.

Definition merge_config (a b : config) : option config :=
  match merge_tables (c_tables a) (c_tables b) with
  | Some t => Some {| c_routes := (c_routes a ++ c_routes b)%list; c_tables := t |}
  | None => None
  end.

(* What `drc DEVICE NETSPOC` prints (ShowChanges); None = the run aborts. *)
Definition drc_output (dev : rconfig) (parts : list rconfig) : option (list string) :=
  match parse_config dev with
  | None => None
  | Some a =>
      let fix merge_all (acc : option config) (ps : list rconfig) : option config :=
        match ps with
        | [] => acc
        | p :: r =>
            match acc, parse_config p with
            | Some x, Some y => merge_all (merge_config x y) r
            | _, _ => None
            end
        end in
      match parts with
      | [] => None
      | p :: r =>
          match merge_all (parse_config p) r with
          | None => None
          | Some b =>
              let routes := map render_rcmd (diff_routes (c_routes a) (c_routes b)) in
              match diff_iptables (c_tables a) (c_tables b) with
              | None => Some routes
              | Some msg =>
                  Some (List.app routes (msg :: "#!/sbin/iptables-restore" :: "# Generated by NetSPoC"
                               :: render_tables (c_tables b)))
              end
          end
      end
  end.
