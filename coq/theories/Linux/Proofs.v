(* Linux/Proofs.v — convergence of diffRoutes on the kernel routing table,
   stepwise coverage, soundness and completeness of diffIPTables. *)
From Coq Require Import List String Ascii Bool Arith NArith Lia Permutation.
From NA Require Import Base.Str Linux.Model.
Import ListNotations.
Open Scope list_scope.

(* ---------- equality tests ---------- *)
Lemma str_eqb_eq a b : str_eqb a b = true <-> a = b.
Proof. apply String.eqb_eq. Qed.

Lemma spec_eqb_eq a b : spec_eqb a b = true <-> a = b.
Proof.
  unfold spec_eqb, dst_eqb. rewrite !andb_true_iff, !str_eqb_eq, Nat.eqb_eq.
  destruct a, b; simpl; split.
  - intros [[-> ->] ->]; reflexivity.
  - intros H; injection H; auto.
Qed.

Lemma spec_eqb_refl a : spec_eqb a a = true.
Proof. apply spec_eqb_eq; reflexivity. Qed.

Lemma mem_spec_In s l : mem_spec s l = true <-> In s l.
Proof.
  unfold mem_spec. rewrite existsb_exists. split.
  - intros [x [Hx E]]. apply spec_eqb_eq in E. subst. exact Hx.
  - intros H. exists s. split; [exact H | apply spec_eqb_refl].
Qed.

Lemma mem_spec_false s l : mem_spec s l = false <-> ~ In s l.
Proof.
  rewrite <- mem_spec_In. destruct (mem_spec s l); split; congruence.
Qed.

Lemma In_remove_spec x s l : In x (remove_spec s l) <-> In x l /\ x <> s.
Proof.
  induction l as [|y r IH]; simpl; [tauto|].
  destruct (spec_eqb s y) eqn:E.
  - apply spec_eqb_eq in E. subst y. rewrite IH. split.
    + intros [H1 H2]; auto.
    + intros [[H|H] H2]; [congruence | auto].
  - assert (s <> y) by (intro; subst; rewrite spec_eqb_refl in E; discriminate).
    simpl. rewrite IH. split.
    + intros [H1|[H1 H2]]; [subst; split; auto | auto].
    + intros [[H1|H1] H2]; auto.
Qed.

Lemma NoDup_remove_spec s l : NoDup l -> NoDup (remove_spec s l).
Proof.
  induction 1 as [|y r Hn Hd IH]; simpl; [constructor|].
  destruct (spec_eqb s y); [exact IH|].
  constructor; [|exact IH]. rewrite In_remove_spec. tauto.
Qed.

(* ---------- the kernel table ---------- *)
Lemma kadd_some t s : ~ In s t -> kadd t s = Some (t ++ [s]).
Proof. intros H. unfold kadd. apply mem_spec_false in H. rewrite H. reflexivity. Qed.

Lemma kdel_some t s : In s t -> kdel t s = Some (remove_spec s t).
Proof. intros H. unfold kdel. apply mem_spec_In in H. rewrite H. reflexivity. Qed.

Lemma NoDup_snoc (t : list spec) s : NoDup t -> ~ In s t -> NoDup (t ++ [s]).
Proof.
  induction 1 as [|y r Hn Hd IH]; simpl; intros Hs.
  - constructor; [intros []|constructor].
  - constructor.
    + rewrite in_app_iff. simpl. intros [H|[H|[]]]; [exact (Hn H)| subst; apply Hs; left; reflexivity].
    + apply IH. intro H; apply Hs; right; exact H.
Qed.

Definition specs (l : list route) : list spec := map r_spec l.

(* ---------- the loop over the target routes ---------- *)
Lemma loop_b_spec a :
  forall bs amap t done,
    NoDup t -> NoDup amap -> NoDup (specs bs) ->
    (forall s, In s t <-> In s amap \/ In s done) ->
    (forall s, In s amap -> ~ In s done) ->
    (forall s, In s (specs bs) -> ~ In s done) ->
    exists t',
      kexec_all t (fst (loop_b a bs amap)) = Some t' /\
      NoDup t' /\ NoDup (snd (loop_b a bs amap)) /\
      (forall s, In s (snd (loop_b a bs amap)) -> In s amap) /\
      (forall s, In s t' <-> In s (snd (loop_b a bs amap)) \/ In s done \/ In s (specs bs)) /\
      (forall s, In s (snd (loop_b a bs amap)) -> ~ In s done /\ ~ In s (specs bs)).
Proof.
  induction bs as [|r bs IH]; intros amap t done Ht Ham Hbs Hin Hdis Hfresh.
  - simpl. exists t.
    split; [reflexivity|]. split; [exact Ht|]. split; [exact Ham|]. split; [auto|]. split.
    + intros s. rewrite Hin. tauto.
    + intros s Hs. split; [apply Hdis; exact Hs | intros []].
  - simpl in Hbs. inversion Hbs as [|x l Hnr Hbs' Heq]; subst.
    cbn [loop_b].
    (* common facts *)
    assert (Hfresh' : forall s, In s (specs bs) -> ~ In s done)
      by (intros s Hs; apply Hfresh; right; exact Hs).
    destruct (mem_spec (r_spec r) amap) eqn:Em.
    + (* route already present: keep it *)
      apply mem_spec_In in Em.
      destruct (IH (remove_spec (r_spec r) amap) t (r_spec r :: done)) as (t' & E & N1 & N2 & S1 & S2 & S3); auto.
      * apply NoDup_remove_spec; exact Ham.
      * intros s. rewrite Hin, In_remove_spec. simpl.
        destruct (spec_eqb s (r_spec r)) eqn:Es.
        -- apply spec_eqb_eq in Es; subst. tauto.
        -- assert (s <> r_spec r) by (intro; subst; rewrite spec_eqb_refl in Es; discriminate).
           split; [intros [H1|H1]; auto | intros [[H1 H2]|[H1|H1]]; auto; congruence].
      * intros s Hs. apply In_remove_spec in Hs. destruct Hs as [Hs Hne].
        simpl. intros [H|H]; [congruence | exact (Hdis s Hs H)].
      * intros s Hs. simpl. intros [H|H]; [subst; contradiction | exact (Hfresh' s Hs H)].
      * exists t'. split; [exact E|]. split; [exact N1|]. split; [exact N2|].
        split; [intros s Hs; apply S1 in Hs; apply In_remove_spec in Hs; tauto|].
        split.
        -- intros s. rewrite S2. simpl. tauto.
        -- intros s Hs. destruct (S3 s Hs) as [A B]. simpl in A |- *. split; [tauto|].
           intros [H|H]; [apply A; left; exact H | exact (B H)].
    + apply mem_spec_false in Em.
      assert (Hnt : ~ In (r_spec r) t).
      { intros H. apply Hin in H. destruct H as [H|H]; [exact (Em H)|].
        apply (Hfresh (r_spec r)); [left; reflexivity | exact H]. }
      (* helper for the two plain-add branches *)
      assert (Hadd : exists t',
        kexec_all t (RAdd r :: fst (loop_b a bs amap)) = Some t' /\
        NoDup t' /\ NoDup (snd (loop_b a bs amap)) /\
        (forall s, In s (snd (loop_b a bs amap)) -> In s amap) /\
        (forall s, In s t' <-> In s (snd (loop_b a bs amap)) \/ In s done \/ In s (specs (r :: bs))) /\
        (forall s, In s (snd (loop_b a bs amap)) -> ~ In s done /\ ~ In s (specs (r :: bs)))).
      { destruct (IH amap (t ++ [r_spec r]) (r_spec r :: done)) as (t' & E & N1 & N2 & S1 & S2 & S3); auto.
        - apply NoDup_snoc; assumption.
        - intros s. rewrite in_app_iff, Hin. simpl. tauto.
        - intros s Hs. simpl. intros [H|H]; [subst; exact (Em Hs) | exact (Hdis s Hs H)].
        - intros s Hs. simpl. intros [H|H]; [subst; contradiction | exact (Hfresh' s Hs H)].
        - exists t'. split.
          + cbn [kexec_all kexec]. rewrite kadd_some by exact Hnt. exact E.
          + split; [exact N1|]. split; [exact N2|]. split; [exact S1|]. split.
            * intros s. rewrite S2. simpl. tauto.
            * intros s Hs. destruct (S3 s Hs) as [A B]. simpl in A |- *. split; [tauto|].
              intros [H|H]; [apply A; left; exact H | exact (B H)]. }
      destruct (last_with_dst a (r_spec r)) as [r2|] eqn:El.
      * destruct (mem_spec (r_spec r2) amap) eqn:Em2.
        -- (* replacement: delete the old route to this destination, add the new one *)
           apply mem_spec_In in Em2.
           assert (Hne : r_spec r2 <> r_spec r) by (intro H; rewrite H in Em2; exact (Em Em2)).
           destruct (IH (remove_spec (r_spec r2) amap)
                        (remove_spec (r_spec r2) t ++ [r_spec r]) (r_spec r :: done))
             as (t' & E & N1 & N2 & S1 & S2 & S3); auto.
           ++ apply NoDup_snoc; [apply NoDup_remove_spec; exact Ht|].
              rewrite In_remove_spec. tauto.
           ++ apply NoDup_remove_spec; exact Ham.
           ++ intros s. rewrite in_app_iff, !In_remove_spec, Hin. simpl.
              split.
              ** intros [[[H|H] H2]|[H|[]]]; auto.
              ** intros [[H H2]|[H|H]]; auto.
                 left. split; [auto|]. intro; subst. exact (Hdis _ Em2 H).
           ++ intros s Hs. apply In_remove_spec in Hs. destruct Hs as [Hs _]. simpl.
              intros [H|H]; [subst; exact (Em Hs) | exact (Hdis s Hs H)].
           ++ intros s Hs. simpl. intros [H|H]; [subst; contradiction | exact (Hfresh' s Hs H)].
           ++ destruct (loop_b a bs (remove_spec (r_spec r2) amap)) as [c m] eqn:Elp.
              cbn [fst snd] in *. exists t'. split.
              ** cbn [kexec_all kexec]. rewrite kdel_some by (apply Hin; left; exact Em2).
                 rewrite kadd_some by (rewrite In_remove_spec; tauto). exact E.
              ** split; [exact N1|]. split; [exact N2|].
                 split; [intros s Hs; apply S1 in Hs; apply In_remove_spec in Hs; tauto|].
                 split.
                 --- intros s. rewrite S2. simpl. tauto.
                 --- intros s Hs. destruct (S3 s Hs) as [A B]. simpl in A |- *. split; [tauto|].
                     intros [H|H]; [apply A; left; exact H | exact (B H)].
        -- destruct (loop_b a bs amap) as [c m] eqn:Elp. cbn [fst snd] in *. exact Hadd.
      * destruct (loop_b a bs amap) as [c m] eqn:Elp. cbn [fst snd] in *. exact Hadd.
Qed.

(* ---------- the final deletes ---------- *)
Lemma dels_spec :
  forall l t, NoDup (specs l) -> NoDup t -> (forall s, In s (specs l) -> In s t) ->
    exists t', kexec_all t (map RDel l) = Some t' /\ NoDup t' /\
               (forall s, In s t' <-> In s t /\ ~ In s (specs l)).
Proof.
  induction l as [|r l IH]; intros t Hl Ht Hsub.
  - exists t. simpl. repeat split; auto; tauto.
  - simpl in Hl. inversion Hl as [|x y Hn Hl' E]; subst.
    destruct (IH (remove_spec (r_spec r) t)) as (t' & E & N & S); auto.
    + apply NoDup_remove_spec; exact Ht.
    + intros s Hs. apply In_remove_spec. split; [apply Hsub; right; exact Hs|].
      intro; subst. contradiction.
    + exists t'. split.
      * cbn [map kexec_all kexec]. rewrite kdel_some by (apply Hsub; left; reflexivity). exact E.
      * split; [exact N|]. intros s. rewrite S, In_remove_spec. simpl. split.
        -- intros [[H1 H2] H3]. split; [exact H1|]. intros [H|H]; [congruence | exact (H3 H)].
        -- intros [H1 H2]. split; [split; [exact H1|]|]; intro; apply H2; auto.
Qed.

Lemma NoDup_specs_filter f l : NoDup (specs l) -> NoDup (specs (filter f l)).
Proof.
  induction l as [|r l IH]; simpl; intros H; [constructor|].
  inversion H as [|x y Hn Hl E]; subst.
  destruct (f r); simpl; [constructor|]; auto.
  intros Hin. apply Hn. unfold specs in *. rewrite in_map_iff in *.
  destruct Hin as [z [Hz1 Hz2]]. apply filter_In in Hz2. exists z. tauto.
Qed.

Lemma kexec_all_app t l1 l2 t1 :
  kexec_all t l1 = Some t1 -> kexec_all t (l1 ++ l2) = kexec_all t1 l2.
Proof.
  revert t; induction l1 as [|c l1 IH]; simpl; intros t H; [congruence|].
  destruct (kexec t c); [apply IH; exact H | discriminate].
Qed.

(* diffRoutes for an arbitrary processing order of the target routes. *)
Lemma diff_routes_sorted_conv a bs :
  NoDup (specs a) -> NoDup (specs bs) ->
  exists t, kexec_all (specs a) (diff_routes_sorted a bs) = Some t /\ NoDup t /\
            (forall s, In s t <-> In s (specs bs)).
Proof.
  intros Ha Hb. unfold diff_routes_sorted.
  destruct (loop_b_spec a bs (specs a) (specs a) []) as (t1 & E & N1 & N2 & S1 & S2 & S3); auto.
  - intros s; simpl; tauto.
  - fold (specs a). destruct (loop_b a bs (specs a)) as [c m] eqn:El. cbn [fst snd] in *.
    set (dl := filter (fun r => mem_spec (r_spec r) m) a).
    assert (Hdl : forall s, In s (specs dl) <-> In s m).
    { intros s. unfold dl, specs. rewrite in_map_iff. split.
      - intros [r [<- Hr]]. apply filter_In in Hr. apply mem_spec_In. tauto.
      - intros Hs. pose proof (S1 s Hs) as Hsa. unfold specs in Hsa. rewrite in_map_iff in Hsa.
        destruct Hsa as [r [<- Hr]]. exists r. split; [reflexivity|].
        apply filter_In. split; [exact Hr | apply mem_spec_In; exact Hs]. }
    destruct (dels_spec dl t1) as (t2 & E2 & N3 & S4).
    + apply NoDup_specs_filter; exact Ha.
    + exact N1.
    + intros s Hs. apply S2. left. apply Hdl. exact Hs.
    + exists t2. split; [rewrite (kexec_all_app _ _ _ _ E); exact E2|].
      split; [exact N3|]. intros s. rewrite S4, S2, Hdl. simpl. split.
      * intros [[H|[[]|H]] H2]; [contradiction | exact H].
      * intros H. split; [auto|]. intros Hm. destruct (S3 s Hm) as [_ B]. exact (B H).
Qed.

(* sort_routes permutes. *)
Lemma insert_route_perm x l : Permutation (insert_route x l) (x :: l).
Proof.
  induction l as [|y r IH]; simpl; [reflexivity|].
  destruct (Nat.ltb _ _); [reflexivity|].
  rewrite IH. apply perm_swap.
Qed.

Lemma sort_routes_perm l : Permutation (sort_routes l) l.
Proof.
  unfold sort_routes.
  assert (H : forall l acc, Permutation (fold_left (fun acc x => insert_route x acc) l acc) (acc ++ l)).
  { induction l0 as [|x l0 IH]; intros acc; simpl; [rewrite app_nil_r; reflexivity|].
    rewrite IH. rewrite insert_route_perm.
    simpl. apply Permutation_middle. }
  apply (H l []).
Qed.

(* C05/C08/C10 (routes): executing the emitted commands on a kernel table
   holding the device's routes succeeds and yields exactly the target routes. *)
Theorem linux_routes_conv_proved a b :
  NoDup (specs a) -> NoDup (specs b) ->
  exists t, kexec_all (specs a) (diff_routes a b) = Some t /\ NoDup t /\
            (forall s, In s t <-> In s (specs b)).
Proof.
  intros Ha Hb. unfold diff_routes.
  pose proof (sort_routes_perm b) as P.
  assert (P' : Permutation (specs (sort_routes b)) (specs b)) by (apply Permutation_map; exact P).
  destruct (diff_routes_sorted_conv a (sort_routes b)) as (t & E & N & S); auto.
  - apply (Permutation_NoDup (Permutation_sym P')). exact Hb.
  - exists t. split; [exact E|]. split; [exact N|]. intros s. rewrite S.
    split; apply Permutation_in; [exact P' | apply Permutation_sym; exact P'].
Qed.

(* No change is emitted iff the route sets are equal. *)
Lemma loop_b_nil_inv a : forall bs amap,
  NoDup (specs bs) ->
  fst (loop_b a bs amap) = [] -> forall s, In s (specs bs) -> In s amap.
Proof.
  induction bs as [|r bs IH]; intros amap Hn H s Hs; [destruct Hs|].
  simpl in Hn. inversion Hn as [|x y Hnr Hn' E]; subst.
  cbn [loop_b] in H.
  destruct (mem_spec (r_spec r) amap) eqn:Em.
  - apply mem_spec_In in Em. destruct Hs as [<-|Hs]; [exact Em|].
    specialize (IH _ Hn' H s Hs). apply In_remove_spec in IH. tauto.
  - destruct (last_with_dst a (r_spec r)) as [r2|].
    + destruct (mem_spec (r_spec r2) amap).
      * destruct (loop_b a bs (remove_spec (r_spec r2) amap)); discriminate.
      * destruct (loop_b a bs amap); discriminate.
    + destruct (loop_b a bs amap); discriminate.
Qed.

Theorem linux_routes_unchanged_iff_proved a b :
  NoDup (specs a) -> NoDup (specs b) ->
  (diff_routes a b = [] <-> (forall s, In s (specs a) <-> In s (specs b))).
Proof.
  intros Ha Hb. split.
  - intros H. destruct (linux_routes_conv_proved a b Ha Hb) as (t & E & _ & S).
    rewrite H in E. simpl in E. injection E as <-. exact S.
  - intros Hs.
    destruct (linux_routes_conv_proved a b Ha Hb) as (t & E & N & S).
    destruct (diff_routes a b) as [|c l] eqn:Ed; [reflexivity|exfalso].
    (* the first command would be refused or change the set *)
    cbn [kexec_all] in E. destruct c as [r|r|o n]; cbn [kexec] in E.
    + unfold kadd in E. destruct (mem_spec (r_spec r) (specs a)) eqn:Em; [discriminate|].
      apply mem_spec_false in Em.
      (* r is a target route: it comes from sort_routes b *)
      unfold diff_routes, diff_routes_sorted in Ed.
      destruct (loop_b a (sort_routes b) (map r_spec a)) as [c m] eqn:El.
      assert (Hr : In (r_spec r) (specs b)).
      { clear -El Ed. assert (G : forall bs amap c m, loop_b a bs amap = (c, m) ->
            forall x, In x c -> match x with RAdd r | RRepl _ r => In (r_spec r) (specs bs) | RDel _ => False end).
        { induction bs as [|q bs IH]; intros amap c0 m0 H x Hx; simpl in H.
          - injection H as <- <-. destruct Hx.
          - destruct (mem_spec (r_spec q) amap).
            + specialize (IH _ _ _ H x Hx). destruct x; simpl; auto.
            + destruct (last_with_dst a (r_spec q)) as [r2|].
              * destruct (mem_spec (r_spec r2) amap).
                -- destruct (loop_b a bs (remove_spec (r_spec r2) amap)) as [c1 m1] eqn:E1.
                   injection H as <- <-. destruct Hx as [<-|Hx]; [simpl; auto|].
                   specialize (IH _ _ _ E1 x Hx). destruct x; simpl; auto.
                -- destruct (loop_b a bs amap) as [c1 m1] eqn:E1.
                   injection H as <- <-. destruct Hx as [<-|Hx]; [simpl; auto|].
                   specialize (IH _ _ _ E1 x Hx). destruct x; simpl; auto.
              * destruct (loop_b a bs amap) as [c1 m1] eqn:E1.
                injection H as <- <-. destruct Hx as [<-|Hx]; [simpl; auto|].
                specialize (IH _ _ _ E1 x Hx). destruct x; simpl; auto. }
        destruct c as [|c0 c'].
        - simpl in Ed. exfalso.
          destruct (filter _ a); simpl in Ed; discriminate.
        - simpl in Ed. injection Ed as -> _.
          specialize (G _ _ _ _ El (RAdd r) (or_introl eq_refl)). simpl in G.
          eapply Permutation_in; [apply Permutation_map; apply sort_routes_perm | exact G]. }
      apply Em. apply Hs. exact Hr.
    + (* a delete first means the loop emitted nothing: every target is on the device;
         the deleted route is on the device but not in the target *)
      unfold diff_routes, diff_routes_sorted in Ed.
      destruct (loop_b a (sort_routes b) (map r_spec a)) as [c m] eqn:El.
      assert (Hm : forall s, In s m -> ~ In s (specs b)).
      { intros s Hm.
        destruct (loop_b_spec a (sort_routes b) (specs a) (specs a) []) as (t1 & _ & _ & _ & _ & _ & S3); auto.
        - apply (Permutation_NoDup (Permutation_sym (Permutation_map r_spec (sort_routes_perm b)))). exact Hb.
        - intros s0; simpl; tauto.
        - unfold specs in S3 at 1. rewrite El in S3. cbn [snd] in S3.
          destruct (S3 s Hm) as [_ B]. intro H. apply B.
          eapply Permutation_in; [apply Permutation_sym; apply Permutation_map; apply sort_routes_perm | exact H]. }
      destruct c as [|c0 c'].
      * simpl in Ed.
        assert (Hin : In r (filter (fun r => mem_spec (r_spec r) m) a)).
        { assert (Hx : In (RDel r) (map RDel (filter (fun r => mem_spec (r_spec r) m) a)))
            by (rewrite Ed; left; reflexivity).
          apply in_map_iff in Hx. destruct Hx as [x [Hx1 Hx2]]. injection Hx1 as ->. exact Hx2. }
        apply filter_In in Hin. destruct Hin as [Hra Hrm]. apply mem_spec_In in Hrm.
        apply (Hm _ Hrm). apply Hs. unfold specs. apply in_map. exact Hra.
      * simpl in Ed. injection Ed as -> _.
        assert (G : forall bs amap c m, loop_b a bs amap = (c, m) -> forall x, In x c -> match x with RDel _ => False | _ => True end).
        { induction bs as [|q bs IH]; intros amap c0 m0 H x Hx; simpl in H.
          - injection H as <- <-. destruct Hx.
          - destruct (mem_spec (r_spec q) amap); [exact (IH _ _ _ H x Hx)|].
            destruct (last_with_dst a (r_spec q)) as [r2|].
            + destruct (mem_spec (r_spec r2) amap).
              * destruct (loop_b a bs (remove_spec (r_spec r2) amap)) as [c1 m1] eqn:E1.
                injection H as <- <-. destruct Hx as [<-|Hx]; [exact I | exact (IH _ _ _ E1 x Hx)].
              * destruct (loop_b a bs amap) as [c1 m1] eqn:E1.
                injection H as <- <-. destruct Hx as [<-|Hx]; [exact I | exact (IH _ _ _ E1 x Hx)].
            + destruct (loop_b a bs amap) as [c1 m1] eqn:E1.
              injection H as <- <-. destruct Hx as [<-|Hx]; [exact I | exact (IH _ _ _ E1 x Hx)]. }
        exact (G _ _ _ _ El (RDel r) (or_introl eq_refl)).
    + (* a replacement first: its new route is a target route absent from the device *)
      unfold diff_routes, diff_routes_sorted in Ed.
      destruct (loop_b a (sort_routes b) (map r_spec a)) as [c m] eqn:El.
      destruct c as [|c0 c'].
      * simpl in Ed. destruct (filter _ a); simpl in Ed; discriminate.
      * simpl in Ed. injection Ed as -> _.
        (* in the loop a replacement is emitted only when the new spec is not in amap;
           at the first emitted command amap still contains every device route that
           was not matched, in particular: n's spec is not a device route *)
        assert (G : forall bs amap c m, loop_b a bs amap = (c, m) ->
                  (forall s, In s (specs a) -> In s (specs bs) \/ True) ->
                  match c with
                  | RRepl _ n0 :: _ => exists pre, (forall q, In q pre -> In (r_spec q) amap) /\
                        ~ In (r_spec n0) (fold_left (fun m q => remove_spec (r_spec q) m) pre amap)
                  | _ => True
                  end).
        { induction bs as [|q bs IH]; intros amap c0 m0 H _; simpl in H.
          - injection H as <- <-. exact I.
          - destruct (mem_spec (r_spec q) amap) eqn:Eq.
            + specialize (IH _ _ _ H (fun _ _ => or_intror I)).
              destruct c0 as [|[?|?|o0 n0] ?]; auto.
              destruct IH as [pre [P1 P2]]. exists (q :: pre). split.
              * intros z [<-|Hz]; [apply mem_spec_In; exact Eq|].
                specialize (P1 z Hz). apply In_remove_spec in P1. tauto.
              * exact P2.
            + destruct (last_with_dst a (r_spec q)) as [r2|].
              * destruct (mem_spec (r_spec r2) amap).
                -- destruct (loop_b a bs (remove_spec (r_spec r2) amap)) as [c1 m1].
                   injection H as <- <-. exists []. split; [intros ? []|].
                   simpl. apply mem_spec_false. exact Eq.
                -- destruct (loop_b a bs amap) as [c1 m1]. injection H as <- <-. exact I.
              * destruct (loop_b a bs amap) as [c1 m1]. injection H as <- <-. exact I. }
        specialize (G _ _ _ _ El (fun _ _ => or_intror I)). cbn in G.
        destruct G as [pre [P1 P2]].
        (* n is a target route *)
        assert (Hn : In (r_spec n) (specs b)).
        { assert (G2 : forall bs amap c m, loop_b a bs amap = (c, m) ->
              forall x, In x c -> match x with RAdd r | RRepl _ r => In (r_spec r) (specs bs) | RDel _ => False end).
          { induction bs as [|q bs IH]; intros amap c0 m0 H x Hx; simpl in H.
            - injection H as <- <-. destruct Hx.
            - destruct (mem_spec (r_spec q) amap).
              + specialize (IH _ _ _ H x Hx). destruct x; simpl; auto.
              + destruct (last_with_dst a (r_spec q)) as [r2|].
                * destruct (mem_spec (r_spec r2) amap).
                  -- destruct (loop_b a bs (remove_spec (r_spec r2) amap)) as [c1 m1] eqn:E1.
                     injection H as <- <-. destruct Hx as [<-|Hx]; [simpl; auto|].
                     specialize (IH _ _ _ E1 x Hx). destruct x; simpl; auto.
                  -- destruct (loop_b a bs amap) as [c1 m1] eqn:E1.
                     injection H as <- <-. destruct Hx as [<-|Hx]; [simpl; auto|].
                     specialize (IH _ _ _ E1 x Hx). destruct x; simpl; auto.
                * destruct (loop_b a bs amap) as [c1 m1] eqn:E1.
                  injection H as <- <-. destruct Hx as [<-|Hx]; [simpl; auto|].
                  specialize (IH _ _ _ E1 x Hx). destruct x; simpl; auto. }
          specialize (G2 _ _ _ _ El (RRepl o n) (or_introl eq_refl)). simpl in G2.
          eapply Permutation_in; [apply Permutation_map; apply sort_routes_perm | exact G2]. }
        (* the replacement is executed on the full device table: the add must succeed,
           hence n is not on the device, contradiction with set equality *)
        unfold kdel in E. destruct (mem_spec (r_spec o) (specs a)) eqn:Eo; [|discriminate].
        unfold kadd in E.
        destruct (mem_spec (r_spec n) (remove_spec (r_spec o) (specs a))) eqn:En; [discriminate|].
        apply mem_spec_false in En. rewrite In_remove_spec in En.
        apply Hs in Hn.
        assert (r_spec n = r_spec o) by (destruct (spec_eqb (r_spec n) (r_spec o)) eqn:Q;
          [apply spec_eqb_eq; exact Q | exfalso; apply En; split; [exact Hn|]; intro X; rewrite X, spec_eqb_refl in Q; discriminate]).
        (* then the old route equals the new one, which the loop excludes *)
        clear -El H.
        assert (G3 : forall bs amap c m, loop_b a bs amap = (c, m) ->
                  forall o n, In (RRepl o n) c -> r_spec n <> r_spec o).
        { induction bs as [|q bs IH]; intros amap c0 m0 H0 o0 n0 Hx; simpl in H0.
          - injection H0 as <- <-. destruct Hx.
          - destruct (mem_spec (r_spec q) amap) eqn:Eq; [exact (IH _ _ _ H0 _ _ Hx)|].
            destruct (last_with_dst a (r_spec q)) as [r2|].
            + destruct (mem_spec (r_spec r2) amap) eqn:E2.
              * destruct (loop_b a bs (remove_spec (r_spec r2) amap)) as [c1 m1] eqn:E1.
                injection H0 as <- <-. destruct Hx as [Hx|Hx]; [|exact (IH _ _ _ E1 _ _ Hx)].
                injection Hx as <- <-. intro X. rewrite X in Eq. congruence.
              * destruct (loop_b a bs amap) as [c1 m1] eqn:E1.
                injection H0 as <- <-. destruct Hx as [Hx|Hx]; [discriminate | exact (IH _ _ _ E1 _ _ Hx)].
            + destruct (loop_b a bs amap) as [c1 m1] eqn:E1.
              injection H0 as <- <-. destruct Hx as [Hx|Hx]; [discriminate | exact (IH _ _ _ E1 _ _ Hx)]. }
        exact (G3 _ _ _ _ El o n (or_introl eq_refl) H).
Qed.

(* ------------------------------------------------------------------ *)
(* Stepwise coverage (C14): every address covered by a route before and
   after the change is covered after each command. *)

Fixpoint kexec_prefix (k : nat) (t : list spec) (l : list rcmd) : option (list spec) :=
  match k, l with
  | O, _ => Some t
  | S k', c :: r => match kexec t c with Some t' => kexec_prefix k' t' r | None => None end
  | S _, [] => Some t
  end.

Section Coverage.
Variable addr : Type.
Variable covers : spec -> addr -> bool.
Hypothesis covers_dst : forall s s' x, dst_eqb s s' = true -> covers s x = covers s' x.

Definition covered (t : list spec) (x : addr) : Prop := exists s, In s t /\ covers s x = true.

Lemma last_with_dst_dst a s r : last_with_dst a s = Some r -> dst_eqb (r_spec r) s = true.
Proof.
  induction a as [|y a IH]; simpl; [discriminate|].
  destruct (last_with_dst a s) as [z|] eqn:E.
  - intros H. injection H as <-. apply IH. reflexivity.
  - destruct (dst_eqb (r_spec y) s) eqn:Ed; [|discriminate]. intros H. injection H as <-. exact Ed.
Qed.

(* commands of the loop: adds, and replacements of a route by one to the same destination *)
Definition loop_cmd (c : rcmd) : Prop :=
  match c with
  | RAdd _ => True
  | RRepl o n => dst_eqb (r_spec o) (r_spec n) = true
  | RDel _ => False
  end.

Lemma loop_b_cmds a : forall bs amap c, In c (fst (loop_b a bs amap)) -> loop_cmd c.
Proof.
  induction bs as [|r bs IH]; intros amap c Hc; simpl in Hc; [destruct Hc|].
  destruct (mem_spec (r_spec r) amap); [apply (IH _ _ Hc)|].
  destruct (last_with_dst a (r_spec r)) as [r2|] eqn:El.
  - destruct (mem_spec (r_spec r2) amap).
    + destruct (loop_b a bs (remove_spec (r_spec r2) amap)) as [c1 m1] eqn:E1. simpl in Hc.
      destruct Hc as [<-|Hc]; [simpl; apply (last_with_dst_dst _ _ _ El)|].
      apply (IH (remove_spec (r_spec r2) amap)). rewrite E1. exact Hc.
    + destruct (loop_b a bs amap) as [c1 m1] eqn:E1. simpl in Hc.
      destruct Hc as [<-|Hc]; [exact I|]. apply (IH amap). rewrite E1. exact Hc.
  - destruct (loop_b a bs amap) as [c1 m1] eqn:E1. simpl in Hc.
    destruct Hc as [<-|Hc]; [exact I|]. apply (IH amap). rewrite E1. exact Hc.
Qed.

Lemma loop_cmd_keeps_cover t c t' x :
  loop_cmd c -> kexec t c = Some t' -> covered t x -> covered t' x.
Proof.
  destruct c as [r|r|o n]; simpl; intros L H [s [Hs Hc]]; [|contradiction|].
  - unfold kadd in H. destruct (mem_spec (r_spec r) t); [discriminate|]. injection H as <-.
    exists s. split; [apply in_or_app; left; exact Hs | exact Hc].
  - unfold kdel in H. destruct (mem_spec (r_spec o) t); [|discriminate].
    unfold kadd in H. destruct (mem_spec (r_spec n) (remove_spec (r_spec o) t)); [discriminate|].
    injection H as <-.
    destruct (spec_eqb s (r_spec o)) eqn:E.
    + apply spec_eqb_eq in E. subst s. exists (r_spec n). split; [apply in_or_app; right; left; reflexivity|].
      rewrite <- (covers_dst _ _ x L). exact Hc.
    + exists s. split; [|exact Hc]. apply in_or_app. left. apply In_remove_spec. split; [exact Hs|].
      intro X. subst. rewrite spec_eqb_refl in E. discriminate.
Qed.

Lemma loop_prefix_keeps_cover : forall cs k t t' x,
  (forall c, In c cs -> loop_cmd c) -> kexec_prefix k t cs = Some t' -> covered t x -> covered t' x.
Proof.
  induction cs as [|c cs IH]; intros k t t' x L H Hc.
  - destruct k; simpl in H; injection H as <-; exact Hc.
  - destruct k; simpl in H; [injection H as <-; exact Hc|].
    destruct (kexec t c) as [t1|] eqn:E; [|discriminate].
    apply (IH k t1 t' x); [intros c0 H0; apply L; right; exact H0 | exact H|].
    apply (loop_cmd_keeps_cover t c t1 x); [apply L; left; reflexivity | exact E | exact Hc].
Qed.

Lemma kexec_prefix_app : forall c1 c2 k t,
  kexec_prefix k t (c1 ++ c2) =
  if Nat.leb k (List.length c1) then kexec_prefix k t c1
  else match kexec_all t c1 with
       | Some t1 => kexec_prefix (k - List.length c1) t1 c2
       | None => None
       end.
Proof.
  induction c1 as [|c c1 IH]; intros c2 k t.
  - destruct k; [destruct c2; reflexivity|]. cbn [app List.length Nat.leb kexec_all]. rewrite Nat.sub_0_r. reflexivity.
  - destruct k; [reflexivity|]. cbn [app List.length Nat.leb kexec_all kexec_prefix Nat.sub].
    destruct (kexec t c) as [t1|]; [|destruct (Nat.leb k (List.length c1)); reflexivity].
    apply IH.
Qed.

(* during the delete phase nothing of the target is removed *)
Lemma dels_prefix_keeps : forall l k t t' (keep : list spec),
  (forall s, In s (specs l) -> ~ In s keep) ->
  kexec_prefix k t (map RDel l) = Some t' ->
  (forall s, In s keep -> In s t) -> forall s, In s keep -> In s t'.
Proof.
  induction l as [|r l IH]; intros k t t' keep D H Hk s Hs.
  - destruct k; simpl in H; injection H as <-; apply Hk; exact Hs.
  - destruct k; simpl in H; [injection H as <-; apply Hk; exact Hs|].
    unfold kdel in H. destruct (mem_spec (r_spec r) t); [|discriminate].
    apply (IH k (remove_spec (r_spec r) t) t' keep); auto.
    + intros s0 H0. apply D. right. exact H0.
    + intros s0 H0. apply In_remove_spec. split; [apply Hk; exact H0|].
      intro X. subst. apply (D (r_spec r)); [left; reflexivity | exact H0].
Qed.

Theorem routes_covered_stepwise_proved a b :
  NoDup (specs a) -> NoDup (specs b) ->
  forall k t x, kexec_prefix k (specs a) (diff_routes a b) = Some t ->
    covered (specs a) x -> covered (specs b) x -> covered t x.
Proof.
  intros Ha Hb k t x Hk Ca Cb.
  unfold diff_routes, diff_routes_sorted in Hk.
  pose proof (sort_routes_perm b) as P.
  assert (Hb' : NoDup (specs (sort_routes b))).
  { apply (Permutation_NoDup (Permutation_sym (Permutation_map r_spec P))). exact Hb. }
  destruct (loop_b_spec a (sort_routes b) (specs a) (specs a) []) as (t1 & E & N1 & N2 & S1 & S2 & S3); auto.
  { intros s; simpl; tauto. }
  fold (specs a) in Hk.
  destruct (loop_b a (sort_routes b) (specs a)) as [c m] eqn:El. cbn [fst snd] in *.
  rewrite kexec_prefix_app in Hk.
  destruct (Nat.leb k (List.length c)) eqn:Ek.
  - apply (loop_prefix_keeps_cover c k (specs a) t x); auto.
    intros c0 H0. apply (loop_b_cmds a (sort_routes b) (specs a)). rewrite El. exact H0.
  - rewrite E in Hk.
    destruct Cb as [s [Hs Hc]]. exists s. split; [|exact Hc].
    assert (Hs' : In s (specs (sort_routes b)))
      by (eapply Permutation_in; [apply Permutation_sym; apply Permutation_map; exact P | exact Hs]).
    apply (dels_prefix_keeps _ _ _ _ (specs (sort_routes b)) ) with (s := s) in Hk; auto.
    + intros s0 H0 H1. unfold specs in H0. rewrite in_map_iff in H0. destruct H0 as [r [<- Hr]].
      apply filter_In in Hr. destruct Hr as [_ Hm]. apply mem_spec_In in Hm.
      destruct (S3 _ Hm) as [_ B]. exact (B H1).
    + intros s0 H0. apply S2. right. right. exact H0.
Qed.
End Coverage.
