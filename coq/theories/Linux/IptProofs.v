(* Linux/IptProofs.v — diffIPTables reports no difference only for rulesets with
   the same tables, chains, policies and, rule by rule in order, the same options
   with the same values (names are assumed non-empty). *)
From Coq Require Import List String Bool Arith Lia.
From NA Require Import Base.Str Linux.Model.
Import ListNotations.
Open Scope string_scope.

Lemma str_eqb_eq' a b : str_eqb a b = true <-> a = b.
Proof. unfold str_eqb. apply String.eqb_eq. Qed.

Lemma append_nil_l a b : (a ++ b)%string = "" -> a = "" /\ b = "".
Proof. destruct a; simpl; [auto | discriminate]. Qed.

Lemma join_empty l : join "," l = "" -> l = [] \/ l = [""].
Proof.
  destruct l as [|x [|y r]]; [auto | simpl; intros ->; auto |].
  change (join "," (x :: y :: r)) with (x ++ "," ++ join "," (y :: r)). intros H. apply append_nil_l in H. destruct H as [_ H]. discriminate.
Qed.

Lemma check_extra_none a b : check_extra a b = None -> ~ In "" a -> ~ In "" b ->
  (forall k, In k a -> In k b) /\ (forall k, In k b -> In k a).
Proof.
  unfold check_extra. intros H Na Nb.
  destruct (str_eqb (join "," (extra_keys a b)) "" && str_eqb (join "," (extra_keys b a)) "")%bool eqn:E; [|discriminate].
  apply andb_true_iff in E. destruct E as [E1 E2]. apply str_eqb_eq' in E1, E2.
  assert (G : forall x y, ~ In "" x -> join "," (extra_keys x y) = "" -> forall k, In k x -> In k y).
  { intros x y Nx J k Hk. destruct (existsb (str_eqb k) y) eqn:X.
    - apply existsb_exists in X. destruct X as (k' & I & Ek). apply str_eqb_eq' in Ek. subst k'. exact I.
    - exfalso. assert (I : In k (extra_keys x y)) by (unfold extra_keys; apply filter_In; split; [exact Hk | rewrite X; reflexivity]).
      apply join_empty in J. destruct J as [J|J]; rewrite J in I; [destruct I|]. destruct I as [<-|[]]. contradiction. }
  split; [apply (G a b Na E1) | apply (G b a Nb E2)].
Qed.

(* ---- rules ---- *)
Definition rule_same (ra rb : rule) : Prop :=
  (forall k, In k (keys (ru_pairs ra)) <-> In k (keys (ru_pairs rb))) /\
  (forall k v, In (k, v) (ru_pairs ra) -> sget (ru_pairs rb) k = Some v).

Lemma sget_in m k : In k (keys m) -> exists v, sget m k = Some v.
Proof.
  induction m as [|[k' v'] r IH]; simpl; [intros []|]. destruct (str_eqb k k') eqn:E; [eauto|].
  intros [H|H]; [subst k'; unfold str_eqb in E; rewrite String.eqb_refl in E; discriminate | apply IH, H].
Qed.

Lemma first_diff_none a b : first_diff_pair a b = None -> (forall k, In k (keys a) -> In k (keys b)) ->
  forall k v, In (k, v) a -> sget b k = Some v.
Proof.
  induction a as [|[k0 v0] r IH]; intros H Sub k v I; [destruct I|]. cbn [first_diff_pair] in H.
  destruct (str_eqb v0 (match sget b k0 with Some x => x | None => "" end)) eqn:E; [|discriminate].
  destruct I as [I|I].
  - injection I as <- <-. apply str_eqb_eq' in E. destruct (sget_in b k0 (Sub k0 (or_introl eq_refl))) as [v2 S2]. rewrite S2 in *. congruence.
  - apply (IH H); [intros k' Hk'; apply Sub; right; exact Hk' | exact I].
Qed.

Definition keys_ok (r : rule) : Prop := ~ In "" (keys (ru_pairs r)).

Lemma diff_rules_none tn cn : forall a b i, diff_rules tn cn i a b = None -> List.length a = List.length b ->
  Forall keys_ok a -> Forall keys_ok b -> Forall2 rule_same a b.
Proof.
  induction a as [|ra a IH]; intros [|rb b] i H L Ka Kb; try discriminate; [constructor|].
  cbn [diff_rules] in H. inversion Ka; inversion Kb; subst.
  destruct (check_extra (keys (ru_pairs ra)) (keys (ru_pairs rb))) eqn:CE; [discriminate|].
  destruct (first_diff_pair (ru_pairs ra) (ru_pairs rb)) as [[[k v] v2]|] eqn:FD; [discriminate|].
  destruct (check_extra_none _ _ CE) as [S1 S2]; [assumption | assumption|].
  constructor.
  - split; [intros k; split; [apply S1 | apply S2] | apply (first_diff_none _ _ FD S1)].
  - apply (IH b (S i) H); [simpl in L; lia | assumption | assumption].
Qed.

(* ---- chains, tables ---- *)
Definition chain_same (ca cb : chain) : Prop := ch_policy ca = ch_policy cb /\ Forall2 rule_same (ch_rules ca) (ch_rules cb).
Definition chain_ok (c : chain) : Prop := Forall keys_ok (ch_rules c).

Lemma find_chain_name l n c : find_chain l n = Some c -> ch_name c = n /\ In c l.
Proof. unfold find_chain. intros H. apply find_some in H. destruct H as [I E]. apply str_eqb_eq' in E. auto. Qed.
Lemma find_chain_in l n : In n (map ch_name l) -> exists c, find_chain l n = Some c.
Proof.
  unfold find_chain. induction l as [|c r IH]; simpl; [intros []|]. destruct (str_eqb (ch_name c) n) eqn:E; [eauto|].
  intros [H|H]; [subst n; unfold str_eqb in E; rewrite String.eqb_refl in E; discriminate | apply IH, H].
Qed.
Lemma find_table_name l n t : find_table l n = Some t -> tb_name t = n /\ In t l.
Proof. unfold find_table. intros H. apply find_some in H. destruct H as [I E]. apply str_eqb_eq' in E. auto. Qed.
Lemma find_table_in l n : In n (map tb_name l) -> exists t, find_table l n = Some t.
Proof.
  unfold find_table. induction l as [|c r IH]; simpl; [intros []|]. destruct (str_eqb (tb_name c) n) eqn:E; [eauto|].
  intros [H|H]; [subst n; unfold str_eqb in E; rewrite String.eqb_refl in E; discriminate | apply IH, H].
Qed.

Lemma diff_chains_none tn b : forall a, diff_chains tn a b = None ->
  (forall c, In c a -> In (ch_name c) (map ch_name b)) ->
  Forall chain_ok a -> Forall chain_ok b ->
  forall ca, In ca a -> exists cb, find_chain b (ch_name ca) = Some cb /\ chain_same ca cb.
Proof.
  induction a as [|c0 a IH]; intros H Sub Ka Kb ca I; [destruct I|]. cbn [diff_chains] in H. inversion Ka; subst.
  destruct (find_chain_in b (ch_name c0) (Sub c0 (or_introl eq_refl))) as [cb0 F0]. rewrite F0 in H.
  destruct (negb (str_eqb (ch_policy c0) (ch_policy cb0))) eqn:P; [discriminate|].
  destruct (negb (Nat.eqb (List.length (ch_rules c0)) (List.length (ch_rules cb0)))) eqn:Ln; [discriminate|].
  destruct (diff_rules tn (ch_name c0) 0 (ch_rules c0) (ch_rules cb0)) eqn:DR; [discriminate|].
  destruct I as [<-|I]; [|apply (IH H); [intros c Hc; apply Sub; right; exact Hc | assumption | assumption | exact I]].
  exists cb0. split; [exact F0|]. split.
  - apply negb_false_iff in P. apply str_eqb_eq' in P. exact P.
  - apply negb_false_iff, Nat.eqb_eq in Ln. apply (diff_rules_none _ _ _ _ _ DR Ln); [assumption|].
    apply find_chain_name in F0. destruct F0 as [_ F0]. rewrite Forall_forall in Kb. apply Kb, F0.
Qed.

Definition table_same (ta tb : table) : Prop :=
  (forall n, In n (map ch_name (tb_chains ta)) <-> In n (map ch_name (tb_chains tb))) /\
  forall ca, In ca (tb_chains ta) -> exists cb, find_chain (tb_chains tb) (ch_name ca) = Some cb /\ chain_same ca cb.
Definition table_ok (t : table) : Prop := ~ In "" (map ch_name (tb_chains t)) /\ Forall chain_ok (tb_chains t).

Lemma diff_tables_loop_none b : forall a, diff_tables_loop a b = None ->
  (forall t, In t a -> In (tb_name t) (map tb_name b)) -> Forall table_ok a -> Forall table_ok b ->
  forall ta, In ta a -> exists tb, find_table b (tb_name ta) = Some tb /\ table_same ta tb.
Proof.
  induction a as [|t0 a IH]; intros H Sub Ka Kb ta I; [destruct I|]. cbn [diff_tables_loop] in H. inversion Ka as [|? ? [N0 C0] Ka']; subst.
  destruct (find_table_in b (tb_name t0) (Sub t0 (or_introl eq_refl))) as [tb0 F0]. rewrite F0 in H.
  destruct (check_extra (map ch_name (tb_chains t0)) (map ch_name (tb_chains tb0))) eqn:CE; [discriminate|].
  destruct (diff_chains (tb_name t0) (tb_chains t0) (tb_chains tb0)) eqn:DC; [discriminate|].
  destruct I as [<-|I]; [|apply (IH H); [intros t Ht; apply Sub; right; exact Ht | assumption | assumption | exact I]].
  exists tb0. split; [exact F0|].
  pose proof (find_table_name _ _ _ F0) as [_ Ib]. rewrite Forall_forall in Kb. destruct (Kb tb0 Ib) as [Nb Cb].
  destruct (check_extra_none _ _ CE N0 Nb) as [S1 S2]. split; [intros n; split; [apply S1 | apply S2]|].
  apply (diff_chains_none _ _ _ DC); [intros c Hc; apply S1; apply in_map; exact Hc | exact C0 | exact Cb].
Qed.

(* diffIPTables = nothing to report: same tables, chains, policies and rules *)
Theorem diff_iptables_none_sound a b : diff_iptables a b = None ->
  ~ In "" (map tb_name a) -> ~ In "" (map tb_name b) -> Forall table_ok a -> Forall table_ok b ->
  (forall n, In n (map tb_name a) <-> In n (map tb_name b)) /\
  forall ta, In ta a -> exists tb, find_table b (tb_name ta) = Some tb /\ table_same ta tb.
Proof.
  unfold diff_iptables. intros H Na Nb Ka Kb.
  destruct (check_extra (map tb_name a) (map tb_name b)) eqn:CE; [discriminate|].
  destruct (check_extra_none _ _ CE Na Nb) as [S1 S2]. split; [intros n; split; [apply S1 | apply S2]|].
  apply (diff_tables_loop_none b a H); [intros t Ht; apply S1, in_map, Ht | exact Ka | exact Kb].
Qed.
