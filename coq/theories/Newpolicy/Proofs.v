(* Newpolicy/Proofs.v — a script that passes the checker keeps the invariant
   for every history of compiling / non-compiling revisions and every kill
   position of every run. *)
From Coq Require Import List Arith Bool Lia.
From NA Require Import Newpolicy.Model.
Import ListNotations.

Lemma op_eqb_eq a b : op_eqb a b = true <-> a = b.
Proof. destruct a, b; simpl; split; congruence. Qed.

Lemma ops_eqb_eq a b : ops_eqb a b = true <-> a = b.
Proof.
  revert b; induction a as [|x a IH]; intros [|y b]; simpl; split; try congruence; auto.
  - intros H. apply andb_true_iff in H. destruct H as [H1 H2]. apply op_eqb_eq in H1. apply IH in H2. congruence.
  - intros H. injection H as -> ->. apply andb_true_iff. split; [apply op_eqb_eq; reflexivity | apply IH; reflexivity].
Qed.

(* operations outside the skeleton do nothing to the modelled state *)
Lemma exec_noop d c o : no_db_op o = true -> exec d c o = (d, c).
Proof. destruct o; simpl; intros H; try discriminate; reflexivity. Qed.

Lemma exec_list_skeleton l : forall d c, exec_list d c l = exec_list d c (skeleton l).
Proof.
  induction l as [|o r IH]; intros d c; [reflexivity|].
  unfold skeleton. cbn [filter]. destruct (no_db_op o) eqn:E; cbn [negb].
  - cbn [exec_list]. rewrite (exec_noop d c o E). apply IH.
  - cbn [exec_list]. destruct (exec d c o) as [d' c']. apply IH.
Qed.

(* the skeleton of a prefix is a prefix of the skeleton *)
Lemma skeleton_firstn l : forall k, exists j, skeleton (firstn k l) = firstn j (skeleton l).
Proof.
  induction l as [|o r IH]; intros k.
  - exists 0. destruct k; reflexivity.
  - destruct k as [|k]; [exists 0; reflexivity|].
    destruct (IH k) as [j Hj]. unfold skeleton in *. cbn [firstn filter].
    destruct (negb (no_db_op o)).
    + exists (S j). cbn [firstn]. rewrite Hj. reflexivity.
    + exists j. exact Hj.
Qed.

Lemma skeleton_app a b : skeleton (a ++ b) = skeleton a ++ skeleton b.
Proof. unfold skeleton. apply filter_app. Qed.

(* every prefix of the canonical operation sequence keeps the invariant *)
Lemma canonical_good_inv d j :
  inv d -> inv (fst (exec_list d 0 (firstn j [ReadCounts; Compile; Push; MvNext; RmCurrent; LnCurrent]))).
Proof.
  intros Hi. pose proof Hi as [Ic Is Id Ih Ihd Ich].
  assert (Hfresh : existsb (Nat.eqb (S (maxc d))) (dirs d) = false).
  { destruct (existsb _ _) eqn:E; [|reflexivity]. apply existsb_exists in E. destruct E as [n [Hn En]].
    apply Nat.eqb_eq in En. specialize (Id n Hn). unfold maxc in En. lia. }
  assert (Hm1 : repo d <= S (maxc d)) by (unfold maxc; lia).
  assert (Hm2 : match cur d with Some n => n <= S (maxc d) | None => True end)
    by (destruct (cur d); [unfold maxc; lia | exact I]).
  assert (Hm3 : match hist d with n :: _ => n < S (maxc d) | [] => True end)
    by (destruct (hist d); [exact I | unfold maxc; lia]).
  destruct j as [|[|[|[|[|[|j]]]]]].
  - exact Hi.
  - exact Hi.
  - exact Hi.
  - (* pushed *)
    cbn -[maxc Nat.eqb]. constructor; cbn -[maxc Nat.eqb].
    + exact Ic.
    + exact Is.
    + intros n Hn. specialize (Id n Hn). lia.
    + exact Ih.
    + destruct (hist d); [exact I | lia].
    + exact Hm2.
  - (* moved *)
    cbn -[maxc Nat.eqb]. rewrite Hfresh. cbn -[maxc Nat.eqb]. constructor; cbn -[maxc Nat.eqb].
    + destruct (cur d); [right; exact Ic | exact I].
    + exact Is.
    + intros n [<-|Hn]; [lia | specialize (Id n Hn); lia].
    + exact Ih.
    + destruct (hist d); [exact I | lia].
    + exact Hm2.
  - (* link removed *)
    cbn -[maxc Nat.eqb]. rewrite Hfresh. cbn -[maxc Nat.eqb]. constructor; cbn -[maxc Nat.eqb].
    + exact I.
    + exact Is.
    + intros n [<-|Hn]; [lia | specialize (Id n Hn); lia].
    + exact Ih.
    + destruct (hist d); [exact I | lia].
    + exact I.
  - (* link set *)
    cbn [firstn]. rewrite firstn_nil.
    cbn -[maxc Nat.eqb]. rewrite Hfresh. cbn -[maxc Nat.eqb]. constructor; cbn -[maxc Nat.eqb].
    + left. reflexivity.
    + exact Is.
    + intros n [<-|Hn]; [lia | specialize (Id n Hn); lia].
    + destruct (hist d); [exact I | split; [lia | exact Ih]].
    + lia.
    + lia.
Qed.

Lemma canonical_bad_inv d j :
  inv d -> inv (fst (exec_list d 0 (firstn j [ReadCounts; Compile]))).
Proof.
  intros H. do 3 (destruct j as [|j]; [exact H|]). exact H.
Qed.

Theorem run1_keeps_inv s d good k : check_script s = true -> inv d -> inv (run1 s d good k).
Proof.
  intros Hc Hi. unfold check_script in Hc. rewrite !andb_true_iff in Hc.
  destruct Hc as [[[_ Hp] Hs] Hf]. apply ops_eqb_eq in Hp, Hs, Hf.
  unfold run1. rewrite exec_list_skeleton.
  destruct (skeleton_firstn (run_ops s good) k) as [j Hj]. rewrite Hj.
  unfold run_ops. rewrite !skeleton_app, Hp. change (skeleton [Compile]) with [Compile].
  destruct good.
  - rewrite Hs. apply canonical_good_inv. exact Hi.
  - rewrite Hf. apply canonical_bad_inv. exact Hi.
Qed.

Lemma inv_init : inv init_db.
Proof. constructor; cbn; auto. intros n []. Qed.

(* C19 (safety half): for every history of compiling and non-compiling
   revisions and every kill position of every run. *)
Theorem newpolicy_invariant_proved :
  forall s h, check_script s = true -> inv (runs s init_db h).
Proof.
  intros s h Hc. unfold runs.
  assert (G : forall d, inv d -> inv (fold_left (fun d r => run1 s d (fst r) (snd r)) h d)).
  { induction h as [|r h IH]; intros d Hd; [exact Hd|]. simpl. apply IH. apply run1_keeps_inv; assumption. }
  apply G. apply inv_init.
Qed.

(* a revision that does not compile never changes current *)
Theorem bad_commit_keeps_current_proved :
  forall s d k, check_script s = true -> cur (run1 s d false k) = cur d /\ dirs (run1 s d false k) = dirs d.
Proof.
  intros s d k Hc. unfold check_script in Hc. rewrite !andb_true_iff in Hc.
  destruct Hc as [[[_ Hp] Hs] Hf]. apply ops_eqb_eq in Hp, Hs, Hf.
  unfold run1. rewrite exec_list_skeleton.
  destruct (skeleton_firstn (run_ops s false) k) as [j Hj]. rewrite Hj.
  unfold run_ops. rewrite !skeleton_app, Hp, Hf. change (skeleton [Compile]) with [Compile].
  do 3 (destruct j as [|j]; [split; reflexivity|]). split; reflexivity.
Qed.

(* an undisturbed run on a compiling revision publishes a fresh, larger number *)
Theorem undisturbed_run_publishes_proved :
  forall s d, check_script s = true -> inv d ->
    let d' := run1 s d true (length (run_ops s true)) in
    cur d' = Some (S (maxc d)) /\ In (S (maxc d)) (dirs d') /\ ~ In (S (maxc d)) (dirs d).
Proof.
  intros s d Hc Hi. unfold check_script in Hc. rewrite !andb_true_iff in Hc.
  destruct Hc as [[[_ Hp] Hs] Hf]. apply ops_eqb_eq in Hp, Hs, Hf.
  cbv zeta. unfold run1. rewrite firstn_all, exec_list_skeleton.
  unfold run_ops. rewrite !skeleton_app, Hp, Hs. change (skeleton [Compile]) with [Compile].
  destruct Hi as [Ic Is Id Ih Ihd Ich].
  assert (Hfresh : existsb (Nat.eqb (S (maxc d))) (dirs d) = false).
  { destruct (existsb _ _) eqn:E; [|reflexivity]. apply existsb_exists in E. destruct E as [n [Hn En]].
    apply Nat.eqb_eq in En. specialize (Id n Hn). unfold maxc in En. lia. }
  cbn -[maxc Nat.eqb]. rewrite Hfresh. cbn -[maxc Nat.eqb]. split; [reflexivity|]. split; [left; reflexivity|].
  intros Hn. specialize (Id _ Hn). unfold maxc in Id. lia.
Qed.
