(* Newpolicy/LiveProofs.v — liveness of newpolicy.sh: the marker failed exists only together
   with the directory of a failed compile, after every history of commits and killed runs; and
   then one undisturbed run makes a head that compiles current. *)
From Coq Require Import List Arith Bool Lia.
From NA Require Import Newpolicy.Model Newpolicy.Live.
Import ListNotations.

Lemma op_eqb_eq a b : op_eqb a b = true -> a = b.
Proof. destruct a, b; simpl; intros H; try discriminate; reflexivity. Qed.
Lemma ops_eqb_eq a : forall b, ops_eqb a b = true -> a = b.
Proof.
  induction a as [|x a IH]; intros [|y b]; simpl; intros H; try discriminate; [reflexivity|].
  apply andb_true_iff in H. destruct H as [H1 H2]. apply op_eqb_eq in H1. apply IH in H2. congruence.
Qed.

Lemma lexec_other s o : in_skel o = false -> lexec s o = s.
Proof. destruct o; simpl; intros H; try discriminate; reflexivity. Qed.

Lemma lexec_skel l : forall s, lexec_list s l = lexec_list s (live_skeleton l).
Proof.
  induction l as [|o l IH]; intros s; [reflexivity|].
  unfold live_skeleton. cbn [filter lexec_list]. destruct (in_skel o) eqn:E.
  - cbn [lexec_list]. rewrite IH. reflexivity.
  - rewrite (lexec_other s o E). rewrite IH. reflexivity.
Qed.

Lemma firstn_skel l : forall k, exists j, live_skeleton (firstn k l) = firstn j (live_skeleton l).
Proof.
  induction l as [|o l IH]; intros k.
  - exists 0. destruct k; reflexivity.
  - destruct k as [|k]; [exists 0; reflexivity|].
    destruct (IH k) as [j Hj]. unfold live_skeleton in *. cbn [firstn filter].
    destruct (in_skel o).
    + exists (S j). cbn [firstn]. rewrite Hj. reflexivity.
    + exists j. exact Hj.
Qed.

Lemma skel_app a b : live_skeleton (a ++ b) = (live_skeleton a ++ live_skeleton b)%list.
Proof. unfold live_skeleton. apply filter_app. Qed.

(* the states a run can be killed in: prefixes of the skeleton *)
Lemma killed_states sc good s k : check_live sc = true -> uptodate s = false ->
  exists j, lexec_list s (firstn k (live_ops sc good s)) =
            lexec_list s (firstn j ([RmFailed; RmNext; MkNext; Clone] ++
                                    (if good (head s) then [MvNext; RmCurrent; LnCurrent; RmFailed] else [TouchFailed]))).
Proof.
  intros C U. unfold check_live in C. apply andb_true_iff in C. destruct C as [C C3]. apply andb_true_iff in C. destruct C as [C1 C2].
  apply ops_eqb_eq in C1. apply ops_eqb_eq in C2. apply ops_eqb_eq in C3.
  unfold live_ops. rewrite U.
  rewrite lexec_skel. destruct (firstn_skel (prepare sc ++ [Compile] ++ (if good (head s) then on_success sc else on_failure sc)) k) as [j Hj].
  exists j. rewrite Hj. rewrite !skel_app, C1.
  destruct (good (head s)); [rewrite C2 | rewrite C3]; reflexivity.
Qed.

Lemma uptodate_run sc good s k : uptodate s = true ->
  lexec_list s (firstn k (live_ops sc good s)) = s.
Proof.
  intros U. unfold live_ops. rewrite U. destruct k as [|[|[|k]]]; reflexivity.
Qed.

Lemma uptodate_upd s : uptodate (upd s (nxt s) (failed s) (curr s) None) = uptodate s.
Proof. reflexivity. Qed.

(* every state a killed or undisturbed run leaves keeps the marker together with a failed compile *)
Theorem marker_ok_run sc good s k : check_live sc = true -> marker_ok good s -> marker_ok good (live_run sc good s k).
Proof.
  intros C M. unfold live_run. set (s0 := upd s (nxt s) (failed s) (curr s) None).
  assert (M0 : marker_ok good s0) by exact M.
  destruct (uptodate s0) eqn:U.
  - rewrite (uptodate_run sc good s0 k U). exact M0.
  - destruct (killed_states sc good s0 k C U) as [j ->].
    assert (HG : head s0 = head s) by reflexivity.
    destruct (good (head s0)) eqn:G.
    + do 9 (destruct j as [|j]; [cbn; first [exact M0 | intros F; discriminate F] |]).
      cbn. intros F; discriminate F.
    + do 6 (destruct j as [|j]; [cbn; first [exact M0 | intros F; discriminate F | intros _; exists (head s); split; [reflexivity | rewrite <- HG; exact G]] |]).
      cbn. intros _. exists (head s). split; [reflexivity | rewrite <- HG; exact G].
Qed.

Theorem marker_ok_history sc good : check_live sc = true -> forall h, marker_ok good (steps sc good linit h).
Proof.
  intros C h. unfold steps. assert (M : marker_ok good linit) by (intros F; discriminate F).
  revert M. generalize linit. induction h as [|e h IH]; intros s M; [exact M|].
  simpl. apply IH. destruct e as [r|k]; [exact M | apply marker_ok_run; assumption].
Qed.

(* liveness: a head that compiles is current after one undisturbed run *)
Theorem undisturbed_run_publishes_head sc good s : check_live sc = true -> marker_ok good s -> good (head s) = true ->
  curr (undisturbed sc good s) = Some (head s).
Proof.
  intros C M G. unfold undisturbed, live_run. set (s0 := upd s (nxt s) (failed s) (curr s) None).
  assert (E0 : live_ops sc good s = live_ops sc good s0) by reflexivity. rewrite E0.
  rewrite firstn_all.
  destruct (uptodate s0) eqn:U.
  - (* up to date: the marker cannot be the reason *)
    unfold live_ops. rewrite U. cbn.
    unfold uptodate in U. cbn in U.
    destruct (nxt s) as [r|] eqn:N; destruct (failed s) eqn:F.
    + destruct (M F) as (r' & Hr & Bad). rewrite N in Hr. injection Hr as ->.
      cbn in U. apply Nat.eqb_eq in U. subst r'. rewrite G in Bad. discriminate.
    + destruct (curr s) as [c|]; [|discriminate]. apply Nat.eqb_eq in U. rewrite U. reflexivity.
    + destruct (curr s) as [c|]; [|discriminate]. apply Nat.eqb_eq in U. rewrite U. reflexivity.
    + destruct (curr s) as [c|]; [|discriminate]. apply Nat.eqb_eq in U. rewrite U. reflexivity.
  - unfold live_ops. rewrite U. rewrite lexec_skel, !skel_app.
    unfold check_live in C. apply andb_true_iff in C. destruct C as [C C3]. apply andb_true_iff in C. destruct C as [C1 C2].
    apply ops_eqb_eq in C1. apply ops_eqb_eq in C2.
    rewrite C1. assert (HG : good (head s0) = true) by exact G. rewrite HG, C2. reflexivity.
Qed.

Theorem newest_compiling_head_becomes_current sc good : check_live sc = true ->
  forall h, let s := steps sc good linit h in
  good (head s) = true -> curr (undisturbed sc good s) = Some (head s).
Proof.
  intros C h s G. apply undisturbed_run_publishes_head; [exact C | apply marker_ok_history; exact C | exact G].
Qed.


Lemma lexec_list_head l : forall t, head (lexec_list t l) = head t.
Proof. induction l as [|o l IH]; intros t; [reflexivity|]. simpl. rewrite IH. destruct o; reflexivity. Qed.

(* ... and a further undisturbed run finds everything up to date *)
Theorem then_up_to_date sc good s : check_live sc = true -> marker_ok good s -> good (head s) = true ->
  uptodate (undisturbed sc good s) = true.
Proof.
  intros C M G. unfold undisturbed, live_run. set (s0 := upd s (nxt s) (failed s) (curr s) None).
  assert (E0 : live_ops sc good s = live_ops sc good s0) by reflexivity. rewrite E0.
  rewrite firstn_all.
  destruct (uptodate s0) eqn:U.
  - unfold live_ops. rewrite U. cbn. exact U.
  - unfold live_ops. rewrite U. rewrite lexec_skel, !skel_app.
    unfold check_live in C. apply andb_true_iff in C. destruct C as [C C3]. apply andb_true_iff in C. destruct C as [C1 C2].
    apply ops_eqb_eq in C1. apply ops_eqb_eq in C2.
    rewrite C1. assert (HG : good (head s0) = true) by exact G. rewrite HG, C2.
    unfold uptodate. cbn. apply Nat.eqb_refl.
Qed.

(* a head that does not compile never becomes current, and current is not touched *)
Theorem bad_head_keeps_current sc good s k : check_live sc = true -> good (head s) = false ->
  curr (live_run sc good s k) = curr s.
Proof.
  intros C G. unfold live_run. set (s0 := upd s (nxt s) (failed s) (curr s) None).
  destruct (uptodate s0) eqn:U.
  - rewrite (uptodate_run sc good s0 k U). reflexivity.
  - destruct (killed_states sc good s0 k C U) as [j ->].
    assert (HG : good (head s0) = false) by exact G. rewrite HG.
    do 6 (destruct j as [|j]; [reflexivity|]). reflexivity.
Qed.
