(* Newpolicy/Model.v — bin/newpolicy.sh as a sequence of abstract operations on
   the policy database; a run can be killed before any operation; runs follow
   each other under the exclusive lock.  Executable. *)
From Coq Require Import List Arith Bool Lia.
Import ListNotations.

Inductive op :=
| Flock | UpToDate | RmNext | MkNext | Clone | ReadCounts | LinkPrev | Compile
| CommitPolicy | Pull | Push | Reset | MvNext | RmCurrent | LnCurrent | RmFailed | Cleanup
| TouchFailed | Revert | Mail | TouchLock | Other.

Definition op_eqb (a b : op) : bool :=
  match a, b with
  | Flock, Flock | UpToDate, UpToDate | RmNext, RmNext | MkNext, MkNext | Clone, Clone | ReadCounts, ReadCounts
  | LinkPrev, LinkPrev | Compile, Compile | CommitPolicy, CommitPolicy | Pull, Pull | Push, Push | Reset, Reset
  | MvNext, MvNext | RmCurrent, RmCurrent | LnCurrent, LnCurrent | RmFailed, RmFailed | Cleanup, Cleanup
  | TouchFailed, TouchFailed | Revert, Revert | Mail, Mail | TouchLock, TouchLock | Other, Other => true
  | _, _ => false
  end.

(* the policy database and the repository *)
Record db := {
  dirs : list nat;          (* numbers N of complete directories pN (moved after a successful compile) *)
  stray : bool;             (* a compile result was moved INTO an existing directory *)
  cur : option nat;         (* the link current *)
  repo : nat;               (* number in the POLICY file at the head of the repository *)
  hist : list nat }.        (* every value current ever had, newest first *)

(* variable of one run *)
Definition maxc (d : db) : nat := Nat.max (repo d) (match cur d with Some n => n | None => 0 end).

(* operations that touch numbers, complete directories or the link *)
Definition no_db_op (o : op) : bool :=
  match o with
  | ReadCounts | Push | MvNext | RmCurrent | LnCurrent | Compile => false
  | _ => true
  end.

(* [good]: the revision compiles; [c]: the number computed by this run *)
Definition exec (d : db) (c : nat) (o : op) : db * nat :=
  match o with
  | ReadCounts => (d, S (maxc d))
  | Push => ({| dirs := dirs d; stray := stray d; cur := cur d; repo := c; hist := hist d |}, c)
  | MvNext =>
      if existsb (Nat.eqb c) (dirs d)
      then ({| dirs := dirs d; stray := true; cur := cur d; repo := repo d; hist := hist d |}, c)
      else ({| dirs := c :: dirs d; stray := stray d; cur := cur d; repo := repo d; hist := hist d |}, c)
  | RmCurrent => ({| dirs := dirs d; stray := stray d; cur := None; repo := repo d; hist := hist d |}, c)
  | LnCurrent => ({| dirs := dirs d; stray := stray d; cur := Some c; repo := repo d; hist := c :: hist d |}, c)
  | _ => (d, c)
  end.

Fixpoint exec_list (d : db) (c : nat) (l : list op) : db * nat :=
  match l with
  | [] => (d, c)
  | o :: r => let '(d', c') := exec d c o in exec_list d' c' r
  end.

(* the script: what is done before the compiler is called, what after it
   succeeded, what after it failed *)
Record script := { prepare : list op; on_success : list op; on_failure : list op }.

Definition run_ops (s : script) (good : bool) : list op :=
  prepare s ++ [Compile] ++ (if good then on_success s else on_failure s).
(* one run on a revision that compiles (good) or not, killed after k operations *)
Definition run1 (s : script) (d : db) (good : bool) (k : nat) : db :=
  fst (exec_list d 0 (firstn k (run_ops s good))).

Definition history := list (bool * nat).
Definition runs (s : script) (d : db) (h : history) : db :=
  fold_left (fun d r => run1 s d (fst r) (snd r)) h d.

Definition init_db : db := {| dirs := []; stray := false; cur := None; repo := 0; hist := [] |}.

(* ---- the checker: the database-relevant skeleton of the script ---- *)
Definition skeleton (l : list op) : list op := filter (fun o => negb (no_db_op o)) l.
Fixpoint ops_eqb (a b : list op) : bool :=
  match a, b with
  | [], [] => true
  | x :: a', y :: b' => op_eqb x y && ops_eqb a' b'
  | _, _ => false
  end.

Definition check_script (s : script) : bool :=
  match prepare s with Flock :: _ => true | _ => false end &&
  ops_eqb (skeleton (prepare s)) [ReadCounts] &&
  ops_eqb (skeleton (on_success s)) [Push; MvNext; RmCurrent; LnCurrent] &&
  ops_eqb (skeleton (on_failure s)) [].

(* ---- the invariant ---- *)
Fixpoint strictly_decreasing (l : list nat) : Prop :=
  match l with
  | a :: ((b :: _) as r) => b < a /\ strictly_decreasing r
  | _ => True
  end.

Record inv (d : db) : Prop := {
  inv_cur : match cur d with Some n => In n (dirs d) | None => True end;   (* current absent or a complete directory *)
  inv_stray : stray d = false;
  inv_dirs : forall n, In n (dirs d) -> n <= repo d;
  inv_hist : strictly_decreasing (hist d);                                 (* numbers strictly increase over time *)
  inv_head : match hist d with n :: _ => n <= repo d | [] => True end;
  inv_curh : match cur d with Some n => n <= repo d | None => True end }.
