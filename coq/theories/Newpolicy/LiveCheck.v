(* Newpolicy/LiveCheck.v — comparison of Newpolicy/Live.v with what bin/newpolicy.sh did to a real policy
   database (evaluated by the case files of vlib/c19.py): the observed state before a run, whether the run
   was killed, the observed state after it. *)
From Coq Require Import List Arith Bool.
From NA Require Import Newpolicy.Model Newpolicy.Live.
Import ListNotations.

Record obs := { o_head : nat; o_nxt : option (option nat); o_failed : bool; o_curr : option nat }.
Definition st_of (o : obs) : lst := {| head := o_head o; nxt := o_nxt o; failed := o_failed o; curr := o_curr o; moved := None |}.
Definition onat_eqb (a b : option nat) : bool :=
  match a, b with Some x, Some y => Nat.eqb x y | None, None => true | _, _ => false end.
Definition oonat_eqb (a b : option (option nat)) : bool :=
  match a, b with Some x, Some y => onat_eqb x y | None, None => true | _, _ => false end.
Definition same (s : lst) (o : obs) : bool :=
  Nat.eqb (head s) (o_head o) && oonat_eqb (nxt s) (o_nxt o) && Bool.eqb (failed s) (o_failed o) && onat_eqb (curr s) (o_curr o).
Definition goodf (bads : list nat) (r : nat) : bool := negb (existsb (Nat.eqb r) bads).

(* killed: some prefix of the run's operations leads to the observed state; undisturbed: the whole run does *)
Definition tie_run (sc : script) (bads : list nat) (killed : bool) (a b : obs) : bool :=
  let g := goodf bads in
  let s := st_of a in
  if killed then existsb (fun k => same (live_run sc g s k) b) (seq 0 (S (List.length (live_ops sc g s))))
  else same (undisturbed sc g s) b.
Definition tie_case := (list nat * bool * obs * obs)%type.
Definition tie_verdicts (sc : script) (l : list tie_case) : list nat :=
  map (fun c => match c with (bads, killed, a, b) => if tie_run sc bads killed a b then 0 else 1 end) l.
