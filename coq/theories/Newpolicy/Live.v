(* Newpolicy/Live.v — the part of bin/newpolicy.sh that decides whether a run does anything:
   the directory next (absent / empty / holding a checked-out revision), the marker failed,
   the revision current was compiled from and the head of the repository; the test uptodate;
   one run of the generated script with a kill after any number of operations.  Executable. *)
From Coq Require Import List Arith Bool.
From NA Require Import Newpolicy.Model.
Import ListNotations.

Record lst := {
  head : nat;                      (* the revision at the head of the repository *)
  nxt : option (option nat);       (* next: absent / empty directory / revision checked out into it *)
  failed : bool;                   (* the marker policies/failed *)
  curr : option nat;               (* the revision the policy current points to was compiled from *)
  moved : option nat }.            (* revision of the directory that was renamed to its final name in this run *)

Definition upd (s : lst) nx fl cu mv : lst := {| head := head s; nxt := nx; failed := fl; curr := cu; moved := mv |}.

(* uptodate(): DIR is next if it exists together with the marker, else current; true iff the
   revision checked out there is the head of the repository *)
Definition uptodate (s : lst) : bool :=
  let dir := match nxt s, failed s with
             | Some r, true => r
             | _, _ => curr s
             end in
  match dir with Some r => Nat.eqb r (head s) | None => false end.

Definition lexec (s : lst) (o : op) : lst :=
  match o with
  | RmFailed => upd s (nxt s) false (curr s) (moved s)
  | TouchFailed => upd s (nxt s) true (curr s) (moved s)
  | RmNext => upd s None (failed s) (curr s) (moved s)
  | MkNext => upd s (Some None) (failed s) (curr s) (moved s)
  | Clone => upd s (Some (Some (head s))) (failed s) (curr s) (moved s)
  | MvNext => upd s None (failed s) (curr s) (match nxt s with Some r => r | None => None end)
  | RmCurrent => upd s (nxt s) (failed s) None (moved s)
  | LnCurrent => upd s (nxt s) (failed s) (moved s) (moved s)
  | _ => s
  end.

Fixpoint lexec_list (s : lst) (l : list op) : lst :=
  match l with [] => s | o :: r => lexec_list (lexec s o) r end.

(* the operations of one run: nothing behind the test if everything is up to date *)
Definition live_ops (sc : script) (good : nat -> bool) (s : lst) : list op :=
  if uptodate s then [Flock; UpToDate]
  else (prepare sc ++ [Compile] ++ (if good (head s) then on_success sc else on_failure sc))%list.

(* one run, killed after k operations (k >= the number of operations: undisturbed) *)
Definition live_run (sc : script) (good : nat -> bool) (s : lst) (k : nat) : lst :=
  let s0 := upd s (nxt s) (failed s) (curr s) None in
  lexec_list s0 (firstn k (live_ops sc good s0)).
Definition undisturbed (sc : script) (good : nat -> bool) (s : lst) : lst :=
  live_run sc good s (List.length (live_ops sc good s)).

(* events between the runs: a commit (a new head), a run killed after k operations *)
Inductive event := Commit (r : nat) | Run (k : nat).
Definition step (sc : script) (good : nat -> bool) (s : lst) (e : event) : lst :=
  match e with
  | Commit r => {| head := r; nxt := nxt s; failed := failed s; curr := curr s; moved := moved s |}
  | Run k => live_run sc good s k
  end.
Definition steps (sc : script) (good : nat -> bool) (s : lst) (h : list event) : lst := fold_left (step sc good) h s.

Definition linit : lst := {| head := 0; nxt := None; failed := false; curr := None; moved := None |}.

(* the marker exists only together with the directory of a compile that failed *)
Definition marker_ok (good : nat -> bool) (s : lst) : Prop :=
  failed s = true -> exists r, nxt s = Some (Some r) /\ good r = false.

(* ---- what the liveness theorem needs of a script (decided by evaluation on the generated script) ---- *)
(* the marker is removed before next is touched, next is then removed, created and filled; nothing else touches them *)
Definition in_skel (o : op) : bool :=
  match o with RmFailed | TouchFailed | RmNext | MkNext | Clone | MvNext | RmCurrent | LnCurrent => true | _ => false end.
Definition live_skeleton (l : list op) : list op := filter in_skel l.
Definition check_live (sc : script) : bool :=
  ops_eqb (live_skeleton (prepare sc)) [RmFailed; RmNext; MkNext; Clone] &&
  ops_eqb (live_skeleton (on_success sc)) [MvNext; RmCurrent; LnCurrent; RmFailed] &&
  ops_eqb (live_skeleton (on_failure sc)) [TouchFailed].
