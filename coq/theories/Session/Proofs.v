(* Session/Proofs.v — theorems about the dialogue interpreter, for every plan,
   every oracle (device behaviour) and every fault position. *)
From Coq Require Import List Arith Bool Lia.
From NA Require Import Session.Model.
Import ListNotations.

Lemma cls_eqb_eq a b : cls_eqb a b = true <-> a = b.
Proof. destruct a, b; simpl; split; congruence. Qed.

Lemma no_effect_app a b : no_effect (a ++ b) = no_effect a && no_effect b.
Proof. unfold no_effect. apply forallb_app. Qed.

Lemma no_effect_cleanup g c :
  no_effect (map (fun c0 => (c0, AOk, false)) (cleanup g c)) = true.
Proof. destruct c, g; reflexivity. Qed.

(* C09, first half: after an effective fault (no answer, or junk where the tool
   inspects the reply) nothing that changes, saves or commits is sent, except
   the second half of the joined line the fault belongs to. *)
Theorem fault_stops_run_proved :
  forall p o k g, after_fault_ok (fst (run p o k g)) = true.
Proof.
  induction p as [|r rest IH]; intros o k g; [reflexivity|].
  cbn [run]. destruct (o k) eqn:Ea.
  - specialize (IH o (S k) (guard_after g (r_cls r))).
    destruct (run rest o (S k) (guard_after g (r_cls r))) as [t ok]. cbn [fst after_fault_ok teff snd]. exact IH.
  - destruct (r_checked r) eqn:Ec.
    + cbn [fst after_fault_ok teff snd]. unfold sent_half.
      destruct (next_is_change2 rest); cbn [app tcls fst cls_eqb].
      * apply no_effect_cleanup.
      * destruct (r_cls r), g; reflexivity.
    + specialize (IH o (S k) (guard_after g (r_cls r))).
      destruct (run rest o (S k) (guard_after g (r_cls r))) as [t ok]. cbn [fst after_fault_ok teff snd]. exact IH.
  - reflexivity.
Qed.

(* C09, second half: a run ends successfully only if no answer was an effective
   fault, and then every request of the plan was sent. *)
Theorem ok_only_if_all_accepted_proved :
  forall p o k g, snd (run p o k g) = true ->
    length (fst (run p o k g)) = length p /\
    forallb (fun x => negb (teff x)) (fst (run p o k g)) = true /\
    (forall i r, nth_error p i = Some r -> effective r (o (k + i)) = false).
Proof.
  induction p as [|r rest IH]; intros o k g H.
  - split; [reflexivity|]. split; [reflexivity|]. intros [|i] r Hn; discriminate.
  - cbn [run] in *. destruct (o k) eqn:Ea.
    + specialize (IH o (S k) (guard_after g (r_cls r))).
      destruct (run rest o (S k) (guard_after g (r_cls r))) as [t ok]. cbn [fst snd] in *.
      destruct (IH H) as (L & F & N). split; [simpl; rewrite L; reflexivity|]. split; [exact F|].
      intros [|i] r0 Hn; simpl in Hn.
      * injection Hn as <-. rewrite Nat.add_0_r, Ea. reflexivity.
      * replace (k + S i) with (S k + i) by lia. apply (N i r0 Hn).
    + destruct (r_checked r) eqn:Ec; [discriminate|].
      specialize (IH o (S k) (guard_after g (r_cls r))).
      destruct (run rest o (S k) (guard_after g (r_cls r))) as [t ok]. cbn [fst snd] in *.
      destruct (IH H) as (L & F & N). split; [simpl; rewrite L; reflexivity|]. split; [exact F|].
      intros [|i] r0 Hn; simpl in Hn.
      * injection Hn as <-. rewrite Nat.add_0_r, Ea. simpl. exact Ec.
      * replace (k + S i) with (S k + i) by lia. apply (N i r0 Hn).
    + discriminate.
Qed.

(* an effective fault anywhere makes the run fail *)
Theorem effective_fault_fails_proved :
  forall p o k g i r, nth_error p i = Some r -> effective r (o (k + i)) = true -> snd (run p o k g) = false.
Proof.
  intros p o k g i r Hn He. destruct (snd (run p o k g)) eqn:E; [|reflexivity].
  destruct (ok_only_if_all_accepted_proved p o k g E) as (_ & _ & N).
  rewrite (N i r Hn) in He. discriminate.
Qed.

(* C11: a plan without changing requests never produces one, whatever the device answers *)
Theorem compare_read_only_proved :
  forall p o k g, forallb (fun r => negb (is_effect (r_cls r))) p = true ->
    read_only (fst (run p o k g)) = true.
Proof.
  induction p as [|r rest IH]; intros o k g H; [reflexivity|].
  cbn [forallb] in H. apply andb_true_iff in H. destruct H as [H1 H2].
  cbn [run]. destruct (o k) eqn:Ea.
  - specialize (IH o (S k) (guard_after g (r_cls r)) H2).
    destruct (run rest o (S k) (guard_after g (r_cls r))) as [t ok]. cbn [fst] in *.
    unfold read_only in *. cbn [forallb tcls fst]. rewrite H1. exact IH.
  - destruct (r_checked r).
    + cbn [fst]. unfold read_only. cbn [forallb tcls fst]. rewrite H1. cbn [andb].
      fold (no_effect (sent_half rest (o (S k)) ++ map (fun c => (c, AOk, false)) (cleanup g (r_cls r)))).
      rewrite no_effect_app, no_effect_cleanup, andb_true_r.
      unfold sent_half, next_is_change2. destruct rest as [|r2 rest2]; [reflexivity|].
      destruct (cls_eqb (r_cls r2) Change2) eqn:E2; [|reflexivity].
      apply cls_eqb_eq in E2. cbn [forallb] in H2. rewrite E2 in H2. discriminate.
    + specialize (IH o (S k) (guard_after g (r_cls r)) H2).
      destruct (run rest o (S k) (guard_after g (r_cls r))) as [t ok]. cbn [fst] in *.
      unfold read_only in *. cbn [forallb tcls fst]. rewrite H1. exact IH.
  - cbn [fst]. unfold read_only. cbn [forallb tcls fst]. rewrite H1. reflexivity.
Qed.

(* C15: with a statically well-bracketed plan every change is sent under an
   accepted reload guard and the configuration is saved only after its
   cancellation — for every device behaviour. *)
Lemma abort_tail c g rest a :
  (match c with Change | Change2 => g = true | _ => next_is_change2 rest = false end) ->
  guard_ok (sent_half rest a ++ map (fun c0 => (c0, AOk, false)) (cleanup g c)) g = true.
Proof.
  unfold sent_half. intros H.
  destruct c; try (rewrite H; destruct g; reflexivity); subst g; destruct (next_is_change2 rest); reflexivity.
Qed.

Theorem guard_brackets_changes_proved :
  forall p o k g, plan_guarded p g = true -> guard_ok (fst (run p o k g)) g = true.
Proof.
  induction p as [|r rest IH]; intros o k g H; [reflexivity|].
  cbn [plan_guarded] in H. cbn [run].
  assert (Step : forall a, guard_ok (fst (run rest o (S k) (guard_after g (r_cls r)))) (guard_after g (r_cls r)) = true ->
            (r_cls r = Guard -> a = AOk \/ r_checked r = false -> True) ->
            True) by (intros; exact I).
  destruct (o k) eqn:Ea.
  - (* accepted *)
    pose proof (IH o (S k) (guard_after g (r_cls r))) as IH'.
    destruct (run rest o (S k) (guard_after g (r_cls r))) as [t ok]. cbn [fst] in *.
    cbn [guard_ok tcls tans fst snd].
    destruct (r_cls r) eqn:Ec; cbn [guard_after] in *;
      repeat (apply andb_true_iff in H; destruct H as [H ?]);
      repeat match goal with Hx : negb _ = true |- _ => apply negb_true_iff in Hx end;
      try solve [apply IH'; assumption].
    + (* Change *) subst g. cbn. apply IH'. assumption.
    + (* Change2 *) subst g. cbn. apply IH'. assumption.
    + (* Save *) match goal with Hx : g = false |- _ => rewrite Hx in * end. cbn. apply IH'. assumption.
  - destruct (r_checked r) eqn:Ek.
    + (* junk at an inspected request: abort *)
      cbn [fst guard_ok tcls tans fst snd].
      destruct (r_cls r) eqn:Ec;
        repeat (apply andb_true_iff in H; destruct H as [H ?]);
        repeat match goal with Hx : negb _ = true |- _ => apply negb_true_iff in Hx end;
        try solve [apply abort_tail; assumption].
      * (* Change *) subst g. cbn. apply (abort_tail Change true). reflexivity.
      * (* Change2 *) subst g. cbn. apply (abort_tail Change2 true). reflexivity.
      * (* Unguard: the state after it is unguarded; nothing follows *)
        unfold sent_half. match goal with Hx : next_is_change2 rest = false |- _ => rewrite Hx end.
        destruct g; reflexivity.
      * (* Save *)
        match goal with Hx : g = false |- _ => rewrite Hx in * end. cbn.
        apply (abort_tail Save false). assumption.
    + (* junk ignored *)
      pose proof (IH o (S k) (guard_after g (r_cls r))) as IH'.
      destruct (run rest o (S k) (guard_after g (r_cls r))) as [t ok]. cbn [fst] in *.
      cbn [guard_ok tcls tans fst snd].
      destruct (r_cls r) eqn:Ec; cbn [guard_after] in *;
        repeat (apply andb_true_iff in H; destruct H as [H ?]);
        repeat match goal with Hx : negb _ = true |- _ => apply negb_true_iff in Hx end;
        try solve [apply IH'; assumption]; try congruence.
      * subst g. cbn. apply IH'. assumption.
      * subst g. cbn. apply IH'. assumption.
      * match goal with Hx : g = false |- _ => rewrite Hx in * end. cbn. apply IH'. assumption.
  - (* dead *)
    cbn [fst guard_ok tcls tans fst snd].
    destruct (r_cls r) eqn:Ec; try reflexivity;
      repeat (apply andb_true_iff in H; destruct H as [H ?]);
      repeat match goal with Hx : negb _ = true |- _ => apply negb_true_iff in Hx end.
    + subst g. reflexivity.
    + subst g. reflexivity.
    + match goal with Hx : g = false |- _ => rewrite Hx end. reflexivity.
Qed.

(* ---- the plans of the tool are well-formed ---- *)
Lemma plan_guarded_repeat c n rest g :
  (match c with Login | Prep => True | _ => False end) ->
  next_is_change2 rest = false ->
  plan_guarded (repeat (rq c false) n ++ rest) g = plan_guarded rest g.
Proof.
  intros Hc Hn. induction n as [|n IH]; [reflexivity|].
  cbn [repeat app plan_guarded r_cls rq]. rewrite IH.
  assert (E : next_is_change2 (repeat (rq c false) n ++ rest) = false).
  { destruct n; [exact Hn|]. destruct c; try contradiction; reflexivity. }
  rewrite E. destruct c; try contradiction; reflexivity.
Qed.

Lemma change_reqs_guarded l tail :
  next_is_change2 tail = false ->
  plan_guarded (change_reqs l ++ tail) true = plan_guarded tail true.
Proof.
  intros Ht. induction l as [|j l IH]; [reflexivity|].
  destruct j; cbn [change_reqs app plan_guarded r_cls rq andb]; exact IH.
Qed.

Lemma next_change_reqs l tail :
  next_is_change2 tail = false -> next_is_change2 (change_reqs l ++ tail) = false.
Proof. intros H. destruct l as [|[] l]; [exact H | reflexivity | reflexivity]. Qed.

Theorem ios_plan_guarded_proved login approve script :
  plan_guarded (ios_plan login approve script) false = true.
Proof.
  unfold ios_plan. rewrite plan_guarded_repeat; [|exact I|reflexivity].
  destruct approve; [|reflexivity]. destruct script as [|j script]; [reflexivity|].
  cbn [app plan_guarded r_cls rq next_is_change2 cls_eqb negb andb].
  rewrite plan_guarded_repeat; [|exact I|reflexivity].
  cbn [app plan_guarded r_cls rq next_is_change2 cls_eqb negb andb].
  rewrite (next_change_reqs (j :: script)) by reflexivity. cbn [negb andb].
  rewrite change_reqs_guarded by reflexivity. reflexivity.
Qed.

(* compare plans contain nothing that changes the device *)
Lemma change_reqs_nil_effect_free l : forallb (fun r => negb (is_effect (r_cls r))) (repeat (rq Login false) l) = true.
Proof. induction l; simpl; auto. Qed.

Theorem compare_plans_effect_free_proved login setup script :
  forallb (fun r => negb (is_effect (r_cls r))) setup = true ->
  forallb (fun r => negb (is_effect (r_cls r))) (asa_plan login setup false script) = true /\
  forallb (fun r => negb (is_effect (r_cls r))) (ios_plan login false script) = true.
Proof.
  intros Hs. unfold asa_plan, ios_plan. rewrite !forallb_app, !change_reqs_nil_effect_free, Hs. split; reflexivity.
Qed.

(* The literal reading of C09 ("any unexpected output stops the run") is false
   for the tool: junk in reply to a request whose output is not inspected is
   ignored, the changes are sent and the run ends successfully. *)
Definition junk_at (n : nat) : nat -> ans := fun k => if Nat.eqb k n then AJunk else AOk.

Theorem c09_uninspected_junk_refuted :
  exists p o, after_any_junk_ok (fst (run p o 0 false)) = false /\ snd (run p o 0 false) = true.
Proof.
  exists (asa_plan 2 [rq SetC false; rq SetC false] true [false]), (junk_at 3).
  split; vm_compute; reflexivity.
Qed.

(* non-vacuity: an IOS approve with a joined line, junk at the first half *)
Example ios_fault_example :
  let p := ios_plan 2 true [false; true; false] in
  classes (fst (run p (junk_at 20) 0 false)) =
    [Login; Login; Sync; SetC; SetC; ReadC; NameC; ConfC; Enter; Prep; Prep; Prep; Prep; Prep; Leave;
     Guard; GuardDlg; Sync; Enter; Change; Change; Change2; Leave; Unguard; Sync] /\
  snd (run p (junk_at 20) 0 false) = false.
Proof. split; vm_compute; reflexivity. Qed.
