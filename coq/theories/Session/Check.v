(* Session/Check.v — correspondence and oracle functions for session runs. *)
From Coq Require Import List Arith Bool.
From NA Require Import Session.Model.
Import ListNotations.

Definition cls_code (c : cls) : nat :=
  match c with
  | Login => 1 | Sync => 2 | SetC => 3 | ReadC => 4 | NameC => 5 | ConfC => 6 | Enter => 7 | Prep => 8
  | Change => 9 | Change2 => 10 | Leave => 11 | Guard => 12 | GuardDlg => 13 | Unguard => 14 | Save => 15
  | Commit => 16 | Poll => 17 | Status => 18 | Exit => 19 | Other => 20
  end.
Definition cls_of (n : nat) : cls :=
  match n with
  | 1 => Login | 2 => Sync | 3 => SetC | 4 => ReadC | 5 => NameC | 6 => ConfC | 7 => Enter | 8 => Prep
  | 9 => Change | 10 => Change2 | 11 => Leave | 12 => Guard | 13 => GuardDlg | 14 => Unguard | 15 => Save
  | 16 => Commit | 17 => Poll | 18 => Status | 19 => Exit | _ => Other
  end.

Fixpoint nats_eqb (a b : list nat) : bool :=
  match a, b with
  | [], [] => true
  | x :: a', y :: b' => Nat.eqb x y && nats_eqb a' b'
  | _, _ => false
  end.

(* oracle from a fault plan: (position (0-based), 1 = junk | 2 = dead) *)
Definition oracle_of (faults : list (nat * nat)) : nat -> ans :=
  fun k => match find (fun f => Nat.eqb (fst f) k) faults with
           | Some (_, 1) => AJunk
           | Some (_, _) => ADead
           | None => AOk
           end.

Definition plan_of (l : list (nat * bool)) : list req := map (fun x => rq (cls_of (fst x)) (snd x)) l.

(* observed trace as (class code, answer code) with the plan's inspected-flag looked up by position *)
Fixpoint observed_tr (p : list req) (obs : list nat) (o : nat -> ans) (k : nat) : list tr :=
  match obs with
  | [] => []
  | c :: rest =>
      let chk := match nth_error p k with Some r => r_checked r | None => false end in
      let a := o k in
      (cls_of c, a, effective (rq (cls_of c) chk) a) :: observed_tr p rest o (S k)
  end.

Record scase := {
  s_plan : list (nat * bool);      (* fault-free plan: class code, reply inspected *)
  s_faults : list (nat * nat);
  s_obs : list nat;                (* classes of the lines the device received *)
  s_ok : bool }.                   (* the run ended successfully (exit status 0) *)

(* [model trace = observed; model outcome = observed;
    effective fault stops the run (oracle on the observed trace);
    literal reading: any junk stops the run;
    guard brackets changes; read-only] *)
Definition sverdict (c : scase) : list nat :=
  let p := plan_of (s_plan c) in
  let o := oracle_of (s_faults c) in
  let '(t, ok) := run p o 0 false in
  let ot := observed_tr p (s_obs c) o 0 in
  [if nats_eqb (map cls_code (classes t)) (s_obs c) then 0 else 1;
   if Bool.eqb ok (s_ok c) then 0 else 1;
   if after_fault_ok ot then 0 else 1;
   if after_any_junk_ok ot then 0 else 1;
   if guard_ok ot false then 0 else 1;
   if read_only ot then 0 else 1]%nat.
Definition sverdicts (l : list scase) : list nat := flat_map sverdict l.
