(* Session/Model.v — the dialogue of an approve / compare run with a device as
   an interpreter over a plan of requests; the device is an arbitrary oracle
   giving, for the k-th request, an accepted answer, junk (error text or
   unexpected output) or nothing at all (stall beyond the timeout, closed
   connection, HTTP error, malformed reply).  Executable; no proofs here. *)
From Coq Require Import List Arith Bool.
Import ListNotations.

Inductive cls :=
| Login | Sync | SetC | ReadC | NameC | ConfC | Enter | Prep
| Change | Change2          (* Change2: second half of a joined line, sent in the same packet *)
| Leave | Guard | GuardDlg | Unguard | Save | Commit | Poll | Status | Exit | Other.

Definition cls_eqb (a b : cls) : bool :=
  match a, b with
  | Login, Login | Sync, Sync | SetC, SetC | ReadC, ReadC | NameC, NameC | ConfC, ConfC
  | Enter, Enter | Prep, Prep | Change, Change | Change2, Change2 | Leave, Leave
  | Guard, Guard | GuardDlg, GuardDlg | Unguard, Unguard | Save, Save | Commit, Commit
  | Poll, Poll | Status, Status | Exit, Exit | Other, Other => true
  | _, _ => false
  end.

(* a request: its class and whether the tool inspects the reply (junk aborts) *)
Record req := { r_cls : cls; r_checked : bool }.

Inductive ans := AOk | AJunk | ADead.
Definition ans_code (a : ans) : nat := match a with AOk => 0 | AJunk => 1 | ADead => 2 end.

Definition is_effect (c : cls) : bool :=
  match c with Change | Change2 | Save | Commit => true | _ => false end.

(* clean-up after an abort of a change inside the reload guard (IOS: the
   deferred "end", "reload cancel" and the synchronising empty command) *)
Definition cleanup (guarded : bool) (c : cls) : list cls :=
  match c with
  | Change | Change2 => if guarded then [Leave; Unguard; Sync] else []
  | _ => []
  end.

Definition guard_after (g : bool) (c : cls) : bool :=
  match c with Guard => true | Unguard => false | _ => g end.

(* an effective fault: no answer at all, or junk where the reply is inspected *)
Definition effective (r : req) (a : ans) : bool :=
  match a with ADead => true | AJunk => r_checked r | AOk => false end.

(* trace element: class, answer, "this answer is an effective fault" *)
Definition tr := (cls * ans * bool)%type.

(* The run: every request that reaches the device with its answer, and whether
   the run ends successfully.  A dead answer ends the dialogue; junk at an
   inspected request aborts after the clean-up; the second half of a joined
   line has already been sent when the first half is answered. *)
Definition next_is_change2 (rest : list req) : bool :=
  match rest with r2 :: _ => cls_eqb (r_cls r2) Change2 | [] => false end.
Definition sent_half (rest : list req) (a : ans) : list tr :=
  if next_is_change2 rest then [(Change2, a, false)] else [].

Fixpoint run (p : list req) (o : nat -> ans) (k : nat) (g : bool) : list tr * bool :=
  match p with
  | [] => ([], true)
  | r :: rest =>
      let a := o k in
      match a with
      | ADead => ([(r_cls r, a, true)], false)
      | AJunk =>
          if r_checked r then
            ((r_cls r, a, true) :: sent_half rest (o (S k)) ++ map (fun c => (c, AOk, false)) (cleanup g (r_cls r)), false)
          else
            let '(t, ok) := run rest o (S k) (guard_after g (r_cls r)) in ((r_cls r, a, false) :: t, ok)
      | AOk =>
          let '(t, ok) := run rest o (S k) (guard_after g (r_cls r)) in ((r_cls r, a, false) :: t, ok)
      end
  end.

(* ---- plans ---- *)
Definition rq (c : cls) (chk : bool) : req := {| r_cls := c; r_checked := chk |}.

(* changes: one entry per script element; true = joined line *)
Fixpoint change_reqs (l : list bool) : list req :=
  match l with
  | [] => []
  | false :: r => rq Change true :: change_reqs r
  | true :: r => rq Change true :: rq Change2 true :: change_reqs r
  end.

(* ASA: login lines, session set-up, reads, then (approve, with changes) conf mode, changes, end, write memory *)
Definition asa_plan (login : nat) (setup : list req) (approve : bool) (script : list bool) : list req :=
  repeat (rq Login false) login ++ [rq Sync false] ++ setup ++
  [rq ReadC false; rq NameC true; rq ConfC true] ++
  (if approve then
     match script with
     | [] => []
     | _ => [rq Enter true] ++ change_reqs script ++ [rq Leave true; rq Save true]
     end
   else []).

Definition ios_plan (login : nat) (approve : bool) (script : list bool) : list req :=
  repeat (rq Login false) login ++ [rq Sync false; rq SetC false; rq SetC false; rq ReadC false; rq NameC true; rq ConfC true] ++
  (if approve then
     match script with
     | [] => []
     | _ => [rq Enter false] ++ repeat (rq Prep false) 5 ++ [rq Leave false;
             rq Guard true; rq GuardDlg false; rq Sync false; rq Enter false] ++
            change_reqs script ++ [rq Leave false; rq Unguard true; rq Sync false; rq Save true]
     end
   else []).

(* ---- predicates on traces (the properties, decidable) ---- *)
Definition tcls (x : tr) : cls := fst (fst x).
Definition tans (x : tr) : ans := snd (fst x).
Definition teff (x : tr) : bool := snd x.
Definition classes (t : list tr) : list cls := map tcls t.

(* C11: nothing that changes, saves or commits *)
Definition read_only (t : list tr) : bool := forallb (fun x => negb (is_effect (tcls x))) t.

Definition no_effect (t : list tr) : bool := forallb (fun x => negb (is_effect (tcls x))) t.

(* C09: after the first effective fault only the second half of the same joined
   line (already sent) and session clean-up follow *)
Fixpoint after_fault_ok (t : list tr) : bool :=
  match t with
  | [] => true
  | x :: rest =>
      if teff x then
        no_effect (match rest with y :: r => if cls_eqb (tcls y) Change2 then r else rest | [] => rest end)
      else after_fault_ok rest
  end.

(* the literal reading of C09: ANY junk answer must stop the run *)
Fixpoint after_any_junk_ok (t : list tr) : bool :=
  match t with
  | [] => true
  | x :: rest =>
      match tans x with
      | AOk => after_any_junk_ok rest
      | _ => no_effect (match rest with y :: r => if cls_eqb (tcls y) Change2 then r else rest | [] => rest end)
      end
  end.

(* C15: every change lies between an accepted guard and its cancellation; the
   configuration is saved only outside the guard *)
Fixpoint guard_ok (t : list tr) (g : bool) : bool :=
  match t with
  | [] => true
  | x :: rest =>
      match tcls x with
      | Guard => guard_ok rest (match tans x with AOk => true | _ => g end)
      | Unguard => guard_ok rest false
      | Change | Change2 => g && guard_ok rest g
      | Save => negb g && guard_ok rest g
      | _ => guard_ok rest g
      end
  end.

(* static well-formedness of a plan with respect to the guard *)
Fixpoint plan_guarded (p : list req) (g : bool) : bool :=
  match p with
  | [] => true
  | r :: rest =>
      match r_cls r with
      | Change | Change2 => g && plan_guarded rest g
      | Guard => negb (next_is_change2 rest) && r_checked r && plan_guarded rest true
      | Unguard => negb (next_is_change2 rest) && plan_guarded rest false
      | Save => negb (next_is_change2 rest) && negb g && plan_guarded rest g
      | _ => negb (next_is_change2 rest) && plan_guarded rest g
      end
  end.
