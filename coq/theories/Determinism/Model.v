(* Determinism/Model.v — why a loop over a Go map gives the same result for
   every iteration order: the loop patterns that occur in the repository, as
   folds over an arbitrary permutation of the keys. *)
From Coq Require Import List Arith Bool Permutation Sorted NArith.
Import ListNotations.

(* the patterns a map-range site may be an instance of *)
Inductive pattern :=
| PerKey        (* the body updates only state that belongs to the current key (or is idempotent per key) *)
| SetUnion      (* the body only adds elements to a set / sets flags to true *)
| CollectSort   (* the body collects values; the collection is sorted before it is used *)
| Exists        (* the loop decides whether some key satisfies a condition *)
| AnyAgree.     (* the body reads one element and all elements agree on what is read *)

Record site := { s_pkg : nat; s_hash : N; s_pat : pattern }.
