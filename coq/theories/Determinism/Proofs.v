From Coq Require Import List Arith Bool Permutation Sorted Lia.
From NA Require Import Determinism.Model.
Import ListNotations.

Section Folds.
Variables (S K : Type).

(* PerKey / SetUnion: updates that commute *)
Theorem fold_commuting_order_independent_proved (f : S -> K -> S) :
  (forall s a b, f (f s a) b = f (f s b) a) ->
  forall l1 l2, Permutation l1 l2 -> forall s, fold_left f l1 s = fold_left f l2 s.
Proof.
  intros Hc l1 l2 P. induction P; intros s; simpl.
  - reflexivity.
  - apply IHP.
  - rewrite Hc. reflexivity.
  - rewrite IHP1. apply IHP2.
Qed.

(* Exists *)
Theorem existsb_order_independent_proved (p : K -> bool) :
  forall l1 l2, Permutation l1 l2 -> existsb p l1 = existsb p l2.
Proof.
  intros l1 l2 P. induction P; simpl.
  - reflexivity.
  - rewrite IHP. reflexivity.
  - destruct (p x), (p y); reflexivity.
  - congruence.
Qed.

(* AnyAgree: whichever element the loop happens to see first *)
Theorem any_agree_order_independent_proved (V : Type) (g : K -> V) :
  forall l1 l2 d, Permutation l1 l2 -> (forall a b, In a l1 -> In b l1 -> g a = g b) ->
    match l1 with x :: _ => g x | [] => d end = match l2 with x :: _ => g x | [] => d end.
Proof.
  intros l1 l2 d P H. destruct l1 as [|x r], l2 as [|y r2]; try reflexivity.
  - apply Permutation_nil in P. discriminate.
  - apply Permutation_sym, Permutation_nil in P. discriminate.
  - apply H; [left; reflexivity|]. apply (Permutation_in y (Permutation_sym P)). left. reflexivity.
Qed.
End Folds.

(* CollectSort: insertion sort under a total, transitive, antisymmetric order is a function of the multiset *)
Section Sort.
Variable K : Type.
Variable leb : K -> K -> bool.
Hypothesis leb_total : forall a b, leb a b = true \/ leb b a = true.
Hypothesis leb_trans : forall a b c, leb a b = true -> leb b c = true -> leb a c = true.
Hypothesis leb_antisym : forall a b, leb a b = true -> leb b a = true -> a = b.

Fixpoint insert (x : K) (l : list K) : list K :=
  match l with
  | [] => [x]
  | y :: r => if leb x y then x :: l else y :: insert x r
  end.
Definition sort (l : list K) : list K := fold_right insert [] l.

Definition sorted (l : list K) : Prop := StronglySorted (fun a b => leb a b = true) l.

Lemma insert_perm x l : Permutation (insert x l) (x :: l).
Proof.
  induction l as [|y r IH]; simpl; [reflexivity|].
  destruct (leb x y); [reflexivity|]. rewrite IH. apply perm_swap.
Qed.

Lemma sort_perm l : Permutation (sort l) l.
Proof. induction l as [|x r IH]; simpl; [reflexivity|]. rewrite insert_perm, IH. reflexivity. Qed.

Lemma insert_sorted x l : sorted l -> sorted (insert x l).
Proof.
  intros H. induction H as [|y r Hs IH Hf]; simpl; [repeat constructor|].
  destruct (leb x y) eqn:E.
  - constructor; [constructor; assumption|]. constructor; [exact E|].
    rewrite Forall_forall in *. intros z Hz. apply (leb_trans x y z E). apply Hf. exact Hz.
  - constructor; [exact IH|]. rewrite Forall_forall in *. intros z Hz.
    apply (Permutation_in z (insert_perm x r)) in Hz. destruct Hz as [<-|Hz].
    + destruct (leb_total x y); congruence.
    + apply Hf. exact Hz.
Qed.

Lemma sort_sorted l : sorted (sort l).
Proof. induction l as [|x r IH]; simpl; [constructor | apply insert_sorted; exact IH]. Qed.

Lemma sorted_perm_eq l1 : forall l2, sorted l1 -> sorted l2 -> Permutation l1 l2 -> l1 = l2.
Proof.
  induction l1 as [|x r1 IH]; intros l2 S1 S2 P.
  - apply Permutation_nil in P. congruence.
  - destruct l2 as [|y r2]; [apply Permutation_sym, Permutation_nil in P; discriminate|].
    inversion S1 as [|? ? S1' F1]; subst. inversion S2 as [|? ? S2' F2]; subst.
    assert (x = y).
    { rewrite Forall_forall in F1, F2.
      assert (Hy : In y (x :: r1)) by (apply (Permutation_in y (Permutation_sym P)); left; reflexivity).
      assert (Hx : In x (y :: r2)) by (apply (Permutation_in x P); left; reflexivity).
      destruct Hy as [E|Hy]; [exact E|]. destruct Hx as [E|Hx]; [congruence|].
      apply leb_antisym; [apply F1; exact Hy | apply F2; exact Hx]. }
    subst y. f_equal. apply IH; [assumption | assumption | eapply Permutation_cons_inv; exact P].
Qed.

Theorem sorted_collection_order_independent_proved :
  forall l1 l2, Permutation l1 l2 -> sort l1 = sort l2.
Proof.
  intros l1 l2 P. apply sorted_perm_eq; [apply sort_sorted | apply sort_sorted|].
  rewrite sort_perm, sort_perm. exact P.
Qed.
End Sort.
