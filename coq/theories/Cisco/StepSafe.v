(* Cisco/StepSafe.v — inserting the new lines top-down and deleting the old lines
   bottom-up is safe at every step: for every first-match ACL semantics (any
   packet type, any matcher, any action, any default) and every packet on which
   the old and the new ACL agree, every intermediate ACL gives that verdict. *)
From Coq Require Import List Arith Bool Lia.
From NA Require Import Cisco.AsaAcl.
Import ListNotations.

Section Safe.
Variable packet : Type.
Variable matches : entry -> packet -> bool.
Variable permit : entry -> bool.
Variable default : bool.

Fixpoint verdict (l : list entry) (p : packet) : bool :=
  match l with
  | [] => default
  | e :: r => if matches e p then permit e else verdict r p
  end.

(* the merged script with a flag "is on the device now" *)
Definition flagged := list (tag * entry * bool).
Definition f_tag (x : tag * entry * bool) : tag := fst (fst x).
Definition f_entry (x : tag * entry * bool) : entry := snd (fst x).
Definition f_here (x : tag * entry * bool) : bool := snd x.
Definition dev (st : flagged) : list entry := map f_entry (filter f_here st).
Definition old (st : flagged) : list entry := map f_entry (filter (fun x => negb (tag_eqb (f_tag x) Add)) st).
Definition new (st : flagged) : list entry := map f_entry (filter (fun x => negb (tag_eqb (f_tag x) Drop)) st).

(* while inserting: every old line is there, the inserted new lines are the first ones of the new lines *)
Fixpoint no_add_here (st : flagged) : bool :=
  match st with
  | [] => true
  | x :: r => (if tag_eqb (f_tag x) Add then negb (f_here x) else f_here x) && no_add_here r
  end.
Fixpoint inserting (st : flagged) : bool :=
  match st with
  | [] => true
  | x :: r => if tag_eqb (f_tag x) Add then (if f_here x then inserting r else no_add_here r)
              else f_here x && inserting r
  end.
(* while deleting: every new line is there, the old lines still there are the first ones of the old lines *)
Fixpoint no_drop_here (st : flagged) : bool :=
  match st with
  | [] => true
  | x :: r => (if tag_eqb (f_tag x) Drop then negb (f_here x) else f_here x) && no_drop_here r
  end.
Fixpoint deleting (st : flagged) : bool :=
  match st with
  | [] => true
  | x :: r => if tag_eqb (f_tag x) Drop then (if f_here x then deleting r else no_drop_here r)
              else f_here x && deleting r
  end.

Lemma no_add_here_dev st : no_add_here st = true -> dev st = old st.
Proof.
  induction st as [|[[t e] h] r IH]; [reflexivity|]. unfold dev, old in *. cbn [no_add_here f_tag f_here filter fst snd].
  intros H. apply andb_true_iff in H. destruct H as [H1 H2]. specialize (IH H2).
  destruct (tag_eqb t Add); cbn [negb] in *.
  - apply negb_true_iff in H1. rewrite H1. exact IH.
  - rewrite H1. cbn [map f_entry fst snd]. f_equal. exact IH.
Qed.
Lemma no_drop_here_dev st : no_drop_here st = true -> dev st = new st.
Proof.
  induction st as [|[[t e] h] r IH]; [reflexivity|]. unfold dev, new in *. cbn [no_drop_here f_tag f_here filter fst snd].
  intros H. apply andb_true_iff in H. destruct H as [H1 H2]. specialize (IH H2).
  destruct (tag_eqb t Drop); cbn [negb] in *.
  - apply negb_true_iff in H1. rewrite H1. exact IH.
  - rewrite H1. cbn [map f_entry fst snd]. f_equal. exact IH.
Qed.

Lemma inserting_safe st p : inserting st = true -> verdict (old st) p = verdict (new st) p -> verdict (dev st) p = verdict (old st) p.
Proof.
  induction st as [|[[t e] h] r IH]; [reflexivity|]. intros H E.
  unfold dev, old, new in *. cbn [inserting f_tag f_here filter fst snd] in *.
  destruct t; cbn [tag_eqb negb] in *.
  - (* Keep *) apply andb_true_iff in H. destruct H as [-> H]. cbn [map f_entry fst snd verdict] in *.
    destruct (matches e p); [reflexivity | apply IH; assumption].
  - (* Drop: still there *) apply andb_true_iff in H. destruct H as [-> H]. cbn [map f_entry fst snd verdict] in *.
    destruct (matches e p); [reflexivity | apply IH; assumption].
  - (* Add *) destruct h.
    + cbn [map f_entry fst snd verdict] in *. destruct (matches e p); [symmetry; exact E | apply IH; assumption].
    + pose proof (no_add_here_dev r H) as D. unfold dev, old in D. rewrite D. reflexivity.
Qed.

Lemma deleting_safe st p : deleting st = true -> verdict (old st) p = verdict (new st) p -> verdict (dev st) p = verdict (new st) p.
Proof.
  induction st as [|[[t e] h] r IH]; [reflexivity|]. intros H E.
  unfold dev, old, new in *. cbn [deleting f_tag f_here filter fst snd] in *.
  destruct t; cbn [tag_eqb negb] in *.
  - apply andb_true_iff in H. destruct H as [-> H]. cbn [map f_entry fst snd verdict] in *.
    destruct (matches e p); [reflexivity | apply IH; assumption].
  - destruct h.
    + cbn [map f_entry fst snd verdict] in *. destruct (matches e p); [exact E | apply IH; assumption].
    + pose proof (no_drop_here_dev r H) as D. unfold dev, new in D. rewrite D. reflexivity.
  - apply andb_true_iff in H. destruct H as [-> H]. cbn [map f_entry fst snd verdict] in *.
    destruct (matches e p); [reflexivity | apply IH; assumption].
Qed.

(* every packet on which the old and the new ACL agree keeps its verdict *)
Theorem insert_then_delete_safe_proved st p :
  (inserting st || deleting st)%bool = true -> verdict (old st) p = verdict (new st) p ->
  verdict (dev st) p = verdict (old st) p.
Proof.
  intros H E. apply orb_true_iff in H. destruct H as [H|H].
  - apply inserting_safe; assumption.
  - rewrite E. apply deleting_safe; assumption.
Qed.
End Safe.

(* ---- recognising the shape of an observed intermediate ACL ---- *)
Definition flags_of (m : script) (l : list entry) : list (tag * entry * bool) :=
  map (fun x => (fst x, snd x, existsb (entry_eqb (snd x)) l)) m.
Fixpoint entries_eqb (a b : list entry) : bool :=
  match a, b with
  | [], [] => true
  | x :: a', y :: b' => entry_eqb x y && entries_eqb a' b'
  | _, _ => false
  end.
(* the observed ACL is the flagged merged script, and the flags have one of the two safe shapes *)
Definition safe_shape (m : script) (l : list entry) : bool :=
  let st := flags_of m l in
  entries_eqb (dev st) l && (inserting st || deleting st).
(* first step (from 1) after which the shape is lost; 0 if never *)
Fixpoint shape_scan (m : script) (l : list entry) (cs : list acmd) (k : nat) : nat :=
  match cs with
  | [] => 0
  | c :: r => match dexec l c with
              | Some l' => if safe_shape m l' then shape_scan m l' r (S k) else S k
              | None => 0
              end
  end.
Definition move_free (m : script) : bool :=
  forallb (fun a => negb (existsb (fun d => Nat.eqb (body (snd a)) (body (snd d)))
                            (filter (fun x => tag_eqb (fst x) Drop) m)))
          (filter (fun x => tag_eqb (fst x) Add) m).
Definition shape_verdicts (l : list (script * list acmd)) : list (bool * nat) :=
  map (fun x => (move_free (fst x), shape_scan (fst x) (listA (fst x)) (snd x) 0)) l.
