(* Cisco/TunnelKnown.v — the strict device of Cisco/Tunnel.v keeps "every reference (to an ACL, an address pool, a
   group-policy) names an existing object": the premise of the renaming theorem (TunnelNames.v) holds in every state
   an accepted script passes through. *)
From Coq Require Import List String Bool Arith.
From NA Require Import Base.Str Cisco.Vpn.
From NA Require Import Cisco.Tunnel Cisco.TunnelNames.
Import ListNotations.
Open Scope string_scope.

(* ---- association lists ---- *)
Lemma vlookup_In {A} k (l : list (string * A)) v : vlookup k l = Some v -> In (k, v) l.
Proof.
  induction l as [|[k' v'] l IH]; cbn [vlookup]; [discriminate|].
  destruct (String.eqb k k') eqn:E.
  - intros H. injection H as ->. apply String.eqb_eq in E. subst. left. reflexivity.
  - intros H. right. exact (IH H).
Qed.
Lemma In_vset {A} k (v : A) l k' v' : In (k', v') (vset k v l) -> (k' = k /\ v' = v) \/ In (k', v') l.
Proof.
  unfold vset. destruct (vlookup k l) as [x|].
  - rewrite in_map_iff. intros [[k0 v0] [E H]]. cbn [fst] in E.
    destruct (String.eqb k k0) eqn:Ek.
    + injection E as <- <-. left. split; reflexivity.
    + injection E as <- <-. right. exact H.
  - rewrite in_app_iff. intros [H|[H|[]]]; [right; exact H|]. injection H as <- <-. left. split; reflexivity.
Qed.
Lemma In_vremove {A} k (l : list (string * A)) x : In x (vremove k l) -> In x l.
Proof.
  induction l as [|[k' v'] l IH]; cbn [vremove]; [tauto|].
  destruct (String.eqb k k'); [intros H; right; exact H|].
  intros [H|H]; [left; exact H | right; exact (IH H)].
Qed.
Lemma vhas_vset {A} k (v : A) l g : vhas g l = true -> vhas g (vset k v l) = true.
Proof.
  unfold vhas, vset. destruct (vlookup k l) as [x|] eqn:Ek.
  - induction l as [|[k' v'] l IH]; cbn [vlookup map fst]; [discriminate|].
    cbn [vlookup] in Ek.
    destruct (String.eqb k k') eqn:E1.
    + cbn [fst]. destruct (String.eqb g k) eqn:E2; [intros _; reflexivity|].
      apply String.eqb_eq in E1. subst k'. rewrite E2. intros H.
      (* rest of the list is mapped, lookups of g unaffected *)
      clear IH Ek. induction l as [|[k2 v2] l IH2]; [exact H|]. cbn [map vlookup fst] in *.
      destruct (String.eqb k k2) eqn:E3; cbn [fst].
      * apply String.eqb_eq in E3. subst k2. rewrite E2 in *. exact (IH2 H).
      * destruct (String.eqb g k2); [reflexivity | exact (IH2 H)].
    + cbn [fst]. destruct (String.eqb g k'); [intros _; reflexivity|]. intros H. exact (IH Ek H).
  - induction l as [|[k' v'] l IH]; cbn [vlookup app]; [discriminate|].
    cbn [vlookup] in Ek. destruct (String.eqb k k'); [discriminate|].
    destruct (String.eqb g k'); [intros _; reflexivity|]. intros H. exact (IH Ek H).
Qed.
Lemma vhas_vremove {A} k (l : list (string * A)) g : g <> k -> vhas g l = true -> vhas g (vremove k l) = true.
Proof.
  intros N. unfold vhas. induction l as [|[k' v'] l IH]; cbn [vlookup vremove]; [discriminate|].
  destruct (String.eqb k k') eqn:E1.
  - apply String.eqb_eq in E1. subst k'.
    destruct (String.eqb g k) eqn:E2; [apply String.eqb_eq in E2; contradiction|]. tauto.
  - cbn [vlookup]. destruct (String.eqb g k'); [intros _; reflexivity | exact IH].
Qed.

(* ---- the invariant in terms of the three tables of blocks ---- *)
Definition known_in (ex : rkind -> string -> bool) (b : block) : Prop :=
  forall l k n, In l b -> line_ref l = Some (k, n) -> ex k n = true.
Definition tables_known (ex : rkind -> string -> bool) (gps : list (string * block))
           (tgs : list (string * (string * list (string * block)))) (users : list (string * block)) : Prop :=
  (forall n b, In (n, b) gps -> known_in ex b) /\
  (forall t ty secs sec b, In (t, (ty, secs)) tgs -> In (sec, b) secs -> known_in ex b) /\
  (forall u b, In (u, b) users -> known_in ex b).
Definition ex_of (d : tdev) : rkind -> string -> bool := fun k n => exists_obj k n d.

Lemma refs_known_tables d : refs_known d <-> tables_known (ex_of d) (td_gps d) (td_tgs d) (td_users d).
Proof.
  unfold refs_known, tables_known, known_in, all_blocks, ex_of. split.
  - intros K. repeat split.
    + intros n b Hb l k m Hl R. apply (K b l k m); [|exact Hl|exact R]. apply in_or_app. left. apply in_map_iff. exists (n, b). split; [reflexivity|exact Hb].
    + intros t ty secs sec b Ht Hs l k m Hl R. apply (K b l k m); [|exact Hl|exact R]. apply in_or_app. right. apply in_or_app. left.
      apply in_flat_map. exists (t, (ty, secs)). split; [exact Ht|]. apply in_map_iff. exists (sec, b). split; [reflexivity|exact Hs].
    + intros u b Hu l k m Hl R. apply (K b l k m); [|exact Hl|exact R]. apply in_or_app. right. apply in_or_app. right. apply in_map_iff. exists (u, b). split; [reflexivity|exact Hu].
  - intros (K1 & K2 & K3) b l k m Hb Hl R.
    apply in_app_or in Hb. destruct Hb as [Hb|Hb].
    + apply in_map_iff in Hb. destruct Hb as [[n b'] [E Hb]]. cbn [snd] in E. subst b'. exact (K1 n b Hb l k m Hl R).
    + apply in_app_or in Hb. destruct Hb as [Hb|Hb].
      * apply in_flat_map in Hb. destruct Hb as [[t [ty secs]] [Ht Hs]]. cbn [snd] in Hs.
        apply in_map_iff in Hs. destruct Hs as [[sec b'] [E Hs]]. cbn [snd] in E. subst b'. exact (K2 t ty secs sec b Ht Hs l k m Hl R).
      * apply in_map_iff in Hb. destruct Hb as [[u b'] [E Hb]]. cbn [snd] in E. subst b'. exact (K3 u b Hb l k m Hl R).
Qed.

Lemma known_in_mono ex ex' b : (forall k n, ex k n = true -> ex' k n = true) -> known_in ex b -> known_in ex' b.
Proof. intros M K l k n Hl R. apply M. exact (K l k n Hl R). Qed.
Lemma known_in_nil ex : known_in ex [].
Proof. intros l k n []. Qed.

(* every block of the new tables is a block of the old ones or known by itself *)
Lemma tables_known_step ex gps tgs users ex' gps' tgs' users' :
  tables_known ex gps tgs users ->
  (forall k n, ex k n = true -> ex' k n = true) ->
  (forall n b, In (n, b) gps' -> (exists n0, In (n0, b) gps) \/ known_in ex' b) ->
  (forall t ty secs sec b, In (t, (ty, secs)) tgs' -> In (sec, b) secs ->
     (exists t0 ty0 secs0 sec0, In (t0, (ty0, secs0)) tgs /\ In (sec0, b) secs0) \/ known_in ex' b) ->
  (forall u b, In (u, b) users' -> (exists u0, In (u0, b) users) \/ known_in ex' b) ->
  tables_known ex' gps' tgs' users'.
Proof.
  intros (K1 & K2 & K3) M H1 H2 H3. repeat split.
  - intros n b Hb. destruct (H1 n b Hb) as [[n0 H]|H]; [|exact H]. exact (known_in_mono ex ex' b M (K1 n0 b H)).
  - intros t ty secs sec b Ht Hs. destruct (H2 t ty secs sec b Ht Hs) as [(t0 & ty0 & secs0 & sec0 & Ha & Hb)|H]; [|exact H].
    exact (known_in_mono ex ex' b M (K2 t0 ty0 secs0 sec0 b Ha Hb)).
  - intros u b Hb. destruct (H3 u b Hb) as [[u0 H]|H]; [|exact H]. exact (known_in_mono ex ex' b M (K3 u0 b H)).
Qed.

Lemma In_drop_line l x b : In l (drop_line x b) -> In l b.
Proof.
  induction b as [|y b IH]; cbn [drop_line]; [tauto|].
  destruct (words_eqb x y); [intros H; right; exact H|]. intros [H|H]; [left; exact H | right; exact (IH H)].
Qed.
Lemma In_add_line l w b : In l (add_line w b) -> In l b \/ l = w.
Proof.
  unfold add_line. rewrite in_app_iff. intros [H|[H|[]]].
  - left. apply filter_In in H. exact (proj1 H).
  - right. symmetry. exact H.
Qed.

Lemma new_block_known ex b b' w :
  known_in ex b ->
  (forall l, In l b' -> In l b \/ l = w) ->
  (forall k n, line_ref w = Some (k, n) -> ex k n = true) ->
  known_in ex b'.
Proof.
  intros K H W l k n Hl R. destruct (H l Hl) as [Hb| ->]; [exact (K l k n Hb R) | exact (W k n R)].
Qed.

(* existence of objects when one table grows or keeps its keys *)
Lemma ex_gps_vset d g b k n : ex_of d k n = true ->
  ex_of (tupd d (td_acls d) (td_pools d) (vset g b (td_gps d)) (td_tgs d) (td_users d) (td_mode d)) k n = true.
Proof. unfold ex_of. destruct k; cbn [exists_obj tupd td_acls td_pools td_gps]; try tauto. apply vhas_vset. Qed.

(* storing a known block into the block of the current sub-mode keeps the invariant *)
Lemma put_block_known d b' : tables_known (ex_of d) (td_gps d) (td_tgs d) (td_users d) -> known_in (ex_of d) b' ->
  tables_known (ex_of (put_block d b')) (td_gps (put_block d b')) (td_tgs (put_block d b')) (td_users (put_block d b')).
Proof.
  intros K B. unfold put_block. destruct (td_mode d) as [|g|t sec|u] eqn:M; [exact K| | |].
  - apply (tables_known_step (ex_of d) (td_gps d) (td_tgs d) (td_users d)); [exact K | | | |].
    + intros k n H. unfold ex_of in *. destruct k; cbn [exists_obj tupd td_acls td_pools td_gps] in *; try exact H. apply vhas_vset. exact H.
    + cbn [tupd td_gps]. intros n b Hb. apply In_vset in Hb. destruct Hb as [[-> ->]|Hb]; [right | left; exists n; exact Hb].
      apply (known_in_mono (ex_of d)); [|exact B].
      intros k n H. unfold ex_of in *. destruct k; cbn [exists_obj tupd td_acls td_pools td_gps] in *; try exact H. apply vhas_vset. exact H.
    + cbn [tupd td_tgs]. intros t ty secs sec b Ht Hs. left. exists t, ty, secs, sec. split; assumption.
    + cbn [tupd td_users]. intros u b Hb. left. exists u. exact Hb.
  - destruct (vlookup t (td_tgs d)) as [[ty secs]|] eqn:L; [|exact K].
    apply (tables_known_step (ex_of d) (td_gps d) (td_tgs d) (td_users d)); [exact K | intros k n H; exact H | | |].
    + cbn [tupd td_gps]. intros n b Hb. left. exists n. exact Hb.
    + cbn [tupd td_tgs]. intros t0 ty0 secs0 sec0 b Ht Hs. apply In_vset in Ht. destruct Ht as [[-> E]|Ht].
      * injection E as -> ->. apply In_vset in Hs. destruct Hs as [[-> ->]|Hs]; [right; exact B|].
        left. exists t, ty, secs, sec0. split; [exact (vlookup_In t (td_tgs d) (ty, secs) L) | exact Hs].
      * left. exists t0, ty0, secs0, sec0. split; assumption.
    + cbn [tupd td_users]. intros u b Hb. left. exists u. exact Hb.
  - apply (tables_known_step (ex_of d) (td_gps d) (td_tgs d) (td_users d)); [exact K | intros k n H; exact H | | |].
    + cbn [tupd td_gps]. intros n b Hb. left. exists n. exact Hb.
    + cbn [tupd td_tgs]. intros t ty secs sec b Ht Hs. left. exists t, ty, secs, sec. split; assumption.
    + cbn [tupd td_users]. intros u0 b Hb. apply In_vset in Hb. destruct Hb as [[-> ->]|Hb]; [right; exact B | left; exists u0; exact Hb].
Qed.

Lemma cur_block_known d b : tables_known (ex_of d) (td_gps d) (td_tgs d) (td_users d) -> cur_block d = Some b -> known_in (ex_of d) b.
Proof.
  intros (K1 & K2 & K3). unfold cur_block. destruct (td_mode d) as [|g|t sec|u]; [discriminate| | |].
  - intros H. exact (K1 g b (vlookup_In g _ b H)).
  - destruct (vlookup t (td_tgs d)) as [[ty secs]|] eqn:L; [|discriminate].
    destruct (vlookup sec secs) as [b0|] eqn:L2; intros H; injection H as <-.
    + exact (K2 t ty secs sec b0 (vlookup_In t _ _ L) (vlookup_In sec _ _ L2)).
    + apply known_in_nil.
  - intros H. exact (K3 u b (vlookup_In u _ b H)).
Qed.

Theorem tsub_keeps_known d w d' : refs_known d -> tsub d w = TOk d' -> refs_known d'.
Proof.
  intros K H. apply refs_known_tables in K. apply refs_known_tables.
  unfold tsub in H.
  assert (G : forall b', known_in (ex_of d) b' -> d' = put_block d b' ->
              tables_known (ex_of d') (td_gps d') (td_tgs d') (td_users d')).
  { intros b' B ->. apply put_block_known; assumption. }
  destruct (td_mode d) eqn:M; [discriminate| | |];
  (destruct (cur_block d) as [b|] eqn:CB; [|discriminate];
   pose proof (cur_block_known d b K CB) as KB;
   destruct (is_no w) as [l|];
   [ destruct (has_line l b); [|discriminate]; injection H as <-;
     apply (G (drop_line l b)); [|reflexivity];
     intros x k m Hx R; exact (KB x k m (In_drop_line x l b Hx) R)
   | destruct (line_ref w) as [[k nm]|] eqn:R;
     [ destruct (exists_obj k nm d) eqn:E; [|discriminate]; injection H as <-;
       apply (G (add_line w b)); [|reflexivity];
       apply (new_block_known (ex_of d) b (add_line w b) w KB (fun x => In_add_line x w b));
       intros k0 m Rg; rewrite R in Rg; injection Rg as <- <-; exact E
     | injection H as <-;
       apply (G (add_line w b)); [|reflexivity];
       apply (new_block_known (ex_of d) b (add_line w b) w KB (fun x => In_add_line x w b));
       intros k0 m Rg; rewrite R in Rg; discriminate ] ]).
Qed.

(* ---- commands that leave the blocks alone: objects appear, or disappear when nothing refers to them ---- *)
Lemma not_referenced d k n b l k' n' : referenced k n d = false -> In b (all_blocks d) -> In l b -> line_ref l = Some (k', n') -> k' <> k \/ n' <> n.
Proof.
  unfold referenced. intros H Hb Hl R.
  destruct (rkind_eqb k k') eqn:Ek; [|left; intros ->; destruct k; discriminate].
  right. intros ->.
  assert (X : existsb (existsb (refers k n)) (all_blocks d) = true).
  { apply existsb_exists. exists b. split; [exact Hb|]. apply existsb_exists. exists l. split; [exact Hl|].
    unfold refers. rewrite R, Ek. cbn. apply String.eqb_refl. }
  rewrite H in X. discriminate.
Qed.

(* same blocks, objects only added *)
Lemma blocks_same_objects_grow d d' :
  td_gps d' = td_gps d -> td_tgs d' = td_tgs d -> td_users d' = td_users d ->
  (forall k n, exists_obj k n d = true -> exists_obj k n d' = true) ->
  refs_known d -> refs_known d'.
Proof.
  intros E1 E2 E3 M K b l k n Hb Hl R. apply M. apply (K b l k n); [|exact Hl|exact R].
  unfold all_blocks in *. rewrite E1, E2, E3 in Hb. exact Hb.
Qed.
(* same blocks, one unreferenced object removed *)
Lemma blocks_same_object_removed d d' k0 n0 :
  td_gps d' = td_gps d -> td_tgs d' = td_tgs d -> td_users d' = td_users d ->
  referenced k0 n0 d = false ->
  (forall k n, (k <> k0 \/ n <> n0) -> exists_obj k n d = true -> exists_obj k n d' = true) ->
  refs_known d -> refs_known d'.
Proof.
  intros E1 E2 E3 NR M K b l k n Hb Hl R.
  assert (Hb' : In b (all_blocks d)) by (unfold all_blocks in *; rewrite E1, E2, E3 in Hb; exact Hb).
  apply M; [exact (not_referenced d k0 n0 b l k n NR Hb' Hl R) | exact (K b l k n Hb' Hl R)].
Qed.

Lemma insert_at_nonempty {A} k (x : A) l l' : insert_at k x l = Some l' -> l' <> [].
Proof.
  destruct k as [|k]; cbn [insert_at].
  - intros H. injection H as <-. discriminate.
  - destruct l as [|y r]; [discriminate|]. destruct (insert_at k x r); [|discriminate]. intros H. injection H as <-. discriminate.
Qed.

Lemma set_acl_grows n l d k m : l <> [] -> exists_obj k m d = true -> exists_obj k m (set_acl n l d) = true.
Proof.
  intros NE. unfold set_acl. destruct l as [|x r]; [contradiction|].
  destruct k; cbn [exists_obj tupd td_acls td_pools td_gps]; try tauto. apply vhas_vset.
Qed.
Lemma set_acl_tables n l d : td_gps (set_acl n l d) = td_gps d /\ td_tgs (set_acl n l d) = td_tgs d /\ td_users (set_acl n l d) = td_users d.
Proof. unfold set_acl. repeat split. Qed.

Theorem exec_cmd_keeps_known d c d' : refs_known d -> exec_cmd d c = TOk d' -> refs_known d'.
Proof.
  intros K. destruct c; cbn [exec_cmd].
  - (* exit *) intros H. injection H as <-. apply (blocks_same_objects_grow d); try reflexivity; [tauto | exact K].
  - (* access-list N line K *)
    destruct (insert_at k rest (acl_of n d)) as [l|] eqn:I; [|discriminate]. intros H. injection H as <-.
    apply (blocks_same_objects_grow d); try reflexivity; [|exact K]. intros k0 m. apply set_acl_grows. exact (insert_at_nonempty k rest _ l I).
  - intros H. injection H as <-. apply (blocks_same_objects_grow d); try reflexivity; [|exact K].
    intros k0 m. apply set_acl_grows. intros E. apply app_eq_nil in E. destruct E as [_ E]. discriminate.
  - (* no access-list N line K *)
    destruct (delete_at k rest (acl_of n d)) as [[|x r]|]; [| |discriminate].
    + destruct (referenced RAcl n d) eqn:NR; [discriminate|]. intros H. injection H as <-.
      apply (blocks_same_object_removed d _ RAcl n); try reflexivity; [exact NR | | exact K].
      intros k0 m Hne. unfold set_acl. destruct k0; cbn [exists_obj tupd td_acls td_pools td_gps]; try tauto.
      apply vhas_vremove. destruct Hne as [Hne|Hne]; [contradiction Hne; reflexivity | exact Hne].
    + intros H. injection H as <-. apply (blocks_same_objects_grow d); try reflexivity; [|exact K].
      intros k0 m. apply set_acl_grows. discriminate.
  - (* clear configure access-list *)
    destruct (negb (vhas n (td_acls d))); [discriminate|]. destruct (referenced RAcl n d) eqn:NR; [discriminate|].
    intros H. injection H as <-.
    apply (blocks_same_object_removed d _ RAcl n); try reflexivity; [exact NR | | exact K].
    intros k0 m Hne. destruct k0; cbn [exists_obj tupd td_acls td_pools td_gps]; try tauto.
    apply vhas_vremove. destruct Hne as [Hne|Hne]; [contradiction Hne; reflexivity | exact Hne].
  - (* ip local pool *)
    intros H. injection H as <-. apply (blocks_same_objects_grow d); try reflexivity; [|exact K].
    intros k0 m. destruct k0; cbn [exists_obj tupd td_acls td_pools td_gps]; try tauto. apply vhas_vset.
  - (* no ip local pool *)
    destruct (vlookup n (td_pools d)) as [def'|]; [|discriminate]. destruct (negb (words_eqb def def')); [discriminate|].
    destruct (referenced RPool n d) eqn:NR; [discriminate|]. intros H. injection H as <-.
    apply (blocks_same_object_removed d _ RPool n); try reflexivity; [exact NR | | exact K].
    intros k0 m Hne. destruct k0; cbn [exists_obj tupd td_acls td_pools td_gps]; try tauto.
    apply vhas_vremove. destruct Hne as [Hne|Hne]; [contradiction Hne; reflexivity | exact Hne].
  - (* group-policy N internal *)
    intros H. injection H as <-. apply refs_known_tables. apply refs_known_tables in K.
    destruct (vhas n (td_gps d)) eqn:V; [exact K|].
    apply (tables_known_step (ex_of d) (td_gps d) (td_tgs d) (td_users d)); [exact K | | | |].
    + intros k0 m H. unfold ex_of in *. destruct k0; cbn [exists_obj tupd td_acls td_pools td_gps] in *; try exact H. apply vhas_vset. exact H.
    + cbn [tupd td_gps]. intros n0 b Hb. apply In_vset in Hb. destruct Hb as [[-> ->]|Hb]; [right; apply known_in_nil | left; exists n0; exact Hb].
    + cbn [tupd td_tgs]. intros t ty secs sec b Ht Hs. left. exists t, ty, secs, sec. split; assumption.
    + cbn [tupd td_users]. intros u b Hb. left. exists u. exact Hb.
  - destruct (vhas n (td_gps d)); [|discriminate]. intros H. injection H as <-. apply (blocks_same_objects_grow d); try reflexivity; [tauto | exact K].
  - (* clear configure group-policy N: only if nothing refers to it *)
    destruct (negb (vhas n (td_gps d))); [discriminate|]. destruct (referenced RGp n d) eqn:NR; [discriminate|].
    intros H. injection H as <-. intros b l k m Hb Hl Rl.
    assert (Hb' : In b (all_blocks d)).
    { unfold all_blocks in *. cbn [tupd td_gps td_tgs td_users] in Hb. apply in_app_or in Hb. apply in_or_app.
      destruct Hb as [Hb|Hb]; [left|right; exact Hb].
      apply in_map_iff in Hb. destruct Hb as [x [E Hx]]. apply in_map_iff. exists x. split; [exact E | exact (In_vremove n _ x Hx)]. }
    pose proof (K b l k m Hb' Hl Rl) as Ex. pose proof (not_referenced d RGp n b l k m NR Hb' Hl Rl) as Hne.
    destruct k; cbn [exists_obj tupd td_acls td_pools td_gps] in *; try exact Ex.
    apply vhas_vremove; [|exact Ex]. destruct Hne as [Hne|Hne]; [contradiction Hne; reflexivity | exact Hne].
  - (* username N nopassword *)
    intros H. injection H as <-. apply refs_known_tables. apply refs_known_tables in K.
    destruct (vhas n (td_users d)); [exact K|].
    apply (tables_known_step (ex_of d) (td_gps d) (td_tgs d) (td_users d)); [exact K | intros k0 m H; exact H | | |].
    + cbn [tupd td_gps]. intros n0 b Hb. left. exists n0. exact Hb.
    + cbn [tupd td_tgs]. intros t ty secs sec b Ht Hs. left. exists t, ty, secs, sec. split; assumption.
    + cbn [tupd td_users]. intros u b Hb. apply In_vset in Hb. destruct Hb as [[-> ->]|Hb]; [right; apply known_in_nil | left; exists u; exact Hb].
  - destruct (vhas n (td_users d)); [|discriminate]. intros H. injection H as <-. apply (blocks_same_objects_grow d); try reflexivity; [tauto | exact K].
  - (* clear configure username *)
    destruct (vhas n (td_users d)); [|discriminate]. intros H. injection H as <-. apply refs_known_tables. apply refs_known_tables in K.
    apply (tables_known_step (ex_of d) (td_gps d) (td_tgs d) (td_users d)); [exact K | intros k0 m H; exact H | | |].
    + cbn [tupd td_gps]. intros n0 b Hb. left. exists n0. exact Hb.
    + cbn [tupd td_tgs]. intros t ty secs sec b Ht Hs. left. exists t, ty, secs, sec. split; assumption.
    + cbn [tupd td_users]. intros u b Hb. left. exists u. exact (In_vremove n _ _ Hb).
  - (* tunnel-group N type T *)
    intros H. injection H as <-. apply refs_known_tables. apply refs_known_tables in K.
    apply (tables_known_step (ex_of d) (td_gps d) (td_tgs d) (td_users d)); [exact K | intros k0 m H; exact H | | |].
    + cbn [tupd td_gps]. intros n0 b Hb. left. exists n0. exact Hb.
    + cbn [tupd td_tgs]. intros t ty0 secs sec b Ht Hs. apply In_vset in Ht. destruct Ht as [[-> E]|Ht].
      * injection E as -> ->. destruct (vlookup n (td_tgs d)) as [[ty1 secs1]|] eqn:L; [|destruct Hs].
        left. exists n, ty1, secs1, sec. split; [exact (vlookup_In n _ _ L) | exact Hs].
      * left. exists t, ty0, secs, sec. split; assumption.
    + cbn [tupd td_users]. intros u b Hb. left. exists u. exact Hb.
  - destruct (vhas n (td_tgs d)); [|discriminate]. intros H. injection H as <-. apply (blocks_same_objects_grow d); try reflexivity; [tauto | exact K].
  - (* no tunnel-group N SECTION *)
    destruct (vlookup n (td_tgs d)) as [[ty secs]|] eqn:L; [|discriminate]. destruct (vhas sec secs); [|discriminate].
    intros H. injection H as <-. apply refs_known_tables. apply refs_known_tables in K.
    apply (tables_known_step (ex_of d) (td_gps d) (td_tgs d) (td_users d)); [exact K | intros k0 m H; exact H | | |].
    + cbn [tupd td_gps]. intros n0 b Hb. left. exists n0. exact Hb.
    + cbn [tupd td_tgs]. intros t ty0 secs0 sec0 b Ht Hs. apply In_vset in Ht. destruct Ht as [[-> E]|Ht].
      * injection E as -> ->. left. exists n, ty, secs, sec0. split; [exact (vlookup_In n _ _ L) | exact (In_vremove sec _ _ Hs)].
      * left. exists t, ty0, secs0, sec0. split; assumption.
    + cbn [tupd td_users]. intros u b Hb. left. exists u. exact Hb.
  - (* clear configure tunnel-group *)
    destruct (vhas n (td_tgs d)); [|discriminate]. intros H. injection H as <-. apply refs_known_tables. apply refs_known_tables in K.
    apply (tables_known_step (ex_of d) (td_gps d) (td_tgs d) (td_users d)); [exact K | intros k0 m H; exact H | | |].
    + cbn [tupd td_gps]. intros n0 b Hb. left. exists n0. exact Hb.
    + cbn [tupd td_tgs]. intros t ty secs sec b Ht Hs. left. exists t, ty, secs, sec. split; [exact (In_vremove n _ _ Ht) | exact Hs].
    + cbn [tupd td_users]. intros u b Hb. left. exists u. exact Hb.
  - discriminate.
  - apply tsub_keeps_known. exact K.
Qed.

(* every state an accepted script passes through *)
Theorem accepted_script_keeps_known cs : forall d i d', refs_known d -> trun d cs i = (d', 0, 0) -> refs_known d'.
Proof.
  induction cs as [|c cs IH]; intros d i d' K H.
  - cbn in H. injection H as <-. exact K.
  - cbn [trun] in H. destruct (texec d c) as [d1|why] eqn:E; [|discriminate].
    apply (IH d1 (S i) d'); [|exact H]. unfold texec in E. exact (exec_cmd_keeps_known d (classify c) d1 K E).
Qed.

(* so the verdict of the oracle on the result of an accepted script does not depend on the names of ACLs, pools and group-policies *)
Corollary oracle_after_accepted_script_independent_of_names (ra rp rg : string -> string) :
  (forall a b, ra a = ra b -> a = b) -> (forall a b, rp a = rp b -> a = b) -> (forall a b, rg a = rg b -> a = b) ->
  forall d cs d' t, refs_known d -> trun d cs 0 = (d', 0, 0) ->
    tsem (rename_all ra rp rg d') = tsem d' /\ tequiv (rename_all ra rp rg d') t = tequiv d' t.
Proof.
  intros ia ip ig d cs d' t K H. pose proof (accepted_script_keeps_known cs d 0 d' K H) as K'. split.
  - exact (tsem_independent_of_names ra rp rg ia ip ig d' K').
  - exact (tequiv_up_to_names ra rp rg ia ip ig d' t K').
Qed.
