(* Cisco/IosAclTight.v — the relation of the C02 theorem is exactly "filters alike": two lists of
   rules without repeated lines give every packet the same first-match verdict, for every
   matcher, if and only if they differ by exchanges of neighbours with the same action.
   (Only-if: sw_equiv_verdict in IosAclEquiv.v; if: same_verdicts_sw_equiv here.) *)
From Coq Require Import List Arith Bool Lia NArith.
From NA Require Import Cisco.IosAcl Cisco.IosAclEquiv.
Import ListNotations.

Lemma ientry_eqb_eq a b : ientry_eqb a b = true <-> a = b.
Proof.
  destruct a as [a1 a2 a3], b as [b1 b2 b3]. unfold ientry_eqb. cbn [i_act i_body i_log]. rewrite !andb_true_iff, !Nat.eqb_eq. split.
  - intros [[-> ->] ->]. reflexivity.
  - intros H. injection H as -> -> ->. auto.
Qed.
Lemma ientry_eqb_refl a : ientry_eqb a a = true.
Proof. apply ientry_eqb_eq. reflexivity. Qed.
Lemma ientry_eqb_neq a b : a <> b -> ientry_eqb a b = false.
Proof. intros H. destruct (ientry_eqb a b) eqn:E; [apply ientry_eqb_eq in E; contradiction | reflexivity]. Qed.

Lemma fm_none matches l : (forall e, In e l -> matches e = false) -> fm_verdict matches l = None.
Proof. induction l as [|e r IH]; intros H; [reflexivity|]. cbn [fm_verdict]. rewrite (H e (or_introl eq_refl)). apply IH. intros y Hy. apply H. right. exact Hy. Qed.

Lemma fm_ext m1 m2 l : (forall e, In e l -> m1 e = m2 e) -> fm_verdict m1 l = fm_verdict m2 l.
Proof. induction l as [|e r IH]; intros H; [reflexivity|]. cbn [fm_verdict]. rewrite (H e (or_introl eq_refl)). destruct (m2 e); [reflexivity|]. apply IH. intros y Hy. apply H. right. exact Hy. Qed.

(* x in front instead of in the middle, when all lines in front of it have its action *)
Lemma sw_to_front x b1 b2 : (forall y, In y b1 -> i_act y = i_act x) -> sw_equiv (b1 ++ x :: b2) (x :: b1 ++ b2).
Proof.
  induction b1 as [|y b1 IH]; intros H; [apply sw_refl|].
  cbn [List.app]. eapply sw_trans; [apply sw_cons, IH; intros z Hz; apply H; right; exact Hz|].
  apply (sw_swap [] y x (b1 ++ b2)). apply H. left. reflexivity.
Qed.

(* the relation is exactly "same first-match verdict for every matcher" on lists without repeated lines *)
Theorem same_verdicts_sw_equiv : forall a b, NoDup a -> NoDup b ->
  (forall matches : ientry -> bool, fm_verdict matches a = fm_verdict matches b) -> sw_equiv a b.
Proof.
  induction a as [|x a IH]; intros b NA NB H.
  - destruct b as [|y b]; [apply sw_refl|]. specialize (H (fun _ => true)). discriminate.
  - inversion NA as [|? ? NIx NA']; subst.
    (* x occurs in b *)
    assert (IB : In x b).
    { specialize (H (fun e => ientry_eqb e x)). cbn [fm_verdict] in H. rewrite ientry_eqb_refl in H.
      destruct (in_dec (fun p q => match Bool.bool_dec (ientry_eqb p q) true with left E => left (proj1 (ientry_eqb_eq p q) E) | right N => right (fun E => N (proj2 (ientry_eqb_eq p q) E)) end) x b) as [I|NI]; [exact I|].
      rewrite fm_none in H; [discriminate|]. intros e He. apply ientry_eqb_neq. intros ->. contradiction. }
    apply in_split in IB. destruct IB as (b1 & b2 & ->).
    assert (NB1 : ~ In x b1 /\ ~ In x b2 /\ NoDup (b1 ++ b2)).
    { apply NoDup_remove in NB. destruct NB as [ND NI]. split; [intros I; apply NI, in_or_app; left; exact I|]. split; [intros I; apply NI, in_or_app; right; exact I | exact ND]. }
    destruct NB1 as (NX1 & NX2 & NB').
    (* every line in front of x in b has the action of x *)
    assert (FRONT : forall y, In y b1 -> i_act y = i_act x).
    { intros y Hy. specialize (H (fun e => ientry_eqb e x || ientry_eqb e y)).
      cbn [fm_verdict] in H. rewrite ientry_eqb_refl in H. cbn [orb] in H.
      (* in b the first match is y or an earlier line of b1 that equals y or x: only y *)
      apply in_split in Hy. destruct Hy as (c1 & c2 & ->).
      rewrite <- app_assoc in H. cbn [List.app] in H. rewrite fm_app in H.
      rewrite fm_none in H.
      - cbn [fm_verdict] in H. rewrite ientry_eqb_refl, orb_true_r in H. injection H as H. symmetry. exact H.
      - intros e He. apply orb_false_iff. split; apply ientry_eqb_neq; intros ->.
        + apply NX1, in_or_app. left. exact He.
        + pose proof NB' as NB''. rewrite <- app_assoc in NB''. cbn [List.app] in NB''. apply NoDup_remove_2 in NB''. apply NB''. apply in_or_app. left. exact He. }
    eapply sw_trans; [|apply sw_sym, sw_to_front, FRONT].
    apply sw_cons. apply (IH (b1 ++ b2) NA' NB'). intros M.
    specialize (H (fun e => M e && negb (ientry_eqb e x))).
    cbn [fm_verdict] in H. rewrite ientry_eqb_refl in H. cbn [negb] in H. rewrite andb_false_r in H.
    rewrite fm_app in H. cbn [fm_verdict] in H. rewrite ientry_eqb_refl in H. cbn [negb] in H. rewrite andb_false_r in H.
    rewrite fm_app.
    rewrite (fm_ext M (fun e => M e && negb (ientry_eqb e x)) a).
    2:{ intros e He. rewrite ientry_eqb_neq; [rewrite andb_true_r; reflexivity | intros ->; contradiction]. }
    rewrite (fm_ext M (fun e => M e && negb (ientry_eqb e x)) b1).
    2:{ intros e He. rewrite ientry_eqb_neq; [rewrite andb_true_r; reflexivity | intros ->; contradiction]. }
    rewrite (fm_ext M (fun e => M e && negb (ientry_eqb e x)) b2).
    2:{ intros e He. rewrite ientry_eqb_neq; [rewrite andb_true_r; reflexivity | intros ->; contradiction]. }
    exact H.
Qed.
