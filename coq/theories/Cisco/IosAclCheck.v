From Coq Require Import List Arith Bool NArith.
From NA Require Import Cisco.IosAcl.
Import ListNotations.

Definition icmd_eqb (a b : icmd) : bool :=
  match a, b with
  | INum n e, INum n' e' => N.eqb n n' && ientry_eqb e e'
  | INo n, INo n' => N.eqb n n'
  | IMove a1 b1 c1, IMove a2 b2 c2 => N.eqb a1 a2 && N.eqb b1 b2 && ientry_eqb c1 c2
  | _, _ => false
  end.
Fixpoint icmds_eqb (a b : list icmd) : bool :=
  match a, b with
  | [], [] => true
  | x :: a', y :: b' => icmd_eqb x y && icmds_eqb a' b'
  | _, _ => false
  end.

Definition conv (l : list ientry) (cs : list icmd) (tgt : list ientry) : bool :=
  match iexec_all (reseq l) cs with Some r => equiv (map snd r) tgt | None => false end.

(* [model = implementation; model script accepted and equivalent; implementation's script accepted and equivalent] *)
Definition ios_verdict (x : script * list icmd) : list nat :=
  let '(m, impl) := x in
  match diff_ios m with
  | Some cs => [if icmds_eqb cs impl then 0 else 1;
                if conv (listA m) cs (listB m) then 0 else 1;
                if conv (listA m) impl (listB m) then 0 else 1]
  | None => [2; 0; if conv (listA m) impl (listB m) then 0 else 1]
  end%nat.
Definition ios_verdicts (l : list (script * list icmd)) : list nat := flat_map ios_verdict l.

(* the ACL after the implementation's commands, as (action, body, log) triples, for the second compare *)
Definition ios_final (x : script * list icmd) : list (nat * (nat * nat)) :=
  match iexec_all (reseq (listA (fst x))) (snd x) with
  | Some r => map (fun e => (i_act (snd e), (i_body (snd e), i_log (snd e)))) r
  | None => []
  end.
Definition ios_finals (l : list (script * list icmd)) := map ios_final l.

(* ---- stepwise safety on the numbering core (C14) ---- *)
Definition sem := list (nat * list nat).   (* body -> packets matched; action is in the entry *)
Fixpoint verdict (sm : sem) (l : list ientry) (p : nat) : bool :=
  match l with
  | [] => false
  | e :: r =>
      if Nat.eqb (i_act e) 2 then verdict sm r p else
      match find (fun x => Nat.eqb (fst x) (i_body e)) sm with
      | Some (_, pk) => if existsb (Nat.eqb p) pk then Nat.eqb (i_act e) 0 else verdict sm r p
      | None => verdict sm r p
      end
  end.
(* an IOS ACL without entries permits everything *)
Definition bverdict (sm : sem) (l : list ientry) (p : nat) : bool :=
  match l with [] => true | _ => verdict sm l p end.
Definition safe_state (sm : sem) (npk : nat) (a b l : list ientry) : bool :=
  forallb (fun p => if Bool.eqb (bverdict sm a p) (bverdict sm b p)
                    then Bool.eqb (bverdict sm l p) (bverdict sm a p) else true) (seq 0 npk).
Fixpoint step_scan (sm : sem) (npk : nat) (a b : list ientry) (l : nacl) (cs : list icmd) (k : nat) : nat :=
  match cs with
  | [] => 0
  | c :: r => match iexec l c with
              | Some l' => if safe_state sm npk a b (map snd l') then step_scan sm npk a b l' r (S k) else S k
              | None => 0
              end
  end.
Definition step_verdicts (sm : sem) (npk : nat) (l : list (script * list icmd)) : list nat :=
  map (fun x => step_scan sm npk (listA (fst x)) (listB (fst x)) (reseq (listA (fst x))) (snd x) 0) l.
