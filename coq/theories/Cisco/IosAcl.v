(* Cisco/IosAcl.v — the numbering core of cisco.diffIOSACLs (with the repaired,
   direction-aware move suppression and the repaired, id-based insideBlock): model over an edit script given as merged
   sequence; device ACL = entries with sequence numbers.  Executable. *)
From Coq Require Import List Arith Bool Lia NArith.
Import ListNotations.

(* action: 0 permit, 1 deny, 2 remark; body without log; log attribute *)
Record ientry := { i_act : nat; i_body : nat; i_log : nat }.
Definition ientry_eqb (a b : ientry) : bool :=
  Nat.eqb (i_act a) (i_act b) && Nat.eqb (i_body a) (i_body b) && Nat.eqb (i_log a) (i_log b).
(* equality used for move detection: printed command without log attribute *)
Definition same_line (a b : ientry) : bool :=
  Nat.eqb (i_act a) (i_act b) && Nat.eqb (i_body a) (i_body b).

Inductive tag := Keep | Drop | Add.
Definition is_add (t : tag) : bool := match t with Add => true | _ => false end.
Definition is_drop (t : tag) : bool := match t with Drop => true | _ => false end.
Definition script := list (tag * ientry).
Definition listA (m : script) : list ientry := map snd (filter (fun x => negb (is_add (fst x))) m).
Definition listB (m : script) : list ientry := map snd (filter (fun x => negb (is_drop (fst x))) m).

Inductive icmd :=
| INum (n : N) (e : ientry)              (* "N permit ..." *)
| INo (n : N)                            (* "no N" *)
| IMove (nd : N) (n : N) (e : ientry). (* "no ND\n N permit ..." *)

(* markIOSPermitDenyBlocks *)
Fixpoint mark_blocks (l : list ientry) (action : option nat) (id : nat) : list nat :=
  match l with
  | [] => []
  | c :: r =>
      let a := i_act c in
      if Nat.eqb a 2 then id :: mark_blocks r action id
      else match action with
           | None => id :: mark_blocks r (Some a) id
           | Some a0 => if Nat.eqb a a0 then id :: mark_blocks r action id
                        else S id :: mark_blocks r (Some a) (S id)
           end
  end.

Definition nthd {A} (l : list A) (i : nat) (d : A) : A := nth i l d.

(* insideBlock: Some (action, id) when the lines directly above and below the gap have
   the same block id; the action is that of the first permit/deny line of this block *)
Fixpoint block_act (al : list ientry) (blk : list nat) (id : nat) : option nat :=
  match al, blk with
  | c :: r, x :: br => if Nat.eqb x id && negb (Nat.eqb (i_act c) 2) then Some (i_act c) else block_act r br id
  | _, _ => None
  end.
Definition inside_block (al : list ientry) (blk : list nat) (pos : nat) : option (nat * nat) :=
  match pos with
  | O => None
  | S p => if Nat.ltb pos (length al) && Nat.eqb (nthd blk p 0) (nthd blk pos 0)
           then match block_act al blk (nthd blk pos 0) with Some a => Some (a, nthd blk pos 0) | None => None end
           else None
  end.

(* renumber the part of the block from position pos downwards *)
Fixpoint split_from (blk : list nat) (pos : nat) (id newid : nat) : list nat :=
  match blk, pos with
  | [], _ => []
  | x :: r, S p => x :: split_from r p id newid
  | x :: r, O => if Nat.eqb x id then newid :: split_from r O id newid else x :: r
  end.

(* The Add runs of the script with their gap (number of A entries before). *)
Fixpoint runs (m : script) (apos : nat) (cur : list ientry) : list (nat * list ientry) :=
  match m with
  | [] => match cur with [] => [] | _ => [(apos, rev cur)] end
  | (Add, e) :: r => runs r apos (e :: cur)
  | (_, e) :: r =>
      match cur with
      | [] => runs r (S apos) []
      | _ => (apos, rev cur) :: runs r (S apos) []
      end
  end.

Fixpoint split_pass (al : list ientry) (rs : list (nat * list ientry)) (blk : list nat) (maxid : nat) : list nat * nat :=
  match rs with
  | [] => (blk, maxid)
  | (gap, ins) :: r =>
      match inside_block al blk gap with
      | Some (act, id) =>
          if existsb (fun c => negb (Nat.eqb (i_act c) act)) ins
          then split_pass al r (split_from blk gap id (S maxid)) (S maxid)
          else split_pass al r blk maxid
      | None => split_pass al r blk maxid
      end
  end.

(* dropped entries with their A position *)
Fixpoint drops (m : script) (apos : nat) : list (nat * ientry) :=
  match m with
  | [] => []
  | (Add, _) :: r => drops r apos
  | (Drop, e) :: r => (apos, e) :: drops r (S apos)
  | (Keep, _) :: r => drops r (S apos)
  end.

(* delMap lookup: the LAST dropped entry printing the same line *)
Definition find_del (dl : list (nat * ientry)) (b : ientry) : option (nat * ientry) :=
  find (fun d => same_line (snd d) b) (rev dl).

Fixpoint all_act (l : list ientry) (a : nat) : bool :=
  match l with [] => true | c :: r => Nat.eqb (i_act c) a && all_act r a end.

(* one insert run: commands and the A positions whose entry was consumed (moved or kept in place) *)
Fixpoint run_cmds (blk : list nat) (dl : list (nat * ientry)) (gap : nat) (action0 : nat)
         (i : nat) (moveok : bool) (ins : list ientry) : list icmd * list nat :=
  match ins with
  | [] => ([], [])
  | b :: rest =>
      let moveok' := moveok && Nat.eqb action0 (i_act b) in
      let '(cs, used) := run_cmds blk dl gap action0 (S i) moveok' rest in
      match find_del dl b with
      | Some (pos, a) =>
          let oldid := nthd blk pos 0 in
          let downok := all_act rest (i_act b) in
          let skip :=
            Nat.eqb (i_log a) (i_log b) &&
            (if Nat.ltb pos gap then moveok' && Nat.eqb (nthd blk (gap - 1) 0) oldid
             else downok && Nat.eqb (nthd blk gap 0) oldid) in
          if skip then (cs, pos :: used)
          else (IMove ((N.of_nat pos + 1) * 10000)%N (N.of_nat gap * 10000 + N.of_nat i + 1)%N b :: cs, pos :: used)
      | None => (INum (N.of_nat gap * 10000 + N.of_nat i + 1)%N b :: cs, used)
      end
  end.

Fixpoint all_runs (blk : list nat) (dl : list (nat * ientry)) (rs : list (nat * list ientry)) : list icmd * list nat :=
  match rs with
  | [] => ([], [])
  | (gap, ins) :: r =>
      let a0 := match ins with b :: _ => i_act b | [] => 0 end in
      let '(c1, u1) := run_cmds blk dl gap a0 0 true ins in
      let '(c2, u2) := all_runs blk dl r in
      (c1 ++ c2, u1 ++ u2)
  end.

(* The commands between the two resequence commands; None = "Can't insert more
   than 9999 ACL lines at once". *)
Definition diff_ios (m : script) : option (list icmd) :=
  let al := listA m in
  let rs := runs m 0 [] in
  if existsb (fun r => N.leb 10000 (N.of_nat (length (snd r)))) rs then None
  else
    let blk0 := mark_blocks al None 1 in
    let maxid := fold_left Nat.max blk0 1 in
    let '(blk, _) := split_pass al rs blk0 maxid in
    let dl := drops m 0 in
    let '(cs, used) := all_runs blk dl rs in
    let dels := filter (fun d => negb (existsb (Nat.eqb (fst d)) used)) (rev dl) in
    Some (cs ++ map (fun d => INo ((N.of_nat (fst d) + 1) * 10000)%N) dels).

(* ---- strict device: entries with distinct sequence numbers, sorted ---- *)
Definition nacl := list (N * ientry).
Definition reseq (l : list ientry) : nacl :=
  map (fun p => ((N.of_nat (fst p) + 1) * 10000, snd p)%N) (combine (seq 0 (length l)) l).

Fixpoint ins_num (n : N) (e : ientry) (l : nacl) : nacl :=
  match l with
  | [] => [(n, e)]
  | x :: r => if N.ltb n (fst x) then (n, e) :: l else x :: ins_num n e r
  end.
Definition nadd (n : N) (e : ientry) (l : nacl) : option nacl :=
  if existsb (fun x => N.eqb (fst x) n) l then None
  else if existsb (fun x => same_line (snd x) e) l then None
  else Some (ins_num n e l).
Definition ndel (n : N) (l : nacl) : option nacl :=
  if existsb (fun x => N.eqb (fst x) n) l then Some (filter (fun x => negb (N.eqb (fst x) n)) l) else None.
Definition iexec (l : nacl) (c : icmd) : option nacl :=
  match c with
  | INum n e => nadd n e l
  | INo n => ndel n l
  | IMove nd n e => match ndel nd l with Some l' => nadd n e l' | None => None end
  end.
Fixpoint iexec_all (l : nacl) (cs : list icmd) : option nacl :=
  match cs with
  | [] => Some l
  | c :: r => match iexec l c with Some l' => iexec_all l' r | None => None end
  end.

(* ---- equivalence: permutation inside runs of equal action ---- *)
Fixpoint insert_sorted (x : ientry) (l : list ientry) : list ientry :=
  match l with
  | [] => [x]
  | y :: r => if Nat.leb (i_body x) (i_body y) then x :: l else y :: insert_sorted x r
  end.
Fixpoint canon (cur : option nat) (acc : list ientry) (l : list ientry) : list (list ientry) :=
  match l with
  | [] => [fold_right insert_sorted [] acc]
  | c :: r =>
      if Nat.eqb (i_act c) 2 then canon cur (c :: acc) r
      else match cur with
           | None => canon (Some (i_act c)) (c :: acc) r
           | Some a => if Nat.eqb a (i_act c) then canon cur (c :: acc) r
                       else fold_right insert_sorted [] acc :: canon (Some (i_act c)) [c] r
           end
  end.
Definition strip (e : ientry) : ientry := {| i_act := i_act e; i_body := i_body e; i_log := 0 |}.
Fixpoint ientries_eqb (a b : list ientry) : bool :=
  match a, b with
  | [], [] => true
  | x :: a', y :: b' => ientry_eqb x y && ientries_eqb a' b'
  | _, _ => false
  end.
(* same filtering: remark lines filter nothing and a log attribute does not change the
   verdict, so two ACLs filter alike if they are equal after dropping both and sorting
   every run of lines with the same action *)
Definition is_rule (e : ientry) : bool := negb (Nat.eqb (i_act e) 2).
Definition norm (a : list ientry) : list ientry := concat (canon None [] (map strip (filter is_rule a))).
Definition equiv (a b : list ientry) : bool := ientries_eqb (norm a) (norm b).
