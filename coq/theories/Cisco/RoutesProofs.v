(* Cisco/RoutesProofs.v — the route commands of cisco.diffRoutes are accepted by a routing table with at most one
   route per destination, end in the target routes, and never leave a destination without route that is routed before
   and after (every prefix of the command list). *)
From Coq Require Import List Arith Bool Lia.
From NA Require Import Cisco.Routes.
Import ListNotations.

Lemma route_eqb_eq a b : route_eqb a b = true <-> a = b.
Proof. destruct a, b. unfold route_eqb. cbn. rewrite andb_true_iff, !Nat.eqb_eq. split; [intros [-> ->]; reflexivity | intros H; injection H; auto]. Qed.
Lemma route_eqb_refl a : route_eqb a a = true.
Proof. apply route_eqb_eq. reflexivity. Qed.

Lemma has_dst_spec t d : has_dst t d = true <-> exists r, In r t /\ dst r = d.
Proof. unfold has_dst. rewrite existsb_exists. split; intros (r & H & E); exists r; (split; [exact H|]); [apply Nat.eqb_eq, E | apply Nat.eqb_eq; exact E]. Qed.
Lemma has_route_spec t r : has_route t r = true <-> In r t.
Proof. unfold has_route. rewrite existsb_exists. split; [intros (x & H & E); apply route_eqb_eq in E; subst x; exact H | intros H; exists r; split; [exact H | apply route_eqb_refl]]. Qed.

Lemma nodup_inj {A B} (f : A -> B) l x y : NoDup (map f l) -> In x l -> In y l -> f x = f y -> x = y.
Proof.
  induction l as [|z r IH]; intros ND Hx Hy E; [destruct Hx|]. cbn [map] in ND. inversion ND as [|? ? NI ND']; subst.
  destruct Hx as [Hx|Hx], Hy as [Hy|Hy]; try congruence.
  - subst z. exfalso. apply NI. rewrite E. apply in_map, Hy.
  - subst z. exfalso. apply NI. rewrite <- E. apply in_map, Hx.
  - apply IH; assumption.
Qed.

Lemma find_del_some dl d r : find_del dl d = Some r -> In r dl /\ dst r = d.
Proof. unfold find_del. intros H. apply find_some in H. destruct H as [H E]. split; [apply in_rev, H | apply Nat.eqb_eq, E]. Qed.
Lemma find_del_none dl d : find_del dl d = None -> forall r, In r dl -> dst r <> d.
Proof.
  unfold find_del. intros H r Hr E. assert (I : In r (rev dl)) by (apply -> in_rev; exact Hr).
  pose proof (find_none _ _ H r I) as X. cbn in X. apply Nat.eqb_neq in X. contradiction.
Qed.

Lemma rexec_all_app t c1 : forall c2 t1, rexec_all t c1 = Some t1 -> rexec_all t (c1 ++ c2) = rexec_all t1 c2.
Proof.
  revert t. induction c1 as [|c r IH]; intros t c2 t1 H; cbn [rexec_all List.app] in *; [injection H as <-; reflexivity|].
  destruct (rexec t c); [apply IH, H | discriminate].
Qed.

Section Run.
  Variable A : list route.      (* the device routes *)
  Variable dl : list route.     (* the deleted ones *)
  Variable alla : list route.   (* the added ones *)
  Hypothesis NDA : NoDup (map dst A).
  Hypothesis NDL : NoDup (map dst alla).
  Hypothesis SUB : forall r, In r dl -> In r A.
  (* a device route with the destination of an added route is a deleted one *)
  Hypothesis G1 : forall c r, In c alla -> In r A -> dst r = dst c -> In r dl.

  Definition inv1 (t done : list route) : Prop :=
    forall r, In r t <-> (In r A /\ ~ In r (replaced dl done)) \/ In r done.

  Lemma replaced_app d1 d2 : replaced dl (d1 ++ d2) = replaced dl d1 ++ replaced dl d2.
  Proof. unfold replaced. apply flat_map_app. Qed.
  Lemma add_cmds_app d1 d2 : add_cmds dl (d1 ++ d2) = add_cmds dl d1 ++ add_cmds dl d2.
  Proof. unfold add_cmds. apply map_app. Qed.

  Lemma replaced_in done o : In o (replaced dl done) -> exists c, In c done /\ find_del dl (dst c) = Some o.
  Proof.
    unfold replaced. intros H. apply in_flat_map in H. destruct H as (c & Hc & H). exists c. split; [exact Hc|].
    destruct (find_del dl (dst c)) as [o'|]; [destruct H as [<-|[]]; reflexivity | destruct H].
  Qed.

  (* one added route *)
  Lemma step_add done c rest t : alla = done ++ c :: rest -> inv1 t done ->
    exists t', rexec_all t (add_cmds dl [c]) = Some t' /\ inv1 t' (done ++ [c]).
  Proof.
    intros EA INV. cbn [add_cmds map rexec_all].
    assert (Ic : In c alla) by (rewrite EA; apply in_or_app; right; left; reflexivity).
    assert (NODONE : forall r, In r done -> dst r <> dst c).
    { intros r Hr E. rewrite EA in NDL. rewrite map_app in NDL. cbn [map] in NDL. apply NoDup_remove_2 in NDL. apply NDL.
      apply in_or_app. left. rewrite <- E. apply in_map, Hr. }
    destruct (find_del dl (dst c)) as [old|] eqn:F; cbn [rexec].
    - destruct (find_del_some _ _ _ F) as [Io Eo].
      assert (It : In old t).
      { apply INV. left. split; [apply SUB, Io|]. intros H. destruct (replaced_in done old H) as (c' & Hc' & F').
        destruct (find_del_some _ _ _ F') as [_ E']. apply (NODONE c' Hc'). congruence. }
      unfold rdel. rewrite (proj2 (has_route_spec t old) It).
      set (t1 := filter (fun x => negb (route_eqb old x)) t).
      assert (ND1 : has_dst t1 (dst c) = false).
      { apply not_true_is_false. intros H. apply has_dst_spec in H. destruct H as (r & Hr & E). unfold t1 in Hr. apply filter_In in Hr. destruct Hr as [Hr NE].
        apply negb_true_iff in NE. apply INV in Hr. destruct Hr as [[HA _]|Hd].
        - assert (r = old) by (apply (nodup_inj dst A r old NDA HA (SUB _ Io)); congruence). subst r. rewrite route_eqb_refl in NE. discriminate.
        - apply (NODONE r Hd E). }
      unfold radd. rewrite ND1. eexists. split; [reflexivity|].
      intros r. rewrite in_app_iff. unfold t1. rewrite filter_In, (INV r), replaced_app, !in_app_iff. cbn [replaced flat_map]. rewrite F. cbn [In List.app].
      split.
      + intros [[[[HA NR]|Hd] NE]|[<-|[]]].
        * left. split; [exact HA|]. intros [H|[<-|[]]]; [contradiction|]. rewrite route_eqb_refl in NE. discriminate.
        * right. left. exact Hd.
        * right. right. left. reflexivity.
      + intros [[HA NR]|[Hd|[<-|[]]]].
        * left. split; [left; split; [exact HA | intros H; apply NR; left; exact H]|]. apply negb_true_iff. apply not_true_is_false. intros E. apply route_eqb_eq in E. subst r. apply NR. right. left. reflexivity.
        * left. split; [right; exact Hd|]. apply negb_true_iff. apply not_true_is_false. intros E. apply route_eqb_eq in E. subst r. apply (NODONE old Hd Eo).
        * right. left. reflexivity.
    - pose proof (find_del_none _ _ F) as NONE.
      assert (ND1 : has_dst t (dst c) = false).
      { apply not_true_is_false. intros H. apply has_dst_spec in H. destruct H as (r & Hr & E). apply INV in Hr. destruct Hr as [[HA _]|Hd].
        - apply (NONE r (G1 c r Ic HA E) E).
        - apply (NODONE r Hd E). }
      unfold radd. rewrite ND1. eexists. split; [reflexivity|].
      intros r. rewrite in_app_iff, (INV r), replaced_app, !in_app_iff. cbn [replaced flat_map]. rewrite F. cbn [In List.app]. rewrite ?app_nil_r. tauto.
  Qed.

  (* all added routes, with every state on the way *)
  Lemma run_adds : forall rest done t, alla = done ++ rest -> inv1 t done ->
    forall k, exists tk, rexec_all t (firstn k (add_cmds dl rest)) = Some tk /\ exists dk, inv1 tk dk /\ (exists r2, alla = dk ++ r2) /\ (length rest <= k -> dk = alla).
  Proof.
    induction rest as [|c rest IH]; intros done t EA INV k.
    - cbn [add_cmds map]. rewrite firstn_nil. exists t. split; [reflexivity|]. exists done. split; [exact INV|]. split; [exists []; exact EA|]. intros _. rewrite EA, app_nil_r. reflexivity.
    - destruct k as [|k].
      + exists t. split; [reflexivity|]. exists done. split; [exact INV|]. split; [exists (c :: rest); exact EA|]. cbn [length]. lia.
      + destruct (step_add done c rest t EA INV) as (t' & EX & INV').
        assert (EA' : alla = (done ++ [c]) ++ rest) by (rewrite <- app_assoc; exact EA).
        destruct (IH (done ++ [c]) t' EA' INV' k) as (tk & EXk & dk & INVk & R2 & FULL).
        exists tk. split.
        * change (add_cmds dl (c :: rest)) with (add_cmds dl [c] ++ add_cmds dl rest).
          cbn [add_cmds map List.app firstn rexec_all] in *. destruct (rexec t _); [injection EX as <-; exact EXk | discriminate].
        * exists dk. split; [exact INVk|]. split; [exact R2|]. intros L. apply FULL. cbn [length] in L. lia.
  Qed.

  (* ---- phase 2: the remaining deleted routes ---- *)
  Hypothesis NDD : NoDup dl.
  Definition used : list route := replaced dl alla.
  Definition inv2 (t gone : list route) : Prop :=
    forall r, In r t <-> (In r A /\ ~ In r used /\ ~ In r gone) \/ In r alla.

  Lemma used_sub r : In r used -> In r dl.
  Proof. intros H. destruct (replaced_in alla r H) as (c & _ & F). apply (find_del_some _ _ _ F). Qed.

  Lemma added_not_unused d : In d dl -> ~ In d used -> ~ In d alla.
  Proof.
    intros Id NU Ia. apply NU. unfold used, replaced. apply in_flat_map. exists d. split; [exact Ia|].
    destruct (find_del dl (dst d)) as [old|] eqn:F.
    - destruct (find_del_some _ _ _ F) as [Io Eo]. left. apply (nodup_inj dst A old d NDA (SUB _ Io) (SUB _ Id) Eo).
    - exfalso. apply (find_del_none _ _ F d Id). reflexivity.
  Qed.

  Lemma run_dels : forall D gone t, inv2 t gone -> NoDup D ->
    (forall d, In d D -> In d dl /\ ~ In d used /\ ~ In d gone) ->
    forall k, exists tk, rexec_all t (firstn k (map RDel D)) = Some tk /\ inv2 tk (gone ++ firstn k D).
  Proof.
    induction D as [|d D IH]; intros gone t INV ND H k.
    - cbn [map]. rewrite !firstn_nil, app_nil_r. exists t. split; [reflexivity | exact INV].
    - destruct k as [|k]; [exists t; cbn [firstn]; rewrite app_nil_r; split; [reflexivity | exact INV]|].
      destruct (H d (or_introl eq_refl)) as (Id & NU & NG). inversion ND as [|? ? NI ND']; subst.
      assert (It : In d t) by (apply INV; left; split; [apply SUB, Id | split; assumption]).
      cbn [map firstn rexec_all rexec]. unfold rdel. rewrite (proj2 (has_route_spec t d) It).
      set (t1 := filter (fun x => negb (route_eqb d x)) t).
      assert (INV1 : inv2 t1 (gone ++ [d])).
      { intros r. unfold t1. rewrite filter_In, (INV r), in_app_iff. cbn [In]. split.
        - intros [[(HA & N1 & N2)|Ha] NE]; [left; split; [exact HA|]; split; [exact N1|] | right; exact Ha].
          intros [G|[<-|[]]]; [contradiction|]. rewrite route_eqb_refl in NE. discriminate.
        - intros [(HA & N1 & N2)|Ha].
          + split; [left; split; [exact HA|]; split; [exact N1 | intros G; apply N2; left; exact G]|].
            apply negb_true_iff, not_true_is_false. intros E. apply route_eqb_eq in E. subst r. apply N2. right. left. reflexivity.
          + split; [right; exact Ha|]. apply negb_true_iff, not_true_is_false. intros E. apply route_eqb_eq in E. subst r.
            apply (added_not_unused d Id NU Ha). }
      destruct (IH (gone ++ [d]) t1 INV1 ND') with (k := k) as (tk & EX & INVk).
      { intros d' Hd'. destruct (H d' (or_intror Hd')) as (A1 & A2 & A3). split; [exact A1|]. split; [exact A2|].
        intros G. apply in_app_or in G. destruct G as [G|[<-|[]]]; [contradiction | contradiction]. }
      exists tk. split; [exact EX|]. rewrite <- app_assoc in INVk. exact INVk.
  Qed.
End Run.

(* ---- the script ---- *)
Lemma in_sel (f : tag -> bool) m r : In r (map snd (filter (fun x : tag * route => f (fst x)) m)) <-> exists t, In (t, r) m /\ f t = true.
Proof.
  rewrite in_map_iff. split.
  - intros ([t r'] & E & H). cbn in E. subst r'. apply filter_In in H. exists t. exact H.
  - intros (t & H & F). exists (t, r). split; [reflexivity | apply filter_In; split; [exact H | exact F]].
Qed.

Lemma nodup_map_filter {A B} (f : A -> B) (g : A -> bool) l : NoDup (map f l) -> NoDup (map f (filter g l)).
Proof.
  induction l as [|x r IH]; intros ND; [constructor|]. cbn [map] in ND. inversion ND as [|? ? NI ND']; subst. cbn [filter].
  destruct (g x); [|apply IH, ND']. cbn [map]. constructor; [|apply IH, ND'].
  intros H. apply NI. apply in_map_iff in H. destruct H as (y & E & Hy). apply filter_In in Hy. rewrite <- E. apply in_map, Hy.
Qed.

Lemma filter_filter {A} (f g : A -> bool) l : (forall x, f x = true -> g x = true) -> filter f (filter g l) = filter f l.
Proof.
  intros H. induction l as [|x l IH]; [reflexivity|]. cbn [filter]. destruct (g x) eqn:G; cbn [filter].
  - rewrite IH. reflexivity.
  - destruct (f x) eqn:F; [rewrite (H x F) in G; discriminate | exact IH].
Qed.

Theorem croutes_conv_stepwise m : NoDup (map dst (listA m)) -> NoDup (map dst (listB m)) ->
  forall k, exists tk, rexec_all (listA m) (firstn k (diff_croutes m)) = Some tk /\
    (forall d, has_dst (listA m) d = true -> has_dst (listB m) d = true -> has_dst tk d = true) /\
    (length (diff_croutes m) <= k -> forall r, In r tk <-> In r (listB m)).
Proof.
  intros NA NB k.
  set (A := listA m). set (dl := drops m). set (alla := adds m).
  set (fA := fun x : tag * route => negb (is_add (fst x))). set (fB := fun x : tag * route => negb (is_drop (fst x))).
  assert (NAm : NoDup (map (fun x : tag * route => dst (snd x)) (filter fA m))) by (unfold listA in NA; rewrite map_map in NA; exact NA).
  assert (NBm : NoDup (map (fun x : tag * route => dst (snd x)) (filter fB m))) by (unfold listB in NB; rewrite map_map in NB; exact NB).
  assert (INA : forall r, In r A <-> In (Keep, r) m \/ In (Drop, r) m).
  { intros r. unfold A, listA. rewrite (in_sel (fun t => negb (is_add t)) m r). split.
    - intros ([| |] & H & F); try discriminate; tauto.
    - intros [H|H]; [exists Keep | exists Drop]; split; auto. }
  assert (INB : forall r, In r (listB m) <-> In (Keep, r) m \/ In (Add, r) m).
  { intros r. unfold listB. rewrite (in_sel (fun t => negb (is_drop t)) m r). split.
    - intros ([| |] & H & F); try discriminate; tauto.
    - intros [H|H]; [exists Keep | exists Add]; split; auto. }
  assert (IND : forall r, In r dl <-> In (Drop, r) m).
  { intros r. unfold dl, drops. rewrite (in_sel is_drop m r). split; [intros ([| |] & H & F); try discriminate; exact H | intros H; exists Drop; auto]. }
  assert (INL : forall r, In r alla <-> In (Add, r) m).
  { intros r. unfold alla, adds. rewrite (in_sel is_add m r). split; [intros ([| |] & H & F); try discriminate; exact H | intros H; exists Add; auto]. }
  assert (NDL : NoDup (map dst alla)).
  { unfold alla, adds. rewrite map_map. rewrite <- (filter_filter (fun x : tag * route => is_add (fst x)) fB m) by (intros [[| |] r]; cbn; congruence).
    apply nodup_map_filter, NBm. }
  assert (NDDd : NoDup (map dst dl)).
  { unfold dl, drops. rewrite map_map. rewrite <- (filter_filter (fun x : tag * route => is_drop (fst x)) fA m) by (intros [[| |] r]; cbn; congruence).
    apply nodup_map_filter, NAm. }
  assert (NDD : NoDup dl) by (apply (NoDup_map_inv dst), NDDd).
  assert (SUB : forall r, In r dl -> In r A) by (intros r H; apply INA; right; apply IND, H).
  assert (KD : forall r, In (Keep, r) m -> ~ In (Drop, r) m).
  { intros r H1 H2. assert (X : (Keep, r) = (Drop, r)); [|discriminate].
    apply (nodup_inj (fun x : tag * route => dst (snd x)) (filter fA m)); [exact NAm | apply filter_In; split; [exact H1 | reflexivity] | apply filter_In; split; [exact H2 | reflexivity] | reflexivity]. }
  assert (G1 : forall c r, In c alla -> In r A -> dst r = dst c -> In r dl).
  { intros c r Hc Hr E. apply INA in Hr. destruct Hr as [Hr|Hr]; [|apply IND, Hr]. exfalso.
    assert (X : (Keep, r) = (Add, c)); [|discriminate].
    apply (nodup_inj (fun x : tag * route => dst (snd x)) (filter fB m)); [exact NBm | apply filter_In; split; [exact Hr | reflexivity] | apply filter_In; split; [apply INL, Hc | reflexivity] | exact E]. }
  assert (INV0 : inv1 A dl A []).
  { intros r. cbn [replaced flat_map In]. tauto. }
  unfold diff_croutes. fold dl alla. rewrite firstn_app.
  (* what holds in every state *)
  assert (COV1 : forall t dk r2, inv1 A dl t dk -> alla = dk ++ r2 -> forall d, has_dst A d = true -> has_dst t d = true).
  { intros t dk r2 INV EA d HA. apply has_dst_spec in HA. destruct HA as (rA & IA & EdA). apply has_dst_spec.
    destruct (in_dec (fun p q => match Bool.bool_dec (route_eqb p q) true with left E => left (proj1 (route_eqb_eq p q) E) | right N => right (fun E => N (proj2 (route_eqb_eq p q) E)) end) rA (replaced dl dk)) as [R|NR].
    - destruct (replaced_in dl dk rA R) as (c & Hc & F). destruct (find_del_some _ _ _ F) as [_ E]. exists c. split; [apply INV; right; exact Hc | congruence].
    - exists rA. split; [apply INV; left; split; assumption | exact EdA]. }
  destruct (Nat.le_gt_cases k (length (add_cmds dl alla))) as [KL|KG].
  - replace (k - length (add_cmds dl alla)) with 0 by lia. cbn [firstn]. rewrite app_nil_r.
    destruct (run_adds A dl alla NA NDL SUB G1 alla [] A eq_refl INV0 k) as (tk & EX & dk & INVk & (r2 & EA) & FULL).
    exists tk. split; [exact EX|]. split; [intros d HA _; apply (COV1 tk dk r2 INVk EA d HA)|].
    intros LEN r. (* the whole script consists of these commands: nothing is left to delete *)
    rewrite app_length in LEN. assert (L0 : length (del_cmds dl (replaced dl alla)) = 0) by lia.
    assert (KF : length alla <= k) by (unfold add_cmds in KL, LEN; rewrite map_length in *; lia).
    rewrite (FULL KF) in INVk. rewrite (INVk r), INB. unfold del_cmds in L0. rewrite map_length in L0. apply length_zero_iff_nil in L0.
    split.
    + intros [[HA NR]|Ha]; [|right; apply INL, Ha]. apply INA in HA. destruct HA as [HK|HD]; [left; exact HK|]. exfalso.
      assert (X : In r (filter (fun d => negb (existsb (route_eqb d) (replaced dl alla))) dl)); [|rewrite L0 in X; destruct X].
      apply filter_In. split; [apply IND, HD|]. apply negb_true_iff, not_true_is_false. intros E. apply existsb_exists in E. destruct E as (x & Hx & Ex). apply route_eqb_eq in Ex. subst x. contradiction.
    + intros [HK|Ha]; [|right; apply INL, Ha]. left. split; [apply INA; left; exact HK|]. intros R. apply (KD r HK). apply IND. apply (used_sub dl alla r R).
  - rewrite firstn_all2 by lia.
    destruct (run_adds A dl alla NA NDL SUB G1 alla [] A eq_refl INV0 (length alla)) as (t1 & EX1 & dk & INV1 & _ & FULL).
    rewrite firstn_all2 in EX1 by (unfold add_cmds; rewrite map_length; lia). rewrite (FULL (le_n _)) in INV1.
    rewrite (rexec_all_app _ _ _ _ EX1).
    set (D := filter (fun d => negb (existsb (route_eqb d) (replaced dl alla))) dl).
    assert (INV2 : inv2 A dl alla t1 []).
    { intros r. rewrite (INV1 r). unfold used. cbn [In]. tauto. }
    assert (HD : forall d, In d D -> In d dl /\ ~ In d (used dl alla) /\ ~ In d []).
    { intros d Hd. unfold D in Hd. apply filter_In in Hd. destruct Hd as [Hd NU]. split; [exact Hd|]. split; [|intros []].
      intros U. apply negb_true_iff, not_true_iff_false in NU. apply NU. apply existsb_exists. exists d. split; [exact U | apply route_eqb_refl]. }
    assert (NDg : NoDup D) by (unfold D; apply NoDup_filter, NDD).
    destruct (run_dels A dl alla NA SUB D [] t1 INV2 NDg HD (k - length (add_cmds dl alla))) as (tk & EXk & INVk).
    unfold del_cmds. fold D. exists tk. split; [exact EXk|]. cbn [List.app] in INVk.
    assert (GD : forall r, In r (firstn (k - length (add_cmds dl alla)) D) -> In r dl /\ ~ In r (used dl alla)).
    { intros r G. assert (In r D) by (clear -G; revert G; generalize (k - length (add_cmds dl alla)); induction D as [|x l IH]; intros [|n] G; cbn [firstn] in G; try (destruct G; fail); destruct G as [G|G]; [left; exact G | right; apply (IH n G)]).
      destruct (HD r H) as (X1 & X2 & _). split; assumption. }
    split.
    + intros d HA HB. apply has_dst_spec in HA. destruct HA as (rA & IA & EdA). apply has_dst_spec in HB. destruct HB as (rB & IB & EdB). apply has_dst_spec.
      apply INB in IB. destruct IB as [HK|Hadd].
      * assert (rB = rA) by (apply (nodup_inj dst A rB rA NA); [apply INA; left; exact HK | exact IA | congruence]). subst rB.
        exists rA. split; [|exact EdA]. apply INVk. left. split; [exact IA|]. split.
        -- intros U. apply (KD rA HK). apply IND, (used_sub dl alla rA U).
        -- intros G. apply (KD rA HK). apply IND, (GD rA G).
      * exists rB. split; [apply INVk; right; apply INL, Hadd | exact EdB].
    + intros LEN r. rewrite app_length in LEN. unfold del_cmds in LEN. fold D in LEN. rewrite map_length in LEN.
      rewrite firstn_all2 in INVk by lia. rewrite (INVk r), INB. split.
      * intros [(HA & NU & NG)|Ha]; [|right; apply INL, Ha]. apply INA in HA. destruct HA as [HK|HDr]; [left; exact HK|]. exfalso. apply NG.
        unfold D. apply filter_In. split; [apply IND, HDr|]. apply negb_true_iff, not_true_is_false. intros E. apply existsb_exists in E. destruct E as (x & Hx & Ex). apply route_eqb_eq in Ex. subst x. contradiction.
      * intros [HK|Ha]; [|right; apply INL, Ha]. left. split; [apply INA; left; exact HK|]. split.
        -- intros U. apply (KD r HK). apply IND, (used_sub dl alla r U).
        -- intros G. unfold D in G. apply filter_In in G. apply (KD r HK). apply IND, G.
Qed.

(* with one VRF in which the target has a route the VRF-aware commands are the ones of the theorem *)
Lemma diff_croutes_vrf_one m : (forall r, In r (drops m) -> vrf_managed m r = true) -> diff_croutes_vrf m = diff_croutes m.
Proof.
  intros H. unfold diff_croutes_vrf, diff_croutes. f_equal. f_equal.
  induction (drops m) as [|d l IH]; [reflexivity|]. cbn [filter]. rewrite (H d (or_introl eq_refl)). f_equal. apply IH. intros r Hr. apply H. right. exact Hr.
Qed.
