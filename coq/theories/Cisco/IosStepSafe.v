(* Cisco/IosStepSafe.v — the numbered script of a move-free IOS change is safe at every
   step: after any number of its commands, every packet on which the old and the new ACL
   agree gets that verdict, for every first-match semantics (any packet type, matcher,
   action, default).  New lines are inserted top-down, old lines deleted bottom-up. *)
From Coq Require Import List Arith Bool Lia NArith Sorted.
From NA Require Import Cisco.IosAcl Cisco.IosAclFresh Cisco.IosAclMoves.
Import ListNotations.

Notation K := (N * (tag * ientry))%type (only parsing).
Definition tg (x : K) : tag := fst (snd x).
Definition en (x : K) : ientry := snd (snd x).

Section Safe.
Variable packet : Type.
Variable matches : ientry -> packet -> bool.
Variable permit : ientry -> bool.
Variable default : bool.

Fixpoint fverdict (l : list ientry) (p : packet) : bool :=
  match l with
  | [] => default
  | e :: r => if matches e p then permit e else fverdict r p
  end.

Definition oldl (S : list K) : list ientry := map en (filter nonadd S).
Definition newl (S : list K) : list ientry := map en (filter nondrop S).
Definition devl (sel : N -> bool) (S : list K) : list ientry := map en (filter (fun x => sel (fst x)) S).

(* while inserting top-down: all old lines are there, and the new lines that are there are the upper ones *)
Lemma inserting_safe S : StronglySorted klt S -> forall sel p,
  (forall x, In x S -> nonadd x = true -> sel (fst x) = true) ->
  (forall x y, In x S -> In y S -> tg x = Add -> tg y = Add -> (fst x < fst y)%N -> sel (fst y) = true -> sel (fst x) = true) ->
  fverdict (oldl S) p = fverdict (newl S) p -> fverdict (devl sel S) p = fverdict (oldl S) p.
Proof.
  induction S as [|x S IH]; intros SS sel p OLD DC E; [reflexivity|].
  apply StronglySorted_inv in SS. destruct SS as [SS FA]. rewrite Forall_forall in FA.
  assert (OLD' : forall y, In y S -> nonadd y = true -> sel (fst y) = true) by (intros y Hy; apply OLD; right; exact Hy).
  assert (DC' : forall a b, In a S -> In b S -> tg a = Add -> tg b = Add -> (fst a < fst b)%N -> sel (fst b) = true -> sel (fst a) = true)
    by (intros a b Ha Hb; apply DC; right; assumption).
  unfold devl, oldl, newl in *. cbn [filter] in *. destruct x as [k [t e]].
  destruct t.
  - rewrite (OLD (k, (Keep, e)) (or_introl eq_refl) eq_refl). unfold nonadd, nondrop in *. cbn [fst snd is_add is_drop negb map en fverdict] in *.
    destruct (matches e p); [reflexivity | apply (IH SS sel p OLD' DC' E)].
  - rewrite (OLD (k, (Drop, e)) (or_introl eq_refl) eq_refl). unfold nonadd, nondrop in *. cbn [fst snd is_add is_drop negb map en fverdict] in *.
    destruct (matches e p); [reflexivity | apply (IH SS sel p OLD' DC' E)].
  - unfold nonadd at 2, nondrop at 1 in E. unfold nonadd at 2. cbn [fst snd is_add is_drop negb map en fverdict] in *.
    destruct (sel k) eqn:SK; cbn [map en snd fverdict].
    + destruct (matches e p); [symmetry; exact E | apply (IH SS sel p OLD' DC' E)].
    + (* no later new line is there either *)
      f_equal. f_equal. apply filter_ext_in. intros y Hy. destruct (nonadd y) eqn:NA; [apply OLD'; assumption|].
      apply not_true_is_false. intros SY. assert (X : sel (fst (k, (Add, e))) = true); [apply (DC (k, (Add, e)) y (or_introl eq_refl) (or_intror Hy) eq_refl); [| |exact SY] | cbn [fst] in X; congruence].
      * unfold nonadd in NA. unfold tg. destruct (fst (snd y)); try discriminate. reflexivity.
      * apply FA in Hy. exact Hy.
Qed.

(* while deleting bottom-up: all new lines are there, and the old lines that are still there are the upper ones *)
Lemma deleting_safe S : StronglySorted klt S -> forall sel p,
  (forall x, In x S -> nondrop x = true -> sel (fst x) = true) ->
  (forall x y, In x S -> In y S -> tg x = Drop -> tg y = Drop -> (fst x < fst y)%N -> sel (fst y) = true -> sel (fst x) = true) ->
  fverdict (oldl S) p = fverdict (newl S) p -> fverdict (devl sel S) p = fverdict (newl S) p.
Proof.
  induction S as [|x S IH]; intros SS sel p NEW DC E; [reflexivity|].
  apply StronglySorted_inv in SS. destruct SS as [SS FA]. rewrite Forall_forall in FA.
  assert (NEW' : forall y, In y S -> nondrop y = true -> sel (fst y) = true) by (intros y Hy; apply NEW; right; exact Hy).
  assert (DC' : forall a b, In a S -> In b S -> tg a = Drop -> tg b = Drop -> (fst a < fst b)%N -> sel (fst b) = true -> sel (fst a) = true)
    by (intros a b Ha Hb; apply DC; right; assumption).
  unfold devl, oldl, newl in *. cbn [filter] in *. destruct x as [k [t e]].
  destruct t.
  - rewrite (NEW (k, (Keep, e)) (or_introl eq_refl) eq_refl). unfold nonadd, nondrop in *. cbn [fst snd is_add is_drop negb map en fverdict] in *.
    destruct (matches e p); [reflexivity | apply (IH SS sel p NEW' DC' E)].
  - unfold nonadd at 1, nondrop at 2 in E. unfold nondrop at 2. cbn [fst snd is_add is_drop negb map en fverdict] in *.
    destruct (sel k) eqn:SK; cbn [map en snd fverdict].
    + destruct (matches e p); [exact E | apply (IH SS sel p NEW' DC' E)].
    + f_equal. f_equal. apply filter_ext_in. intros y Hy. destruct (nondrop y) eqn:NA; [apply NEW'; assumption|].
      apply not_true_is_false. intros SY. assert (X : sel (fst (k, (Drop, e))) = true); [apply (DC (k, (Drop, e)) y (or_introl eq_refl) (or_intror Hy) eq_refl); [| |exact SY] | cbn [fst] in X; congruence].
      * unfold nondrop in NA. unfold tg. destruct (fst (snd y)); try discriminate. reflexivity.
      * apply FA in Hy. exact Hy.
  - rewrite (NEW (k, (Add, e)) (or_introl eq_refl) eq_refl). unfold nonadd, nondrop in *. cbn [fst snd is_add is_drop negb map en fverdict] in *.
    destruct (matches e p); [reflexivity | apply (IH SS sel p NEW' DC' E)].
Qed.
End Safe.

Lemma firstn_In {A} (l : list A) : forall n x, In x (firstn n l) -> In x l.
Proof. induction l as [|a l IH]; intros [|n] x H; cbn [firstn] in H; try (destruct H; fail). destruct H as [H|H]; [left; exact H | right; apply (IH n x H)]. Qed.

Lemma firstn_down {A} (key : A -> N) (L : list A) : StronglySorted (fun a b => (key a < key b)%N) L ->
  forall k x y, In y (firstn k L) -> In x L -> (key x < key y)%N -> In x (firstn k L).
Proof.
  induction L as [|z L IH]; intros SS k x y Hy Hx LT; [destruct Hx|].
  apply StronglySorted_inv in SS. destruct SS as [SS FA]. rewrite Forall_forall in FA.
  destruct k as [|k]; [destruct Hy|]. cbn [firstn] in *. destruct Hx as [Hx|Hx]; [left; exact Hx|].
  destruct Hy as [Hy|Hy]; [subst z; apply FA in Hx; lia|]. right. apply (IH SS k x y Hy Hx LT).
Qed.
Lemma firstn_up (L : list N) : StronglySorted (fun a b => (b < a)%N) L ->
  forall k x y, In x (firstn k L) -> In y L -> (x < y)%N -> In y (firstn k L).
Proof.
  induction L as [|z L IH]; intros SS k x y Hx Hy LT; [destruct Hy|].
  apply StronglySorted_inv in SS. destruct SS as [SS FA]. rewrite Forall_forall in FA.
  destruct k as [|k]; [destruct Hx|]. cbn [firstn] in *. destruct Hy as [Hy|Hy]; [left; exact Hy|].
  destruct Hx as [Hx|Hx]; [subst z; apply FA in Hy; lia|]. right. apply (IH SS k x y Hx Hy LT).
Qed.

Lemma drops_sorted m : forall apos, StronglySorted lt (map fst (drops m apos)) /\ forall p, In p (map fst (drops m apos)) -> apos <= p.
Proof.
  induction m as [|[t e] r IH]; intros apos; [split; [constructor | intros p []]|]. destruct t; cbn [drops].
  - destruct (IH (S apos)) as [A B]. split; [exact A|]. intros p H. apply B in H. lia.
  - destruct (IH (S apos)) as [A B]. cbn [map fst]. split.
    + constructor; [exact A|]. apply Forall_forall. intros p H. apply B in H. lia.
    + intros p [<-|H]; [lia | apply B in H; lia].
  - apply IH.
Qed.

Lemma sorted_rev_map (l : list (nat * ientry)) : StronglySorted lt (map fst l) ->
  StronglySorted (fun a b => (b < a)%N) (map (fun d : nat * ientry => ((N.of_nat (fst d) + 1) * 10000)%N) (rev l)).
Proof.
  induction l as [|d l IH]; intros SS; [constructor|]. cbn [map] in SS. apply StronglySorted_inv in SS. destruct SS as [SS FA]. rewrite Forall_forall in FA.
  cbn [rev]. rewrite map_app. cbn [map].
  assert (G : forall (L : list N) z, StronglySorted (fun a b => (b < a)%N) L -> (forall y, In y L -> (z < y)%N) -> StronglySorted (fun a b => (b < a)%N) (L ++ [z])).
  { induction L as [|w L IHL]; intros z S1 H; [repeat constructor|]. apply StronglySorted_inv in S1. destruct S1 as [S1 F1]. rewrite Forall_forall in F1.
    cbn [List.app]. constructor; [apply IHL; [exact S1 | intros y Hy; apply H; right; exact Hy]|].
    apply Forall_forall. intros y Hy. apply in_app_or in Hy. destruct Hy as [Hy|[<-|[]]]; [apply F1, Hy | apply H; left; reflexivity]. }
  apply G; [apply IH, SS|]. intros y Hy. apply in_map_iff in Hy. destruct Hy as (d' & <- & Hd'). apply in_rev in Hd'.
  assert (fst d < fst d') by (apply FA, in_map, Hd'). lia.
Qed.

Theorem ios_fresh_stepwise m cs : fresh m -> short_runs m 0 -> diff_ios m = Some cs ->
  forall k, exists lk, iexec_all (reseq (listA m)) (firstn k cs) = Some lk /\
    forall (packet : Type) (matches : ientry -> packet -> bool) (permit : ientry -> bool) (default : bool) (p : packet),
      fverdict packet matches permit default (listA m) p = fverdict packet matches permit default (listB m) p ->
      fverdict packet matches permit default (map snd lk) p = fverdict packet matches permit default (listA m) p.
Proof.
  intros FR SR D k. rewrite (diff_ios_fresh m FR SR) in D. injection D as <-.
  set (S := num m 0 0). pose proof (num_sorted m 0 0 ltac:(simpl; lia) SR) as SS. fold S in SS.
  assert (UN : forall x y, In x S -> In y S -> fst x = fst y -> x = y) by (intros x y; apply sorted_unique, SS).
  set (sel0 := in_keys (map fst (filter nonadd S))).
  pose proof (sel0_spec S UN) as SEL0. fold sel0 in SEL0.
  assert (R0 : reseq (listA m) = sel_list sel0 S).
  { unfold reseq, sel_list. rewrite <- (reseq_num m 0 0). fold S. unfold proj.
    f_equal. apply filter_ext_in. intros x Hx. symmetry. apply SEL0, Hx. }
  rewrite R0.
  assert (OLDL : oldl S = listA m) by (unfold oldl, en; apply (listA_num m 0 0)).
  assert (NEWL : newl S = listB m) by (unfold newl, en; apply (listB_num m 0 0)).
  assert (DEV : forall sel, map snd (sel_list sel S) = devl sel S).
  { intros sel. unfold sel_list, devl. rewrite map_map. reflexivity. }
  set (adds := map proj (filter (fun x : K => is_add (fst (snd x))) S)).
  assert (HA : forall k0 e, In (k0, e) adds -> In (k0, (Add, e)) S /\ sel0 k0 = false).
  { intros k0 e H. unfold adds in H. apply in_map_iff in H. destruct H as ([k' [t' e']] & E & H). unfold proj in E. cbn [fst snd] in E. injection E as -> ->.
    apply filter_In in H. destruct H as [H T]. cbn [fst snd] in T. destruct t'; try discriminate. split; [exact H|].
    pose proof (SEL0 _ H) as X. cbn [fst] in X. rewrite X. reflexivity. }
  assert (SA : StronglySorted (fun a b : N * ientry => (fst a < fst b)%N) adds).
  { unfold adds. clear -SS. induction S as [|x S' IH]; [constructor|].
    apply StronglySorted_inv in SS. destruct SS as [SS' FA]. rewrite Forall_forall in FA. cbn [filter].
    destruct (is_add (fst (snd x))); [|apply IH, SS']. cbn [map]. constructor; [apply IH, SS'|].
    apply Forall_forall. intros y Hy. apply in_map_iff in Hy. destruct Hy as (z & <- & Hz). apply filter_In in Hz. destruct Hz as [Hz _].
    apply FA in Hz. unfold klt in Hz. unfold proj. cbn [fst]. exact Hz. }
  assert (NDA : NoDup (map fst adds)).
  { clear -SA. induction adds as [|a l IH]; [constructor|]. apply StronglySorted_inv in SA. destruct SA as [SA FA]. rewrite Forall_forall in FA.
    cbn [map]. constructor; [|apply IH, SA]. intros H. apply in_map_iff in H. destruct H as (b & E & Hb). apply FA in Hb. lia. }
  rewrite (exp_cmds_num m 0 0). fold S. fold adds.
  set (dels := map (fun d : nat * ientry => ((N.of_nat (fst d) + 1) * 10000)%N) (rev (drops m 0))).
  assert (ED : map (fun d : nat * ientry => INo ((N.of_nat (fst d) + 1) * 10000)%N) (rev (drops m 0)) = map INo dels)
    by (unfold dels; rewrite map_map; reflexivity).
  rewrite ED.
  assert (SD : StronglySorted (fun a b => (b < a)%N) dels) by (unfold dels; apply sorted_rev_map; apply (drops_sorted m 0)).
  rewrite firstn_app, !firstn_map, map_length.
  assert (RUN : forall l1 c1 c2 l2, iexec_all l1 c1 = Some l2 -> iexec_all l1 (c1 ++ c2) = iexec_all l2 c2).
  { intros l1 c1. revert l1. induction c1 as [|c r IHc]; intros l1 c2 l2 H; cbn [iexec_all List.app] in *; [injection H as <-; reflexivity|].
    destruct (iexec l1 c); [apply IHc, H | discriminate]. }
  (* the inserts that were sent *)
  set (adds' := firstn k adds).
  assert (SUB : forall a, In a adds' -> In a adds) by (intros a; apply firstn_In).
  assert (HA' : forall k0 e, In (k0, e) adds' -> In (k0, (Add, e)) S /\ sel0 k0 = false) by (intros k0 e H; apply HA, SUB, H).
  assert (NDA' : NoDup (map fst adds')).
  { unfold adds'. clear -NDA. revert k. induction adds as [|a l IH]; intros k; [destruct k; constructor|]. destruct k as [|k]; [constructor|].
    cbn [firstn map] in *. inversion NDA as [|? ? NI ND]; subst. constructor; [|apply IH, ND]. intros H. apply NI. apply in_map_iff in H. destruct H as (b & E & Hb).
    apply in_map_iff. exists b. split; [exact E | apply (firstn_In _ _ _ Hb)]. }
  pose proof (exec_adds m S eq_refl SR FR adds' sel0 HA' NDA') as EA.
  set (selA := fun n => (sel0 n || in_keys (map fst adds') n)%bool) in *.
  set (dels' := firstn (k - length adds) dels).
  destruct (Nat.le_gt_cases k (length adds)) as [KL|KG].
  - (* still inserting *)
    unfold dels'. replace (k - length adds) with 0 by lia. cbn [firstn map]. rewrite app_nil_r.
    eexists. split; [exact EA|]. intros packet matches permit default p E. rewrite DEV, <- OLDL. apply inserting_safe; [exact SS| | |rewrite OLDL, NEWL; exact E].
    + intros x Hx NAx. unfold selA. rewrite (SEL0 x Hx), NAx. reflexivity.
    + intros x y Hx Hy Tx Ty LT SY. unfold selA in *. destruct x as [kx [tx ex]], y as [ky [ty ey]]. unfold tg in Tx, Ty. cbn [fst snd] in *. subst tx ty.
      pose proof (SEL0 _ Hy) as Y0. cbn [fst] in Y0. rewrite Y0 in SY. cbn [nonadd fst snd is_add negb orb] in SY.
      apply existsb_exists in SY. destruct SY as (q & Hq & Eq). apply N.eqb_eq in Eq. subst q. apply in_map_iff in Hq. destruct Hq as ([ky' ey'] & Ek & Hq). cbn [fst] in Ek. subst ky'.
      assert (Ix : In (kx, ex) adds).
      { unfold adds. apply in_map_iff. exists (kx, (Add, ex)). split; [reflexivity|]. apply filter_In. split; [exact Hx | reflexivity]. }
      pose proof (firstn_down (fun a : N * ientry => fst a) adds SA k (kx, ex) (ky, ey') Hq Ix LT) as IN.
      apply orb_true_iff. right. apply existsb_exists. exists kx. split; [apply (in_map fst _ _ IN) | apply N.eqb_refl].
  - (* all inserts are sent, deleting bottom-up *)
    assert (FULL : adds' = adds) by (unfold adds'; apply firstn_all2; lia).
    rewrite (RUN _ _ _ _ EA).
    assert (ALL : forall x, In x S -> selA (fst x) = true).
    { intros x Hx. unfold selA. rewrite (SEL0 _ Hx). destruct (nonadd x) eqn:NA; [reflexivity|]. cbn [orb].
      apply existsb_exists. exists (fst x). split; [|apply N.eqb_refl]. rewrite FULL. unfold adds. rewrite map_map. apply in_map_iff. exists x. split; [reflexivity|].
      apply filter_In. split; [exact Hx|]. unfold nonadd in NA. apply negb_false_iff in NA. exact NA. }
    assert (DIN : forall q, In q dels -> exists p a, q = ((N.of_nat p + 1) * 10000)%N /\ In (q, (Drop, a)) S).
    { intros q H. unfold dels in H. apply in_map_iff in H. destruct H as ([p a] & E & H). cbn [fst] in E. apply in_rev in H.
      exists p, a. split; [auto|]. rewrite <- E. apply (drops_num m 0 0 p a H). }
    assert (HD : forall q, In q dels' -> selA q = true /\ exists te, In (q, te) S).
    { intros q H. apply firstn_In in H. destruct (DIN q H) as (p & a & _ & Ia). split; [apply (ALL _ Ia) | eauto]. }
    assert (NDD : NoDup dels').
    { assert (G : NoDup dels). { clear -SD. induction dels as [|a l IH]; [constructor|]. apply StronglySorted_inv in SD. destruct SD as [SD FA]. rewrite Forall_forall in FA.
        constructor; [|apply IH, SD]. intros H. apply FA in H. lia. }
      unfold dels'. clear -G. revert G. generalize (k - length adds). induction dels as [|a l IH]; intros n G; [destruct n; constructor|]. destruct n as [|n]; [constructor|].
      cbn [firstn]. inversion G as [|? ? NI ND]; subst. constructor; [|apply IH, ND]. intros H. apply NI, (firstn_In _ _ _ H). }
    rewrite (exec_dels S SS dels' selA HD NDD).
    eexists. split; [reflexivity|]. intros packet matches permit default p E. rewrite DEV. rewrite E, <- NEWL. apply deleting_safe; [exact SS| | |rewrite OLDL, NEWL; exact E].
    + intros x Hx ND. rewrite (ALL x Hx). cbn [andb]. apply negb_true_iff. apply not_true_is_false. intros H. apply existsb_exists in H. destruct H as (q & Hq & Eq).
      apply N.eqb_eq in Eq. subst q. apply firstn_In in Hq. destruct (DIN _ Hq) as (p0 & a & _ & Ia).
      assert (X : x = (fst x, (Drop, a))) by (apply UN; auto). rewrite X in ND. discriminate.
    + intros x y Hx Hy Tx Ty LT SY. rewrite (ALL x Hx). cbn [andb]. apply negb_true_iff. apply not_true_is_false. intros H.
      apply existsb_exists in H. destruct H as (q & Hq & Eq). apply N.eqb_eq in Eq. subst q.
      (* y is deleted later than x, so it is among the deleted ones too *)
      assert (Iy : In (fst y) dels).
      { destruct y as [ky [ty ey]]. unfold tg in Ty. cbn [fst snd] in *. subst ty. destruct (drops_num_inv m 0 0 ky ey Hy) as (p0 & Ip & ->).
        unfold dels. apply in_map_iff. exists (p0, ey). split; [reflexivity | apply -> in_rev; exact Ip]. }
      pose proof (firstn_up dels SD (k - length adds) (fst x) (fst y) Hq Iy LT) as IN.
      rewrite (ALL y Hy) in SY. cbn [andb] in SY. apply negb_true_iff in SY. apply not_true_iff_false in SY. apply SY.
      apply existsb_exists. exists (fst y). split; [exact IN | apply N.eqb_refl].
Qed.
