(* Cisco/IosAclEquiv.v — the ACL that diff_ios leaves on the device filters like
   the target.  "Filters like": after dropping remark lines and log attributes the
   two lists of rules differ only by exchanging neighbours that have the same
   action (sw_equiv); such lists give every packet the same verdict under every
   first-match semantics (sw_equiv_verdict).
   Part 1 (this file): moving one line across lines of its own action, and the
   induction over all lines whose move was suppressed. *)
From Coq Require Import List Arith Bool Lia NArith Sorted.
From NA Require Import Cisco.IosAcl Cisco.IosAclFresh Cisco.IosAclMoves.
Import ListNotations.

Definition rules (l : list ientry) : list ientry := map strip (filter is_rule l).

Inductive sw_equiv : list ientry -> list ientry -> Prop :=
| sw_refl l : sw_equiv l l
| sw_swap l1 x y l2 : i_act x = i_act y -> sw_equiv (l1 ++ x :: y :: l2) (l1 ++ y :: x :: l2)
| sw_trans a b c : sw_equiv a b -> sw_equiv b c -> sw_equiv a c.

Lemma sw_sym a b : sw_equiv a b -> sw_equiv b a.
Proof.
  induction 1 as [l|l1 x y l2 E|a b c _ IH1 _ IH2]; [apply sw_refl | apply sw_swap; symmetry; exact E | eapply sw_trans; eauto].
Qed.
Lemma sw_cons x a b : sw_equiv a b -> sw_equiv (x :: a) (x :: b).
Proof.
  induction 1 as [l|l1 y z l2 E|a b c _ IH1 _ IH2]; [apply sw_refl | apply (sw_swap (x :: l1) y z l2 E) | eapply sw_trans; eauto].
Qed.
Lemma sw_app_l p a b : sw_equiv a b -> sw_equiv (p ++ a) (p ++ b).
Proof. induction p as [|x p IH]; intros H; [exact H | apply sw_cons, IH, H]. Qed.

(* ---- the meaning: first-match verdict under any matcher ---- *)
Section Verdict.
  Variable matches : ientry -> bool.       (* does the line match the packet at hand *)
  Fixpoint fm_verdict (l : list ientry) : option nat :=
    match l with
    | [] => None
    | e :: r => if matches e then Some (i_act e) else fm_verdict r
    end.
  Lemma fm_app l1 l2 : fm_verdict (l1 ++ l2) = match fm_verdict l1 with Some v => Some v | None => fm_verdict l2 end.
  Proof. induction l1 as [|e r IH]; [reflexivity|]. cbn [List.app fm_verdict]. destruct (matches e); [reflexivity | exact IH]. Qed.
  Theorem sw_equiv_verdict a b : sw_equiv a b -> fm_verdict a = fm_verdict b.
  Proof.
    induction 1 as [l|l1 x y l2 E|a b c _ IH1 _ IH2]; [reflexivity | | congruence].
    rewrite !fm_app. destruct (fm_verdict l1); [reflexivity|]. cbn [fm_verdict].
    destruct (matches x), (matches y); congruence.
  Qed.
End Verdict.

(* ---- selections of the numbered script, as lists of rules ---- *)
Notation K := (N * (tag * ientry))%type (only parsing).
Definition R (sel : N -> bool) (S : list K) : list ientry := rules (map ent (filter (fun x => sel (fst x)) S)).

Lemma R_cons sel x S : R sel (x :: S) = (if sel (fst x) && is_rule (ent x) then [strip (ent x)] else []) ++ R sel S.
Proof.
  unfold R, rules. cbn [filter]. destruct (sel (fst x)); cbn [andb map filter]; [|reflexivity].
  destruct (is_rule (ent x)); reflexivity.
Qed.

Lemma R_ext sel sel' S : (forall x, In x S -> is_rule (ent x) = true -> sel (fst x) = sel' (fst x)) -> R sel S = R sel' S.
Proof.
  induction S as [|x S IH]; intros H; [reflexivity|]. rewrite !R_cons. rewrite IH by (intros y Hy; apply H; right; exact Hy).
  destruct (is_rule (ent x)) eqn:E; [rewrite (H x (or_introl eq_refl) E); reflexivity | rewrite !andb_false_r; reflexivity].
Qed.

Lemma act_strip e : i_act (strip e) = i_act e.
Proof. reflexivity. Qed.

(* e, selected at key hi in sel, stands in front instead: all selected rules in front of hi have its action *)
Lemma push_down S : StronglySorted klt S -> forall sel sel' hi xe,
  In (hi, xe) S -> is_rule (snd xe) = true -> sel hi = true -> sel' hi = false ->
  (forall x, In x S -> fst x <> hi -> sel (fst x) = sel' (fst x)) ->
  (forall x, In x S -> (fst x < hi)%N -> is_rule (ent x) = true -> i_act (ent x) = i_act (snd xe)) ->
  sw_equiv (R sel S) (strip (snd xe) :: R sel' S).
Proof.
  induction S as [|y S IH]; intros SS sel sel' hi xe I RU Hs Hs' AG BT; [destruct I|].
  apply StronglySorted_inv in SS. destruct SS as [SS FA]. rewrite Forall_forall in FA.
  rewrite !R_cons. destruct (N.eq_dec (fst y) hi) as [E|NE].
  - (* y is the line itself; behind it the selections agree *)
    assert (y = (hi, xe)).
    { destruct I as [I|I]; [exact I|]. apply FA in I. unfold klt in I. cbn [fst] in I. lia. }
    subst y. cbn [fst]. change (ent (hi, xe)) with (snd xe). rewrite Hs, Hs', RU. cbn [andb List.app].
    rewrite (R_ext sel sel' S); [apply sw_refl|].
    intros x Hx _. apply AG; [right; exact Hx|]. apply FA in Hx. unfold klt in Hx. cbn [fst] in Hx. lia.
  - assert (I' : In (hi, xe) S) by (destruct I as [I|I]; [subst y; cbn [fst] in NE; congruence | exact I]).
    assert (LT : (fst y < hi)%N) by (apply FA in I'; exact I').
    rewrite <- (AG y (or_introl eq_refl) NE).
    specialize (IH SS sel sel' hi xe I' RU Hs Hs' (fun x Hx => AG x (or_intror Hx)) (fun x Hx => BT x (or_intror Hx))).
    destruct (sel (fst y) && is_rule (ent y)) eqn:C; cbn [List.app]; [|exact IH].
    apply andb_true_iff in C. destruct C as [_ RY].
    eapply sw_trans; [apply sw_cons, IH|].
    apply (sw_swap [] (strip (ent y)) (strip (snd xe)) (R sel' S)).
    rewrite !act_strip. apply BT; [left; reflexivity | exact LT | exact RY].
Qed.

(* one line changes its place: selected at lo in one selection, at hi in the other *)
Lemma move_line S : StronglySorted klt S -> forall sel sel' lo hi xlo xhi,
  In (lo, xlo) S -> In (hi, xhi) S -> (lo < hi)%N -> strip (snd xlo) = strip (snd xhi) ->
  ((sel lo = true /\ sel hi = false /\ sel' lo = false /\ sel' hi = true) \/
   (sel lo = false /\ sel hi = true /\ sel' lo = true /\ sel' hi = false)) ->
  (forall x, In x S -> fst x <> lo -> fst x <> hi -> sel (fst x) = sel' (fst x)) ->
  (is_rule (snd xhi) = true -> forall x, In x S -> (lo < fst x)%N -> (fst x < hi)%N -> is_rule (ent x) = true -> i_act (ent x) = i_act (snd xhi)) ->
  sw_equiv (R sel S) (R sel' S).
Proof.
  intros SS sel sel' lo hi xlo xhi Ilo Ihi LT ST CASES AG BT0.
  destruct (is_rule (snd xhi)) eqn:RU; [pose proof (BT0 eq_refl) as BT; clear BT0|].
  2:{ (* a remark: not among the rules at all *)
    rewrite (R_ext sel sel' S); [apply sw_refl|]. intros x Hx Rx.
    destruct (N.eq_dec (fst x) lo) as [E|NL].
    - exfalso. assert (x = (lo, xlo)) by (apply (sorted_unique S _ _ SS Hx Ilo); exact E). subst x.
      unfold ent in Rx. cbn [snd] in Rx. unfold is_rule in *. rewrite <- (act_strip (snd xlo)), ST, act_strip in Rx. congruence.
    - destruct (N.eq_dec (fst x) hi) as [E|NH]; [|apply AG; assumption].
      exfalso. assert (x = (hi, xhi)) by (apply (sorted_unique S _ _ SS Hx Ihi); exact E). subst x. unfold ent in Rx. cbn [snd] in Rx. congruence. }
  assert (RL : is_rule (snd xlo) = true).
  { unfold is_rule in *. rewrite <- (act_strip (snd xlo)), ST, act_strip. exact RU. }
  revert SS Ilo Ihi AG BT. induction S as [|y S IH]; intros SS Ilo Ihi AG BT; [destruct Ilo|].
  apply StronglySorted_inv in SS. destruct SS as [SS FA]. rewrite Forall_forall in FA.
  rewrite !R_cons. destruct (N.eq_dec (fst y) lo) as [E|NE].
  - assert (y = (lo, xlo)).
    { destruct Ilo as [I|I]; [exact I|]. apply FA in I. unfold klt in I. cbn [fst] in I. lia. }
    subst y. cbn [fst]. change (ent (lo, xlo)) with (snd xlo). rewrite RL.
    assert (Ihi' : In (hi, xhi) S) by (destruct Ihi as [I|I]; [injection I as I _; lia | exact I]).
    assert (AG' : forall x, In x S -> fst x <> hi -> sel (fst x) = sel' (fst x)).
    { intros x Hx NH. apply AG; [right; exact Hx| |exact NH]. apply FA in Hx. unfold klt in Hx. cbn [fst] in Hx. lia. }
    assert (AG'' : forall x, In x S -> fst x <> hi -> sel' (fst x) = sel (fst x)) by (intros x Hx NH; symmetry; apply AG'; assumption).
    assert (BT' : forall x, In x S -> (fst x < hi)%N -> is_rule (ent x) = true -> i_act (ent x) = i_act (snd xhi)).
    { intros x Hx L Rx. apply BT; [right; exact Hx| |exact L|exact Rx]. apply FA in Hx. exact Hx. }
    destruct CASES as [(A1 & A2 & A3 & A4)|(A1 & A2 & A3 & A4)]; rewrite A1, A3; cbn [andb List.app].
    + rewrite ST. apply sw_sym. apply (push_down S SS sel' sel hi xhi Ihi' RU A4 A2 AG'' BT').
    + rewrite ST. apply (push_down S SS sel sel' hi xhi Ihi' RU A2 A4 AG' BT').
  - assert (Ilo' : In (lo, xlo) S) by (destruct Ilo as [I|I]; [subst y; cbn [fst] in NE; congruence | exact I]).
    assert (L1 : (fst y < lo)%N) by (apply FA in Ilo'; exact Ilo').
    assert (Ihi' : In (hi, xhi) S) by (destruct Ihi as [I|I]; [subst y; cbn [fst] in L1; lia | exact I]).
    rewrite <- (AG y (or_introl eq_refl) NE ltac:(lia)).
    apply sw_app_l. apply (IH SS Ilo' Ihi'); [intros x Hx; apply AG; right; exact Hx | intros x Hx; apply BT; right; exact Hx].
Qed.

(* ---- all lines whose move was suppressed, one after the other ---- *)
Fixpoint stay_sel (sel : N -> bool) (sl : list (N * ientry)) (ds : list dec) : N -> bool :=
  match sl, ds with
  | (k, _) :: sr, DStay p :: dr => stay_sel (fun n => (sel n && negb (N.eqb n k)) || N.eqb n (dkey p))%bool sr dr
  | _ :: sr, _ :: dr => stay_sel sel sr dr
  | _, _ => sel
  end.

Definition stay_srcs (ds : list dec) : list N := flat_map (fun d => match d with DStay p => [dkey p] | _ => [] end) ds.
Definition stay_slots (sl : list (N * ientry)) (ds : list dec) : list N :=
  flat_map (fun sd => match snd sd with DStay _ => [fst (fst sd)] | _ => [] end) (combine sl ds).

(* all rules between the old and the new place of a line have its action *)
Definition between_ok (S : list K) (k : N) (p : nat) (b : ientry) : Prop :=
  forall x, In x S -> (N.min k (dkey p) < fst x)%N -> (fst x < N.max k (dkey p))%N -> is_rule (ent x) = true -> i_act (ent x) = i_act b.
Definition stay_ok (S : list K) (k : N) (b : ientry) (d : dec) : Prop :=
  match d with
  | DStay p => exists a, In (dkey p, (Drop, a)) S /\ strip a = strip b /\ (is_rule b = true -> between_ok S k p b)
  | _ => True
  end.

Lemma stays_equiv S : StronglySorted klt S -> forall sl ds sel,
  length sl = length ds ->
  (forall k b, In (k, b) sl -> In (k, (Add, b)) S /\ sel k = true) ->
  NoDup (map fst sl) ->
  (forall n, In n (stay_srcs ds) -> sel n = false) -> NoDup (stay_srcs ds) ->
  Forall2 (fun s d => stay_ok S (fst s) (snd s) d) sl ds ->
  sw_equiv (R sel S) (R (stay_sel sel sl ds) S).
Proof.
  intros SS. induction sl as [|[k b] sr IH]; intros ds sel L HI ND SRC NDS F; [apply sw_refl|].
  destruct ds as [|d dr]; [discriminate|]. cbn [length] in L. injection L as L.
  inversion F as [|? ? ? ? F1 F2]; subst. cbn [fst snd] in F1.
  cbn [map fst] in ND. inversion ND as [|? ? NI ND']; subst.
  destruct (HI k b (or_introl eq_refl)) as [Ik Hk].
  assert (HI' : forall k2 b2, In (k2, b2) sr -> In (k2, (Add, b2)) S /\ sel k2 = true /\ k2 <> k).
  { intros k2 b2 H. destruct (HI k2 b2 (or_intror H)) as [A B]. split; [exact A|]. split; [exact B|].
    intros ->. apply NI. apply in_map_iff. exists (k, b2). split; [reflexivity | exact H]. }
  destruct d as [|p|p]; cbn [stay_sel].
  - apply IH; auto. intros k2 b2 H. destruct (HI' k2 b2 H) as (A & B & _). auto.
  - apply IH; auto. intros k2 b2 H. destruct (HI' k2 b2 H) as (A & B & _). auto.
  - destruct F1 as (a & Ia & ST & BT).
    cbn [stay_srcs flat_map List.app] in SRC, NDS. fold (stay_srcs dr) in SRC, NDS. inversion NDS as [|? ? NIp NDS']; subst.
    assert (Hp : sel (dkey p) = false) by (apply SRC; left; reflexivity).
    assert (NEQ : k <> dkey p).
    { intros E. rewrite <- E in Ia. assert (X : (k, (Add, b)) = (k, (Drop, a))) by (apply (sorted_unique S _ _ SS Ik Ia); reflexivity). discriminate. }
    set (sel' := fun n => ((sel n && negb (N.eqb n k)) || N.eqb n (dkey p))%bool).
    assert (S1 : sel' k = false).
    { unfold sel'. rewrite N.eqb_refl. cbn [negb]. rewrite andb_false_r. cbn [orb]. apply N.eqb_neq. exact NEQ. }
    assert (S2 : sel' (dkey p) = true) by (unfold sel'; rewrite N.eqb_refl; apply orb_true_r).
    assert (AG : forall x, In x S -> fst x <> k -> fst x <> dkey p -> sel (fst x) = sel' (fst x)).
    { intros x _ N1 N2. unfold sel'. replace (fst x =? k)%N with false by (symmetry; apply N.eqb_neq; exact N1).
      replace (fst x =? dkey p)%N with false by (symmetry; apply N.eqb_neq; exact N2). cbn [negb]. rewrite andb_true_r, orb_false_r. reflexivity. }
    assert (ACT : i_act a = i_act b) by (rewrite <- (act_strip a), ST; reflexivity).
    eapply sw_trans.
    + destruct (N.lt_total k (dkey p)) as [LT|[E|GT]]; [| contradiction |].
      * apply (move_line S SS sel sel' k (dkey p) (Add, b) (Drop, a) Ik Ia LT); cbn [snd].
        -- symmetry. exact ST.
        -- left. auto.
        -- intros x Hx N1 N2. apply AG; assumption.
        -- intros RA x Hx L1 L2 Rx. rewrite ACT. assert (RBb : is_rule b = true) by (unfold is_rule in *; rewrite <- ACT; exact RA).
           apply (BT RBb x Hx); [rewrite N.min_l by lia; exact L1 | rewrite N.max_r by lia; exact L2 | exact Rx].
      * apply (move_line S SS sel sel' (dkey p) k (Drop, a) (Add, b) Ia Ik GT); cbn [snd].
        -- exact ST.
        -- right. auto.
        -- intros x Hx N1 N2. apply AG; assumption.
        -- intros RBb x Hx L1 L2 Rx. apply (BT RBb x Hx); [rewrite N.min_r by lia; exact L1 | rewrite N.max_l by lia; exact L2 | exact Rx].
    + apply IH; [exact L| |exact ND'| |exact NDS'|exact F2].
      * intros k2 b2 H. destruct (HI' k2 b2 H) as (A & B & C). split; [exact A|]. unfold sel'. rewrite B.
        replace (k2 =? k)%N with false by (symmetry; apply N.eqb_neq; exact C). reflexivity.
      * intros n Hn. unfold sel'. rewrite (SRC n (or_intror Hn)). cbn [andb orb]. apply N.eqb_neq. intros ->. contradiction.
Qed.

(* closed form of the selection after all suppressed moves *)
Lemma stay_sel_spec : forall sl ds sel n, length sl = length ds ->
  (forall q, In q (stay_srcs ds) -> ~ In q (map fst sl)) ->
  stay_sel sel sl ds n = ((sel n && negb (in_keys (stay_slots sl ds) n)) || in_keys (stay_srcs ds) n)%bool.
Proof.
  induction sl as [|[k b] sr IH]; intros ds sel n L DJ.
  - destruct ds; [|discriminate]. cbn [stay_sel stay_slots stay_srcs combine flat_map in_keys existsb negb]. rewrite andb_true_r, orb_false_r. reflexivity.
  - destruct ds as [|d dr]; [discriminate|]. cbn [length] in L. injection L as L.
    assert (DJ' : forall q, In q (stay_srcs dr) -> ~ In q (map fst sr)).
    { intros q Hq H. apply (DJ q); [unfold stay_srcs; cbn [flat_map]; apply in_or_app; right; exact Hq | right; exact H]. }
    unfold stay_slots, stay_srcs. cbn [stay_sel combine flat_map fst snd]. fold (stay_srcs dr). fold (stay_slots sr dr).
    destruct d as [|p|p]; cbn [List.app]; try (apply IH; assumption).
    rewrite IH by assumption. cbn [in_keys existsb]. fold (in_keys (stay_slots sr dr) n). fold (in_keys (stay_srcs dr) n).
    destruct (n =? dkey p)%N eqn:E.
    + (* the source of this line is no later slot *)
      apply N.eqb_eq in E. subst n.
      assert (X : in_keys (stay_slots sr dr) (dkey p) = false).
      { apply not_true_is_false. intros H. apply existsb_exists in H. destruct H as (q & Hq & E). apply N.eqb_eq in E. subst q.
        apply (DJ (dkey p)); [unfold stay_srcs; cbn [flat_map]; left; reflexivity|]. right.
        clear -Hq. revert dr Hq. induction sr as [|[k2 b2] sr IHs]; intros [|d2 dr] Hq; try (destruct Hq; fail).
        unfold stay_slots in Hq. cbn [combine flat_map fst snd] in Hq. apply in_app_or in Hq. destruct Hq as [Hq|Hq].
        - destruct d2; try (destruct Hq; fail). destruct Hq as [<-|[]]. left. reflexivity.
        - right. apply (IHs dr). exact Hq. }
      rewrite X. cbn [negb]. rewrite !andb_true_r, !orb_true_r. cbn [orb]. reflexivity.
    + rewrite orb_false_r. cbn [orb]. rewrite (N.eqb_sym n k). destruct (sel n), (k =? n)%N, (in_keys (stay_slots sr dr) n), (in_keys (stay_srcs dr) n); reflexivity.
Qed.

(* a slot is either added or stays *)
Lemma added_or_stays : forall sl ds k, length sl = length ds -> NoDup (map fst sl) -> In k (map fst sl) ->
  in_keys (added_keys sl ds) k = negb (in_keys (stay_slots sl ds) k).
Proof.
  induction sl as [|[k0 b0] sr IH]; intros ds k L ND I; [destruct I|].
  destruct ds as [|d dr]; [discriminate|]. cbn [length] in L. injection L as L.
  cbn [map fst] in ND. inversion ND as [|? ? NI ND']; subst.
  unfold added_keys, stay_slots. cbn [combine flat_map fst snd]. fold (added_keys sr dr). fold (stay_slots sr dr).
  unfold in_keys. rewrite !existsb_app. fold (in_keys (added_keys sr dr) k). fold (in_keys (stay_slots sr dr) k).
  destruct (N.eq_dec k k0) as [->|NE].
  - assert (A : in_keys (added_keys sr dr) k0 = false).
    { apply not_true_is_false. intros H. destruct (added_keys_in _ _ _ H) as [b Hb]. apply NI. apply in_map_iff. exists (k0, b). split; [reflexivity | exact Hb]. }
    assert (B : in_keys (stay_slots sr dr) k0 = false).
    { apply not_true_is_false. intros H. apply existsb_exists in H. destruct H as (q & Hq & E). apply N.eqb_eq in E. subst q. apply NI.
      clear -Hq. revert dr Hq. induction sr as [|[k2 b2] sr IHs]; intros [|d2 dr] Hq; try (destruct Hq; fail).
      unfold stay_slots in Hq. cbn [combine flat_map fst snd] in Hq. apply in_app_or in Hq. destruct Hq as [Hq|Hq].
      - destruct d2; try (destruct Hq; fail). destruct Hq as [<-|[]]. left. reflexivity.
      - right. apply (IHs dr). exact Hq. }
    rewrite A, B. destruct d; cbn [existsb]; rewrite ?N.eqb_refl; reflexivity.
  - assert (I' : In k (map fst sr)) by (destruct I as [I|I]; [cbn [fst] in I; congruence | exact I]).
    rewrite (IH dr k L ND' I'). replace (existsb (N.eqb k) (match d with DStay _ => [] | _ => [k0] end)) with false
      by (destruct d; cbn [existsb]; rewrite ?orb_false_r; try reflexivity; symmetry; apply N.eqb_neq; exact NE).
    replace (existsb (N.eqb k) (match d with DStay _ => [k0] | _ => [] end)) with false
      by (destruct d; cbn [existsb]; rewrite ?orb_false_r; try reflexivity; symmetry; apply N.eqb_neq; exact NE).
    reflexivity.
Qed.

Lemma used_is_stay_or_moved ds n :
  in_keys (map dkey (flat_map used_of ds)) n = (in_keys (stay_srcs ds) n || in_keys (moved_keys ds) n)%bool.
Proof.
  induction ds as [|d dr IH]; [reflexivity|]. unfold stay_srcs, moved_keys. cbn [flat_map]. fold (stay_srcs dr). fold (moved_keys dr).
  rewrite map_app. unfold in_keys in *. rewrite !existsb_app. rewrite IH.
  destruct d as [|p|p]; cbn [used_of map existsb]; rewrite ?orb_false_r.
  - reflexivity.
  - destruct (n =? dkey p)%N, (existsb (N.eqb n) (stay_srcs dr)), (existsb (N.eqb n) (moved_keys dr)); reflexivity.
  - destruct (n =? dkey p)%N, (existsb (N.eqb n) (stay_srcs dr)), (existsb (N.eqb n) (moved_keys dr)); reflexivity.
Qed.

Lemma stay_slots_in : forall (sl : list (N * ientry)) ds k, In k (stay_slots sl ds) -> In k (map fst sl).
Proof.
  induction sl as [|[k2 b2] sr IHs]; intros [|d2 dr] k Hq; try (destruct Hq; fail).
  unfold stay_slots in Hq. cbn [combine flat_map fst snd] in Hq. apply in_app_or in Hq. destruct Hq as [Hq|Hq].
  - destruct d2; try (destruct Hq; fail). destruct Hq as [<-|[]]. left. reflexivity.
  - right. apply (IHs dr). exact Hq.
Qed.

(* ---- facts about the numbered script and the decisions of diff_ios ---- *)
Definition src_ok (S : list K) (b : ientry) (d : dec) : Prop :=
  match d with
  | DNew => True
  | DMove p | DStay p => exists a, In (dkey p, (Drop, a)) S /\ same_line a b = true
  end.
Definition srcs (ds : list dec) : list N := flat_map (fun d => match d with DNew => [] | DMove p => [dkey p] | DStay p => [dkey p] end) ds.

Lemma script_facts m : nodupA m -> nodupB m -> short_runs m 0 ->
  let S := num m 0 0 in let sl := add_slots m in let ds := diff_decs m in
  StronglySorted klt S /\ length sl = length ds /\
  (forall k b, In (k, b) sl -> In (k, (Add, b)) S) /\ NoDup (map fst sl) /\
  (forall k b k' b', In (k, b) sl -> In (k', b') sl -> same_line b b' = true -> k = k') /\
  Forall2 (fun s d => src_ok S (snd s) d) sl ds.
Proof.
  intros NA NB SR S sl ds.
  pose proof (num_sorted m 0 0 ltac:(simpl; lia) SR) as SS. fold S in SS.
  assert (NBS : NoDup (map (fun x : K => line_of (ent x)) (filter nondrop S))).
  { unfold nodupB in NB. rewrite <- (listB_num m 0 0) in NB. fold S in NB. rewrite map_map in NB. exact NB. }
  assert (HI : forall k b, In (k, b) sl -> In (k, (Add, b)) S).
  { intros k e H. unfold sl, add_slots in H. apply in_map_iff in H. destruct H as ([k' [t' e']] & E & H). unfold proj in E. cbn [fst snd] in E. injection E as -> ->.
    apply filter_In in H. destruct H as [H T]. cbn [fst snd] in T. destruct t'; try discriminate. exact H. }
  assert (ND : NoDup (map fst sl)).
  { unfold sl, add_slots. rewrite map_map. fold S. clear -SS. induction S as [|x S' IH]; [constructor|].
    apply StronglySorted_inv in SS. destruct SS as [SS' FA]. rewrite Forall_forall in FA. cbn [filter].
    destruct (is_add (fst (snd x))); [|apply IH, SS']. cbn [map]. constructor; [|apply IH, SS'].
    intros H. apply in_map_iff in H. destruct H as (y & E & Hy). apply filter_In in Hy. destruct Hy as [Hy _].
    apply FA in Hy. unfold klt in Hy. unfold proj in E. cbn [fst] in E. lia. }
  assert (INB : forall k b, In (k, b) sl -> In (k, (Add, b)) (filter nondrop S)).
  { intros k b H. apply filter_In. split; [apply HI, H | reflexivity]. }
  assert (LD : forall k b k' b', In (k, b) sl -> In (k', b') sl -> same_line b b' = true -> k = k').
  { intros k b k' b' H H' SL. apply same_line_iff in SL.
    assert (X : (k, (Add, b)) = (k', (Add, b'))) by (apply (nodup_inj _ _ _ _ NBS (INB _ _ H) (INB _ _ H')); exact SL).
    congruence. }
  assert (LEN : length sl = length ds).
  { unfold sl, ds, diff_decs. rewrite <- all_slots_num. apply all_lengths. }
  split; [exact SS|]. split; [exact LEN|]. split; [exact HI|]. split; [exact ND|]. split; [exact LD|].
  pose proof (all_decs_ok (diff_blk m) (drops m 0) (runs m 0 [])) as OK. rewrite all_slots_num in OK. fold sl in OK. fold (diff_decs m) in OK. fold ds in OK.
  apply (forall2_impl_in _ _ _ _ OK). intros [k b] d H DO. cbn [fst snd] in *.
  destruct d as [|p|p]; cbn [src_ok dec_ok] in *; [exact I| |];
    (destruct DO as [a DO]; unfold find_del in DO; apply find_some in DO; destruct DO as [Ip SLa]; cbn [snd] in SLa;
     apply in_rev in Ip; pose proof (drops_num m 0 0 p a Ip) as Ia; fold S in Ia; exists a; split; [exact Ia | exact SLa]).
Qed.

Lemma srcs_slot (S : list K) (sl : list (N * ientry)) ds : Forall2 (fun s d => src_ok S (snd s) d) sl ds ->
  forall q, In q (srcs ds) -> exists k b a, In (k, b) sl /\ In (q, (Drop, a)) S /\ same_line a b = true.
Proof.
  induction 1 as [|[k b] d sl ds H1 H2 IH]; intros q Hq; [destruct Hq|].
  unfold srcs in Hq. cbn [flat_map] in Hq. apply in_app_or in Hq. destruct Hq as [Hq|Hq].
  - cbn [snd] in H1. destruct d as [|p|p]; [destruct Hq | |]; (destruct Hq as [<-|[]]; destruct H1 as (a & Ia & SL); exists k, b, a; split; [left; reflexivity | split; assumption]).
  - destruct (IH q Hq) as (k2 & b2 & a2 & I2 & X). exists k2, b2, a2. split; [right; exact I2 | exact X].
Qed.

Lemma srcs_nodup (S : list K) (sl : list (N * ientry)) ds : StronglySorted klt S ->
  NoDup (map fst sl) ->
  (forall k b k' b', In (k, b) sl -> In (k', b') sl -> same_line b b' = true -> k = k') ->
  Forall2 (fun s d => src_ok S (snd s) d) sl ds -> NoDup (srcs ds).
Proof.
  intros SS ND LD F. induction F as [|[k b] d sl ds H1 H2 IH]; [constructor|].
  cbn [map fst] in ND. inversion ND as [|? ? NI ND']; subst.
  assert (IHn : NoDup (srcs ds)).
  { apply IH; [exact ND'|]. intros k1 b1 k2 b2 I1 I2. apply (LD k1 b1 k2 b2 (or_intror I1) (or_intror I2)). }
  unfold srcs. cbn [flat_map]. fold (srcs ds). cbn [snd] in H1.
  assert (G : forall p, (exists a, In (dkey p, (Drop, a)) S /\ same_line a b = true) -> NoDup (dkey p :: srcs ds)).
  { intros p (a & Ia & SL). constructor; [|exact IHn]. intros Hq.
    destruct (srcs_slot S sl ds H2 _ Hq) as (k2 & b2 & a2 & I2 & Ia2 & SL2).
    assert (X : (dkey p, (Drop, a2)) = (dkey p, (Drop, a))) by (apply (sorted_unique S _ _ SS Ia2 Ia); reflexivity). injection X as ->.
    rewrite same_line_sym in SL. pose proof (same_line_trans _ _ _ SL SL2) as Y.
    assert (k = k2) by (apply (LD k b k2 b2 (or_introl eq_refl) (or_intror I2) Y)). subst k2.
    apply NI. apply in_map_iff. exists (k, b2). split; [reflexivity | exact I2]. }
  destruct d as [|p|p]; cbn [List.app]; [exact IHn | apply G, H1 | apply G, H1].
Qed.

Lemma srcs_split ds : NoDup (srcs ds) ->
  NoDup (stay_srcs ds) /\ forall n, In n (stay_srcs ds) -> ~ In n (moved_keys ds).
Proof.
  induction ds as [|d dr IH]; intros ND; [split; [constructor | intros n []]|].
  unfold srcs in ND. cbn [flat_map] in ND. fold (srcs dr) in ND.
  assert (SUB1 : forall n, In n (stay_srcs dr) -> In n (srcs dr)).
  { clear. induction dr as [|d dr IH]; intros n H; [destruct H|]. unfold stay_srcs in H. unfold srcs. cbn [flat_map] in *. apply in_or_app. apply in_app_or in H.
    destruct H as [H|H]; [left; destruct d; try (destruct H; fail); exact H | right; apply IH, H]. }
  assert (SUB2 : forall n, In n (moved_keys dr) -> In n (srcs dr)).
  { clear. induction dr as [|d dr IH]; intros n H; [destruct H|]. unfold moved_keys in H. unfold srcs. cbn [flat_map] in *. apply in_or_app. apply in_app_or in H.
    destruct H as [H|H]; [left; destruct d; try (destruct H; fail); exact H | right; apply IH, H]. }
  unfold stay_srcs, moved_keys. cbn [flat_map]. fold (stay_srcs dr). fold (moved_keys dr).
  destruct d as [|p|p]; cbn [List.app] in *.
  - apply IH, ND.
  - inversion ND as [|? ? NI ND']; subst. destruct (IH ND') as [A B]. split; [exact A|].
    intros n Hn [E|H]; [subst n; apply NI, SUB1, Hn | apply (B n Hn H)].
  - inversion ND as [|? ? NI ND']; subst. destruct (IH ND') as [A B]. split.
    + constructor; [intros H; apply NI, SUB1, H | exact A].
    + intros n [E|Hn] H; [subst n; apply NI, SUB2, H | apply (B n Hn H)].
Qed.

(* ---- the theorem, given that every suppressed move crosses only lines of its own action ---- *)
Definition stays_between (m : script) : Prop :=
  Forall2 (fun s d => match d with DStay p => is_rule (snd s) = true -> between_ok (num m 0 0) (fst s) p (snd s) | _ => True end) (add_slots m) (diff_decs m).

Theorem ios_final_equiv_cond m : nodupA m -> nodupB m -> short_runs m 0 -> stays_between m ->
  sw_equiv (rules (listB m)) (rules (final_list m)).
Proof.
  intros NA NB SR BT. destruct (script_facts m NA NB SR) as (SS & LEN & HI & ND & LD & SRC).
  set (S := num m 0 0) in *. set (sl := add_slots m) in *. set (ds := diff_decs m) in *.
  assert (UN : forall x y, In x S -> In y S -> fst x = fst y -> x = y) by (intros x y; apply sorted_unique, SS).
  pose proof (srcs_nodup S sl ds SS ND LD SRC) as NDS. destruct (srcs_split ds NDS) as [NDst DJ].
  set (selB := in_keys (map fst (filter nondrop S))).
  assert (SELB : forall x, In x S -> selB (fst x) = nondrop x).
  { intros x Hx. unfold selB, in_keys. destruct (nondrop x) eqn:E.
    - apply existsb_exists. exists (fst x). split; [|apply N.eqb_refl]. apply in_map. apply filter_In. split; assumption.
    - apply not_true_is_false. intros H. apply existsb_exists in H. destruct H as (k & Hk & E2). apply N.eqb_eq in E2. subst k.
      apply in_map_iff in Hk. destruct Hk as (y & Ey & Hy). apply filter_In in Hy. destruct Hy as [Hy NAy].
      assert (y = x) by (apply UN; auto). subst y. congruence. }
  (* the two ACLs as selections *)
  assert (RB : rules (listB m) = R selB S).
  { unfold R. f_equal. rewrite <- (listB_num m 0 0). fold S. unfold ent. f_equal. apply filter_ext_in. intros x Hx. symmetry. apply SELB, Hx. }
  assert (SRCIN : forall q, In q (stay_srcs ds) -> exists a, In (q, (Drop, a)) S).
  { intros q Hq. assert (Hq' : In q (srcs ds)).
    { clear -Hq. induction ds as [|d dr IH]; [destruct Hq|]. unfold stay_srcs in Hq. unfold srcs. cbn [flat_map] in *. apply in_or_app. apply in_app_or in Hq.
      destruct Hq as [H|H]; [left; destruct d; try (destruct H; fail); exact H | right; apply IH, H]. }
    destruct (srcs_slot S sl ds SRC q Hq') as (k & b & a & _ & Ia & _). exists a. exact Ia. }
  assert (DJK : forall q, In q (stay_srcs ds) -> ~ In q (map fst sl)).
  { intros q Hq H. destruct (SRCIN q Hq) as [a Ia]. apply in_map_iff in H. destruct H as ([k b] & E & Hk). cbn [fst] in E. subst k.
    assert (X : (q, (Add, b)) = (q, (Drop, a))) by (apply UN; [apply HI, Hk | exact Ia | reflexivity]). discriminate. }
  assert (RF : rules (final_list m) = R (stay_sel selB sl ds) S).
  { unfold R, final_list. fold S. f_equal. f_equal. apply filter_ext_in. intros x Hx.
    rewrite (stay_sel_spec sl ds selB (fst x) LEN DJK). rewrite (SELB x Hx). unfold final_keep. fold ds. fold sl.
    destruct x as [k [t e]]. cbn [fst snd]. destruct t.
    - (* Keep *)
      change (nondrop (k, (Keep, e))) with true. cbn [andb].
      assert (A : in_keys (stay_slots sl ds) k = false).
      { apply not_true_is_false. intros H. apply existsb_exists in H. destruct H as (q & Hq & E). apply N.eqb_eq in E. subst q.
        assert (H : In k (map fst sl)) by (apply (stay_slots_in sl ds), Hq).
        apply in_map_iff in H. destruct H as ([k' b] & E & Hk). cbn [fst] in E. subst k'.
        assert (X : (k, (Add, b)) = (k, (Keep, e))) by (apply UN; [apply HI, Hk | exact Hx | reflexivity]). discriminate. }
      rewrite A. reflexivity.
    - (* Drop *)
      change (nondrop (k, (Drop, e))) with false. cbn [andb orb].
      unfold used_pos. fold ds. rewrite used_is_stay_or_moved.
      destruct (in_keys (stay_srcs ds) k) eqn:ST; cbn [orb andb].
      + assert (MF : in_keys (moved_keys ds) k = false); [|rewrite MF; reflexivity]. apply not_true_is_false. intros M. apply existsb_exists in M. destruct M as (q & Hq & E). apply N.eqb_eq in E. subst q.
        apply existsb_exists in ST. destruct ST as (q & Hq2 & E). apply N.eqb_eq in E. subst q. apply (DJ k Hq2 Hq).
      + destruct (in_keys (moved_keys ds) k); reflexivity.
    - (* Add *)
      change (nondrop (k, (Add, e))) with true. cbn [andb].
      assert (A : in_keys (stay_srcs ds) k = false).
      { apply not_true_is_false. intros H. apply existsb_exists in H. destruct H as (q & Hq & E). apply N.eqb_eq in E. subst q.
        destruct (SRCIN k Hq) as [a Ia]. assert (X : (k, (Add, e)) = (k, (Drop, a))) by (apply UN; auto). discriminate. }
      rewrite A, orb_false_r. rewrite (added_or_stays sl ds k LEN ND); [reflexivity|].
      apply in_map_iff. exists (k, e). split; [reflexivity|]. unfold sl, add_slots. apply in_map_iff. exists (k, (Add, e)). split; [reflexivity|].
      apply filter_In. split; [exact Hx | reflexivity]. }
  rewrite RB, RF.
  apply (stays_equiv S SS sl ds selB LEN); [ |exact ND| |exact NDst|].
  - intros k b H. split; [apply HI, H|]. pose proof (SELB _ (HI k b H)) as X. cbn [fst] in X. rewrite X. reflexivity.
  - intros n Hn. destruct (SRCIN n Hn) as [a Ia]. pose proof (SELB _ Ia) as X. cbn [fst] in X. rewrite X. reflexivity.
  - (* stay_ok: source line, same rule, lines in between *)
    unfold stays_between in BT. fold S sl ds in BT.
    clear -SRC BT. revert BT. induction SRC as [|[k b] d sl ds H1 H2 IH]; intros BT; [constructor|].
    inversion BT as [|? ? ? ? B1 B2]; subst. constructor; [|apply IH, B2].
    cbn [fst snd] in *. destruct d as [|p|p]; cbn [stay_ok]; try exact I.
    destruct H1 as (a & Ia & SL). exists a. split; [exact Ia|]. split; [|exact B1].
    unfold same_line in SL. apply andb_true_iff in SL. destruct SL as [E1 E2]. apply Nat.eqb_eq in E1, E2. unfold strip. rewrite E1, E2. reflexivity.
Qed.
