(* Cisco/Routes.v — cisco.diffRoutes for one VRF / address family in which the target has
   routes: a route whose destination gets another next hop is replaced in one transaction
   ("no OLD \n NEW"), other new routes are added, then the remaining old routes are removed.
   Device semantics of ASA: at most one route per destination. *)
From Coq Require Import List Arith Bool Lia.
Import ListNotations.

Definition route := (nat * nat)%type.          (* destination, next hop (with interface, metric) *)
Definition dst (r : route) : nat := fst r.
Definition route_eqb (a b : route) : bool := Nat.eqb (fst a) (fst b) && Nat.eqb (snd a) (snd b).

Inductive tag := Keep | Drop | Add.
Definition script := list (tag * route).
Definition is_add (t : tag) := match t with Add => true | _ => false end.
Definition is_drop (t : tag) := match t with Drop => true | _ => false end.
Definition listA (m : script) : list route := map snd (filter (fun x => negb (is_add (fst x))) m).
Definition listB (m : script) : list route := map snd (filter (fun x => negb (is_drop (fst x))) m).
Definition drops (m : script) : list route := map snd (filter (fun x => is_drop (fst x)) m).
Definition adds (m : script) : list route := map snd (filter (fun x => is_add (fst x)) m).

Inductive rcmd := RAdd (r : route) | RDel (r : route) | RRepl (old new : route).

(* delDst[dst] = the LAST deleted route with that destination *)
Definition find_del (dl : list route) (d : nat) : option route :=
  find (fun r => Nat.eqb (dst r) d) (rev dl).

Definition add_cmds (dl : list route) (al : list route) : list rcmd :=
  map (fun c => match find_del dl (dst c) with Some old => RRepl old c | None => RAdd c end) al.
Definition replaced (dl : list route) (al : list route) : list route :=
  flat_map (fun c => match find_del dl (dst c) with Some old => [old] | None => [] end) al.
Definition del_cmds (dl used : list route) : list rcmd :=
  map RDel (filter (fun d => negb (existsb (route_eqb d) used)) dl).

Definition diff_croutes (m : script) : list rcmd :=
  add_cmds (drops m) (adds m) ++ del_cmds (drops m) (replaced (drops m) (adds m)).

(* ---- the routing table of the device ---- *)
Definition has_dst (t : list route) (d : nat) : bool := existsb (fun r => Nat.eqb (dst r) d) t.
Definition has_route (t : list route) (r : route) : bool := existsb (route_eqb r) t.
Definition radd (t : list route) (r : route) : option (list route) :=
  if has_dst t (dst r) then None else Some (t ++ [r]).
Definition rdel (t : list route) (r : route) : option (list route) :=
  if has_route t r then Some (filter (fun x => negb (route_eqb r x)) t) else None.
Definition rexec (t : list route) (c : rcmd) : option (list route) :=
  match c with
  | RAdd r => radd t r
  | RDel r => rdel t r
  | RRepl o n => match rdel t o with Some t' => radd t' n | None => None end
  end.
Fixpoint rexec_all (t : list route) (cs : list rcmd) : option (list route) :=
  match cs with [] => Some t | c :: r => match rexec t c with Some t' => rexec_all t' r | None => None end end.

(* ---- several VRFs (IOS): the destination id carries the VRF (id / 1000); old routes are removed only in VRFs for
   which the target has routes ("No IPv4 routing specified for VRF X, leaving untouched") ---- *)
Definition vrf_of (r : route) : nat := dst r / 1000.
Definition vrf_managed (m : script) (r : route) : bool := existsb (fun b => Nat.eqb (vrf_of b) (vrf_of r)) (listB m).
Definition diff_croutes_vrf (m : script) : list rcmd :=
  add_cmds (drops m) (adds m) ++ del_cmds (filter (vrf_managed m) (drops m)) (replaced (drops m) (adds m)).

(* IOS: several routes to one destination are allowed *)
Definition radd_ios (t : list route) (r : route) : option (list route) :=
  if has_route t r then None else Some (t ++ [r]).
Definition rexec_ios (t : list route) (c : rcmd) : option (list route) :=
  match c with
  | RAdd r => radd_ios t r
  | RDel r => rdel t r
  | RRepl o n => match rdel t o with Some t' => radd_ios t' n | None => None end
  end.
Fixpoint rexec_all_ios (t : list route) (cs : list rcmd) : option (list route) :=
  match cs with [] => Some t | c :: r => match rexec_ios t c with Some t' => rexec_all_ios t' r | None => None end end.
