(* Cisco/IosAclOracle.v — the executable oracle of the check (IosAcl.equiv: drop remarks and
   log attributes, sort every run of rules with the same action, compare) accepts every pair of
   ACLs whose rules are related by exchanges of neighbours with the same action: on the
   hypotheses of ios_acl_equiv the per-case verdict of the model's own script is always "equivalent". *)
From Coq Require Import List Arith Bool Lia NArith.
From NA Require Import Cisco.IosAcl Cisco.IosAclEquiv.
Import ListNotations.

Definition srt (l : list ientry) : list ientry := fold_right insert_sorted [] l.

Definition plain (e : ientry) : Prop := i_log e = 0.

Lemma plain_eq x y : plain x -> plain y -> i_act x = i_act y -> i_body x = i_body y -> x = y.
Proof. destruct x, y; unfold plain; cbn. intros -> -> -> ->. reflexivity. Qed.

Lemma insert_comm x y : (i_body x = i_body y -> x = y) -> forall S,
  insert_sorted x (insert_sorted y S) = insert_sorted y (insert_sorted x S).
Proof.
  intros EQ. induction S as [|z S IH]; cbn [insert_sorted].
  - destruct (Nat.leb (i_body x) (i_body y)) eqn:A, (Nat.leb (i_body y) (i_body x)) eqn:B; try reflexivity.
    + apply Nat.leb_le in A, B. rewrite (EQ ltac:(lia)). reflexivity.
    + apply Nat.leb_gt in A, B. lia.
  - destruct (Nat.leb (i_body y) (i_body z)) eqn:YZ, (Nat.leb (i_body x) (i_body z)) eqn:XZ; cbn [insert_sorted]; rewrite ?YZ, ?XZ.
    + destruct (Nat.leb (i_body x) (i_body y)) eqn:A, (Nat.leb (i_body y) (i_body x)) eqn:B; rewrite ?XZ, ?YZ; try reflexivity.
      * apply Nat.leb_le in A, B. rewrite (EQ ltac:(lia)). reflexivity.
      * apply Nat.leb_gt in A, B. lia.
    + (* y <= z < x *)
      apply Nat.leb_le in YZ. apply Nat.leb_gt in XZ.
      replace (Nat.leb (i_body x) (i_body y)) with false by (symmetry; apply Nat.leb_gt; lia).
      replace (Nat.leb (i_body y) (i_body z)) with true by (symmetry; apply Nat.leb_le; lia). reflexivity.
    + apply Nat.leb_le in XZ. apply Nat.leb_gt in YZ.
      replace (Nat.leb (i_body y) (i_body x)) with false by (symmetry; apply Nat.leb_gt; lia).
      replace (Nat.leb (i_body x) (i_body z)) with true by (symmetry; apply Nat.leb_le; lia). reflexivity.
    + rewrite IH. reflexivity.
Qed.

Lemma srt_app ext L : srt (ext ++ L) = fold_right insert_sorted (srt L) ext.
Proof. unfold srt. apply fold_right_app. Qed.

(* the accumulator of canon matters only through its sorted form *)
Lemma canon_acc l : forall cur acc acc', (forall ext, srt (ext ++ acc) = srt (ext ++ acc')) ->
  concat (canon cur acc l) = concat (canon cur acc' l).
Proof.
  induction l as [|c r IH]; intros cur acc acc' H.
  - cbn [canon concat]. fold (srt acc). fold (srt acc'). pose proof (H []) as H0. cbn [List.app] in H0. rewrite H0. reflexivity.
  - assert (PUSH : forall ext, srt (ext ++ c :: acc) = srt (ext ++ c :: acc')).
    { intros ext. replace (ext ++ c :: acc) with ((ext ++ [c]) ++ acc) by (rewrite <- app_assoc; reflexivity).
      replace (ext ++ c :: acc') with ((ext ++ [c]) ++ acc') by (rewrite <- app_assoc; reflexivity). apply H. }
    cbn [canon]. destruct (Nat.eqb (i_act c) 2); [apply IH, PUSH|].
    destruct cur as [a|]; [|apply IH, PUSH].
    destruct (Nat.eqb a (i_act c)); [apply IH, PUSH|].
    cbn [concat]. fold (srt acc). fold (srt acc'). pose proof (H []) as H0. cbn [List.app] in H0. rewrite H0. reflexivity.
Qed.

Lemma canon_cons cur acc c l : canon cur acc (c :: l) =
  if Nat.eqb (i_act c) 2 then canon cur (c :: acc) l
  else match cur with
       | None => canon (Some (i_act c)) (c :: acc) l
       | Some a => if Nat.eqb a (i_act c) then canon cur (c :: acc) l else srt acc :: canon (Some (i_act c)) [c] l
       end.
Proof. reflexivity. Qed.

Lemma canon_swap x y : i_act x = i_act y -> plain x -> plain y -> forall l1 l2 cur acc,
  concat (canon cur acc (l1 ++ x :: y :: l2)) = concat (canon cur acc (l1 ++ y :: x :: l2)).
Proof.
  intros A PX PY.
  assert (SW : forall acc ext, srt (ext ++ y :: x :: acc) = srt (ext ++ x :: y :: acc)).
  { intros acc ext. rewrite !srt_app. f_equal. unfold srt. cbn [fold_right]. apply insert_comm.
    intros B. symmetry. apply plain_eq; auto. }
  induction l1 as [|c r IH]; intros l2 cur acc.
  - cbn [List.app]. rewrite (canon_cons cur acc x), (canon_cons cur acc y). rewrite <- A.
    destruct (Nat.eqb (i_act x) 2) eqn:R.
    + rewrite (canon_cons cur (x :: acc) y), (canon_cons cur (y :: acc) x). rewrite <- A, R. apply canon_acc. intros ext. apply SW.
    + destruct cur as [a|].
      * destruct (Nat.eqb a (i_act x)) eqn:E.
        -- rewrite (canon_cons (Some a) (x :: acc) y), (canon_cons (Some a) (y :: acc) x). rewrite <- A, R, E. apply canon_acc. intros ext. apply SW.
        -- rewrite (canon_cons (Some (i_act x)) [x] y), (canon_cons (Some (i_act x)) [y] x). rewrite <- A, R, Nat.eqb_refl.
           cbn [concat]. f_equal. apply canon_acc. intros ext. apply (SW []).
      * rewrite (canon_cons (Some (i_act x)) (x :: acc) y), (canon_cons (Some (i_act x)) (y :: acc) x). rewrite <- A, R, Nat.eqb_refl.
        apply canon_acc. intros ext. apply SW.
  - cbn [List.app]. rewrite !(canon_cons cur acc c). destruct (Nat.eqb (i_act c) 2); [apply IH|].
    destruct cur as [a|]; [|apply IH]. destruct (Nat.eqb a (i_act c)); [apply IH|]. cbn [concat]. f_equal. apply IH.
Qed.

(* lists of rules related by exchanges of neighbours with the same action have the same normal form *)
Theorem sw_equiv_norm a b : Forall plain a -> sw_equiv a b -> concat (canon None [] a) = concat (canon None [] b) /\ Forall plain b.
Proof.
  intros PA H. induction H as [l|l1 x y l2 E|a b c _ IH1 _ IH2].
  - split; [reflexivity | exact PA].
  - assert (PX : plain x) by (rewrite Forall_forall in PA; apply PA, in_or_app; right; left; reflexivity).
    assert (PY : plain y) by (rewrite Forall_forall in PA; apply PA, in_or_app; right; right; left; reflexivity).
    split; [apply canon_swap; assumption|]. rewrite Forall_forall in *. intros z Hz. apply PA. apply in_app_or in Hz. apply in_or_app.
    destruct Hz as [Hz|[Hz|[Hz|Hz]]]; [left; exact Hz | right; right; left; exact Hz | right; left; exact Hz | right; right; right; exact Hz].
  - destruct (IH1 PA) as [E1 PB]. destruct (IH2 PB) as [E2 PC]. split; [congruence | exact PC].
Qed.

Lemma ientries_eqb_refl l : ientries_eqb l l = true.
Proof. induction l as [|x l IH]; [reflexivity|]. cbn [ientries_eqb]. rewrite IH. unfold ientry_eqb. rewrite !Nat.eqb_refl. reflexivity. Qed.

(* the executable oracle of the check accepts whatever the theorem's relation relates *)
Theorem sw_equiv_oracle a b : sw_equiv (rules a) (rules b) -> equiv a b = true.
Proof.
  intros H. unfold equiv, norm. change (map strip (filter is_rule a)) with (rules a). change (map strip (filter is_rule b)) with (rules b).
  assert (PA : Forall plain (rules a)). { unfold rules. apply Forall_forall. intros z Hz. apply in_map_iff in Hz. destruct Hz as (w & <- & _). reflexivity. }
  destruct (sw_equiv_norm _ _ PA H) as [E _]. rewrite E. apply ientries_eqb_refl.
Qed.
