(* Cisco/AsaStepSafe.v — the script of a move-free ASA change is safe at every step: the model
   diff_asa emits the inserts top-down (pass 1) and the deletes bottom-up (pass 2); after any
   number of its commands the flagged state has the inserting or the deleting shape of
   Cisco/StepSafe.v, hence every packet on which old and new ACL agree keeps that verdict. *)
From Coq Require Import List Arith Bool Lia.
From NA Require Import Cisco.AsaAcl Cisco.AsaAclProofs Cisco.StepSafe.
Import ListNotations.

Notation item := (tag * entry * bool)%type (only parsing).

(* the skeleton: tags and entries without the flags *)
Definition skel (st : list item) : list (tag * entry) := map fst st.

Lemma old_skel st st' : skel st = skel st' -> old st = old st'.
Proof.
  revert st'. induction st as [|[[t e] h] st IH]; intros [|[[t' e'] h'] st'] H; try discriminate; [reflexivity|].
  unfold skel in H. cbn [map fst] in H. injection H as -> -> H. unfold old in *. cbn [filter f_tag fst snd].
  destruct (negb (tag_eqb t' Add)); cbn [map f_entry fst snd]; rewrite (IH st' H); reflexivity.
Qed.
Lemma new_skel st st' : skel st = skel st' -> new st = new st'.
Proof.
  revert st'. induction st as [|[[t e] h] st IH]; intros [|[[t' e'] h'] st'] H; try discriminate; [reflexivity|].
  unfold skel in H. cbn [map fst] in H. injection H as -> -> H. unfold new in *. cbn [filter f_tag fst snd].
  destruct (negb (tag_eqb t' Drop)); cbn [map f_entry fst snd]; rewrite (IH st' H); reflexivity.
Qed.
Lemma dev_device st : dev st = device st.
Proof. reflexivity. Qed.

(* flags of a move-free run *)
Definition base_here (st : list item) : Prop := forall x, In x st -> it_tag x <> Add -> it_here x = true.
Definition adds_pending (st : list item) : Prop := forall x, In x st -> it_tag x = Add -> it_here x = false.
Definition freeS (st : list item) : Prop :=
  forall x y, In x st -> In y st -> it_tag x = Add -> it_tag y = Drop -> body (it_entry x) <> body (it_entry y).

Ltac norm := unfold base_here, adds_pending, adds_done, f_tag, f_here, f_entry, it_tag, it_here, it_entry in *.

Lemma no_add_here_of suf : base_here suf -> adds_pending suf -> no_add_here suf = true.
Proof.
  induction suf as [|x suf IH]; intros B P; [reflexivity|]. cbn [no_add_here].
  assert (B' : base_here suf) by (intros y Hy; apply B; right; exact Hy).
  assert (P' : adds_pending suf) by (intros y Hy; apply P; right; exact Hy).
  rewrite (IH B' P'), andb_true_r. norm. destruct (tag_eqb (fst (fst x)) Add) eqn:T.
  - apply tag_eqb_eq in T. rewrite (P x (or_introl eq_refl) T). reflexivity.
  - apply (B x (or_introl eq_refl)). intros E. rewrite E in T. discriminate.
Qed.

Lemma inserting_suf suf : base_here suf -> adds_pending suf -> inserting suf = true.
Proof.
  induction suf as [|z suf IHs]; intros B P; [reflexivity|]. cbn [inserting].
  assert (B' : base_here suf) by (intros w Hw; apply B; right; exact Hw).
  assert (P' : adds_pending suf) by (intros w Hw; apply P; right; exact Hw).
  pose proof (no_add_here_of suf B' P') as NA. specialize (IHs B' P'). norm.
  destruct (tag_eqb (fst (fst z)) Add) eqn:T.
  - apply tag_eqb_eq in T. rewrite (P z (or_introl eq_refl) T). exact NA.
  - rewrite (B z (or_introl eq_refl)); [|intros E; rewrite E in T; discriminate]. exact IHs.
Qed.

Lemma inserting_of pre suf : base_here (pre ++ suf) -> adds_done pre -> adds_pending suf -> inserting (pre ++ suf) = true.
Proof.
  induction pre as [|x pre IH]; intros B D P; [apply inserting_suf; assumption|].
  cbn [List.app inserting].
  assert (B' : base_here (pre ++ suf)) by (intros z Hz; apply B; right; exact Hz).
  assert (D' : adds_done pre) by (intros z Hz; apply D; right; exact Hz).
  specialize (IH B' D' P). norm.
  destruct (tag_eqb (fst (fst x)) Add) eqn:T.
  - apply tag_eqb_eq in T. rewrite (D x (or_introl eq_refl) T). exact IH.
  - rewrite (B x (or_introl eq_refl)); [|intros E; rewrite E in T; discriminate]. exact IH.
Qed.

Lemma skel_app a b : skel (a ++ b) = skel a ++ skel b.
Proof. unfold skel. apply map_app. Qed.

Lemma find_drop_free b l : (forall y, In y l -> it_tag y = Drop -> body (it_entry y) <> b) -> find_drop b l = None.
Proof.
  intros H. destruct (find_drop b l) as [[[p d] s]|] eqn:F; [|reflexivity]. exfalso.
  destruct (find_drop_some _ _ _ _ _ F) as (E & Bd & _). subst l.
  apply (H (Drop, d, true)); [apply in_or_app; right; left; reflexivity | reflexivity | exact Bd].
Qed.

(* pass 1 of a move-free script: only inserts, top-down; every state on the way has the inserting shape *)
Lemma pass1_free : forall fuel suf pre,
  length suf <= fuel -> wf (pre ++ suf) -> adds_done pre -> base_here (pre ++ suf) -> adds_pending suf -> freeS (pre ++ suf) ->
  (forall k, exists stk, dexec_all (device (pre ++ suf)) (firstn k (fst (pass1 fuel pre suf))) = Some (device stk) /\
                         skel stk = skel (pre ++ suf) /\ inserting stk = true) /\
  dexec_all (device (pre ++ suf)) (fst (pass1 fuel pre suf)) = Some (device (snd (pass1 fuel pre suf))) /\
  skel (snd (pass1 fuel pre suf)) = skel (pre ++ suf) /\ adds_done (snd (pass1 fuel pre suf)) /\ base_here (snd (pass1 fuel pre suf)).
Proof.
  induction fuel as [|f IH]; intros suf pre Hlen W D B P FR.
  - destruct suf; [|simpl in Hlen; lia]. cbn [pass1 fst snd]. rewrite !app_nil_r in *.
    split; [|split; [reflexivity|]; split; [reflexivity|]; split; assumption].
    intros k. exists pre. rewrite firstn_nil. split; [reflexivity|]. split; [reflexivity|].
    rewrite <- (app_nil_r pre). apply inserting_of; [rewrite app_nil_r; exact B | exact D | intros x []].
  - destruct suf as [|x suf].
    + cbn [pass1 fst snd]. rewrite !app_nil_r in *.
      split; [|split; [reflexivity|]; split; [reflexivity|]; split; assumption].
      intros k. exists pre. rewrite firstn_nil. split; [reflexivity|]. split; [reflexivity|].
      rewrite <- (app_nil_r pre). apply inserting_of; [rewrite app_nil_r; exact B | exact D | intros y []].
    + simpl in Hlen. assert (Hl : length suf <= f) by lia. cbn [pass1].
      assert (SH0 : inserting (pre ++ x :: suf) = true) by (apply inserting_of; assumption).
      destruct (tag_eqb (it_tag x) Add && negb (it_here x)) eqn:Ex.
      * apply andb_true_iff in Ex. destruct Ex as [E1 E2]. apply tag_eqb_eq in E1. apply negb_true_iff in E2.
        destruct x as [[t e] h]. unfold it_tag, it_here in E1, E2. cbn [fst snd] in E1, E2. subst t h. cbn [it_entry fst snd].
        assert (NOD : forall l, (forall y, In y l -> In y (pre ++ (Add, e, false) :: suf)) -> find_drop (body e) l = None).
        { intros l SUB. apply find_drop_free. intros y Hy Ty E.
          apply (FR (Add, e, false) y); [apply in_or_app; right; left; reflexivity | apply SUB, Hy | reflexivity | exact Ty | symmetry; exact E]. }
        rewrite (NOD pre) by (intros y Hy; apply in_or_app; left; exact Hy).
        rewrite (NOD suf) by (intros y Hy; apply in_or_app; right; right; exact Hy).
        set (pre1 := pre ++ [(Add, e, true)]).
        assert (EQ1 : pre1 ++ suf = pre ++ (Add, e, true) :: suf) by (unfold pre1; rewrite <- app_assoc; reflexivity).
        assert (W1 : wf (pre1 ++ suf)) by (rewrite EQ1; apply (wf_flag pre Add e false true); [discriminate | exact W]).
        assert (D1 : adds_done pre1) by (apply adds_done_snoc; [exact D | reflexivity]).
        assert (B1 : base_here (pre1 ++ suf)).
        { rewrite EQ1. intros y Hy Ty. apply in_app_or in Hy. destruct Hy as [Hy|[<-|Hy]].
          - apply B; [apply in_or_app; left; exact Hy | exact Ty].
          - exfalso. apply Ty. reflexivity.
          - apply B; [apply in_or_app; right; right; exact Hy | exact Ty]. }
        assert (P1 : adds_pending suf) by (intros y Hy; apply P; right; exact Hy).
        assert (FR1 : freeS (pre1 ++ suf)).
        { rewrite EQ1. intros a b Ha Hb Ta Tb.
          assert (G : forall z, In z (pre ++ (Add, e, true) :: suf) -> exists z', In z' (pre ++ (Add, e, false) :: suf) /\ it_tag z' = it_tag z /\ it_entry z' = it_entry z).
          { intros z Hz. apply in_app_or in Hz. destruct Hz as [Hz|[<-|Hz]].
            - exists z. split; [apply in_or_app; left; exact Hz | split; reflexivity].
            - exists (Add, e, false). split; [apply in_or_app; right; left; reflexivity | split; reflexivity].
            - exists z. split; [apply in_or_app; right; right; exact Hz | split; reflexivity]. }
          destruct (G a Ha) as (a' & Ia & TA & EA). destruct (G b Hb) as (b' & Ib & TB & EB). rewrite <- EA, <- EB.
          apply (FR a' b' Ia Ib); congruence. }
        destruct (IH suf pre1 Hl W1 D1 B1 P1 FR1) as (PK & FULL & SK & DN & BH).
        destruct (pass1 f pre1 suf) as [cs st] eqn:Ep. cbn [fst snd] in *.
        (* the insert is accepted *)
        assert (HB : forall y, In y (device (pre ++ suf)) -> body y <> body e).
        { intros y Hy. destruct (in_device _ _ Hy) as (i & Ii & Hi & <-).
          destruct (it_tag i) eqn:Ti.
          - apply (nodup_bodies_split isB pre suf (Add, e, false) i (wf_B _ W)); [reflexivity | exact Ii | unfold isB; rewrite Ti; reflexivity].
          - intros E. apply (FR (Add, e, false) i); [apply in_or_app; right; left; reflexivity | | reflexivity | exact Ti | symmetry; exact E].
            apply in_app_or in Ii. apply in_or_app. destruct Ii as [Ii|Ii]; [left; exact Ii | right; right; exact Ii].
          - apply (nodup_bodies_split isB pre suf (Add, e, false) i (wf_B _ W)); [reflexivity | exact Ii | unfold isB; rewrite Ti; reflexivity]. }
        pose proof (flip_add pre e suf Add HB) as FA. rewrite <- EQ1 in FA.
        assert (SKX : skel (pre1 ++ suf) = skel (pre ++ (Add, e, false) :: suf)).
        { rewrite EQ1, !skel_app. reflexivity. }
        split; [|split; [|split; [|split]]].
        -- intros [|k].
           ++ exists (pre ++ (Add, e, false) :: suf). split; [reflexivity|]. split; [reflexivity | exact SH0].
           ++ destruct (PK k) as (stk & EX & SKk & SHk). exists stk. cbn [firstn dexec_all dexec]. rewrite FA. split; [exact EX|]. split; [congruence | exact SHk].
        -- cbn [dexec_all dexec]. rewrite FA. exact FULL.
        -- congruence.
        -- exact DN.
        -- exact BH.
      * (* nothing to send for this element *)
        assert (NA : it_tag x <> Add).
        { intros T. rewrite (P x (or_introl eq_refl) T) in Ex. rewrite T in Ex. discriminate. }
        set (pre1 := pre ++ [x]).
        assert (EQ1 : pre1 ++ suf = pre ++ x :: suf) by (unfold pre1; rewrite <- app_assoc; reflexivity).
        assert (D1 : adds_done pre1) by (apply adds_done_snoc; [exact D | intros T; contradiction]).
        assert (P1 : adds_pending suf) by (intros y Hy; apply P; right; exact Hy).
        destruct (IH suf pre1 Hl ltac:(rewrite EQ1; exact W) D1 ltac:(rewrite EQ1; exact B) P1 ltac:(rewrite EQ1; exact FR)) as (PK & FULL & SK & DN & BH).
        destruct (pass1 f pre1 suf) as [cs st] eqn:Ep. cbn [fst snd] in *. rewrite EQ1 in *.
        split; [exact PK|]. split; [exact FULL|]. split; [exact SK|]. split; assumption.
Qed.

(* ---- pass 2: deletes bottom-up ---- *)
Lemma deleting_suf suf : no_drop_here suf = true -> deleting suf = true.
Proof.
  induction suf as [|x suf IH]; intros H; [reflexivity|]. cbn [no_drop_here deleting] in *.
  apply andb_true_iff in H. destruct H as [H1 H2]. specialize (IH H2).
  destruct (tag_eqb (f_tag x) Drop).
  - apply negb_true_iff in H1. rewrite H1. exact H2.
  - rewrite H1. exact IH.
Qed.
Lemma deleting_of pre suf : (forall x, In x pre -> it_here x = true) -> no_drop_here suf = true -> deleting (pre ++ suf) = true.
Proof.
  induction pre as [|x pre IH]; intros A H; [apply deleting_suf, H|]. cbn [List.app deleting].
  assert (A' : forall y, In y pre -> it_here y = true) by (intros y Hy; apply A; right; exact Hy).
  specialize (IH A' H). pose proof (A x (or_introl eq_refl)) as Hx. unfold it_here in Hx. unfold f_here. rewrite Hx.
  destruct (tag_eqb (f_tag x) Drop); exact IH.
Qed.

Lemma pass2_free : forall rpre suf, (forall x, In x rpre -> it_here x = true) -> no_drop_here suf = true ->
  forall k, exists stk, dexec_all (device (rev rpre ++ suf)) (firstn k (pass2 rpre suf)) = Some (device stk) /\
                        skel stk = skel (rev rpre ++ suf) /\ deleting stk = true.
Proof.
  induction rpre as [|x rpre IH]; intros suf A H k.
  - cbn [pass2 rev List.app]. rewrite firstn_nil. exists suf. split; [reflexivity|]. split; [reflexivity | apply deleting_suf, H].
  - assert (A' : forall y, In y rpre -> it_here y = true) by (intros y Hy; apply A; right; exact Hy).
    pose proof (A x (or_introl eq_refl)) as Hx.
    assert (SH0 : deleting (rev (x :: rpre) ++ suf) = true).
    { apply deleting_of; [|exact H]. intros y Hy. apply in_rev in Hy. apply A, Hy. }
    cbn [pass2 rev]. destruct (tag_eqb (it_tag x) Drop && it_here x) eqn:E.
    + apply andb_true_iff in E. destruct E as [E1 _]. apply tag_eqb_eq in E1.
      destruct x as [[t e] h]. unfold it_tag, it_here in E1, Hx. cbn [fst snd] in E1, Hx. subst t h. cbn [it_entry fst snd].
      destruct k as [|k].
      * exists ((rev rpre ++ [(Drop, e, true)]) ++ suf). split; [reflexivity|]. split; [reflexivity | exact SH0].
      * cbn [firstn dexec_all dexec]. rewrite <- app_assoc. cbn [List.app].
        rewrite <- count_here_rev. rewrite (flip_drop (rev rpre) e suf Drop).
        destruct (IH ((Drop, e, false) :: suf) A' ltac:(cbn [no_drop_here f_tag f_here fst snd tag_eqb negb andb]; exact H) k) as (stk & EX & SK & SH).
        exists stk. split; [exact EX|]. split; [|exact SH]. rewrite SK, !skel_app. reflexivity.
    + rewrite <- app_assoc. cbn [List.app].
      assert (H' : no_drop_here (x :: suf) = true).
      { cbn [no_drop_here]. rewrite H, andb_true_r. unfold it_here in Hx. unfold f_here. rewrite Hx.
        destruct (tag_eqb (f_tag x) Drop) eqn:T; [|reflexivity]. unfold f_tag, it_tag in *. rewrite T in E. unfold it_here in E. rewrite Hx in E. discriminate. }
      apply (IH (x :: suf) A' H' k).
Qed.

(* ---- the theorem ---- *)
Definition move_freeP (m : script) : Prop := forall a d, In (Add, a) m -> In (Drop, d) m -> body a <> body d.

Lemma old_is_entsA st : old st = ents isA st.
Proof. reflexivity. Qed.
Lemma new_is_entsB st : new st = ents isB st.
Proof. reflexivity. Qed.

Theorem asa_move_free_stepwise m : NoDup (bodies (listA m)) -> NoDup (bodies (listB m)) -> move_freeP m ->
  forall k, exists lk, dexec_all (listA m) (firstn k (diff_asa m)) = Some lk /\
    forall (packet : Type) (matches : entry -> packet -> bool) (permit : entry -> bool) (default : bool) (p : packet),
      verdict packet matches permit default (listA m) p = verdict packet matches permit default (listB m) p ->
      verdict packet matches permit default lk p = verdict packet matches permit default (listA m) p.
Proof.
  intros HA HB MF k. unfold diff_asa.
  assert (W : wf ([] ++ init_state m)).
  { cbn [app]. constructor; [rewrite entsA_init; exact HA | rewrite entsB_init; exact HB | apply keep_init]. }
  assert (Hl : length (init_state m) <= length m) by (unfold init_state; rewrite map_length; lia).
  assert (INI : forall x, In x (init_state m) -> exists t e, x = (t, e, negb (tag_eqb t Add)) /\ In (t, e) m).
  { intros x Hx. unfold init_state in Hx. apply in_map_iff in Hx. destruct Hx as ([t e] & <- & H). exists t, e. split; [reflexivity | exact H]. }
  assert (B0 : base_here ([] ++ init_state m)).
  { intros x Hx Tx. destruct (INI x Hx) as (t & e & -> & _). unfold it_tag, it_here in *. cbn [fst snd] in *. destruct t; try reflexivity. contradiction. }
  assert (P0 : adds_pending (init_state m)).
  { intros x Hx Tx. destruct (INI x Hx) as (t & e & -> & _). unfold it_tag, it_here in *. cbn [fst snd] in *. subst t. reflexivity. }
  assert (F0 : freeS ([] ++ init_state m)).
  { intros x y Hx Hy Tx Ty. destruct (INI x Hx) as (t & e & -> & I1). destruct (INI y Hy) as (t' & e' & -> & I2).
    unfold it_tag, it_entry in *. cbn [fst snd] in *. subst t t'. apply (MF e e' I1 I2). }
  destruct (pass1_free (length m) (init_state m) [] Hl W (fun _ F => match F with end) B0 P0 F0) as (PK & FULL & SK & DN & BH).
  destruct (pass1 (length m) [] (init_state m)) as [cs st] eqn:Ep. cbn [fst snd List.app] in *.
  rewrite device_init in *.
  assert (SAFE : forall stk, skel stk = skel (init_state m) -> (inserting stk || deleting stk)%bool = true ->
            forall (packet : Type) (matches : entry -> packet -> bool) (permit : entry -> bool) (default : bool) (p : packet),
              verdict packet matches permit default (listA m) p = verdict packet matches permit default (listB m) p ->
              verdict packet matches permit default (device stk) p = verdict packet matches permit default (listA m) p).
  { intros stk SKk SH packet matches permit default p E.
    pose proof (insert_then_delete_safe_proved packet matches permit default stk p SH) as T.
    rewrite (old_skel stk (init_state m) SKk), (new_skel stk (init_state m) SKk) in T.
    rewrite old_is_entsA, new_is_entsB, entsA_init, entsB_init in T. apply T, E. }
  rewrite firstn_app.
  destruct (Nat.le_gt_cases k (length cs)) as [KL|KG].
  - replace (k - length cs) with 0 by lia. cbn [firstn]. rewrite app_nil_r.
    destruct (PK k) as (stk & EX & SKk & SHk). exists (device stk). split; [exact EX|].
    apply SAFE; [exact SKk | rewrite SHk; reflexivity].
  - rewrite firstn_all2 by lia. rewrite (dexec_all_app _ _ _ _ FULL).
    assert (ALL : forall x, In x (rev st) -> it_here x = true).
    { intros x Hx. apply in_rev in Hx. destruct (it_tag x) eqn:T; [apply BH; [exact Hx | congruence] | apply BH; [exact Hx | congruence] | apply DN; assumption]. }
    destruct (pass2_free (rev st) [] ALL eq_refl (k - length cs)) as (stk & EX & SKk & SHk).
    rewrite rev_involutive, app_nil_r in EX, SKk. exists (device stk). split; [exact EX|].
    apply SAFE; [congruence | rewrite SHk; apply orb_true_r].
Qed.
