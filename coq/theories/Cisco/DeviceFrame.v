(* Cisco/DeviceFrame.v — footprint of a command on the strict device: an
   accepted command changes only the objects it names (in the mode it is given).
   Lifted to scripts: a script that never names an object outside Netspoc's
   scope leaves the unmanaged projection untouched after EVERY prefix (C07). *)
From Coq Require Import List String Ascii Bool Arith NArith Lia.
From NA Require Import Base.Str Cisco.Device.
Import ListNotations.
Open Scope string_scope.

Lemma str_eqb_eq a b : str_eqb a b = true <-> a = b.
Proof. apply String.eqb_eq. Qed.
Lemma str_eqb_neq a b : str_eqb a b = false <-> a <> b.
Proof. apply String.eqb_neq. Qed.

Lemma toks_eqb_eq a b : toks_eqb a b = true <-> a = b.
Proof.
  revert b; induction a as [|x a IH]; intros [|y b]; simpl; split; try congruence; auto.
  - intros H. apply andb_true_iff in H. destruct H as [H1 H2].
    apply str_eqb_eq in H1. apply IH in H2. congruence.
  - intros H. injection H as -> ->. apply andb_true_iff. split; [apply str_eqb_eq; reflexivity | apply IH; reflexivity].
Qed.
Lemma toks_eqb_refl a : toks_eqb a a = true.
Proof. apply toks_eqb_eq. reflexivity. Qed.

Section Assoc.
Context {A : Type}.
Lemma alookup_aset_other (l : list (string * A)) k v n :
  n <> k -> alookup (aset l k v) n = alookup l n.
Proof.
  intros H. induction l as [|[k' v'] r IH]; simpl.
  - apply str_eqb_neq in H. rewrite H. reflexivity.
  - destruct (str_eqb k k') eqn:E.
    + apply str_eqb_eq in E. subst k'. simpl. apply str_eqb_neq in H. rewrite H. reflexivity.
    + simpl. destruct (str_eqb n k'); [reflexivity | exact IH].
Qed.
Lemma alookup_aremove_other (l : list (string * A)) k n :
  n <> k -> alookup (aremove l k) n = alookup l n.
Proof.
  intros H. induction l as [|[k' v'] r IH]; simpl; [reflexivity|].
  destruct (str_eqb k k') eqn:E.
  - apply str_eqb_eq in E. subst k'. apply str_eqb_neq in H. rewrite H. exact IH.
  - simpl. destruct (str_eqb n k'); [reflexivity | exact IH].
Qed.
End Assoc.

Definition bind_of (d : dev) (loc : toks) : option string :=
  match find (fun b => toks_eqb (fst b) loc) (d_binds d) with
  | Some b => Some (snd b)
  | None => None
  end.

Lemma find_filter_other (l : list (toks * string)) loc loc' :
  loc' <> loc ->
  find (fun b => toks_eqb (fst b) loc') (filter (fun b => negb (toks_eqb (fst b) loc)) l) =
  find (fun b => toks_eqb (fst b) loc') l.
Proof.
  intros H. induction l as [|[k v] r IH]; simpl; [reflexivity|].
  destruct (toks_eqb k loc) eqn:E; simpl.
  - apply toks_eqb_eq in E. subst k.
    destruct (toks_eqb loc loc') eqn:E2; [apply toks_eqb_eq in E2; congruence | exact IH].
  - destruct (toks_eqb k loc'); [reflexivity | exact IH].
Qed.

Lemma find_app_other (l : list (toks * string)) loc loc' a :
  loc' <> loc ->
  find (fun b => toks_eqb (fst b) loc') (l ++ [(loc, a)]) = find (fun b => toks_eqb (fst b) loc') l.
Proof.
  intros H. induction l as [|[k v] r IH]; simpl.
  - destruct (toks_eqb loc loc') eqn:E; [apply toks_eqb_eq in E; congruence | reflexivity].
  - destruct (toks_eqb k loc'); [reflexivity | exact IH].
Qed.

(* ---- what a command names, given the mode it is issued in ---- *)
Fixpoint mode_after (m : mode) (c : cmd) : mode :=
  match c with
  | CGroup _ n => MGroup n
  | CSub _ _ => m
  | CEnterAcl n => MAcl n
  | CEnterIntf n => MIntf n
  | CJoin a b => mode_after (mode_after m a) b
  | _ => MTop
  end.

Fixpoint names_acl (m : mode) (c : cmd) (n : string) : bool :=
  match c with
  | CAclAdd n' _ _ | CAclDel n' _ _ | CAclClear n' | CReseq n' _ _ => str_eqb n n'
  | CSub _ _ => match m with MAcl a => str_eqb n a | _ => false end
  | CJoin a b => names_acl m a n || names_acl (mode_after m a) b n
  | _ => false
  end.

Fixpoint names_group (m : mode) (c : cmd) (n : string) : bool :=
  match c with
  | CGroup _ n' | CNoGroup _ n' => str_eqb n n'
  | CSub _ _ => match m with MGroup g => str_eqb n g | _ => false end
  | CJoin a b => names_group m a n || names_group (mode_after m a) b n
  | _ => false
  end.

Fixpoint names_loc (m : mode) (c : cmd) (loc : toks) : bool :=
  match c with
  | CBind _ _ l => toks_eqb loc l
  | CSub _ t => match m, t with
                | MIntf i, [_; _; _; dir] => toks_eqb loc [i; dir]
                | _, _ => false
                end
  | CJoin a b => names_loc m a loc || names_loc (mode_after m a) b loc
  | _ => false
  end.

Fixpoint names_route (c : cmd) (r : toks) : bool :=
  match c with
  | CRoute _ t => toks_eqb r t
  | CJoin a b => names_route a r || names_route b r
  | _ => false
  end.

(* case analysis on everything [exec] inspects *)
Ltac crush H :=
  repeat (match type of H with
          | context [match ?x with _ => _ end] => destruct x eqn:?; try discriminate H
          | context [if ?b then _ else _] => destruct b eqn:?; try discriminate H
          end);
  try (injection H as <-).

Lemma exec_mode c : forall d d', exec d c = Ok d' -> d_mode d' = mode_after (d_mode d) c.
Proof.
  induction c; intros d d' H; cbn [exec] in H; cbn [mode_after].
  all: try discriminate H.
  all: try solve [crush H; reflexivity].
  all: try solve [destruct (d_mode d) eqn:Em; try discriminate H; crush H; reflexivity].
  (* CJoin *)
  destruct (exec d c1) as [d1|] eqn:E1; [|discriminate].
  rewrite (IHc2 _ _ H), (IHc1 _ _ E1). reflexivity.
Qed.

Ltac fin_assoc Hn :=
  first [reflexivity | apply alookup_aset_other; exact Hn | apply alookup_aremove_other; exact Hn].

Lemma exec_frame_acl c : forall d d' n,
  exec d c = Ok d' -> names_acl (d_mode d) c n = false ->
  alookup (d_acls d') n = alookup (d_acls d) n.
Proof.
  induction c; intros d d' n H Hn; cbn [exec] in H; cbn [names_acl] in Hn.
  all: try discriminate H.
  all: try solve [crush H; reflexivity].
  all: try solve [apply str_eqb_neq in Hn; crush H; cbn [d_acls set_acls]; fin_assoc Hn].
  all: try solve [destruct (d_mode d) eqn:Em; try discriminate H;
                  [crush H; reflexivity
                  | apply str_eqb_neq in Hn; crush H; cbn [d_acls set_acls]; fin_assoc Hn
                  | crush H; reflexivity]].
  (* CJoin *)
  apply orb_false_elim in Hn. destruct Hn as [H1 H2].
  destruct (exec d c1) as [d1|] eqn:E1; [|discriminate].
  rewrite (IHc2 _ _ n H); [apply (IHc1 _ _ n E1 H1)|].
  rewrite (exec_mode _ _ _ E1). exact H2.
Qed.

Lemma exec_frame_group c : forall d d' n,
  exec d c = Ok d' -> names_group (d_mode d) c n = false ->
  alookup (d_groups d') n = alookup (d_groups d) n.
Proof.
  induction c; intros d d' n H Hn; cbn [exec] in H; cbn [names_group] in Hn.
  all: try discriminate H.
  all: try solve [crush H; reflexivity].
  all: try solve [apply str_eqb_neq in Hn; crush H; cbn [d_groups set_groups]; fin_assoc Hn].
  all: try solve [destruct (d_mode d) eqn:Em; try discriminate H;
                  [apply str_eqb_neq in Hn; crush H; cbn [d_groups set_groups]; fin_assoc Hn
                  | crush H; reflexivity
                  | crush H; reflexivity]].
  apply orb_false_elim in Hn. destruct Hn as [H1 H2].
  destruct (exec d c1) as [d1|] eqn:E1; [|discriminate].
  rewrite (IHc2 _ _ n H); [apply (IHc1 _ _ n E1 H1)|].
  rewrite (exec_mode _ _ _ E1). exact H2.
Qed.

Lemma toks_eqb_neq a b : toks_eqb a b = false -> a <> b.
Proof. intros H E. subst. rewrite toks_eqb_refl in H. discriminate. Qed.

Ltac fin_loc Hn :=
  unfold bind_of; cbn [d_binds set_binds];
  rewrite ?find_app_other by exact Hn; rewrite ?find_filter_other by exact Hn; reflexivity.

Lemma exec_frame_loc c : forall d d' lc,
  exec d c = Ok d' -> names_loc (d_mode d) c lc = false ->
  bind_of d' lc = bind_of d lc.
Proof.
  induction c; intros d d' lc H Hn; cbn [exec] in H; cbn [names_loc] in Hn.
  all: try discriminate H.
  all: try solve [crush H; reflexivity].
  all: try solve [apply toks_eqb_neq in Hn; crush H; fin_loc Hn].
  all: try solve [destruct (d_mode d) eqn:Em; try discriminate H;
                  [crush H; reflexivity
                  | crush H; reflexivity
                  | destruct t as [|w1 [|w2 [|acl [|dir [|]]]]]; try discriminate H;
                    apply toks_eqb_neq in Hn; crush H; fin_loc Hn]].
  apply orb_false_elim in Hn. destruct Hn as [H1 H2].
  destruct (exec d c1) as [d1|] eqn:E1; [|discriminate].
  rewrite (IHc2 _ _ lc H); [apply (IHc1 _ _ lc E1 H1)|].
  rewrite (exec_mode _ _ _ E1). exact H2.
Qed.

Lemma filter_neq_in (l : list toks) t r :
  r <> t -> (In r (filter (fun x => negb (toks_eqb t x)) l) <-> In r l).
Proof.
  intros H. rewrite filter_In. split; [tauto|]. intros Hin. split; [exact Hin|].
  destruct (toks_eqb t r) eqn:E; [apply toks_eqb_eq in E; congruence | reflexivity].
Qed.

Lemma exec_frame_route c : forall d d' r,
  exec d c = Ok d' -> names_route c r = false ->
  (In r (d_routes d') <-> In r (d_routes d)).
Proof.
  induction c; intros d d' r H Hn; cbn [exec] in H; cbn [names_route] in Hn.
  all: try discriminate H.
  all: try solve [crush H; reflexivity].
  all: try solve [destruct (d_mode d) eqn:Em; try discriminate H; crush H; reflexivity].
  all: try solve [apply toks_eqb_neq in Hn; crush H; cbn [d_routes set_routes];
                  first [apply filter_neq_in; exact Hn | rewrite in_app_iff; simpl; intuition congruence]].
  apply orb_false_elim in Hn. destruct Hn as [H1 H2].
  destruct (exec d c1) as [d1|] eqn:E1; [|discriminate].
  rewrite (IHc2 _ _ r H H2). apply (IHc1 _ _ r E1 H1).
Qed.

(* ---- scripts ---- *)
Record scope := { s_acls : list string; s_groups : list string; s_locs : list toks; s_routes : list toks }.

(* the command names nothing of the scope [u] *)
Definition avoids (u : scope) (m : mode) (c : cmd) : bool :=
  forallb (fun n => negb (names_acl m c n)) (s_acls u) &&
  forallb (fun n => negb (names_group m c n)) (s_groups u) &&
  forallb (fun l => negb (names_loc m c l)) (s_locs u) &&
  forallb (fun r => negb (names_route c r)) (s_routes u).

Fixpoint script_avoids (u : scope) (m : mode) (l : list cmd) : bool :=
  match l with
  | [] => true
  | c :: r => avoids u m c && script_avoids u (mode_after m c) r
  end.

Definition same_outside (u : scope) (d d' : dev) : Prop :=
  (forall n, In n (s_acls u) -> alookup (d_acls d') n = alookup (d_acls d) n) /\
  (forall n, In n (s_groups u) -> alookup (d_groups d') n = alookup (d_groups d) n) /\
  (forall l, In l (s_locs u) -> bind_of d' l = bind_of d l) /\
  (forall r, In r (s_routes u) -> (In r (d_routes d') <-> In r (d_routes d))).

Lemma forallb_negb_false {A} (f : A -> bool) l x :
  forallb (fun y => negb (f y)) l = true -> In x l -> f x = false.
Proof.
  intros H Hx. rewrite forallb_forall in H. specialize (H x Hx). apply negb_true_iff in H. exact H.
Qed.

Lemma exec_same_outside u d c d' :
  exec d c = Ok d' -> avoids u (d_mode d) c = true -> same_outside u d d'.
Proof.
  intros H Ha. unfold avoids in Ha. rewrite !andb_true_iff in Ha. destruct Ha as [[[A1 A2] A3] A4].
  split; [|split; [|split]].
  - intros n Hn. apply (exec_frame_acl _ _ _ _ H). apply (forallb_negb_false _ _ _ A1 Hn).
  - intros n Hn. apply (exec_frame_group _ _ _ _ H). apply (forallb_negb_false _ _ _ A2 Hn).
  - intros l Hl. apply (exec_frame_loc _ _ _ _ H). apply (forallb_negb_false _ _ _ A3 Hl).
  - intros r Hr. apply (exec_frame_route _ _ _ _ H).
    apply (forallb_negb_false (fun r => names_route c r) _ _ A4 Hr).
Qed.

Lemma same_outside_trans u d1 d2 d3 :
  same_outside u d1 d2 -> same_outside u d2 d3 -> same_outside u d1 d3.
Proof.
  intros (A1 & A2 & A3 & A4) (B1 & B2 & B3 & B4). split; [|split; [|split]].
  - intros n Hn. rewrite B1, A1; auto.
  - intros n Hn. rewrite B2, A2; auto.
  - intros l Hl. rewrite B3, A3; auto.
  - intros r Hr. rewrite B4, A4; tauto.
Qed.

Lemma same_outside_refl u d : same_outside u d d.
Proof. split; [|split; [|split]]; intros; tauto || reflexivity. Qed.

(* C07 on the device model: a script that never names an object outside
   Netspoc's scope leaves all such objects untouched after every prefix. *)
Theorem frame_every_prefix_proved :
  forall u l d k dk,
    script_avoids u (d_mode d) l = true ->
    exec_prefix k d l = Some dk ->
    same_outside u d dk.
Proof.
  intros u l. induction l as [|c r IH]; intros d k dk Ha Hk.
  - destruct k; simpl in Hk; injection Hk as <-; apply same_outside_refl.
  - destruct k; simpl in Hk; [injection Hk as <-; apply same_outside_refl|].
    simpl in Ha. apply andb_true_iff in Ha. destruct Ha as [Ha1 Ha2].
    destruct (exec d c) as [d1|w] eqn:E; [|discriminate].
    apply (same_outside_trans u d d1 dk).
    + apply (exec_same_outside _ _ _ _ E Ha1).
    + apply (IH d1 k dk); [|exact Hk]. rewrite (exec_mode _ _ _ E). exact Ha2.
Qed.
