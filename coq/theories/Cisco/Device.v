(* Cisco/Device.v — strict semantics of an ASA / IOS device for the commands
   the tool emits (ACL lines, object-groups, access-group / interface bindings,
   static routes, IOS numbered ACL entries and resequence).  A command is
   refused exactly when a device "that enforces these rules" (property C08)
   refuses it.  Executable; used by the theorems of the ACL cores and by the
   oracle that executes the implementation's own scripts. *)
From Coq Require Import List String Ascii Bool Arith NArith.
From NA Require Import Base.Str.
Import ListNotations.
Open Scope string_scope.

Definition toks := list string.

Fixpoint toks_eqb (a b : toks) : bool :=
  match a, b with
  | [], [] => true
  | x :: a', y :: b' => str_eqb x y && toks_eqb a' b'
  | _, _ => false
  end.

Definition all_digits (s : string) : bool :=
  match parse_dec s with Some _ => true | None => false end.

Definition log_word (w : string) : bool :=
  all_digits w ||
  existsb (str_eqb w) ["disable"; "default"; "emergencies"; "alerts"; "critical"; "errors";
                       "warnings"; "notifications"; "informational"; "debugging"].

(* An ACL entry without its `log ...` attribute (two entries that differ only
   in it cannot both be present). *)
Fixpoint strip_log (l : toks) : toks :=
  match l with
  | [] => []
  | w :: r =>
      if str_eqb w "log" || str_eqb w "log-input" then
        match r with
        | lv :: "interval" :: n :: r' => if log_word lv then strip_log r' else strip_log r
        | "interval" :: n :: r' => strip_log r'
        | lv :: r' => if log_word lv then strip_log r' else strip_log r
        | [] => []
        end
      else w :: strip_log r
  end.

Fixpoint group_refs (l : toks) : list string :=
  match l with
  | "object-group" :: n :: r => n :: group_refs r
  | _ :: r => group_refs r
  | [] => []
  end.

Inductive mode := MTop | MGroup (n : string) | MAcl (n : string) | MIntf (n : string).

Record dev := {
  d_acls : list (string * list (nat * toks));
  d_groups : list (string * (toks * list toks));
  d_binds : list (toks * string);
  d_routes : list toks;
  d_mode : mode }.

Inductive cmd :=
| CAclAdd (name : string) (line : option nat) (t : toks)
| CAclDel (name : string) (line : option nat) (t : toks)
| CAclClear (name : string)
| CGroup (typ : toks) (name : string)
| CNoGroup (typ : toks) (name : string)
| CSub (neg : bool) (t : toks)
| CBind (neg : bool) (acl : string) (loc : toks)
| CRoute (neg : bool) (t : toks)
| CEnterAcl (name : string)
| CEnterIntf (name : string)
| CReseq (name : string) (start step : nat)
| CExit
| CJoin (a b : cmd)
| COther (text : string).

(* Reasons for a refusal. *)
Inductive why := WMissingRef | WStillReferenced | WDuplicate | WWrongLine | WWrongMode
               | WUnknown | WDupRoute | WMissing.
Inductive res := Ok (d : dev) | Refuse (w : why).

Fixpoint alookup {A} (l : list (string * A)) (k : string) : option A :=
  match l with
  | [] => None
  | (k', v) :: r => if str_eqb k k' then Some v else alookup r k
  end.
Fixpoint aremove {A} (l : list (string * A)) (k : string) : list (string * A) :=
  match l with
  | [] => []
  | (k', v) :: r => if str_eqb k k' then aremove r k else (k', v) :: aremove r k
  end.
(* replace in place, or append *)
Fixpoint aset {A} (l : list (string * A)) (k : string) (v : A) : list (string * A) :=
  match l with
  | [] => [(k, v)]
  | (k', v') :: r => if str_eqb k k' then (k, v) :: r else (k', v') :: aset r k v
  end.

Definition set_mode (d : dev) (m : mode) : dev :=
  {| d_acls := d_acls d; d_groups := d_groups d; d_binds := d_binds d; d_routes := d_routes d; d_mode := m |}.
Definition set_acls (d : dev) (a : list (string * list (nat * toks))) (m : mode) : dev :=
  {| d_acls := a; d_groups := d_groups d; d_binds := d_binds d; d_routes := d_routes d; d_mode := m |}.
Definition set_groups (d : dev) (g : list (string * (toks * list toks))) (m : mode) : dev :=
  {| d_acls := d_acls d; d_groups := g; d_binds := d_binds d; d_routes := d_routes d; d_mode := m |}.
Definition set_binds (d : dev) (b : list (toks * string)) (m : mode) : dev :=
  {| d_acls := d_acls d; d_groups := d_groups d; d_binds := b; d_routes := d_routes d; d_mode := m |}.
Definition set_routes (d : dev) (r : list toks) (m : mode) : dev :=
  {| d_acls := d_acls d; d_groups := d_groups d; d_binds := d_binds d; d_routes := r; d_mode := m |}.

Definition refs_exist (d : dev) (t : toks) : bool :=
  forallb (fun n => match alookup (d_groups d) n with Some _ => true | None => false end) (group_refs t).

Definition acl_bound (d : dev) (n : string) : bool :=
  existsb (fun b => str_eqb (snd b) n) (d_binds d).
Definition group_used (d : dev) (g : string) : bool :=
  existsb (fun a => existsb (fun ln => existsb (str_eqb g) (group_refs (snd ln))) (snd a)) (d_acls d).

Definition has_dup (lines : list (nat * toks)) (t : toks) : bool :=
  existsb (fun ln => toks_eqb (strip_log (snd ln)) (strip_log t)) lines.

Fixpoint insert_nth {A} (i : nat) (x : A) (l : list A) : option (list A) :=
  match i, l with
  | O, _ => Some (x :: l)
  | S k, y :: r => match insert_nth k x r with Some r' => Some (y :: r') | None => None end
  | S _, [] => None
  end.
Fixpoint remove_nth {A} (i : nat) (l : list A) : list A :=
  match i, l with
  | _, [] => []
  | O, _ :: r => r
  | S k, y :: r => y :: remove_nth k r
  end.
Fixpoint remove_first_toks (t : toks) (l : list (nat * toks)) : option (list (nat * toks)) :=
  match l with
  | [] => None
  | x :: r => if toks_eqb (snd x) t then Some r
              else match remove_first_toks t r with Some r' => Some (x :: r') | None => None end
  end.

(* numbered insert for IOS: keeps the list sorted by number *)
Fixpoint insert_num (n : nat) (t : toks) (l : list (nat * toks)) : list (nat * toks) :=
  match l with
  | [] => [(n, t)]
  | x :: r => if Nat.ltb n (fst x) then (n, t) :: l else x :: insert_num n t r
  end.

Fixpoint renumber (start step : nat) (l : list (nat * toks)) : list (nat * toks) :=
  match l with
  | [] => []
  | x :: r => (start, snd x) :: renumber (start + step) step r
  end.

Definition route_key (t : toks) : toks :=
  (* route IF IP MASK GW | ipv6 route IF PREFIX GW | ip route [vrf V] IP MASK GW *)
  match t with
  | "route" :: _ :: ip :: mask :: _ => [ip; mask]
  | "ipv6" :: "route" :: _ :: pfx :: _ => [pfx]
  | "ip" :: "route" :: "vrf" :: v :: ip :: mask :: _ => ["vrf"; v; ip; mask]
  | "ip" :: "route" :: ip :: mask :: _ => [ip; mask]
  | _ => t
  end.

Definition is_asa_route (t : toks) : bool :=
  match t with "route" :: _ => true | "ipv6" :: "route" :: _ => true | _ => false end.

Fixpoint exec (d : dev) (c : cmd) {struct c} : res :=
  match c with
  | CAclAdd name line t =>
      if negb (refs_exist d t) then Refuse WMissingRef else
      let lines := match alookup (d_acls d) name with Some l => l | None => [] end in
      if has_dup lines t then Refuse WDuplicate else
      match line with
      | None => Ok (set_acls d (aset (d_acls d) name (lines ++ [(0, t)])%list) MTop)
      | Some k =>
          match k with
          | O => Refuse WWrongLine
          | S k' => match insert_nth k' (0, t) lines with
                    | Some l' => Ok (set_acls d (aset (d_acls d) name l') MTop)
                    | None => Refuse WWrongLine
                    end
          end
      end
  | CAclDel name line t =>
      match alookup (d_acls d) name with
      | None => Refuse WMissing
      | Some lines =>
          let r :=
            match line with
            | Some (S k') =>
                match nth_error lines k' with
                | Some ln => if toks_eqb (snd ln) t then Some (remove_nth k' lines) else None
                | None => None
                end
            | Some O => None
            | None => remove_first_toks t lines
            end in
          match r with
          | None => Refuse WWrongLine
          | Some [] => if acl_bound d name then Refuse WStillReferenced
                       else Ok (set_acls d (aremove (d_acls d) name) MTop)
          | Some l' => Ok (set_acls d (aset (d_acls d) name l') MTop)
          end
      end
  | CAclClear name =>
      match alookup (d_acls d) name with
      | None => Refuse WMissing
      | Some _ => if acl_bound d name then Refuse WStillReferenced
                  else Ok (set_acls d (aremove (d_acls d) name) MTop)
      end
  | CGroup typ name =>
      match alookup (d_groups d) name with
      | Some (ty, _) => if toks_eqb ty typ then Ok (set_mode d (MGroup name)) else Refuse WDuplicate
      | None => Ok (set_groups d (aset (d_groups d) name (typ, [])) (MGroup name))
      end
  | CNoGroup typ name =>
      match alookup (d_groups d) name with
      | None => Refuse WMissing
      | Some _ => if group_used d name then Refuse WStillReferenced
                  else Ok (set_groups d (aremove (d_groups d) name) MTop)
      end
  | CSub neg t =>
      match d_mode d with
      | MTop => Refuse WWrongMode
      | MGroup g =>
          match alookup (d_groups d) g with
          | None => Refuse WWrongMode
          | Some (ty, mem) =>
              if neg then
                if existsb (toks_eqb t) mem
                then Ok (set_groups d (aset (d_groups d) g (ty, filter (fun m => negb (toks_eqb t m)) mem)) (MGroup g))
                else Refuse WMissing
              else
                if existsb (toks_eqb t) mem then Refuse WDuplicate
                else Ok (set_groups d (aset (d_groups d) g (ty, (mem ++ [t])%list)) (MGroup g))
          end
      | MAcl a =>
          let lines := match alookup (d_acls d) a with Some l => l | None => [] end in
          match t with
          | num :: rest =>
              match parse_dec num with
              | Some n =>
                  let n := N.to_nat n in
                  if neg then
                    match rest with
                    | [] =>
                        if existsb (fun ln => Nat.eqb (fst ln) n) lines then
                          let l' := filter (fun ln => negb (Nat.eqb (fst ln) n)) lines in
                          (* IOS keeps a named ACL without entries (it then permits everything) *)
                          Ok (set_acls d (aset (d_acls d) a l') (MAcl a))
                        else Refuse WWrongLine
                    | _ => Refuse WUnknown
                    end
                  else
                    if existsb (fun ln => Nat.eqb (fst ln) n) lines then Refuse WWrongLine
                    else if has_dup lines rest then Refuse WDuplicate
                    else Ok (set_acls d (aset (d_acls d) a (insert_num n rest lines)) (MAcl a))
              | None =>
                  (* unnumbered entry: appended behind the last one *)
                  if neg then
                    match remove_first_toks t lines with
                    | Some l' => Ok (set_acls d (aset (d_acls d) a l') (MAcl a))
                    | None => Refuse WMissing
                    end
                  else if has_dup lines t then Refuse WDuplicate
                  else let last := fold_left (fun m ln => Nat.max m (fst ln)) lines 0 in
                       Ok (set_acls d (aset (d_acls d) a (lines ++ [(last + 10, t)])%list) (MAcl a))
              end
          | [] => Refuse WUnknown
          end
      | MIntf i =>
          match t with
          | [w1; w2; acl; dir] =>
              if negb (str_eqb w1 "ip" && str_eqb w2 "access-group") then Refuse WUnknown else
              if neg then
                if existsb (fun b => toks_eqb (fst b) [i; dir] && str_eqb (snd b) acl) (d_binds d)
                then Ok (set_binds d (filter (fun b => negb (toks_eqb (fst b) [i; dir])) (d_binds d)) (MIntf i))
                else Refuse WMissing
              else
                match alookup (d_acls d) acl with
                | None => Refuse WMissingRef
                | Some _ => Ok (set_binds d ((filter (fun b => negb (toks_eqb (fst b) [i; dir])) (d_binds d)) ++ [([i; dir], acl)])%list (MIntf i))
                end
          | _ => Refuse WUnknown
          end
      end
  | CBind neg acl loc =>
      if neg then
        if existsb (fun b => toks_eqb (fst b) loc && str_eqb (snd b) acl) (d_binds d)
        then Ok (set_binds d (filter (fun b => negb (toks_eqb (fst b) loc)) (d_binds d)) MTop)
        else Refuse WMissing
      else
        match alookup (d_acls d) acl with
        | None => Refuse WMissingRef
        | Some _ => Ok (set_binds d ((filter (fun b => negb (toks_eqb (fst b) loc)) (d_binds d)) ++ [(loc, acl)])%list MTop)
        end
  | CRoute neg t =>
      if neg then
        if existsb (toks_eqb t) (d_routes d)
        then Ok (set_routes d (filter (fun r => negb (toks_eqb t r)) (d_routes d)) MTop)
        else Refuse WMissing
      else
        if existsb (toks_eqb t) (d_routes d) then Refuse WDuplicate
        else if is_asa_route t && existsb (fun r => toks_eqb (route_key r) (route_key t)) (d_routes d)
        then Refuse WDupRoute
        else Ok (set_routes d (d_routes d ++ [t])%list MTop)
  | CEnterAcl name => Ok (set_mode d (MAcl name))
  | CEnterIntf name => Ok (set_mode d (MIntf name))
  | CReseq name start step =>
      match alookup (d_acls d) name with
      | None => Refuse WMissing
      | Some lines => Ok (set_acls d (aset (d_acls d) name (renumber start step lines)) MTop)
      end
  | CExit => match d_mode d with MTop => Refuse WWrongMode | _ => Ok (set_mode d MTop) end
  | CJoin a b => match exec d a with Ok d' => exec d' b | r => r end
  | COther _ => Refuse WUnknown
  end.

Fixpoint exec_all (d : dev) (l : list cmd) : res * nat :=
  match l with
  | [] => (Ok d, 0)
  | c :: r => match exec d c with
              | Ok d' => let '(x, k) := exec_all d' r in (x, S k)
              | Refuse w => (Refuse w, 0)
              end
  end.

(* State after the first k commands (for C10, C07, C14). *)
Fixpoint exec_prefix (k : nat) (d : dev) (l : list cmd) : option dev :=
  match k, l with
  | O, _ => Some d
  | S k', c :: r => match exec d c with Ok d' => exec_prefix k' d' r | Refuse _ => None end
  | S _, [] => Some d
  end.
