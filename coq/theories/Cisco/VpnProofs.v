(* Cisco/VpnProofs.v — the crypto oracle is equality of the expanded entries;
   the states the resume check starts from are the states the run passes through. *)
From Coq Require Import List String Bool Arith Lia.
From NA Require Import Base.Str Cisco.Vpn.
Import ListNotations.
Open Scope string_scope.

Lemma strs_eqb_eq a b : strs_eqb a b = true <-> a = b.
Proof.
  revert b; induction a as [|x a IH]; intros [|y b]; simpl; split; try congruence; auto.
  - intros H. apply andb_true_iff in H. destruct H as [H1 H2]. apply String.eqb_eq in H1. apply IH in H2. congruence.
  - intros H. injection H as -> ->. rewrite String.eqb_refl. apply IH. reflexivity.
Qed.
Theorem vequiv_is_equal_semantics a b : vequiv a b = true <-> vsem a = vsem b.
Proof. apply strs_eqb_eq. Qed.

(* a run that is accepted up to the end passes through exactly the prefix states *)
Lemma vrun_accepts_prefix cs : forall d i d', vrun d cs i = (d', 0, 0) -> forall k, k <= List.length cs ->
  exists dk, vprefix d cs k = dk /\ vrun dk (skipn k cs) (i + k) = (d', 0, 0).
Proof.
  induction cs as [|c r IH]; intros d i d' H k L.
  - simpl in L. assert (k = 0) by lia. subst k. exists d. split; [reflexivity|]. rewrite Nat.add_0_r. exact H.
  - destruct k as [|k]; [exists d; split; [reflexivity|]; rewrite Nat.add_0_r; exact H|].
    simpl in H. simpl. destruct (vexec d c) as [d1|w] eqn:E; [|discriminate].
    destruct (IH d1 (S i) d' H k ltac:(simpl in L; lia)) as (dk & P & R). exists dk. split; [exact P|].
    replace (i + S k) with (S i + k) by lia. exact R.
Qed.
Theorem vprefix_full_is_final d cs d' : vrun d cs 0 = (d', 0, 0) -> vprefix d cs (List.length cs) = d'.
Proof.
  intros H. destruct (vrun_accepts_prefix cs d 0 d' H (List.length cs) (Nat.le_refl _)) as (dk & P & R).
  rewrite skipn_all in R. simpl in R. injection R as ->. exact P.
Qed.
