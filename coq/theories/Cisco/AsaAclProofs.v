(* Cisco/AsaAclProofs.v — for every valid edit script between duplicate-free
   lists, executing the commands of diff_asa on the strict device turns the
   device list into the target list; every prefix state is duplicate-free. *)
From Coq Require Import List Arith Bool Lia.
From NA Require Import Cisco.AsaAcl.
Import ListNotations.

(* ---------- list facts ---------- *)
Lemma insert_at_app (l1 l2 : list entry) e :
  insert_at (length l1) e (l1 ++ l2) = Some (l1 ++ e :: l2).
Proof. induction l1 as [|x l1 IH]; simpl; [reflexivity | rewrite IH; reflexivity]. Qed.

Lemma nth_error_mid (l1 l2 : list entry) e : nth_error (l1 ++ e :: l2) (length l1) = Some e.
Proof. induction l1; simpl; auto. Qed.

Lemma remove_at_mid (l1 l2 : list entry) e : remove_at (length l1) (l1 ++ e :: l2) = l1 ++ l2.
Proof. induction l1 as [|x l1 IH]; simpl; [reflexivity | rewrite IH; reflexivity]. Qed.

Lemma entry_eqb_refl e : entry_eqb e e = true.
Proof. unfold entry_eqb. rewrite !Nat.eqb_refl. reflexivity. Qed.

Lemma tag_eqb_eq a b : tag_eqb a b = true <-> a = b.
Proof. destruct a, b; simpl; split; congruence. Qed.

(* ---------- device / count over concatenation ---------- *)
Lemma device_app a b : device (a ++ b) = device a ++ device b.
Proof. unfold device. rewrite filter_app, map_app. reflexivity. Qed.

Lemma count_here_len a : count_here a = length (device a).
Proof. unfold count_here, device. rewrite map_length. reflexivity. Qed.

Lemma count_here_app a b : count_here (a ++ b) = count_here a + count_here b.
Proof. rewrite !count_here_len, device_app, app_length. reflexivity. Qed.

Lemma device_cons_here t e s : device ((t, e, true) :: s) = e :: device s.
Proof. reflexivity. Qed.
Lemma device_cons_gone t e s : device ((t, e, false) :: s) = device s.
Proof. reflexivity. Qed.

Lemma has_body_false b l : has_body b l = false <-> (forall x, In x l -> body x <> b).
Proof.
  unfold has_body. split.
  - intros H x Hx E. assert (existsb (fun y => Nat.eqb (body y) b) l = true).
    { apply existsb_exists. exists x. split; [exact Hx | apply Nat.eqb_eq; exact E]. }
    congruence.
  - intros H. destruct (existsb _ l) eqn:E; [|reflexivity].
    apply existsb_exists in E. destruct E as [x [Hx E]]. apply Nat.eqb_eq in E. exfalso. exact (H x Hx E).
Qed.

(* ---------- flag flips are device commands ---------- *)
Lemma flip_add p e s t :
  (forall x, In x (device (p ++ s)) -> body x <> body e) ->
  dins (count_here p) e (device (p ++ (t, e, false) :: s)) = Some (device (p ++ (t, e, true) :: s)).
Proof.
  intros H. unfold dins. rewrite !device_app, device_cons_gone, device_cons_here.
  rewrite <- device_app.
  assert (Hb : has_body (body e) (device (p ++ s)) = false) by (apply has_body_false; exact H).
  rewrite Hb. rewrite device_app, count_here_len. apply insert_at_app.
Qed.

Lemma flip_drop p d s t :
  ddel (count_here p) d (device (p ++ (t, d, true) :: s)) = Some (device (p ++ (t, d, false) :: s)).
Proof.
  unfold ddel. rewrite !device_app, device_cons_gone, device_cons_here, count_here_len.
  rewrite nth_error_mid, entry_eqb_refl, remove_at_mid. reflexivity.
Qed.

(* ---------- find_drop ---------- *)
Lemma find_drop_some b l p d s :
  find_drop b l = Some (p, d, s) ->
  l = p ++ (Drop, d, true) :: s /\ body d = b /\
  (forall x, In x p -> ~ (it_tag x = Drop /\ it_here x = true /\ body (it_entry x) = b)).
Proof.
  revert p d s; induction l as [|x r IH]; intros p d s H; simpl in H; [discriminate|].
  destruct (tag_eqb (it_tag x) Drop && it_here x && Nat.eqb (body (it_entry x)) b) eqn:E.
  - injection H as <- <- <-. apply andb_true_iff in E. destruct E as [E E3].
    apply andb_true_iff in E. destruct E as [E1 E2].
    apply tag_eqb_eq in E1. apply Nat.eqb_eq in E3.
    destruct x as [[t e] h]. unfold it_tag, it_here, it_entry in *. simpl in *. subst.
    split; [reflexivity|]. split; [reflexivity|]. intros ? [].
  - destruct (find_drop b r) as [[[p' d'] s']|] eqn:F; [|discriminate].
    injection H as <- <- <-. destruct (IH _ _ _ eq_refl) as (E1 & E2 & E3).
    split; [simpl; rewrite E1; reflexivity|]. split; [exact E2|].
    intros y [<-|Hy]; [|apply E3; exact Hy].
    intros (A & B & Cc). rewrite A, B, Cc in E. simpl in E. rewrite Nat.eqb_refl in E. discriminate.
Qed.

Lemma find_drop_none b l :
  find_drop b l = None ->
  forall x, In x l -> ~ (it_tag x = Drop /\ it_here x = true /\ body (it_entry x) = b).
Proof.
  induction l as [|x r IH]; intros H y Hy; [destruct Hy|]. simpl in H.
  destruct (tag_eqb (it_tag x) Drop && it_here x && Nat.eqb (body (it_entry x)) b) eqn:E; [discriminate|].
  destruct (find_drop b r) as [[[p' d'] s']|] eqn:F; [discriminate|].
  destruct Hy as [<-|Hy]; [|apply IH; auto].
  intros (A & B & Cc). rewrite A, B, Cc in E. simpl in E. rewrite Nat.eqb_refl in E. discriminate.
Qed.

(* ---------- well-formedness of a state ---------- *)
Definition ents (f : tag -> bool) (st : list item) : list entry :=
  map it_entry (filter (fun x => f (it_tag x)) st).
Definition isA (t : tag) : bool := negb (tag_eqb t Add).
Definition isB (t : tag) : bool := negb (tag_eqb t Drop).

Definition bodies (l : list entry) : list nat := map body l.

(* flags are consistent with tags: Keep is always there *)
Definition keep_here (st : list item) : Prop :=
  forall x, In x st -> it_tag x = Keep -> it_here x = true.

Record wf (st : list item) : Prop := {
  wf_A : NoDup (bodies (ents isA st));
  wf_B : NoDup (bodies (ents isB st));
  wf_keep : keep_here st }.

Lemma ents_app f a b : ents f (a ++ b) = ents f a ++ ents f b.
Proof. unfold ents. rewrite filter_app, map_app. reflexivity. Qed.

(* changing a flag does not change the skeleton *)
Lemma ents_flag f p t e h h' s :
  ents f (p ++ (t, e, h) :: s) = ents f (p ++ (t, e, h') :: s).
Proof. rewrite !ents_app. unfold ents, it_tag. simpl. destruct (f t); reflexivity. Qed.

Lemma wf_flag p t e h h' s :
  t <> Keep -> wf (p ++ (t, e, h) :: s) -> wf (p ++ (t, e, h') :: s).
Proof.
  intros Ht [A B K]. constructor.
  - rewrite (ents_flag isA p t e h' h s). exact A.
  - rewrite (ents_flag isB p t e h' h s). exact B.
  - intros x Hx Hk. apply in_app_or in Hx. destruct Hx as [Hx|[<-|Hx]].
    + apply K; [apply in_or_app; left; exact Hx | exact Hk].
    + unfold it_tag in Hk. simpl in Hk. contradiction.
    + apply K; [apply in_or_app; right; right; exact Hx | exact Hk].
Qed.

(* Two different items of the same side with the same body contradict NoDup. *)
Lemma nodup_bodies_split f (l1 l2 : list item) x y :
  NoDup (bodies (ents f (l1 ++ x :: l2))) ->
  f (it_tag x) = true -> In y (l1 ++ l2) -> f (it_tag y) = true ->
  body (it_entry y) <> body (it_entry x).
Proof.
  intros H Hx Hy Hfy E.
  rewrite ents_app in H. unfold ents at 2 in H. simpl in H. rewrite Hx in H. simpl in H.
  unfold bodies in H. rewrite map_app in H. simpl in H.
  apply NoDup_remove_2 in H. apply H. apply in_or_app.
  apply in_app_or in Hy. destruct Hy as [Hy|Hy]; [left|right];
    rewrite <- E; apply in_map; unfold ents; apply in_map_iff; exists y;
    (split; [reflexivity | apply filter_In; split; assumption]).
Qed.

Lemma in_device st x : In x (device st) -> exists i, In i st /\ it_here i = true /\ it_entry i = x.
Proof.
  unfold device. intros H. apply in_map_iff in H. destruct H as [i [E Hi]].
  apply filter_In in Hi. exists i. tauto.
Qed.

(* ---------- pass 1 ---------- *)
Definition adds_done (st : list item) : Prop :=
  forall x, In x st -> it_tag x = Add -> it_here x = true.

Lemma adds_done_snoc pre x : adds_done pre -> (it_tag x = Add -> it_here x = true) -> adds_done (pre ++ [x]).
Proof.
  intros D H y Hy Ht. apply in_app_or in Hy. destruct Hy as [Hy|[<-|[]]]; [apply D; auto | apply H; exact Ht].
Qed.

Lemma pass1_spec :
  forall fuel suf pre,
    length suf <= fuel ->
    wf (pre ++ suf) -> adds_done pre ->
    dexec_all (device (pre ++ suf)) (fst (pass1 fuel pre suf)) = Some (device (snd (pass1 fuel pre suf))) /\
    wf (snd (pass1 fuel pre suf)) /\ adds_done (snd (pass1 fuel pre suf)) /\
    ents isA (snd (pass1 fuel pre suf)) = ents isA (pre ++ suf) /\
    ents isB (snd (pass1 fuel pre suf)) = ents isB (pre ++ suf).
Proof.
  induction fuel as [|f IH]; intros suf pre Hlen W D.
  - destruct suf; [|simpl in Hlen; lia]. cbn [pass1 fst snd]. rewrite !app_nil_r in *.
    split; [reflexivity|]. split; [exact W|]. split; [exact D|]. split; reflexivity.
  - destruct suf as [|x suf].
    + cbn [pass1 fst snd]. rewrite !app_nil_r in *.
      split; [reflexivity|]. split; [exact W|]. split; [exact D|]. split; reflexivity.
    + simpl in Hlen. assert (Hl : length suf <= f) by lia.
      cbn [pass1].
      destruct (tag_eqb (it_tag x) Add && negb (it_here x)) eqn:Ex.
      * apply andb_true_iff in Ex. destruct Ex as [E1 E2]. apply tag_eqb_eq in E1.
        apply negb_true_iff in E2. destruct x as [[t e] h]. unfold it_tag, it_here, it_entry in E1, E2.
        simpl in E1, E2. subst t h. cbn [it_entry fst snd].
        assert (HB : forall y, In y (pre ++ suf) -> isB (it_tag y) = true -> body (it_entry y) <> body e).
        { intros y Hy Hf. apply (nodup_bodies_split isB pre suf (Add, e, false) y (wf_B _ W)); auto. }
        destruct (find_drop (body e) pre) as [[[p1 d] p2]|] eqn:F1.
        -- (* the dropped entry lies above: it is moved down *)
           destruct (find_drop_some _ _ _ _ _ F1) as (Ep & Ed & _). subst pre.
           set (pre' := p1 ++ (Drop, d, false) :: p2).
           assert (W1 : wf (pre' ++ (Add, e, false) :: suf)).
           { unfold pre'. rewrite <- app_assoc. cbn [app]. apply (wf_flag p1 Drop d true false); [discriminate|].
             rewrite <- app_assoc in W. cbn [app] in W. exact W. }
           assert (W2 : wf ((pre' ++ [(Add, e, true)]) ++ suf)).
           { rewrite <- app_assoc. cbn [app]. apply (wf_flag pre' Add e false true); [discriminate | exact W1]. }
           assert (D2 : adds_done (pre' ++ [(Add, e, true)])).
           { apply adds_done_snoc; [|reflexivity]. intros y Hy Ht.
             unfold pre' in Hy. apply in_app_or in Hy. destruct Hy as [Hy|[<-|Hy]].
             - apply D; [apply in_or_app; left; exact Hy | exact Ht].
             - discriminate.
             - apply D; [apply in_or_app; right; right; exact Hy | exact Ht]. }
           destruct (IH _ _ Hl W2 D2) as (Ex & Wst & Dst & EA & EB).
           destruct (pass1 f (pre' ++ [(Add, e, true)]) suf) as [cs st] eqn:Ep. cbn [fst snd] in *.
           split.
           ++ cbn [dexec_all dexec].
              rewrite <- app_assoc. cbn [app].
              rewrite (flip_drop p1 d (p2 ++ (Add, e, false) :: suf) Drop).
              change (p1 ++ (Drop, d, false) :: p2 ++ (Add, e, false) :: suf)
                with (p1 ++ ((Drop, d, false) :: p2) ++ (Add, e, false) :: suf).
              rewrite app_assoc. fold pre'.
              rewrite (flip_add pre' e suf Add).
              ** rewrite <- app_assoc in Ex. cbn [app] in Ex. exact Ex.
              ** intros y Hy. apply in_device in Hy. destruct Hy as [i [Hi [Hh <-]]].
                 assert (Hi' : i = (Drop, d, false) \/ In i ((p1 ++ p2) ++ suf)).
                 { unfold pre' in Hi. apply in_app_or in Hi. destruct Hi as [Hi|Hi].
                   - apply in_app_or in Hi. destruct Hi as [Hi|[<-|Hi]]; [right|left; reflexivity|right].
                     + apply in_or_app; left; apply in_or_app; left; exact Hi.
                     + apply in_or_app; left; apply in_or_app; right; exact Hi.
                   - right. apply in_or_app; right; exact Hi. }
                 destruct Hi' as [->|Hi']; [unfold it_here in Hh; simpl in Hh; discriminate|].
                 destruct (it_tag i) eqn:Ti.
                 --- apply HB; [|unfold isB; rewrite Ti; reflexivity].
                     apply in_app_or in Hi'. destruct Hi' as [Hi'|Hi']; [|apply in_or_app; right; exact Hi'].
                     apply in_app_or in Hi'. destruct Hi' as [Hi'|Hi'];
                       apply in_or_app; left; apply in_or_app; [left | right; right]; exact Hi'.
                 --- intro Eb.
                     rewrite <- app_assoc in W. cbn [app] in W.
                     assert (Hne : In i (p1 ++ p2 ++ (Add, e, false) :: suf)).
                     { apply in_app_or in Hi'. destruct Hi' as [Hi'|Hi'].
                       - apply in_app_or in Hi'. destruct Hi' as [Hi'|Hi'];
                           [apply in_or_app; left; exact Hi' | apply in_or_app; right; apply in_or_app; left; exact Hi'].
                       - apply in_or_app; right; apply in_or_app; right; right; exact Hi'. }
                     apply (nodup_bodies_split isA p1 (p2 ++ (Add, e, false) :: suf) (Drop, d, true) i (wf_A _ W));
                       [reflexivity | exact Hne | unfold isA; rewrite Ti; reflexivity |].
                     unfold it_entry at 2. cbn [fst snd]. rewrite Eb, Ed. reflexivity.
                 --- apply HB; [|unfold isB; rewrite Ti; reflexivity].
                     apply in_app_or in Hi'. destruct Hi' as [Hi'|Hi']; [|apply in_or_app; right; exact Hi'].
                     apply in_app_or in Hi'. destruct Hi' as [Hi'|Hi'];
                       apply in_or_app; left; apply in_or_app; [left | right; right]; exact Hi'.
           ++ split; [exact Wst|]. split; [exact Dst|].
              rewrite EA, EB. unfold pre'. rewrite <- !app_assoc. cbn [app].
              split.
              ** rewrite (ents_flag isA p1 Drop d false true).
                 change (p1 ++ (Drop, d, true) :: p2 ++ (Add, e, true) :: suf)
                   with (p1 ++ ((Drop, d, true) :: p2) ++ (Add, e, true) :: suf).
                 rewrite app_assoc. rewrite (ents_flag isA _ Add e true false). rewrite <- app_assoc. reflexivity.
              ** rewrite (ents_flag isB p1 Drop d false true).
                 change (p1 ++ (Drop, d, true) :: p2 ++ (Add, e, true) :: suf)
                   with (p1 ++ ((Drop, d, true) :: p2) ++ (Add, e, true) :: suf).
                 rewrite app_assoc. rewrite (ents_flag isB _ Add e true false). rewrite <- app_assoc. reflexivity.
        -- pose proof (find_drop_none _ _ F1) as N1.
           destruct (find_drop (body e) suf) as [[[s1 d] s2]|] eqn:F2.
           ++ (* the dropped entry lies below: it is moved up *)
              destruct (find_drop_some _ _ _ _ _ F2) as (Es & Ed & N2). subst suf.
              set (suf'' := s1 ++ (Drop, d, false) :: s2).
              assert (W1 : wf (pre ++ (Add, e, false) :: suf'')).
              { unfold suf''.
                change (pre ++ (Add, e, false) :: s1 ++ (Drop, d, false) :: s2)
                  with (pre ++ ((Add, e, false) :: s1) ++ (Drop, d, false) :: s2).
                rewrite app_assoc. apply (wf_flag _ Drop d true false); [discriminate|].
                rewrite <- app_assoc. exact W. }
              assert (W2 : wf ((pre ++ [(Add, e, true)]) ++ suf'')).
              { rewrite <- app_assoc. cbn [app]. apply (wf_flag pre Add e false true); [discriminate | exact W1]. }
              assert (D2 : adds_done (pre ++ [(Add, e, true)])) by (apply adds_done_snoc; [exact D | reflexivity]).
              assert (Hl2 : length suf'' <= f).
              { unfold suf''. rewrite app_length in *. simpl in *. lia. }
              destruct (IH _ _ Hl2 W2 D2) as (Ex & Wst & Dst & EA & EB).
              destruct (pass1 f (pre ++ [(Add, e, true)]) suf'') as [cs st] eqn:Ep. cbn [fst snd] in *.
              split.
              ** cbn [dexec_all dexec].
                 change (pre ++ (Add, e, false) :: s1 ++ (Drop, d, true) :: s2)
                   with (pre ++ ((Add, e, false) :: s1) ++ (Drop, d, true) :: s2).
                 rewrite app_assoc.
                 assert (Hc : count_here pre + count_here s1 = count_here (pre ++ (Add, e, false) :: s1)).
                 { rewrite count_here_app. f_equal. }
                 rewrite Hc. rewrite (flip_drop _ d s2 Drop).
                 rewrite <- app_assoc. cbn [app]. fold suf''.
                 rewrite (flip_add pre e suf'' Add).
                 --- rewrite <- app_assoc in Ex. cbn [app] in Ex. exact Ex.
                 --- intros y Hy. apply in_device in Hy. destruct Hy as [i [Hi [Hh <-]]].
                     assert (Hi' : i = (Drop, d, false) \/ In i pre \/ In i s1 \/ In i s2).
                     { unfold suf'' in Hi. apply in_app_or in Hi. destruct Hi as [Hi|Hi]; [auto|].
                       apply in_app_or in Hi. destruct Hi as [Hi|[<-|Hi]]; auto. }
                     destruct Hi' as [->|Hi']; [unfold it_here in Hh; simpl in Hh; discriminate|].
                     destruct (it_tag i) eqn:Ti.
                     +++ apply HB; [|unfold isB; rewrite Ti; reflexivity].
                         destruct Hi' as [Hi'|[Hi'|Hi']]; [apply in_or_app; left; exact Hi' | |];
                           apply in_or_app; right; apply in_or_app; [left | right; right]; exact Hi'.
                     +++ intro Eb. destruct Hi' as [Hi'|[Hi'|Hi']].
                         *** apply (N1 i Hi'). auto.
                         *** apply (N2 i Hi'). auto.
                         *** (* a second dropped entry with d's body below d *)
                             change (pre ++ (Add, e, false) :: s1 ++ (Drop, d, true) :: s2)
                               with (pre ++ ((Add, e, false) :: s1) ++ (Drop, d, true) :: s2) in W.
                             rewrite app_assoc in W.
                             apply (nodup_bodies_split isA _ s2 (Drop, d, true) i (wf_A _ W));
                               [reflexivity | apply in_or_app; right; exact Hi' | unfold isA; rewrite Ti; reflexivity |].
                             unfold it_entry at 2. cbn [fst snd]. rewrite Eb, Ed. reflexivity.
                     +++ apply HB; [|unfold isB; rewrite Ti; reflexivity].
                         destruct Hi' as [Hi'|[Hi'|Hi']]; [apply in_or_app; left; exact Hi' | |];
                           apply in_or_app; right; apply in_or_app; [left | right; right]; exact Hi'.
              ** split; [exact Wst|]. split; [exact Dst|].
                 rewrite EA, EB. unfold suf''. rewrite <- !app_assoc. cbn [app].
                 split.
                 --- rewrite (ents_flag isA pre Add e true false).
                     change (pre ++ (Add, e, false) :: s1 ++ (Drop, d, false) :: s2)
                       with (pre ++ ((Add, e, false) :: s1) ++ (Drop, d, false) :: s2).
                     rewrite app_assoc. rewrite (ents_flag isA _ Drop d false true). rewrite <- app_assoc. reflexivity.
                 --- rewrite (ents_flag isB pre Add e true false).
                     change (pre ++ (Add, e, false) :: s1 ++ (Drop, d, false) :: s2)
                       with (pre ++ ((Add, e, false) :: s1) ++ (Drop, d, false) :: s2).
                     rewrite app_assoc. rewrite (ents_flag isB _ Drop d false true). rewrite <- app_assoc. reflexivity.
           ++ (* a plain insert *)
              pose proof (find_drop_none _ _ F2) as N2.
              assert (W2 : wf ((pre ++ [(Add, e, true)]) ++ suf)).
              { rewrite <- app_assoc. cbn [app]. apply (wf_flag pre Add e false true); [discriminate | exact W]. }
              assert (D2 : adds_done (pre ++ [(Add, e, true)])) by (apply adds_done_snoc; [exact D | reflexivity]).
              destruct (IH _ _ Hl W2 D2) as (Ex & Wst & Dst & EA & EB).
              destruct (pass1 f (pre ++ [(Add, e, true)]) suf) as [cs st] eqn:Ep. cbn [fst snd] in *.
              split.
              ** cbn [dexec_all dexec]. rewrite (flip_add pre e suf Add).
                 --- rewrite <- app_assoc in Ex. cbn [app] in Ex. exact Ex.
                 --- intros y Hy. apply in_device in Hy. destruct Hy as [i [Hi [Hh <-]]].
                     destruct (it_tag i) eqn:Ti.
                     +++ apply HB; [exact Hi | unfold isB; rewrite Ti; reflexivity].
                     +++ intro Eb. apply in_app_or in Hi. destruct Hi as [Hi|Hi];
                           [apply (N1 i Hi) | apply (N2 i Hi)]; auto.
                     +++ apply HB; [exact Hi | unfold isB; rewrite Ti; reflexivity].
              ** split; [exact Wst|]. split; [exact Dst|]. rewrite EA, EB. rewrite <- !app_assoc. cbn [app].
                 split; [apply (ents_flag isA pre Add e true false) | apply (ents_flag isB pre Add e true false)].
      * (* nothing to do for this element *)
        assert (W2 : wf ((pre ++ [x]) ++ suf)) by (rewrite <- app_assoc; exact W).
        assert (D2 : adds_done (pre ++ [x])).
        { apply adds_done_snoc; [exact D|]. intros Ht. rewrite Ht in Ex. simpl in Ex.
          destruct (it_here x); [reflexivity | discriminate]. }
        destruct (IH _ _ Hl W2 D2) as (Ex2 & Wst & Dst & EA & EB).
        destruct (pass1 f (pre ++ [x]) suf) as [cs st] eqn:Ep. cbn [fst snd] in *.
        rewrite <- app_assoc in Ex2, EA, EB. cbn [app] in Ex2, EA, EB. auto.
Qed.

(* ---------- pass 2 ---------- *)
Definition settle1 (x : item) : item :=
  if tag_eqb (it_tag x) Drop && it_here x then (Drop, it_entry x, false) else x.
Definition settle (st : list item) : list item := map settle1 st.

Lemma count_here_rev l : count_here (rev l) = count_here l.
Proof.
  induction l as [|x l IH]; [reflexivity|]. simpl rev. rewrite count_here_app, IH.
  unfold count_here. simpl. destruct (it_here x); simpl; lia.
Qed.

Lemma pass2_spec : forall rpre suf,
  dexec_all (device (rev rpre ++ suf)) (pass2 rpre suf) = Some (device (settle (rev rpre) ++ suf)).
Proof.
  induction rpre as [|x rpre IH]; intros suf; [reflexivity|].
  cbn [pass2 rev]. unfold settle. rewrite map_app. cbn [map]. fold (settle (rev rpre)).
  destruct (tag_eqb (it_tag x) Drop && it_here x) eqn:E.
  - apply andb_true_iff in E. destruct E as [E1 E2]. apply tag_eqb_eq in E1.
    destruct x as [[t e] h]. unfold it_tag, it_here, it_entry in *. simpl in E1, E2. subst t h.
    cbn [dexec_all dexec it_entry fst snd].
    rewrite <- app_assoc. cbn [app].
    rewrite <- count_here_rev. rewrite (flip_drop (rev rpre) e suf Drop).
    rewrite IH. unfold settle1, it_tag, it_here, it_entry. cbn. rewrite <- app_assoc. reflexivity.
  - rewrite <- app_assoc. cbn [app]. rewrite IH. unfold settle1. rewrite E.
    rewrite <- app_assoc. reflexivity.
Qed.

Lemma device_settled st :
  keep_here st -> adds_done st -> device (settle st) = ents isB st.
Proof.
  induction st as [|x st IH]; intros K D; [reflexivity|].
  assert (K' : keep_here st) by (intros y Hy; apply K; right; exact Hy).
  assert (D' : adds_done st) by (intros y Hy; apply D; right; exact Hy).
  specialize (IH K' D').
  change (settle (x :: st)) with (settle1 x :: settle st).
  destruct x as [[t e] h].
  assert (Hk : t = Keep -> h = true) by (intros ->; apply (K (Keep, e, h)); [left; reflexivity | reflexivity]).
  assert (Ha : t = Add -> h = true) by (intros ->; apply (D (Add, e, h)); [left; reflexivity | reflexivity]).
  unfold device, ents in *. unfold settle1, it_tag, it_here, it_entry in *. cbn [fst snd].
  destruct t; cbn [tag_eqb andb].
  - rewrite (Hk eq_refl). cbn. rewrite IH. reflexivity.
  - destruct h; cbn; exact IH.
  - rewrite (Ha eq_refl). cbn. rewrite IH. reflexivity.
Qed.

(* ---------- the initial state ---------- *)
Lemma device_init m : device (init_state m) = listA m.
Proof.
  unfold device, init_state, listA. induction m as [|[t e] m IH]; [reflexivity|].
  cbn. destruct t; cbn; rewrite ?IH; reflexivity.
Qed.
Lemma entsA_init m : ents isA (init_state m) = listA m.
Proof.
  unfold ents, init_state, listA. induction m as [|[t e] m IH]; [reflexivity|].
  cbn. destruct t; cbn; rewrite ?IH; reflexivity.
Qed.
Lemma entsB_init m : ents isB (init_state m) = listB m.
Proof.
  unfold ents, init_state, listB. induction m as [|[t e] m IH]; [reflexivity|].
  cbn. destruct t; cbn; rewrite ?IH; reflexivity.
Qed.
Lemma keep_init m : keep_here (init_state m).
Proof.
  intros x Hx Ht. unfold init_state in Hx. apply in_map_iff in Hx. destruct Hx as [[t e] [<- _]].
  unfold it_tag in Ht. simpl in Ht. subst t. reflexivity.
Qed.

Lemma dexec_all_app l cs1 cs2 l1 :
  dexec_all l cs1 = Some l1 -> dexec_all l (cs1 ++ cs2) = dexec_all l1 cs2.
Proof.
  revert l; induction cs1 as [|c cs1 IH]; simpl; intros l H; [congruence|].
  destruct (dexec l c); [apply IH; exact H | discriminate].
Qed.

(* Main theorem of the ASA line core: for every valid edit script between
   lists without repeated bodies, the emitted commands are all accepted by the
   strict device and turn the device list into the target list. *)
Theorem asa_acl_lines_conv_proved :
  forall m, NoDup (bodies (listA m)) -> NoDup (bodies (listB m)) ->
    dexec_all (listA m) (diff_asa m) = Some (listB m).
Proof.
  intros m HA HB. unfold diff_asa.
  assert (W : wf ([] ++ init_state m)).
  { cbn [app]. constructor; [rewrite entsA_init; exact HA | rewrite entsB_init; exact HB | apply keep_init]. }
  assert (Hl : length (init_state m) <= length m) by (unfold init_state; rewrite map_length; lia).
  destruct (pass1_spec (length m) (init_state m) [] Hl W) as (Ex & Wst & Dst & EA & EB).
  { intros x []. }
  destruct (pass1 (length m) [] (init_state m)) as [cs st] eqn:Ep. cbn [fst snd app] in *.
  rewrite device_init in Ex.
  rewrite (dexec_all_app _ _ _ _ Ex).
  pose proof (pass2_spec (rev st) []) as P2. rewrite rev_involutive, !app_nil_r in P2.
  rewrite P2. rewrite device_settled; [|apply (wf_keep _ Wst) | exact Dst].
  rewrite EB, entsB_init. reflexivity.
Qed.

(* The strict device keeps entries free of repeated bodies: every state reached
   by accepted commands (including the state between the halves of a move) is
   again a legitimate starting point. *)
Lemma insert_at_in k e l l' x : insert_at k e l = Some l' -> In x l' -> x = e \/ In x l.
Proof.
  revert l l'; induction k as [|k IH]; intros l l' H Hx; simpl in H.
  - injection H as <-. destruct Hx; auto.
  - destruct l as [|y r]; [discriminate|]. destruct (insert_at k e r) as [r'|] eqn:E; [|discriminate].
    injection H as <-. destruct Hx as [<-|Hx]; [right; left; reflexivity|].
    destruct (IH _ _ E Hx); [left | right; right]; assumption.
Qed.

Lemma insert_at_nodup k e l l' :
  insert_at k e l = Some l' -> NoDup (bodies l) -> ~ In (body e) (bodies l) -> NoDup (bodies l').
Proof.
  revert l l'; induction k as [|k IH]; intros l l' H N F; simpl in H.
  - injection H as <-. simpl. constructor; assumption.
  - destruct l as [|y r]; [discriminate|]. destruct (insert_at k e r) as [r'|] eqn:E; [|discriminate].
    injection H as <-. simpl in *. inversion N as [|a b Hn Hr]; subst. constructor.
    + intros Hin. unfold bodies in Hin. apply in_map_iff in Hin. destruct Hin as [z [Ez Hz]].
      destruct (insert_at_in _ _ _ _ _ E Hz) as [->|Hz'].
      * apply F. left. symmetry. exact Ez.
      * apply Hn. rewrite <- Ez. apply in_map. exact Hz'.
    + apply (IH _ _ E Hr). intro X. apply F. right. exact X.
Qed.

Lemma remove_at_nodup k l : NoDup (bodies l) -> NoDup (bodies (remove_at k l)).
Proof.
  revert k; induction l as [|y r IH]; intros k N; [destruct k; exact N|].
  destruct k; simpl; inversion N as [|a b Hn Hr]; subst; [exact Hr|].
  constructor; [|apply IH; exact Hr].
  intros Hin. apply Hn. clear -Hin. revert k Hin. induction r as [|z r IHr]; intros k Hin; [destruct k; exact Hin|].
  destruct k; simpl in *; [right; exact Hin|]. destruct Hin as [H|H]; [left; exact H | right; eapply IHr; exact H].
Qed.

Lemma dins_nodup k e l l' : dins k e l = Some l' -> NoDup (bodies l) -> NoDup (bodies l').
Proof.
  unfold dins. destruct (has_body (body e) l) eqn:E; [discriminate|]. intros H N.
  apply (insert_at_nodup _ _ _ _ H N). intros Hin. unfold bodies in Hin. apply in_map_iff in Hin.
  destruct Hin as [z [Ez Hz]]. rewrite has_body_false in E. exact (E z Hz Ez).
Qed.

Lemma ddel_nodup k e l l' : ddel k e l = Some l' -> NoDup (bodies l) -> NoDup (bodies l').
Proof.
  unfold ddel. destruct (nth_error l k); [|discriminate]. destruct (entry_eqb _ _); [|discriminate].
  intros H N. injection H as <-. apply remove_at_nodup. exact N.
Qed.

Theorem dexec_keeps_nodup_proved l c l' :
  dexec l c = Some l' -> NoDup (bodies l) -> NoDup (bodies l').
Proof.
  destruct c as [k e|k e|kd d ki e]; simpl.
  - apply dins_nodup.
  - apply ddel_nodup.
  - destruct (ddel kd d l) as [l1|] eqn:E; [|discriminate]. intros H N.
    apply (dins_nodup _ _ _ _ H). apply (ddel_nodup _ _ _ _ E N).
Qed.

Fixpoint dexec_prefix (k : nat) (l : list entry) (cs : list acmd) : option (list entry) :=
  match k, cs with
  | O, _ => Some l
  | S k', c :: r => match dexec l c with Some l' => dexec_prefix k' l' r | None => None end
  | S _, [] => Some l
  end.

Lemma dexec_prefix_nodup k : forall l cs lk,
  dexec_prefix k l cs = Some lk -> NoDup (bodies l) -> NoDup (bodies lk).
Proof.
  induction k as [|k IH]; intros l cs lk H N; simpl in H; [injection H as <-; exact N|].
  destruct cs as [|c r]; [injection H as <-; exact N|].
  destruct (dexec l c) as [l'|] eqn:E; [|discriminate].
  apply (IH _ _ _ H). apply (dexec_keeps_nodup_proved _ _ _ E N).
Qed.

(* C10 for the line core: cut the script after any number of commands; any
   valid edit script from the state reached to the same target converges. *)
Theorem asa_acl_resume_proved :
  forall m k lk m',
    NoDup (bodies (listA m)) -> NoDup (bodies (listB m)) ->
    dexec_prefix k (listA m) (diff_asa m) = Some lk ->
    listA m' = lk -> listB m' = listB m ->
    dexec_all lk (diff_asa m') = Some (listB m).
Proof.
  intros m k lk m' HA HB Hk EA EB.
  rewrite <- EA, <- EB. apply asa_acl_lines_conv_proved.
  - rewrite EA. apply (dexec_prefix_nodup _ _ _ _ Hk HA).
  - rewrite EB. exact HB.
Qed.

(* Non-vacuity: a script with a move up, a move down with a log flip, an insert and a delete. *)
Example asa_example :
  let m := [(Add, (5, 0)); (Keep, (1, 0)); (Drop, (2, 1)); (Keep, (3, 0)); (Add, (2, 0));
            (Drop, (4, 0)); (Add, (6, 2)); (Drop, (5, 0))] in
  NoDup (bodies (listA m)) /\ NoDup (bodies (listB m)) /\
  diff_asa m = [Mov 4 (5, 0) 0 (5, 0); Mov 2 (2, 1) 3 (2, 0); Ins 5 (6, 2); Del 4 (4, 0)] /\
  dexec_all (listA m) (diff_asa m) = Some (listB m).
Proof.
  cbv zeta. split; [|split; [|split]].
  - vm_compute. repeat constructor; simpl; intuition discriminate.
  - vm_compute. repeat constructor; simpl; intuition discriminate.
  - vm_compute. reflexivity.
  - vm_compute. reflexivity.
Qed.

Lemma dexec_all_prefix l cs r :
  dexec_all l cs = Some r -> forall k, exists lk, dexec_prefix k l cs = Some lk.
Proof.
  revert l; induction cs as [|c cs IH]; intros l H k.
  - destruct k; simpl; eauto.
  - destruct k; simpl; [eauto|]. simpl in H. destruct (dexec l c) as [l'|]; [|discriminate].
    apply (IH _ H).
Qed.

(* C08 for the line core: every command is accepted at the moment it is sent. *)
Theorem asa_acl_every_prefix_accepted_proved :
  forall m k, NoDup (bodies (listA m)) -> NoDup (bodies (listB m)) ->
    exists lk, dexec_prefix k (listA m) (diff_asa m) = Some lk /\ NoDup (bodies lk).
Proof.
  intros m k HA HB.
  destruct (dexec_all_prefix _ _ _ (asa_acl_lines_conv_proved m HA HB) k) as [lk E].
  exists lk. split; [exact E | apply (dexec_prefix_nodup _ _ _ _ E HA)].
Qed.

(* Nothing is emitted iff the lists are equal (idempotence of the core). *)
Theorem asa_acl_unchanged_iff_proved :
  forall m, NoDup (bodies (listA m)) -> NoDup (bodies (listB m)) ->
    (diff_asa m = [] -> listA m = listB m).
Proof.
  intros m HA HB H. pose proof (asa_acl_lines_conv_proved m HA HB) as E.
  rewrite H in E. simpl in E. congruence.
Qed.
