(* Cisco/TunnelNames.v — "equivalent up to generated object names": the oracle of Cisco/Tunnel.v does not depend on
   the names of ACLs, address pools and group-policies.  Renaming them injectively, together with the references to
   them, leaves the semantics unchanged, provided every reference names an existing object. *)
From Coq Require Import List String Bool Arith.
From NA Require Import Base.Str Cisco.Vpn.
From NA Require Import Cisco.Tunnel.
Import ListNotations.
Open Scope string_scope.

(* every reference names an object that exists (the strict device never enters another one: TunnelKnown.v) *)
Definition refs_known (d : tdev) : Prop :=
  forall b l k n, In b (all_blocks d) -> In l b -> line_ref l = Some (k, n) -> exists_obj k n d = true.
Definition refs_knownb (d : tdev) : bool :=
  forallb (fun b : block => forallb (fun l => match line_ref l with Some (k, n) => exists_obj k n d | None => true end) b) (all_blocks d).
Lemma refs_knownb_sound d : refs_knownb d = true -> refs_known d.
Proof.
  unfold refs_knownb, refs_known. intros H b l k n Hb Hl R.
  rewrite forallb_forall in H. specialize (H b Hb). rewrite forallb_forall in H. specialize (H l Hl).
  rewrite R in H. exact H.
Qed.

Section Rename.
Variables ra rp rg : string -> string.
Hypothesis ra_inj : forall a b, ra a = ra b -> a = b.
Hypothesis rp_inj : forall a b, rp a = rp b -> a = b.
Hypothesis rg_inj : forall a b, rg a = rg b -> a = b.

(* references to ACLs and pools (the lines of group-policies and users) *)
Definition rename_leaf (l : words) : words :=
  match line_ref l, l with
  | Some (RAcl, _), [a; b; c] => [a; b; ra c]
  | Some (RPool, _), [a; b; c] => [a; b; rp c]
  | _, _ => l
  end.
(* ... and to group-policies (the lines of tunnel-group sections and users) *)
Definition rename_line (l : words) : words :=
  match line_ref l, l with
  | Some (RGp, _), [a; b] => [a; rg b]
  | _, _ => rename_leaf l
  end.
Definition rename_all (d : tdev) : tdev :=
  tupd d (map (fun a : string * list words => (ra (fst a), snd a)) (td_acls d))
       (map (fun p : string * words => (rp (fst p), snd p)) (td_pools d))
       (map (fun g : string * block => (rg (fst g), map rename_leaf (snd g))) (td_gps d))
       (map (fun t : string * (string * list (string * block)) =>
               (fst t, (fst (snd t), map (fun s : string * block => (fst s, map rename_line (snd s))) (snd (snd t))))) (td_tgs d))
       (map (fun u : string * block => (fst u, map rename_line (snd u))) (td_users d))
       (td_mode d).

Lemma vlookup_rename {A B} (rho : string -> string) (f : A -> B) :
  (forall a b, rho a = rho b -> a = b) ->
  forall g (l : list (string * A)),
  vlookup (rho g) (map (fun x : string * A => (rho (fst x), f (snd x))) l) = option_map f (vlookup g l).
Proof.
  intros inj g l. induction l as [|[k v] l IH]; [reflexivity|]. cbn [map vlookup fst snd].
  destruct (String.eqb g k) eqn:E.
  - apply String.eqb_eq in E. subst k. rewrite String.eqb_refl. reflexivity.
  - assert (E' : String.eqb (rho g) (rho k) = false).
    { apply String.eqb_neq. intros H. apply inj in H. apply String.eqb_neq in E. contradiction. }
    rewrite E'. exact IH.
Qed.

(* shapes of the lines that refer to something *)
Lemma line_ref_shape l k n : line_ref l = Some (k, n) ->
  match k with
  | RGp => exists a, l = [a; n]
  | _ => exists a b, l = [a; b; n]
  end.
Proof.
  unfold line_ref. destruct l as [|a [|b [|c [|x r]]]]; try discriminate.
  - destruct (String.eqb a "default-group-policy"); [intros H; injection H as <- <-; exists a; reflexivity|].
    destruct (String.eqb a "vpn-group-policy"); [intros H; injection H as <- <-; exists a; reflexivity | discriminate].
  - destruct (negb (String.eqb b "value")); [discriminate|].
    destruct (String.eqb a "vpn-filter"); [intros H; injection H as <- <-; exists a, b; reflexivity|].
    destruct (String.eqb a "split-tunnel-network-list"); [intros H; injection H as <- <-; exists a, b; reflexivity|].
    destruct (String.eqb a "address-pools"); [intros H; injection H as <- <-; exists a, b; reflexivity | discriminate].
Qed.
(* the kind of a reference depends on the words in front of the name only *)
Lemma line_ref3 a b c c' k : line_ref [a; b; c] = Some (k, c) -> line_ref [a; b; c'] = Some (k, c').
Proof.
  unfold line_ref. destruct (negb (String.eqb b "value")); [discriminate|].
  destruct (String.eqb a "vpn-filter"); [intros H; injection H as <-; reflexivity|].
  destruct (String.eqb a "split-tunnel-network-list"); [intros H; injection H as <-; reflexivity|].
  destruct (String.eqb a "address-pools"); [intros H; injection H as <-; reflexivity | discriminate].
Qed.
Lemma line_ref2 a b b' k : line_ref [a; b] = Some (k, b) -> line_ref [a; b'] = Some (k, b').
Proof.
  unfold line_ref. destruct (String.eqb a "default-group-policy"); [intros H; injection H as <-; reflexivity|].
  destruct (String.eqb a "vpn-group-policy"); [intros H; injection H as <-; reflexivity | discriminate].
Qed.

Lemma expand_leaf_rename d l :
  (forall k n, line_ref l = Some (k, n) -> exists_obj k n d = true) ->
  expand_leaf (rename_all d) (rename_leaf l) = expand_leaf d l.
Proof.
  intros K. unfold rename_leaf, expand_leaf.
  destruct (line_ref l) as [[[| |] n]|] eqn:R.
  - destruct (line_ref_shape l RAcl n R) as (a & b & ->).
    rewrite (line_ref3 a b n (ra n) RAcl R). cbn [key_of rename_all tupd td_acls].
    rewrite (vlookup_rename ra (fun x => x) ra_inj).
    specialize (K RAcl n eq_refl). cbn [exists_obj] in K. unfold vhas in K.
    destruct (vlookup n (td_acls d)); [reflexivity | discriminate].
  - destruct (line_ref_shape l RPool n R) as (a & b & ->).
    rewrite (line_ref3 a b n (rp n) RPool R). cbn [key_of rename_all tupd td_pools].
    rewrite (vlookup_rename rp (fun x => x) rp_inj).
    specialize (K RPool n eq_refl). cbn [exists_obj] in K. unfold vhas in K.
    destruct (vlookup n (td_pools d)); [reflexivity | discriminate].
  - destruct l as [|a [|b [|c r]]]; rewrite R; reflexivity.
  - destruct l as [|a [|b [|c r]]]; rewrite R; reflexivity.
Qed.

Lemma gp_sem_rename d g :
  vhas g (td_gps d) = true ->
  (forall b l k n, vlookup g (td_gps d) = Some b -> In l b -> line_ref l = Some (k, n) -> exists_obj k n d = true) ->
  gp_sem (rename_all d) (rg g) = gp_sem d g.
Proof.
  unfold vhas. destruct (vlookup g (td_gps d)) as [b|] eqn:L; [|discriminate]. intros _ K.
  pose proof (@vlookup_rename block block rg (map rename_leaf) rg_inj g (td_gps d)) as E. rewrite L in E. cbn [option_map] in E.
  assert (E2 : vlookup (rg g) (td_gps (rename_all d)) = Some (map rename_leaf b)) by exact E.
  unfold gp_sem. rewrite E2, L. rewrite map_map. do 2 f_equal. apply map_ext_in. intros l Hl.
  apply expand_leaf_rename. intros k n R. exact (K b l k n eq_refl Hl R).
Qed.

Lemma In_gp_block d g b : vlookup g (td_gps d) = Some b -> In b (all_blocks d).
Proof.
  intros L. unfold all_blocks. apply in_or_app. left. apply in_map_iff. exists (g, b). split; [reflexivity|].
  revert L. generalize (td_gps d). intros l. induction l as [|[k v] l IH]; cbn [vlookup]; [discriminate|].
  destruct (String.eqb g k) eqn:E; [intros H; injection H as ->; apply String.eqb_eq in E; subst; left; reflexivity | intros H; right; exact (IH H)].
Qed.

Lemma expand_line_rename d l : refs_known d ->
  (forall k n, line_ref l = Some (k, n) -> exists_obj k n d = true) ->
  expand_line (rename_all d) (rename_line l) = expand_line d l.
Proof.
  intros RK K. unfold rename_line, expand_line.
  destruct (line_ref l) as [[[| |] n]|] eqn:R.
  - (* ACL reference: rename_leaf keeps the kind *)
    destruct (line_ref_shape l RAcl n R) as (a & b & ->).
    assert (E : rename_leaf [a; b; n] = [a; b; ra n]) by (unfold rename_leaf; rewrite R; reflexivity).
    rewrite E, (line_ref3 a b n (ra n) RAcl R). rewrite <- E. apply expand_leaf_rename.
    intros k0 n0 R0. apply K. rewrite <- R. exact R0.
  - destruct (line_ref_shape l RPool n R) as (a & b & ->).
    assert (E : rename_leaf [a; b; n] = [a; b; rp n]) by (unfold rename_leaf; rewrite R; reflexivity).
    rewrite E, (line_ref3 a b n (rp n) RPool R). rewrite <- E. apply expand_leaf_rename.
    intros k0 n0 R0. apply K. rewrite <- R. exact R0.
  - destruct (line_ref_shape l RGp n R) as (a & ->).
    rewrite (line_ref2 a n (rg n) RGp R). cbn [key_of].
    rewrite (gp_sem_rename d n (K RGp n eq_refl)); [reflexivity|].
    intros b l k m L Hl Rl. exact (RK b l k m (In_gp_block d n b L) Hl Rl).
  - assert (E : rename_leaf l = l) by (unfold rename_leaf; rewrite R; destruct l as [|a [|b [|c r]]]; reflexivity).
    rewrite E, R. unfold expand_leaf. rewrite R. reflexivity.
Qed.

Lemma flat_map_map' {A B C} (g : A -> B) (f : B -> list C) l : flat_map f (map g l) = flat_map (fun x => f (g x)) l.
Proof. induction l as [|x l IH]; [reflexivity|]. cbn [map flat_map]. rewrite IH. reflexivity. Qed.
Lemma flat_map_ext_in' {A B} (f g : A -> list B) l : (forall x, In x l -> f x = g x) -> flat_map f l = flat_map g l.
Proof.
  induction l as [|x l IH]; intros H; [reflexivity|]. cbn [flat_map]. rewrite (H x (or_introl eq_refl)).
  rewrite IH; [reflexivity|]. intros y Hy. apply H. right. exact Hy.
Qed.
Lemma map_map_ext_in {A B C} (f : A -> B) (g : B -> C) (h : A -> C) l :
  (forall x, In x l -> g (f x) = h x) -> map g (map f l) = map h l.
Proof. intros H. rewrite map_map. apply map_ext_in. exact H. Qed.

Theorem tsem_independent_of_names d : refs_known d -> tsem (rename_all d) = tsem d.
Proof.
  intros K. unfold tsem. f_equal. f_equal.
  - cbn [rename_all tupd td_tgs]. apply map_map_ext_in. intros [t [ty secs]] Ht.
    unfold tg_sem. cbn [fst snd]. do 6 f_equal.
    rewrite flat_map_map'. apply flat_map_ext_in'. intros [sec b] Hs. cbn [fst snd].
    rewrite map_map. apply map_ext_in. intros l Hl. f_equal. f_equal.
    apply expand_line_rename; [exact K|]. intros k n R.
    apply (K b l k n); [|exact Hl|exact R].
    unfold all_blocks. apply in_or_app. right. apply in_or_app. left.
    apply in_flat_map. exists (t, (ty, secs)). split; [exact Ht|]. cbn [snd].
    apply in_map_iff. exists (sec, b). split; [reflexivity | exact Hs].
  - cbn [rename_all tupd td_users]. apply map_map_ext_in. intros [u b] Hu.
    unfold user_sem. cbn [fst snd]. do 5 f_equal.
    rewrite map_map. apply map_ext_in. intros l Hl.
    apply expand_line_rename; [exact K|]. intros k n R.
    apply (K b l k n); [|exact Hl|exact R].
    unfold all_blocks. apply in_or_app. right. apply in_or_app. right.
    apply in_map_iff. exists (u, b). split; [reflexivity | exact Hu].
Qed.

Corollary tequiv_up_to_names a b : refs_known a -> tequiv (rename_all a) b = tequiv a b.
Proof. intros K. unfold tequiv. rewrite (tsem_independent_of_names a K). reflexivity. Qed.
End Rename.

(* non-vacuity: a user and a tunnel-group share a group-policy with a filter and a pool *)
Example rename_example :
  let d := {| td_acls := [("f", [["extended"; "permit"; "ip"; "any4"; "any4"]])]; td_pools := [("p", ["10.1.1.0-10.1.1.7"; "mask"; "255.255.255.248"])];
              td_gps := [("G", [["vpn-filter"; "value"; "f"]; ["address-pools"; "value"; "p"]; ["vpn-idle-timeout"; "60"]])];
              td_tgs := [("10.1.1.1", ("ipsec-l2l", [("general-attributes", [["default-group-policy"; "G"]])]))];
              td_users := [("u@x", [["vpn-group-policy"; "G"]; ["vpn-filter"; "value"; "f"]])]; td_mode := TTop |} in
  let r := fun s => s ++ "-DRC-0" in
  refs_knownb d = true /\ tsem (rename_all r r r d) = tsem d /\ td_gps (rename_all r r r d) <> td_gps d.
Proof. intros d r. split; [|split]; vm_compute; [reflexivity | reflexivity | discriminate]. Qed.
