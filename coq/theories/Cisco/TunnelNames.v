(* Cisco/TunnelNames.v — "equivalent up to generated object names": the oracle of Cisco/Tunnel.v does not
   depend on the names of the group-policies.  Renaming them injectively, together with the references to them
   in tunnel-group sections and users, leaves the semantics unchanged. *)
From Coq Require Import List String Bool Arith.
From NA Require Import Base.Str Cisco.Vpn.
From NA Require Import Cisco.Tunnel.
Import ListNotations.
Open Scope string_scope.

Section Rename.
Variable rho : string -> string.
Hypothesis rho_inj : forall a b, rho a = rho b -> a = b.

Definition rename_line (l : words) : words :=
  match line_ref l with
  | Some (RGp, g) => [key_of l; rho g]
  | _ => l
  end.
Definition rename_gps (d : tdev) : tdev :=
  tupd d (td_acls d) (td_pools d)
       (map (fun g : string * block => (rho (fst g), snd g)) (td_gps d))
       (map (fun t : string * (string * list (string * block)) =>
               (fst t, (fst (snd t), map (fun s : string * block => (fst s, map rename_line (snd s))) (snd (snd t))))) (td_tgs d))
       (map (fun u : string * block => (fst u, map rename_line (snd u))) (td_users d))
       (td_mode d).

Lemma vlookup_rename {A} g (l : list (string * A)) :
  vlookup (rho g) (map (fun x : string * A => (rho (fst x), snd x)) l) = vlookup g l.
Proof.
  induction l as [|[k v] l IH]; [reflexivity|]. cbn [map vlookup fst snd].
  destruct (String.eqb g k) eqn:E.
  - apply String.eqb_eq in E. subst k. rewrite String.eqb_refl. reflexivity.
  - assert (E' : String.eqb (rho g) (rho k) = false).
    { apply String.eqb_neq. intros H. apply rho_inj in H. apply String.eqb_neq in E. contradiction. }
    rewrite E'. exact IH.
Qed.

Lemma expand_leaf_rename d l : expand_leaf (rename_gps d) l = expand_leaf d l.
Proof. reflexivity. Qed.

(* every reference to a group-policy names one that exists (the strict device never enters another one) *)
Definition gps_known (d : tdev) : Prop :=
  forall b l g, In b (all_blocks d) -> In l b -> line_ref l = Some (RGp, g) -> vhas g (td_gps d) = true.

Lemma gp_sem_rename d g : vhas g (td_gps d) = true -> gp_sem (rename_gps d) (rho g) = gp_sem d g.
Proof.
  unfold gp_sem, vhas. cbn [rename_gps tupd td_gps]. rewrite vlookup_rename.
  destruct (vlookup g (td_gps d)) as [b|]; [|discriminate]. intros _. reflexivity.
Qed.

Lemma line_ref_gp l g : line_ref l = Some (RGp, g) ->
  exists k, l = [k; g] /\ (String.eqb k "default-group-policy" || String.eqb k "vpn-group-policy")%bool = true.
Proof.
  unfold line_ref. destruct l as [|a [|b [|c [|x r]]]]; try discriminate.
  - destruct (String.eqb a "default-group-policy") eqn:E1.
    + intros H. injection H as <-. exists a. rewrite E1. split; reflexivity.
    + destruct (String.eqb a "vpn-group-policy") eqn:E2; [|discriminate].
      intros H. injection H as <-. exists a. rewrite E2, orb_true_r. split; reflexivity.
  - destruct (negb (String.eqb b "value")); [discriminate|].
    destruct (String.eqb a "vpn-filter"); [discriminate|].
    destruct (String.eqb a "split-tunnel-network-list"); [discriminate|].
    destruct (String.eqb a "address-pools"); discriminate.
Qed.

Lemma line_ref_pair k g : (String.eqb k "default-group-policy" || String.eqb k "vpn-group-policy")%bool = true ->
  line_ref [k; g] = Some (RGp, g).
Proof.
  intros H. unfold line_ref. destruct (String.eqb k "default-group-policy"); [reflexivity|].
  simpl in H. rewrite H. reflexivity.
Qed.

Lemma expand_line_rename d l :
  (forall g, line_ref l = Some (RGp, g) -> vhas g (td_gps d) = true) ->
  expand_line (rename_gps d) (rename_line l) = expand_line d l.
Proof.
  intros K. unfold rename_line, expand_line.
  destruct (line_ref l) as [[[| |] n]|] eqn:R.
  - rewrite R. apply expand_leaf_rename.
  - rewrite R. apply expand_leaf_rename.
  - destruct (line_ref_gp l n R) as (k & -> & Hk). cbn [key_of].
    rewrite (line_ref_pair k (rho n) Hk). cbn [key_of].
    rewrite (gp_sem_rename d n (K n eq_refl)). reflexivity.
  - rewrite R. apply expand_leaf_rename.
Qed.

Lemma map_map_ext_in {A B C} (f : A -> B) (g : B -> C) (h : A -> C) l :
  (forall x, In x l -> g (f x) = h x) -> map g (map f l) = map h l.
Proof. intros H. rewrite map_map. apply map_ext_in. exact H. Qed.

Lemma flat_map_map' {A B C} (g : A -> B) (f : B -> list C) l : flat_map f (map g l) = flat_map (fun x => f (g x)) l.
Proof. induction l as [|x l IH]; [reflexivity|]. cbn [map flat_map]. rewrite IH. reflexivity. Qed.
Lemma flat_map_ext_in' {A B} (f g : A -> list B) l : (forall x, In x l -> f x = g x) -> flat_map f l = flat_map g l.
Proof.
  induction l as [|x l IH]; intros H; [reflexivity|]. cbn [flat_map]. rewrite (H x (or_introl eq_refl)).
  rewrite IH; [reflexivity|]. intros y Hy. apply H. right. exact Hy.
Qed.

Theorem tsem_independent_of_group_policy_names d : gps_known d -> tsem (rename_gps d) = tsem d.
Proof.
  intros K. unfold tsem. f_equal. f_equal.
  - (* tunnel-groups *)
    cbn [rename_gps tupd td_tgs]. apply map_map_ext_in. intros [t [ty secs]] Ht.
    unfold tg_sem. cbn [fst snd]. do 6 f_equal.
    rewrite flat_map_map'. apply flat_map_ext_in'. intros [sec b] Hs. cbn [fst snd].
    rewrite map_map. apply map_ext_in. intros l Hl. f_equal. f_equal.
    apply expand_line_rename. intros g R.
    apply (K b l g); [|exact Hl|exact R].
    unfold all_blocks. apply in_or_app. right. apply in_or_app. left.
    apply in_flat_map. exists (t, (ty, secs)). split; [exact Ht|]. cbn [snd].
    apply in_map_iff. exists (sec, b). split; [reflexivity | exact Hs].
  - (* users *)
    cbn [rename_gps tupd td_users]. apply map_map_ext_in. intros [u b] Hu.
    unfold user_sem. cbn [fst snd]. do 5 f_equal.
    rewrite map_map. apply map_ext_in. intros l Hl.
    apply expand_line_rename. intros g R.
    apply (K b l g); [|exact Hl|exact R].
    unfold all_blocks. apply in_or_app. right. apply in_or_app. right.
    apply in_map_iff. exists (u, b). split; [reflexivity | exact Hu].
Qed.

Corollary tequiv_up_to_group_policy_names a b : gps_known a -> tequiv (rename_gps a) b = tequiv a b.
Proof. intros K. unfold tequiv. rewrite (tsem_independent_of_group_policy_names a K). reflexivity. Qed.
End Rename.

(* non-vacuity: a configuration with a user and a tunnel-group that share a group-policy *)
Example rename_example :
  let d := {| td_acls := [("f", [["extended"; "permit"; "ip"; "any4"; "any4"]])]; td_pools := [];
              td_gps := [("G", [["vpn-filter"; "value"; "f"]; ["vpn-idle-timeout"; "60"]])];
              td_tgs := [("10.1.1.1", ("ipsec-l2l", [("general-attributes", [["default-group-policy"; "G"]])]))];
              td_users := [("u@x", [["vpn-group-policy"; "G"]])]; td_mode := TTop |} in
  tsem (rename_gps (fun s => s ++ "-DRC-0") d) = tsem d /\ td_gps (rename_gps (fun s => s ++ "-DRC-0") d) <> td_gps d.
Proof. split; [vm_compute; reflexivity | vm_compute; discriminate]. Qed.

(* the premise, decidable: every reference to a group-policy names one that exists *)
Definition gps_knownb (d : tdev) : bool :=
  forallb (fun b : block => forallb (fun l => match line_ref l with Some (RGp, g) => vhas g (td_gps d) | _ => true end) b) (all_blocks d).
Lemma gps_knownb_sound d : gps_knownb d = true -> gps_known d.
Proof.
  unfold gps_knownb, gps_known. intros H b l g Hb Hl R.
  rewrite forallb_forall in H. specialize (H b Hb). rewrite forallb_forall in H. specialize (H l Hl).
  rewrite R in H. exact H.
Qed.
