(* Cisco/Vpn.v — ASA crypto maps and what they reference (crypto ACLs, IKEv1
   transform-sets, IKEv2 ipsec-proposals with their sub-commands): device state,
   the commands drc emits for them, strict checks (a referenced object must exist,
   a referenced object cannot be removed, an attribute to be removed must be
   there), the equivalence oracle and the rendering for the next compare. *)
From Coq Require Import List String Bool Arith.
From NA Require Import Base.Str.
Import ListNotations.
Open Scope string_scope.

Definition words := list string.
Fixpoint words_eqb (a b : words) : bool :=
  match a, b with
  | [], [] => true
  | x :: a', y :: b' => (String.eqb x y && words_eqb a' b')%bool
  | _, _ => false
  end.

Record entry := { e_map : string; e_seq : string; e_attrs : list (words * words) }.   (* attribute key -> value words *)
Inductive vmode := VTop | VProp (n : string).
Record vdev := {
  vd_acls : list (string * list words);            (* crypto ACLs: name -> lines (words behind the name) *)
  vd_tsets : list (string * words);                (* ikev1 transform-set -> definition *)
  vd_props : list (string * list (words * words)); (* ikev2 ipsec-proposal -> sub-commands (key -> value) *)
  vd_entries : list entry;
  vd_bind : list (string * string);                (* crypto map -> interface *)
  vd_mode : vmode }.

Inductive vres := VOk (d : vdev) | VRefuse (why : nat).
(* 1 unknown object referenced, 2 object still referenced, 3 no such object / attribute, 6 command not understood *)

Fixpoint vlookup {A} (k : string) (l : list (string * A)) : option A :=
  match l with [] => None | (k', v) :: r => if String.eqb k k' then Some v else vlookup k r end.
Fixpoint vremove {A} (k : string) (l : list (string * A)) : list (string * A) :=
  match l with [] => [] | (k', v) :: r => if String.eqb k k' then r else (k', v) :: vremove k r end.
Definition vset {A} (k : string) (v : A) (l : list (string * A)) : list (string * A) :=
  match vlookup k l with
  | Some _ => map (fun kv : string * A => if String.eqb k (fst kv) then (k, v) else kv) l
  | None => (l ++ [(k, v)])%list
  end.
Definition vhas {A} (k : string) (l : list (string * A)) : bool := match vlookup k l with Some _ => true | None => false end.

Fixpoint alookup (k : words) (l : list (words * words)) : option words :=
  match l with [] => None | (k', v) :: r => if words_eqb k k' then Some v else alookup k r end.
Fixpoint aremove (k : words) (l : list (words * words)) : list (words * words) :=
  match l with [] => [] | (k', v) :: r => if words_eqb k k' then r else (k', v) :: aremove k r end.
Definition aset (k v : words) (l : list (words * words)) : list (words * words) :=
  match alookup k l with
  | Some _ => map (fun kv : words * words => if words_eqb k (fst kv) then (k, v) else kv) l
  | None => (l ++ [(k, v)])%list
  end.

(* split the words behind "crypto map NAME SEQ" into attribute key and value *)
Definition attr_split (w : words) : option (words * words) :=
  match w with
  | "match" :: "address" :: v => Some (["match"; "address"], v)
  | "set" :: "peer" :: v => Some (["set"; "peer"], v)
  | "set" :: "pfs" :: v => Some (["set"; "pfs"], v)
  | "set" :: "ikev1" :: "transform-set" :: v => Some (["set"; "ikev1"; "transform-set"], v)
  | "set" :: "ikev2" :: "ipsec-proposal" :: v => Some (["set"; "ikev2"; "ipsec-proposal"], v)
  | "set" :: "security-association" :: "lifetime" :: u :: v => Some (["set"; "security-association"; "lifetime"; u], v)
  | "set" :: "nat-t-disable" :: v => Some (["set"; "nat-t-disable"], v)
  | "set" :: "reverse-route" :: v => Some (["set"; "reverse-route"], v)
  | "set" :: "trustpoint" :: v => Some (["set"; "trustpoint"], v)
  | "ipsec-isakmp" :: "dynamic" :: v => Some (["ipsec-isakmp"; "dynamic"], v)
  | _ => None
  end.

Definition refs_ok (d : vdev) (k v : words) : bool :=
  if words_eqb k ["match"; "address"] then forallb (fun n => vhas n (vd_acls d)) v
  else if words_eqb k ["set"; "ikev1"; "transform-set"] then forallb (fun n => vhas n (vd_tsets d)) v
  else if words_eqb k ["set"; "ikev2"; "ipsec-proposal"] then forallb (fun n => vhas n (vd_props d)) v
  else true.

Definition mem_s (x : string) (l : words) : bool := existsb (String.eqb x) l.
Definition used_by (k : words) (n : string) (d : vdev) : bool :=
  existsb (fun e => match alookup k (e_attrs e) with Some v => mem_s n v | None => false end) (vd_entries d).

Fixpoint find_entry (m s : string) (l : list entry) : option entry :=
  match l with [] => None | e :: r => if (String.eqb m (e_map e) && String.eqb s (e_seq e))%bool then Some e else find_entry m s r end.
Fixpoint put_entry (e' : entry) (l : list entry) : list entry :=
  match l with
  | [] => [e']
  | e :: r => if (String.eqb (e_map e') (e_map e) && String.eqb (e_seq e') (e_seq e))%bool then e' :: r else e :: put_entry e' r
  end.
Fixpoint drop_entry (m s : string) (l : list entry) : list entry :=
  match l with [] => [] | e :: r => if (String.eqb m (e_map e) && String.eqb s (e_seq e))%bool then r else e :: drop_entry m s r end.

Definition upd (d : vdev) acls tsets props entries bind mode : vdev :=
  {| vd_acls := acls; vd_tsets := tsets; vd_props := props; vd_entries := entries; vd_bind := bind; vd_mode := mode |}.
Definition top (d : vdev) : vdev := upd d (vd_acls d) (vd_tsets d) (vd_props d) (vd_entries d) (vd_bind d) VTop.

(* sub-command of an ipsec-proposal: "protocol esp encryption ..." / "protocol esp integrity ..." *)
Definition prop_split (w : words) : option (words * words) :=
  match w with
  | "protocol" :: "esp" :: k :: v => Some (["protocol"; "esp"; k], v)
  | _ => None
  end.

Definition vexec (d : vdev) (w : words) : vres :=
  match w with
  | "crypto" :: "ipsec" :: "ikev2" :: "ipsec-proposal" :: n :: [] =>
      let props := if vhas n (vd_props d) then vd_props d else (vd_props d ++ [(n, [])])%list in
      VOk (upd d (vd_acls d) (vd_tsets d) props (vd_entries d) (vd_bind d) (VProp n))
  | "no" :: "crypto" :: "ipsec" :: "ikev2" :: "ipsec-proposal" :: n :: [] =>
      if negb (vhas n (vd_props d)) then VRefuse 3
      else if used_by ["set"; "ikev2"; "ipsec-proposal"] n d then VRefuse 2
      else VOk (upd d (vd_acls d) (vd_tsets d) (vremove n (vd_props d)) (vd_entries d) (vd_bind d) VTop)
  | "crypto" :: "ipsec" :: "ikev1" :: "transform-set" :: n :: def =>
      VOk (upd d (vd_acls d) (vset n def (vd_tsets d)) (vd_props d) (vd_entries d) (vd_bind d) VTop)
  | "no" :: "crypto" :: "ipsec" :: "ikev1" :: "transform-set" :: n :: _ =>
      if negb (vhas n (vd_tsets d)) then VRefuse 3
      else if used_by ["set"; "ikev1"; "transform-set"] n d then VRefuse 2
      else VOk (upd d (vd_acls d) (vremove n (vd_tsets d)) (vd_props d) (vd_entries d) (vd_bind d) VTop)
  | "access-list" :: n :: line =>
      let old := match vlookup n (vd_acls d) with Some l => l | None => [] end in
      VOk (upd d (vset n (old ++ [line])%list (vd_acls d)) (vd_tsets d) (vd_props d) (vd_entries d) (vd_bind d) VTop)
  | "clear" :: "configure" :: "access-list" :: n :: [] =>
      if negb (vhas n (vd_acls d)) then VRefuse 3
      else if used_by ["match"; "address"] n d then VRefuse 2
      else VOk (upd d (vremove n (vd_acls d)) (vd_tsets d) (vd_props d) (vd_entries d) (vd_bind d) VTop)
  | "crypto" :: "map" :: m :: "interface" :: i :: [] =>
      VOk (upd d (vd_acls d) (vd_tsets d) (vd_props d) (vd_entries d) (vset m i (vd_bind d)) VTop)
  | "no" :: "crypto" :: "map" :: m :: "interface" :: i :: [] =>
      match vlookup m (vd_bind d) with
      | Some i' => if String.eqb i i' then VOk (upd d (vd_acls d) (vd_tsets d) (vd_props d) (vd_entries d) (vremove m (vd_bind d)) VTop) else VRefuse 3
      | None => VRefuse 3
      end
  | "crypto" :: "map" :: m :: s :: rest =>
      match attr_split rest with
      | None => VRefuse 6
      | Some (k, v) =>
          if negb (refs_ok d k v) then VRefuse 1
          else
            let e := match find_entry m s (vd_entries d) with Some e => e | None => {| e_map := m; e_seq := s; e_attrs := [] |} end in
            VOk (upd d (vd_acls d) (vd_tsets d) (vd_props d)
                     (put_entry {| e_map := m; e_seq := s; e_attrs := aset k v (e_attrs e) |} (vd_entries d)) (vd_bind d) VTop)
      end
  | "no" :: "crypto" :: "map" :: m :: s :: rest =>
      match attr_split rest, find_entry m s (vd_entries d) with
      | Some (k, v), Some e =>
          match alookup k (e_attrs e) with
          | Some v' =>
              if (words_eqb v v' || match v with [] => true | _ => false end)%bool then
                let attrs := aremove k (e_attrs e) in
                VOk (upd d (vd_acls d) (vd_tsets d) (vd_props d)
                         (match attrs with
                          | [] => drop_entry m s (vd_entries d)
                          | _ => put_entry {| e_map := m; e_seq := s; e_attrs := attrs |} (vd_entries d)
                          end) (vd_bind d) VTop)
              else VRefuse 3
          | None => VRefuse 3
          end
      | None, _ => VRefuse 6
      | _, None => VRefuse 3
      end
  | _ =>
      match vd_mode d, prop_split w with
      | VProp n, Some (k, v) =>
          match vlookup n (vd_props d) with
          | Some subs => VOk (upd d (vd_acls d) (vd_tsets d) (vset n (aset k v subs) (vd_props d)) (vd_entries d) (vd_bind d) (VProp n))
          | None => VRefuse 3
          end
      | _, _ => VRefuse 6
      end
  end.

Fixpoint vrun (d : vdev) (cs : list words) (i : nat) : vdev * nat * nat :=
  match cs with
  | [] => (d, 0, 0)
  | c :: r => match vexec d c with
              | VOk d' => vrun d' r (S i)
              | VRefuse why => (d, S i, why)
              end
  end.
(* state after the first k commands (for the resume check) *)
Fixpoint vprefix (d : vdev) (cs : list words) (k : nat) : vdev :=
  match k, cs with
  | S k', c :: r => match vexec d c with VOk d' => vprefix d' r k' | VRefuse _ => d end
  | _, _ => d
  end.

(* ---- oracle: per interface the set of entries with their references expanded ---- *)
Definition expand_val (d : vdev) (k v : words) : string :=
  if words_eqb k ["match"; "address"] then
    join "," (map (fun n => match vlookup n (vd_acls d) with
                            | Some ls => "{" ++ join ";" (map (join " ") ls) ++ "}"
                            | None => "?" ++ n end) v)
  else if words_eqb k ["set"; "ikev1"; "transform-set"] then
    join "," (map (fun n => match vlookup n (vd_tsets d) with Some def => "{" ++ join " " def ++ "}" | None => "?" ++ n end) v)
  else if words_eqb k ["set"; "ikev2"; "ipsec-proposal"] then
    join "," (map (fun n => match vlookup n (vd_props d) with
                            | Some subs => "{" ++ join ";" (sort_strings (map (fun kv : words * words => join " " (fst kv) ++ " " ++ join " " (sort_strings (snd kv))) subs)) ++ "}"
                            | None => "?" ++ n end) v)
  else join " " v.
Definition expand_entry (d : vdev) (e : entry) : string :=
  join "|" (sort_strings (map (fun kv : words * words => join " " (fst kv) ++ " = " ++ expand_val d (fst kv) (snd kv)) (e_attrs e))).
Definition vsem (d : vdev) : list string :=
  sort_strings (flat_map (fun b : string * string =>
                            map (fun e => snd b ++ ": " ++ expand_entry d e) (filter (fun e => String.eqb (e_map e) (fst b)) (vd_entries d)))
                         (vd_bind d)).
Fixpoint strs_eqb (a b : list string) : bool :=
  match a, b with
  | [], [] => true
  | x :: a', y :: b' => (String.eqb x y && strs_eqb a' b')%bool
  | _, _ => false
  end.
Definition vequiv (a b : vdev) : bool := strs_eqb (vsem a) (vsem b).

(* ---- rendering (the order a device prints is irrelevant to the parser) ---- *)
Definition r_tset (t : string * words) : string := "crypto ipsec ikev1 transform-set " ++ fst t ++ " " ++ join " " (snd t).
Definition r_sub (kv : words * words) : string := " " ++ join " " (fst kv) ++ " " ++ join " " (snd kv).
Definition r_prop (p : string * list (words * words)) : list string := ("crypto ipsec ikev2 ipsec-proposal " ++ fst p) :: map r_sub (snd p).
Definition r_acl (a : string * list words) : list string := map (fun l => "access-list " ++ fst a ++ " " ++ join " " l) (snd a).
Definition r_attr (e : entry) (kv : words * words) : string :=
  "crypto map " ++ e_map e ++ " " ++ e_seq e ++ " " ++ join " " (fst kv) ++ match snd kv with [] => "" | v => " " ++ join " " v end.
Definition r_entry (e : entry) : list string := map (r_attr e) (e_attrs e).
Definition r_bind (b : string * string) : string := "crypto map " ++ fst b ++ " interface " ++ snd b.
Definition vrender (d : vdev) : list string :=
  (map r_tset (vd_tsets d) ++ flat_map r_prop (vd_props d) ++ flat_map r_acl (vd_acls d)
   ++ flat_map r_entry (vd_entries d) ++ map r_bind (vd_bind d))%list.

Record vcase := { vc_dev : vdev; vc_tgt : vdev; vc_cmds : list words }.
Definition vjudge (c : vcase) :=
  match vrun (vc_dev c) (vc_cmds c) 0 with
  | (d', pos, why) => (pos, why, vequiv d' (vc_tgt c), vrender d')
  end.
Definition vprefix_states (c : vcase) : list (list string) :=
  map (fun k => vrender (top (vprefix (vc_dev c) (vc_cmds c) k))) (seq 1 (List.length (vc_cmds c) - 1)).
