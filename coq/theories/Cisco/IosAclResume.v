(* Cisco/IosAclResume.v — C08 / C10 for the IOS numbering core: every prefix of the numbered script
   is accepted by the strict numbered ACL (moves included), the ACL after any prefix again has no
   line twice, and every later run from that state converges to the target. *)
From Coq Require Import List Arith Bool Lia NArith Sorted.
From NA Require Import Cisco.IosAcl Cisco.IosAclFresh Cisco.IosAclMoves Cisco.IosAclEquiv Cisco.IosAclFinal.
Import ListNotations.

Lemma iexec_all_prefix l cs r : iexec_all l cs = Some r -> forall k, exists lk, iexec_all l (firstn k cs) = Some lk.
Proof.
  revert l. induction cs as [|c cs IH]; intros l H k.
  - rewrite firstn_nil. exists l. reflexivity.
  - destruct k as [|k]; [exists l; reflexivity|]. cbn [firstn iexec_all] in *.
    destruct (iexec l c) as [l1|]; [|discriminate]. apply (IH l1 H k).
Qed.

(* every prefix of the numbered script is accepted by the strict numbered ACL, moves included *)
Theorem ios_every_prefix_accepted m cs : nodupA m -> nodupB m -> short_runs m 0 -> diff_ios m = Some cs ->
  forall k, exists lk, iexec_all (reseq (listA m)) (firstn k cs) = Some lk.
Proof.
  intros NA NB SR D k. destruct (ios_moves_accepted m cs NA NB SR D) as (l' & EX & _). apply (iexec_all_prefix _ _ _ EX k).
Qed.

Definition lines (l : nacl) : list (nat * nat) := map (fun x => line_of (snd x)) l.

Lemma ins_num_lines n e l : forall x, In x (lines (ins_num n e l)) <-> x = line_of e \/ In x (lines l).
Proof.
  induction l as [|y l IH]; intros x; cbn [ins_num].
  - unfold lines. cbn. split; [intros [H|[]]; left; symmetry; exact H | intros [H|[]]; left; symmetry; exact H].
  - destruct (N.ltb n (fst y)).
    + unfold lines. cbn [map snd In]. split; [intros [H|H]; [left; symmetry; exact H | right; exact H] | intros [H|H]; [left; symmetry; exact H | right; exact H]].
    + change (lines (y :: ins_num n e l)) with (line_of (snd y) :: lines (ins_num n e l)). change (lines (y :: l)) with (line_of (snd y) :: lines l).
      cbn [In]. rewrite IH. tauto.
Qed.
Lemma ins_num_nodup n e l : NoDup (lines l) -> ~ In (line_of e) (lines l) -> NoDup (lines (ins_num n e l)).
Proof.
  induction l as [|y l IH]; intros ND NI; cbn [ins_num].
  - unfold lines. cbn. constructor; [intros [] | constructor].
  - destruct (N.ltb n (fst y)).
    + unfold lines in *. cbn [map snd]. constructor; assumption.
    + unfold lines in ND, NI. cbn [map snd] in ND, NI. inversion ND as [|? ? N1 N2]; subst.
      change (NoDup (line_of (snd y) :: lines (ins_num n e l))). constructor.
      * intros H. apply ins_num_lines in H. destruct H as [H|H]; [apply NI; left; exact H | apply N1, H].
      * apply IH; [exact N2 | intros H; apply NI; right; exact H].
Qed.

Lemma iexec_nodup l c l' : NoDup (lines l) -> iexec l c = Some l' -> NoDup (lines l').
Proof.
  assert (ADD : forall n e l0 l1, NoDup (lines l0) -> nadd n e l0 = Some l1 -> NoDup (lines l1)).
  { intros n e l0 l1 ND H. unfold nadd in H. destruct (existsb (fun x => N.eqb (fst x) n) l0); [discriminate|].
    destruct (existsb (fun x => same_line (snd x) e) l0) eqn:E; [discriminate|]. injection H as <-.
    apply ins_num_nodup; [exact ND|]. intros I. unfold lines in I. apply in_map_iff in I. destruct I as (y & Ey & Hy).
    assert (X : existsb (fun x => same_line (snd x) e) l0 = true) by (apply existsb_exists; exists y; split; [exact Hy | apply same_line_iff; exact Ey]).
    congruence. }
  assert (DEL : forall n l0 l1, NoDup (lines l0) -> ndel n l0 = Some l1 -> NoDup (lines l1)).
  { intros n l0 l1 ND H. unfold ndel in H. destruct (existsb _ l0); [|discriminate]. injection H as <-. unfold lines. apply nodup_map_filter, ND. }
  intros ND H. destruct c as [n e|n|nd n e]; cbn [iexec] in H.
  - apply (ADD n e l l' ND H).
  - apply (DEL n l l' ND H).
  - destruct (ndel nd l) as [l1|] eqn:D; [|discriminate]. apply (ADD n e l1 l' (DEL nd l l1 ND D) H).
Qed.

Lemma iexec_all_nodup cs : forall l l', NoDup (lines l) -> iexec_all l cs = Some l' -> NoDup (lines l').
Proof.
  induction cs as [|c cs IH]; intros l l' ND H; cbn [iexec_all] in H; [injection H as <-; exact ND|].
  destruct (iexec l c) as [l1|] eqn:E; [|discriminate]. apply (IH l1 l' (iexec_nodup l c l1 ND E) H).
Qed.

Lemma reseq_lines l : lines (reseq l) = map line_of l.
Proof.
  unfold lines, reseq. rewrite map_map. cbn [snd]. generalize 0. induction l as [|x l IH]; intros n; [reflexivity|].
  cbn [length seq combine map snd]. rewrite IH. reflexivity.
Qed.

(* an interrupted run leaves an ACL from which every later run converges *)
Theorem ios_acl_resume m cs k lk : nodupA m -> nodupB m -> short_runs m 0 -> diff_ios m = Some cs ->
  iexec_all (reseq (listA m)) (firstn k cs) = Some lk ->
  forall m' cs', listA m' = map snd lk -> listB m' = listB m -> short_runs m' 0 -> diff_ios m' = Some cs' ->
  exists l', iexec_all (reseq (listA m')) cs' = Some l' /\ sw_equiv (rules (listB m)) (rules (map snd l')).
Proof.
  intros NA NB SR D EX m' cs' EA EB SR' D'.
  assert (ND : NoDup (lines lk)).
  { apply (iexec_all_nodup (firstn k cs) (reseq (listA m)) lk); [rewrite reseq_lines; exact NA | exact EX]. }
  assert (NA' : nodupA m').
  { unfold nodupA. rewrite EA. unfold lines in ND. rewrite map_map. exact ND. }
  assert (NB' : nodupB m') by (unfold nodupB; rewrite EB; exact NB).
  rewrite <- EB. apply (ios_acl_equiv m' cs' NA' NB' SR' D').
Qed.
