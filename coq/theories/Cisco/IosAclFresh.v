(* Cisco/IosAclFresh.v — the numbering of diffIOSACLs converges: for every edit
   script in which no line occurs twice (so nothing is moved), with fewer than
   10000 lines per inserted run, all commands are accepted by the numbered ACL of
   the device and the result is exactly the target ACL. *)
From Coq Require Import List Arith Bool Lia NArith Sorted.
From NA Require Import Cisco.IosAcl.
Import ListNotations.

(* the entries of the script with the sequence number each gets on the device *)
Fixpoint num (m : script) (apos i : nat) : list (N * (tag * ientry)) :=
  match m with
  | [] => []
  | (Add, e) :: r => ((N.of_nat apos * 10000 + N.of_nat i + 1)%N, (Add, e)) :: num r apos (S i)
  | (t, e) :: r => (((N.of_nat apos + 1) * 10000)%N, (t, e)) :: num r (S apos) 0
  end.

(* every inserted run is shorter than 10000 - start *)
Fixpoint short_runs (m : script) (i : nat) : Prop :=
  match m with
  | [] => True
  | (Add, _) :: r => (N.of_nat (S i) < 10000)%N /\ short_runs r (S i)
  | _ :: r => short_runs r 0
  end.

Definition klt (a b : N * (tag * ientry)) : Prop := (fst a < fst b)%N.

Lemma num_lower m : forall apos i x, In x (num m apos i) -> (N.of_nat i < 10000)%N -> short_runs m i ->
  (N.of_nat apos * 10000 + N.of_nat i < fst x)%N.
Proof.
  induction m as [|[t e] r IH]; intros apos i x H LI SR; [destruct H|].
  destruct t; cbn [num] in H; cbn [short_runs] in SR.
  - destruct H as [<-|H]; [cbn [fst]; lia|]. apply IH in H; [|lia|exact SR]. lia.
  - destruct H as [<-|H]; [cbn [fst]; lia|]. apply IH in H; [|lia|exact SR]. lia.
  - destruct SR as [L SR]. destruct H as [<-|H]; [cbn [fst]; lia|]. apply IH in H; [|exact L|exact SR]. lia.
Qed.

Lemma num_sorted m : forall apos i, (N.of_nat i < 10000)%N -> short_runs m i -> StronglySorted klt (num m apos i).
Proof.
  induction m as [|[t e] r IH]; intros apos i LI SR; [constructor|].
  destruct t; cbn [num]; cbn [short_runs] in SR.
  - constructor; [apply IH; [lia | exact SR]|]. apply Forall_forall. intros x H. apply num_lower in H; [|lia|exact SR]. unfold klt. cbn [fst]. lia.
  - constructor; [apply IH; [lia | exact SR]|]. apply Forall_forall. intros x H. apply num_lower in H; [|lia|exact SR]. unfold klt. cbn [fst]. lia.
  - destruct SR as [L SR]. constructor; [apply IH; [exact L | exact SR]|]. apply Forall_forall. intros x H. apply num_lower in H; [|exact L|exact SR]. unfold klt. cbn [fst]. lia.
Qed.

(* ---- selections of a strictly sorted numbered list ---- *)
Notation K := (N * (tag * ientry))%type (only parsing).
Definition sel_list (sel : N -> bool) (S : list K) : nacl := map (fun x => (fst x, snd (snd x))) (filter (fun x => sel (fst x)) S).

Lemma ins_num_sel S : forall sel k t e, StronglySorted klt S -> In (k, (t, e)) S -> sel k = false ->
  ins_num k e (sel_list sel S) = sel_list (fun n => (sel n || N.eqb n k)%bool) S.
Proof.
  induction S as [|[k0 [t0 e0]] S' IH]; intros sel k t e SS I Hs; [destruct I|].
  apply StronglySorted_inv in SS. destruct SS as [SS' FA]. rewrite Forall_forall in FA.
  unfold sel_list in *. cbv beta in *. cbn [filter fst].
  destruct (N.eq_dec k0 k) as [->|NE].
  - (* the head is the element *)
    assert (E : (t0, e0) = (t, e)).
    { destruct I as [I|I]; [congruence|]. apply FA in I. unfold klt in I. cbn [fst] in I. lia. }
    injection E as -> ->. rewrite Hs. rewrite N.eqb_refl, orb_true_r. cbn [map fst snd].
    assert (F : filter (fun x : K => (sel (fst x) || (fst x =? k)%N)%bool) S' = filter (fun x : K => sel (fst x)) S').
    { apply filter_ext_in. intros x Hx. apply FA in Hx. unfold klt in Hx. cbn [fst] in Hx.
      replace (fst x =? k)%N with false by (symmetry; apply N.eqb_neq; lia). apply orb_false_r. }
    rewrite F. destruct (filter (fun x : K => sel (fst x)) S') as [|y ys] eqn:Fy; [reflexivity|].
    cbn [map ins_num fst]. assert (Hy : In y S') by (eapply (proj1 (filter_In _ _ _)); rewrite Fy; left; reflexivity).
    apply FA in Hy. unfold klt in Hy. cbn [fst] in Hy. replace (k <? fst y)%N with true by (symmetry; apply N.ltb_lt; exact Hy). reflexivity.
  - assert (I' : In (k, (t, e)) S') by (destruct I as [I|I]; [congruence | exact I]).
    assert (LT : (k0 < k)%N) by (apply FA in I'; exact I').
    replace (k0 =? k)%N with false by (symmetry; apply N.eqb_neq; exact NE). rewrite orb_false_r.
    destruct (sel k0).
    + cbn [map ins_num fst snd]. replace (k <? k0)%N with false by (symmetry; apply N.ltb_ge; lia).
      f_equal. apply (IH sel k t e SS' I' Hs).
    + apply (IH sel k t e SS' I' Hs).
Qed.

Lemma sel_list_keys sel S k e : In (k, e) (sel_list sel S) -> sel k = true /\ exists t, In (k, (t, e)) S.
Proof.
  unfold sel_list. intros H. apply in_map_iff in H. destruct H as ([k' [t' e']] & E & H). cbn [fst snd] in E. injection E as -> ->.
  apply filter_In in H. destruct H as [H1 H2]. split; [exact H2 | eauto].
Qed.

(* no line twice in the whole script *)
Definition line_of (e : ientry) : nat * nat := (i_act e, i_body e).
Definition fresh (m : script) : Prop := NoDup (map (fun x => line_of (snd x)) m).

Lemma same_line_iff a b : same_line a b = true <-> line_of a = line_of b.
Proof.
  unfold same_line, line_of. rewrite andb_true_iff, !Nat.eqb_eq. split; [intros [-> ->]; reflexivity | intros H; injection H; auto].
Qed.

Lemma num_entries m : forall apos i, map (fun x => snd x) (num m apos i) = m.
Proof.
  induction m as [|[t e] r IH]; intros apos i; [reflexivity|]. destruct t; cbn [num map snd]; rewrite IH; reflexivity.
Qed.

(* adding an entry of the script that is not yet selected *)
Lemma nadd_sel m S sel k e : S = num m 0 0 -> short_runs m 0 -> fresh m -> In (k, (Add, e)) S -> sel k = false ->
  nadd k e (sel_list sel S) = Some (sel_list (fun n => (sel n || N.eqb n k)%bool) S).
Proof.
  intros ES SR FR I Hs. pose proof (num_sorted m 0 0 ltac:(simpl; lia) SR) as SS. rewrite <- ES in SS.
  unfold nadd.
  assert (E1 : existsb (fun x : N * ientry => (fst x =? k)%N) (sel_list sel S) = false).
  { apply not_true_is_false. intros H. apply existsb_exists in H. destruct H as ([k' e'] & H & E). cbn [fst] in E.
    apply N.eqb_eq in E. subst k'. apply sel_list_keys in H. destruct H as [H _]. congruence. }
  assert (E2 : existsb (fun x : N * ientry => same_line (snd x) e) (sel_list sel S) = false).
  { apply not_true_is_false. intros H. apply existsb_exists in H. destruct H as ([k' e'] & H & E). cbn [snd] in E.
    apply sel_list_keys in H. destruct H as [Hs' [t' I']]. apply same_line_iff in E.
    (* two positions of the script with the same line: the same position *)
    assert (k' = k).
    { unfold fresh in FR. rewrite <- (num_entries m 0 0) in FR. rewrite <- ES in FR. rewrite map_map in FR.
      clear -FR I I' E SS. induction S as [|x S' IH]; [destruct I|].
      apply StronglySorted_inv in SS. destruct SS as [SS' FA]. cbn [map] in FR. inversion FR as [|? ? NI ND]; subst.
      destruct I as [I|I], I' as [I'|I'].
      - congruence.
      - subst x. exfalso. apply NI. apply in_map_iff. exists (k', (t', e')). split; [cbn [snd]; congruence | exact I'].
      - subst x. exfalso. apply NI. apply in_map_iff. exists (k, (Add, e)). split; [cbn [snd]; congruence | exact I].
      - apply IH; assumption. }
    subst k'. congruence. }
  rewrite E1, E2. f_equal. eapply ins_num_sel; eauto.
Qed.

(* ---- the commands diff_ios emits when nothing can be moved ---- *)
Fixpoint exp_cmds (m : script) (apos i : nat) : list icmd :=
  match m with
  | [] => []
  | (Add, e) :: r => INum (N.of_nat apos * 10000 + N.of_nat i + 1)%N e :: exp_cmds r apos (S i)
  | _ :: r => exp_cmds r (S apos) 0
  end.
Fixpoint inums (gap i : nat) (l : list ientry) : list icmd :=
  match l with [] => [] | b :: r => INum (N.of_nat gap * 10000 + N.of_nat i + 1)%N b :: inums gap (S i) r end.

Lemma inums_app gap i l1 l2 : inums gap i (l1 ++ l2) = inums gap i l1 ++ inums gap (i + List.length l1) l2.
Proof.
  revert i; induction l1 as [|b r IH]; intros i; simpl; [rewrite Nat.add_0_r; reflexivity|].
  rewrite IH. replace (S i + List.length r) with (i + S (List.length r)) by lia. reflexivity.
Qed.

Lemma run_cmds_fresh blk dl gap a0 ins : (forall b, In b ins -> find_del dl b = None) ->
  forall i mo, run_cmds blk dl gap a0 i mo ins = (inums gap i ins, []).
Proof.
  induction ins as [|b r IH]; intros H i mo; [reflexivity|]. cbn [run_cmds inums].
  rewrite (IH (fun x Hx => H x (or_intror Hx))). rewrite (H b (or_introl eq_refl)). reflexivity.
Qed.

Definition adds_of (m : script) : list ientry := map snd (filter (fun x => is_add (fst x)) m).

Lemma all_runs_fresh blk dl m : (forall b, In b (adds_of m) -> find_del dl b = None) ->
  forall apos cur, (forall b, In b cur -> find_del dl b = None) ->
  all_runs blk dl (runs m apos cur) = (inums apos 0 (rev cur) ++ exp_cmds m apos (List.length cur), []).
Proof.
  induction m as [|[t e] r IH]; intros H apos cur Hc.
  - cbn [runs exp_cmds]. rewrite app_nil_r. destruct cur as [|c cs]; [reflexivity|].
    cbn [all_runs]. rewrite run_cmds_fresh; [rewrite app_nil_r; reflexivity|].
    intros b Hb. apply Hc. apply in_rev. exact Hb.
  - assert (Hr : forall b, In b (adds_of r) -> find_del dl b = None).
    { intros b Hb. apply H. unfold adds_of in *. cbn [filter]. destruct (is_add (fst (t, e))); [right; exact Hb | exact Hb]. }
    destruct t.
    + (* Keep *) cbn [runs exp_cmds]. destruct cur as [|c cs].
      * rewrite (IH Hr (S apos) [] (fun _ F => match F with end)). reflexivity.
      * cbn [all_runs]. rewrite run_cmds_fresh by (intros b Hb; apply Hc, in_rev, Hb).
        rewrite (IH Hr (S apos) [] (fun _ F => match F with end)). reflexivity.
    + (* Drop *) cbn [runs exp_cmds]. destruct cur as [|c cs].
      * rewrite (IH Hr (S apos) [] (fun _ F => match F with end)). reflexivity.
      * cbn [all_runs]. rewrite run_cmds_fresh by (intros b Hb; apply Hc, in_rev, Hb).
        rewrite (IH Hr (S apos) [] (fun _ F => match F with end)). reflexivity.
    + (* Add *) cbn [runs exp_cmds].
      assert (He : find_del dl e = None) by (apply H; unfold adds_of; cbn [filter fst is_add map snd]; left; reflexivity).
      rewrite (IH Hr apos (e :: cur)); [|intros b [<-|Hb]; [exact He | apply Hc, Hb]].
      cbn [rev List.length]. rewrite inums_app. rewrite rev_length. cbn [inums Nat.add]. rewrite <- app_assoc. reflexivity.
Qed.

Lemma drops_in m : forall apos p a, In (p, a) (drops m apos) -> In (Drop, a) m.
Proof.
  induction m as [|[t e] r IH]; intros apos p a H; [destruct H|]. destruct t; cbn [drops] in H.
  - right. eapply IH, H.
  - destruct H as [H|H]; [injection H as <- <-; left; reflexivity | right; eapply IH, H].
  - right. eapply IH, H.
Qed.

Lemma fresh_no_del m : fresh m -> forall b, In b (adds_of m) -> find_del (drops m 0) b = None.
Proof.
  intros FR b Hb. unfold find_del. destruct (find _ _) as [[p a]|] eqn:F; [|reflexivity]. exfalso.
  apply find_some in F. destruct F as [I SL]. cbn [snd] in SL. apply in_rev in I. apply drops_in in I.
  unfold adds_of in Hb. apply in_map_iff in Hb. destruct Hb as ([t e] & E & Hb). cbn [snd] in E. subst e.
  apply filter_In in Hb. destruct Hb as [Hb T]. cbn [fst] in T. destruct t; try discriminate.
  apply same_line_iff in SL.
  (* (Drop, a) and (Add, b) are two different elements of m with the same line *)
  unfold fresh in FR. clear -FR I Hb SL. induction m as [|x r IH]; [destruct I|].
  cbn [map] in FR. inversion FR as [|? ? NI ND]; subst.
  destruct I as [I|I], Hb as [Hb|Hb].
  - congruence.
  - subst x. apply NI. apply in_map_iff. exists (Add, b). split; [cbn [snd]; congruence | exact Hb].
  - subst x. apply NI. apply in_map_iff. exists (Drop, a). split; [cbn [snd]; congruence | exact I].
  - apply IH; assumption.
Qed.

Lemma runs_short m : forall apos cur, short_runs m (List.length cur) -> (N.of_nat (List.length cur) < 10000)%N ->
  existsb (fun r : nat * list ientry => (10000 <=? N.of_nat (List.length (snd r)))%N) (runs m apos cur) = false.
Proof.
  induction m as [|[t e] r IH]; intros apos cur SR L.
  - cbn [runs]. destruct cur; [reflexivity|]. cbn [existsb snd]. rewrite rev_length. rewrite orb_false_r. apply N.leb_gt. exact L.
  - destruct t; cbn [runs short_runs] in *.
    + destruct cur; [apply (IH (S apos) []); [exact SR | simpl; lia]|]. cbn [existsb snd]. rewrite rev_length.
      rewrite (IH (S apos) []); [|exact SR|simpl; lia]. rewrite orb_false_r. apply N.leb_gt. exact L.
    + destruct cur; [apply (IH (S apos) []); [exact SR | simpl; lia]|]. cbn [existsb snd]. rewrite rev_length.
      rewrite (IH (S apos) []); [|exact SR|simpl; lia]. rewrite orb_false_r. apply N.leb_gt. exact L.
    + destruct SR as [L1 SR]. apply (IH apos (e :: cur)); [exact SR | exact L1].
Qed.

Lemma filter_all {A} (f : A -> bool) l : (forall x, In x l -> f x = true) -> filter f l = l.
Proof. induction l as [|x r IH]; intros H; [reflexivity|]. simpl. rewrite (H x (or_introl eq_refl)). f_equal. apply IH. intros y Hy. apply H. right. exact Hy. Qed.

(* what diff_ios returns for a fresh script *)
Theorem diff_ios_fresh m : fresh m -> short_runs m 0 ->
  diff_ios m = Some (exp_cmds m 0 0 ++ map (fun d => INo ((N.of_nat (fst d) + 1) * 10000)%N) (rev (drops m 0))).
Proof.
  intros FR SR. unfold diff_ios. rewrite (runs_short m 0 [] SR) by (simpl; lia).
  destruct (split_pass _ _ _ _) as [blk mx].
  rewrite (all_runs_fresh blk (drops m 0) m (fresh_no_del m FR) 0 [] (fun _ F => match F with end)).
  cbn [rev inums List.app List.length]. f_equal. f_equal. f_equal.
  apply filter_all. intros x _. reflexivity.
Qed.

(* ---- executing these commands on the numbered ACL of the device ---- *)
Lemma sorted_unique S x y : StronglySorted klt S -> In x S -> In y S -> fst x = fst y -> x = y.
Proof.
  induction S as [|z S' IH]; intros SS Hx Hy E; [destruct Hx|].
  apply StronglySorted_inv in SS. destruct SS as [SS' FA]. rewrite Forall_forall in FA.
  destruct Hx as [Hx|Hx], Hy as [Hy|Hy]; try congruence.
  - subst z. apply FA in Hy. unfold klt in Hy. lia.
  - subst z. apply FA in Hx. unfold klt in Hx. lia.
  - apply IH; assumption.
Qed.

Lemma sel_list_ext sel1 sel2 (S : list K) : (forall x, In x S -> sel1 (fst x) = sel2 (fst x)) -> sel_list sel1 S = sel_list sel2 S.
Proof. intros H. unfold sel_list. f_equal. apply filter_ext_in. exact H. Qed.

Definition in_keys (L : list N) (k : N) : bool := existsb (N.eqb k) L.

Lemma exec_adds m S : S = num m 0 0 -> short_runs m 0 -> fresh m ->
  forall adds sel, (forall k e, In (k, e) adds -> In (k, (Add, e)) S /\ sel k = false) -> NoDup (map fst adds) ->
  iexec_all (sel_list sel S) (map (fun a => INum (fst a) (snd a)) adds)
  = Some (sel_list (fun n => (sel n || in_keys (map fst adds) n)%bool) S).
Proof.
  intros ES SR FR. induction adds as [|[k e] r IH]; intros sel H ND.
  - cbn [map iexec_all]. f_equal. apply sel_list_ext. intros x _. cbn [in_keys map existsb]. rewrite orb_false_r. reflexivity.
  - cbn [map iexec_all iexec fst snd]. destruct (H k e (or_introl eq_refl)) as [I Hs].
    rewrite (nadd_sel m S sel k e ES SR FR I Hs).
    cbn [map] in ND. inversion ND as [|? ? NI ND']; subst.
    rewrite IH; [| |exact ND'].
    + f_equal. apply sel_list_ext. intros x _. cbn [in_keys map existsb fst]. rewrite orb_assoc. f_equal.
    + intros k2 e2 H2. destruct (H k2 e2 (or_intror H2)) as [I2 Hs2]. split; [exact I2|]. rewrite Hs2. cbn [orb].
      apply N.eqb_neq. intros ->. apply NI. apply in_map_iff. exists (k, e2). split; [reflexivity | exact H2].
Qed.

Lemma exec_dels (S : list K) : StronglySorted klt S ->
  forall dels sel, (forall k, In k dels -> sel k = true /\ exists te, In (k, te) S) -> NoDup dels ->
  iexec_all (sel_list sel S) (map INo dels) = Some (sel_list (fun n => (sel n && negb (in_keys dels n))%bool) S).
Proof.
  intros SS. induction dels as [|k r IH]; intros sel H ND.
  - cbn [map iexec_all]. f_equal. apply sel_list_ext. intros x _. cbn [in_keys existsb negb]. rewrite andb_true_r. reflexivity.
  - cbn [map iexec_all iexec]. destruct (H k (or_introl eq_refl)) as [Hs [te I]].
    unfold ndel.
    assert (E : existsb (fun x : N * ientry => (fst x =? k)%N) (sel_list sel S) = true).
    { apply existsb_exists. exists (k, snd te). split; [|cbn [fst]; apply N.eqb_refl].
      unfold sel_list. apply in_map_iff. exists (k, te). split; [reflexivity|]. apply filter_In. split; [exact I | exact Hs]. }
    rewrite E.
    assert (F : filter (fun x : N * ientry => negb (fst x =? k)%N) (sel_list sel S) = sel_list (fun n => (sel n && negb (n =? k)%N)%bool) S).
    { unfold sel_list. clear. induction S as [|x S' IHS]; [reflexivity|]. cbn [filter]. destruct (sel (fst x)) eqn:Es; cbn [andb map filter fst].
      - destruct (negb (fst x =? k)%N); cbn [map]; rewrite IHS; reflexivity.
      - exact IHS. }
    rewrite F. inversion ND as [|? ? NI ND']; subst. rewrite IH; [| |exact ND'].
    + f_equal. apply sel_list_ext. intros x _. cbn [in_keys existsb]. rewrite <- andb_assoc. f_equal.
      rewrite negb_orb. reflexivity.
    + intros k2 H2. destruct (H k2 (or_intror H2)) as [Hs2 X]. split; [|exact X]. rewrite Hs2. cbn [andb].
      apply negb_true_iff, N.eqb_neq. intros ->. contradiction.
Qed.

(* ---- the pieces of the numbered script ---- *)
Definition proj (x : K) : N * ientry := (fst x, snd (snd x)).
Definition nonadd (x : K) : bool := negb (is_add (fst (snd x))).
Definition nondrop (x : K) : bool := negb (is_drop (fst (snd x))).

Lemma reseq_num m : forall apos i,
  map proj (filter nonadd (num m apos i))
  = map (fun p => (((N.of_nat (fst p) + 1) * 10000)%N, snd p)) (combine (seq apos (List.length (listA m))) (listA m)).
Proof.
  induction m as [|[t e] r IH]; intros apos i; [reflexivity|].
  destruct t; cbn [num filter nonadd is_add fst snd negb listA map List.length seq combine]; unfold listA in *; cbn [filter is_add fst negb map snd List.length seq combine].
  - rewrite IH. reflexivity.
  - rewrite IH. reflexivity.
  - apply IH.
Qed.

Lemma exp_cmds_num m : forall apos i,
  exp_cmds m apos i = map (fun a : N * ientry => INum (fst a) (snd a)) (map proj (filter (fun x : K => is_add (fst (snd x))) (num m apos i))).
Proof.
  induction m as [|[t e] r IH]; intros apos i; [reflexivity|].
  destruct t; cbn [exp_cmds num filter is_add fst snd map proj]; rewrite IH; reflexivity.
Qed.

Lemma drops_num m : forall apos i p a, In (p, a) (drops m apos) -> In (((N.of_nat p + 1) * 10000)%N, (Drop, a)) (num m apos i).
Proof.
  induction m as [|[t e] r IH]; intros apos i p a H; [destruct H|]. destruct t; cbn [drops] in H; cbn [num].
  - right. apply IH, H.
  - destruct H as [H|H]; [injection H as <- <-; left; reflexivity | right; apply IH, H].
  - right. apply IH, H.
Qed.
Lemma drops_num_inv m : forall apos i k a, In (k, (Drop, a)) (num m apos i) -> exists p, In (p, a) (drops m apos) /\ k = ((N.of_nat p + 1) * 10000)%N.
Proof.
  induction m as [|[t e] r IH]; intros apos i k a H; [destruct H|]. destruct t; cbn [num] in H; cbn [drops].
  - destruct H as [H|H]; [discriminate|]. destruct (IH _ _ _ _ H) as (p & I & E). exists p. auto.
  - destruct H as [H|H]; [injection H as <- <-; exists apos; split; [left; reflexivity | reflexivity]|].
    destruct (IH _ _ _ _ H) as (p & I & E). exists p. split; [right; exact I | exact E].
  - destruct H as [H|H]; [discriminate|]. destruct (IH _ _ _ _ H) as (p & I & E). exists p. auto.
Qed.

Lemma drops_pos_nodup m : forall apos, NoDup (map fst (drops m apos)) /\ forall p, In p (map fst (drops m apos)) -> apos <= p.
Proof.
  induction m as [|[t e] r IH]; intros apos; [split; [constructor | intros p []]|]. destruct t; cbn [drops].
  - destruct (IH (S apos)) as [ND LB]. split; [exact ND|]. intros p H. apply LB in H. lia.
  - destruct (IH (S apos)) as [ND LB]. cbn [map fst]. split; [constructor; [intros H; apply LB in H; lia | exact ND]|].
    intros p [<-|H]; [lia | apply LB in H; lia].
  - apply IH.
Qed.

Lemma listB_num m : forall apos i, map (fun x : K => snd (snd x)) (filter nondrop (num m apos i)) = listB m.
Proof.
  induction m as [|[t e] r IH]; intros apos i; [reflexivity|].
  destruct t; unfold listB in *; cbn [num filter nondrop is_drop fst snd negb map]; first [rewrite IH; reflexivity | apply IH].
Qed.

(* ---- the theorem ---- *)
Theorem ios_fresh_converges m cs : fresh m -> short_runs m 0 -> diff_ios m = Some cs ->
  exists l', iexec_all (reseq (listA m)) cs = Some l' /\ map snd l' = listB m.
Proof.
  intros FR SR D. rewrite (diff_ios_fresh m FR SR) in D. injection D as <-.
  set (S := num m 0 0). pose proof (num_sorted m 0 0 ltac:(simpl; lia) SR) as SS. fold S in SS.
  set (sel0 := in_keys (map fst (filter nonadd S))).
  assert (UN : forall x, In x S -> forall y, In y S -> fst x = fst y -> x = y) by (intros x Hx y Hy; apply (sorted_unique S x y SS Hx Hy)).
  assert (SEL0 : forall x, In x S -> sel0 (fst x) = nonadd x).
  { intros x Hx. unfold sel0, in_keys. destruct (nonadd x) eqn:NA.
    - apply existsb_exists. exists (fst x). split; [|apply N.eqb_refl]. apply in_map. apply filter_In. split; assumption.
    - apply not_true_is_false. intros H. apply existsb_exists in H. destruct H as (k & Hk & E). apply N.eqb_eq in E. subst k.
      apply in_map_iff in Hk. destruct Hk as (y & Ey & Hy). apply filter_In in Hy. destruct Hy as [Hy NAy].
      assert (y = x) by (apply UN; auto). subst y. congruence. }
  assert (R0 : reseq (listA m) = sel_list sel0 S).
  { unfold reseq, sel_list. rewrite <- (reseq_num m 0 0). fold S. unfold proj.
    f_equal. apply filter_ext_in. intros x Hx. symmetry. apply SEL0, Hx. }
  rewrite R0.
  (* the numbered inserts *)
  set (adds := map proj (filter (fun x : K => is_add (fst (snd x))) S)).
  assert (HA : forall k e, In (k, e) adds -> In (k, (Add, e)) S /\ sel0 k = false).
  { intros k e H. unfold adds in H. apply in_map_iff in H. destruct H as ([k' [t' e']] & E & H). unfold proj in E. cbn [fst snd] in E. injection E as -> ->.
    apply filter_In in H. destruct H as [H T]. cbn [fst snd] in T. destruct t'; try discriminate. split; [exact H|].
    pose proof (SEL0 _ H) as X. cbn [fst] in X. rewrite X. reflexivity. }
  assert (NDA : NoDup (map fst adds)).
  { unfold adds. rewrite map_map. clear -SS. induction S as [|x S' IH]; [constructor|].
    apply StronglySorted_inv in SS. destruct SS as [SS' FA]. rewrite Forall_forall in FA. cbn [filter].
    destruct (is_add (fst (snd x))); [|apply IH, SS']. cbn [map]. constructor; [|apply IH, SS'].
    intros H. apply in_map_iff in H. destruct H as (y & E & Hy). apply filter_In in Hy. destruct Hy as [Hy _].
    apply FA in Hy. unfold klt in Hy. unfold proj in E. cbn [fst] in E. lia. }
  rewrite (exp_cmds_num m 0 0). fold S. fold adds.
  pose proof (exec_adds m S eq_refl SR FR adds sel0 HA NDA) as EA.
  set (dels := map (fun d : nat * ientry => ((N.of_nat (fst d) + 1) * 10000)%N) (rev (drops m 0))).
  assert (ED : map (fun d : nat * ientry => INo ((N.of_nat (fst d) + 1) * 10000)%N) (rev (drops m 0)) = map INo dels)
    by (unfold dels; rewrite map_map; reflexivity).
  rewrite ED.
  assert (RUN : forall l1 c1 c2 l2, iexec_all l1 c1 = Some l2 -> iexec_all l1 (c1 ++ c2) = iexec_all l2 c2).
  { intros l1 c1. revert l1. induction c1 as [|c r IHc]; intros l1 c2 l2 H; cbn [iexec_all List.app] in *; [injection H as <-; reflexivity|].
    destruct (iexec l1 c); [apply IHc, H | discriminate]. }
  rewrite (RUN _ _ _ _ EA).
  set (sel1 := fun n => (sel0 n || in_keys (map fst adds) n)%bool).
  assert (ALL : forall x, In x S -> sel1 (fst x) = true).
  { intros x Hx. unfold sel1. rewrite (SEL0 _ Hx). destruct (nonadd x) eqn:NA; [reflexivity|]. cbn [orb].
    apply existsb_exists. exists (fst x). split; [|apply N.eqb_refl]. unfold adds. rewrite map_map. apply in_map_iff. exists x. split; [reflexivity|].
    apply filter_In. split; [exact Hx|]. unfold nonadd in NA. apply negb_false_iff in NA. exact NA. }
  assert (HD : forall k, In k dels -> sel1 k = true /\ exists te, In (k, te) S).
  { intros k H. unfold dels in H. apply in_map_iff in H. destruct H as ([p a] & E & H). cbn [fst] in E. subst k.
    apply in_rev in H. apply (drops_num m 0 0) in H. fold S in H. split; [apply (ALL _ H) | eauto]. }
  assert (NDD : NoDup dels).
  { unfold dels. destruct (drops_pos_nodup m 0) as [ND _].
    assert (G : forall l : list (nat * ientry), NoDup (map fst l) -> NoDup (map (fun d : nat * ientry => ((N.of_nat (fst d) + 1) * 10000)%N) l)).
    { induction l as [|d l IHl]; intros NDl; [constructor|]. cbn [map] in *. inversion NDl as [|? ? NI ND']; subst. constructor; [|apply IHl, ND'].
      intros H. apply in_map_iff in H. destruct H as (d' & E & Hd'). apply NI. apply in_map_iff. exists d'. split; [lia | exact Hd']. }
    apply G. rewrite map_rev. apply NoDup_rev. exact ND. }
  rewrite (exec_dels S SS dels sel1 HD NDD).
  eexists. split; [reflexivity|].
  unfold sel_list. rewrite map_map. cbn [snd].
  rewrite <- (listB_num m 0 0). fold S. f_equal. apply filter_ext_in. intros x Hx.
  rewrite (ALL _ Hx). cbn [andb]. unfold nondrop. f_equal.
  (* the key of x is a deleted key iff x is a Drop entry *)
  destruct x as [k [t e]]. cbn [fst snd]. destruct (is_drop t) eqn:T.
  - destruct t; try discriminate. destruct (drops_num_inv m 0 0 k e Hx) as (p & I & ->).
    apply existsb_exists. eexists. split; [|apply N.eqb_refl]. unfold dels. apply in_map_iff. exists (p, e). split; [reflexivity | apply -> in_rev; exact I].
  - apply not_true_is_false. intros H. apply existsb_exists in H. destruct H as (k' & Hk & E). apply N.eqb_eq in E. subst k'.
    unfold dels in Hk. apply in_map_iff in Hk. destruct Hk as ([p a] & E & Hp). cbn [fst] in E. apply in_rev in Hp.
    apply (drops_num m 0 0) in Hp. fold S in Hp. rewrite E in Hp.
    assert (X : (k, (Drop, a)) = (k, (t, e))) by (apply UN; auto). injection X as <- <-. discriminate.
Qed.
