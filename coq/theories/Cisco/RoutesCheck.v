(* Cisco/RoutesCheck.v — comparison of the model with the commands printed by drc *)
From Coq Require Import List Arith Bool.
From NA Require Import Cisco.Routes.
Import ListNotations.

Definition rcmd_eqb (a b : rcmd) : bool :=
  match a, b with
  | RAdd x, RAdd y => route_eqb x y
  | RDel x, RDel y => route_eqb x y
  | RRepl o n, RRepl o' n' => route_eqb o o' && route_eqb n n'
  | _, _ => false
  end.
Fixpoint rcmds_eqb (a b : list rcmd) : bool :=
  match a, b with
  | [], [] => true
  | x :: a', y :: b' => rcmd_eqb x y && rcmds_eqb a' b'
  | _, _ => false
  end.
Definition same_routes (a b : list route) : bool :=
  forallb (fun r => has_route b r) a && forallb (fun r => has_route a r) b.
(* [model = implementation; the implementation's commands are accepted and end in the target routes] *)
Definition route_verdict (x : script * list rcmd) : list nat :=
  let '(m, impl) := x in
  [if rcmds_eqb (diff_croutes m) impl then 0 else 1;
   match rexec_all (listA m) impl with Some t => if same_routes t (listB m) then 0 else 1 | None => 2 end].
Definition route_verdicts (l : list (script * list rcmd)) : list nat := flat_map route_verdict l.

(* several VRFs / several routes per destination (IOS): the target routes plus the device routes of the VRFs
   for which the target has none *)
Definition expected_routes (m : script) : list route :=
  listB m ++ filter (fun r => negb (vrf_managed m r)) (listA m).
Definition route_verdict_vrf (ios : bool) (x : script * list rcmd) : list nat :=
  let '(m, impl) := x in
  [if rcmds_eqb (diff_croutes_vrf m) impl then 0 else 1;
   match (if ios then rexec_all_ios else rexec_all) (listA m) impl with
   | Some t => if same_routes t (expected_routes m) then 0 else 1
   | None => 2 end].
Definition route_verdicts_vrf (ios : bool) (l : list (script * list rcmd)) : list nat := flat_map (route_verdict_vrf ios) l.
