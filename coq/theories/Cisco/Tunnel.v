(* Cisco/Tunnel.v — ASA tunnel-groups (named by the peer address, IPv4 or IPv6) with their
   attribute sections, users (username NAME nopassword / attributes), the group-policies both reference,
   and the ACLs (vpn-filter, split-tunnel-network-list) and address pools (ip local pool) of those:
   device state, the commands drc emits for them, strict checks (a referenced object must
   exist, a referenced object cannot be removed, a line / section / object to be removed must
   be there), the equivalence oracle (references expanded, so generated names do not matter)
   and the rendering for the next compare. *)
From Coq Require Import List String Bool Arith NArith.
From NA Require Import Base.Str Cisco.Vpn.
Import ListNotations.
Open Scope string_scope.

Definition block := list words.                       (* attribute lines of a sub-mode, a set *)
Inductive tmode := TTop | TGp (n : string) | TTg (n sec : string) | TUser (n : string).
Record tdev := {
  td_acls : list (string * list words);                       (* ACL -> lines (words behind the name) *)
  td_pools : list (string * words);                           (* ip local pool -> definition *)
  td_gps : list (string * block);                             (* group-policy -> attribute lines *)
  td_tgs : list (string * (string * list (string * block)));  (* tunnel-group -> (type, sections) *)
  td_users : list (string * block);                           (* username -> attribute lines *)
  td_mode : tmode }.

Inductive tres := TOk (d : tdev) | TRefuse (why : nat).
(* 1 unknown object referenced, 2 object still referenced, 3 no such object / section / line, 6 command not understood *)

Definition tupd (d : tdev) acls pools gps tgs users mode : tdev :=
  {| td_acls := acls; td_pools := pools; td_gps := gps; td_tgs := tgs; td_users := users; td_mode := mode |}.
Definition tmode_set (d : tdev) (m : tmode) : tdev := tupd d (td_acls d) (td_pools d) (td_gps d) (td_tgs d) (td_users d) m.
Definition ttop (d : tdev) : tdev := tmode_set d TTop.

Definition has_line (l : words) (b : block) : bool := existsb (words_eqb l) b.
Fixpoint drop_line (l : words) (b : block) : block :=
  match b with [] => [] | x :: r => if words_eqb l x then r else x :: drop_line l r end.

(* the attribute a line sets: "ikev2 local-authentication ..." and "ikev1 ..." are named by two words *)
Definition line_key (l : words) : words :=
  match l with
  | "ikev2" :: x :: _ => ["ikev2"; x]
  | "ikev1" :: x :: _ => ["ikev1"; x]
  | x :: _ => [x]
  | [] => []
  end.
Definition add_line (l : words) (b : block) : block :=
  (filter (fun x => negb (words_eqb (line_key x) (line_key l))) b ++ [l])%list.

(* what an attribute line refers to *)
Inductive rkind := RAcl | RPool | RGp.
Definition rkind_eqb (a b : rkind) : bool := match a, b with RAcl, RAcl | RPool, RPool | RGp, RGp => true | _, _ => false end.
Definition line_ref (w : words) : option (rkind * string) :=
  match w with
  | [a; b; c] =>
      if negb (String.eqb b "value") then None
      else if String.eqb a "vpn-filter" then Some (RAcl, c)
      else if String.eqb a "split-tunnel-network-list" then Some (RAcl, c)
      else if String.eqb a "address-pools" then Some (RPool, c)
      else None
  | [a; b] =>
      if String.eqb a "default-group-policy" then Some (RGp, b)
      else if String.eqb a "vpn-group-policy" then Some (RGp, b)
      else None
  | _ => None
  end.
Definition is_no (w : words) : option words := match w with "no" :: l => Some l | _ => None end.

Definition refers (k : rkind) (n : string) (l : words) : bool :=
  match line_ref l with Some (k', n') => (rkind_eqb k k' && String.eqb n n')%bool | None => false end.
Definition all_blocks (d : tdev) : list block :=
  (map snd (td_gps d) ++ flat_map (fun t : string * (string * list (string * block)) => map snd (snd (snd t))) (td_tgs d) ++ map snd (td_users d))%list.
Definition referenced (k : rkind) (n : string) (d : tdev) : bool := existsb (existsb (refers k n)) (all_blocks d).
Definition exists_obj (k : rkind) (n : string) (d : tdev) : bool :=
  match k with RAcl => vhas n (td_acls d) | RPool => vhas n (td_pools d) | RGp => vhas n (td_gps d) end.

Definition is_section (s : string) : bool :=
  (String.eqb s "general-attributes" || String.eqb s "ipsec-attributes" || String.eqb s "webvpn-attributes")%bool.

Fixpoint insert_at {A} (k : nat) (x : A) (l : list A) : option (list A) :=
  match k, l with
  | O, _ => Some (x :: l)
  | S k', y :: r => match insert_at k' x r with Some r' => Some (y :: r') | None => None end
  | S _, [] => None
  end.
Fixpoint delete_at (k : nat) (x : words) (l : list words) : option (list words) :=
  match k, l with
  | O, y :: r => if words_eqb x y then Some r else None
  | S k', y :: r => match delete_at k' x r with Some r' => Some (y :: r') | None => None end
  | _, [] => None
  end.
Definition nat_of (s : string) : option nat := match parse_dec s with Some n => Some (N.to_nat n) | None => None end.

Definition acl_of (n : string) (d : tdev) : list words := match vlookup n (td_acls d) with Some l => l | None => [] end.
Definition set_acl (n : string) (l : list words) (d : tdev) : tdev :=
  tupd d (match l with [] => vremove n (td_acls d) | _ => vset n l (td_acls d) end) (td_pools d) (td_gps d) (td_tgs d) (td_users d) TTop.

(* the block of the current sub-mode and how to store it back *)
Definition cur_block (d : tdev) : option block :=
  match td_mode d with
  | TTop => None
  | TGp g => vlookup g (td_gps d)
  | TUser u => vlookup u (td_users d)
  | TTg t sec => match vlookup t (td_tgs d) with
                 | Some (_, secs) => Some (match vlookup sec secs with Some b => b | None => [] end)
                 | None => None
                 end
  end.
Definition put_block (d : tdev) (b : block) : tdev :=
  match td_mode d with
  | TTop => d
  | TGp g => tupd d (td_acls d) (td_pools d) (vset g b (td_gps d)) (td_tgs d) (td_users d) (td_mode d)
  | TUser u => tupd d (td_acls d) (td_pools d) (td_gps d) (td_tgs d) (vset u b (td_users d)) (td_mode d)
  | TTg t sec => match vlookup t (td_tgs d) with
                 | Some (ty, secs) => tupd d (td_acls d) (td_pools d) (td_gps d) (vset t (ty, vset sec b secs) (td_tgs d)) (td_users d) (td_mode d)
                 | None => d
                 end
  end.

(* a line entered in a sub-mode *)
Definition tsub (d : tdev) (w : words) : tres :=
  match td_mode d, cur_block d with
  | TTop, _ => TRefuse 6
  | _, None => TRefuse 3
  | _, Some b =>
      match is_no w with
      | Some l => if has_line l b then TOk (put_block d (drop_line l b)) else TRefuse 3
      | None =>
          match line_ref w with
          | Some (k, n) => if exists_obj k n d then TOk (put_block d (add_line w b)) else TRefuse 1
          | None => TOk (put_block d (add_line w b))
          end
      end
  end.

(* the commands of the generator's object types *)
Inductive tcmd :=
| CExit
| CAclInsert (n : string) (k : nat) (rest : words)      (* access-list N line K+1 REST *)
| CAclAppend (n : string) (rest : words)
| CAclDelete (n : string) (k : nat) (rest : words)      (* no access-list N line K+1 REST *)
| CAclClear (n : string)
| CPool (n : string) (def : words)
| CNoPool (n : string) (def : words)
| CGpNew (n : string) | CGpMode (n : string) | CGpClear (n : string)
| CUserNew (n : string) | CUserMode (n : string) | CUserClear (n : string)
| CTgType (n ty : string) | CTgMode (n sec : string) | CTgNoSection (n sec : string) | CTgClear (n : string)
| CBad
| CSub (w : words).

Definition classify (w : words) : tcmd :=
  match w with
  | ["exit"] => CExit
  | "access-list" :: n :: "line" :: k :: rest => match nat_of k with Some (S k') => CAclInsert n k' rest | _ => CBad end
  | "access-list" :: n :: rest => CAclAppend n rest
  | "no" :: "access-list" :: n :: "line" :: k :: rest => match nat_of k with Some (S k') => CAclDelete n k' rest | _ => CBad end
  | ["clear"; "configure"; "access-list"; n] => CAclClear n
  | "ip" :: "local" :: "pool" :: n :: def => CPool n def
  | "no" :: "ip" :: "local" :: "pool" :: n :: def => CNoPool n def
  | ["group-policy"; n; "internal"] => CGpNew n
  | ["group-policy"; n; "attributes"] => CGpMode n
  | ["clear"; "configure"; "group-policy"; n] => CGpClear n
  | ["username"; n; "nopassword"] => CUserNew n
  | ["username"; n; "attributes"] => CUserMode n
  | ["clear"; "configure"; "username"; n] => CUserClear n
  | ["tunnel-group"; n; "type"; ty] => CTgType n ty
  | ["tunnel-group"; n; sec] => if is_section sec then CTgMode n sec else CBad
  | ["no"; "tunnel-group"; n; sec] => if is_section sec then CTgNoSection n sec else CBad
  | ["clear"; "configure"; "tunnel-group"; n] => CTgClear n
  | "clear" :: _ => CBad
  | "group-policy" :: _ => CBad
  | "tunnel-group" :: _ => CBad
  | "username" :: _ => CBad
  | _ => CSub w
  end.

Definition exec_cmd (d : tdev) (c : tcmd) : tres :=
  match c with
  | CExit => TOk (ttop d)
  | CAclInsert n k rest => match insert_at k rest (acl_of n d) with Some l => TOk (set_acl n l d) | None => TRefuse 3 end
  | CAclAppend n rest => TOk (set_acl n (acl_of n d ++ [rest]) d)
  | CAclDelete n k rest =>
      match delete_at k rest (acl_of n d) with
      | Some [] => if referenced RAcl n d then TRefuse 2 else TOk (set_acl n [] d)
      | Some l => TOk (set_acl n l d)
      | None => TRefuse 3
      end
  | CAclClear n =>
      if negb (vhas n (td_acls d)) then TRefuse 3
      else if referenced RAcl n d then TRefuse 2
      else TOk (tupd d (vremove n (td_acls d)) (td_pools d) (td_gps d) (td_tgs d) (td_users d) TTop)
  | CPool n def => TOk (tupd d (td_acls d) (vset n def (td_pools d)) (td_gps d) (td_tgs d) (td_users d) TTop)
  | CNoPool n def =>
      match vlookup n (td_pools d) with
      | Some def' => if negb (words_eqb def def') then TRefuse 3
                     else if referenced RPool n d then TRefuse 2
                     else TOk (tupd d (td_acls d) (vremove n (td_pools d)) (td_gps d) (td_tgs d) (td_users d) TTop)
      | None => TRefuse 3
      end
  | CGpNew n => TOk (tupd d (td_acls d) (td_pools d) (if vhas n (td_gps d) then td_gps d else vset n [] (td_gps d)) (td_tgs d) (td_users d) TTop)
  | CGpMode n => if vhas n (td_gps d) then TOk (tmode_set d (TGp n)) else TRefuse 3
  | CGpClear n =>
      if negb (vhas n (td_gps d)) then TRefuse 3
      else if referenced RGp n d then TRefuse 2
      else TOk (tupd d (td_acls d) (td_pools d) (vremove n (td_gps d)) (td_tgs d) (td_users d) TTop)
  | CUserNew n => TOk (tupd d (td_acls d) (td_pools d) (td_gps d) (td_tgs d) (if vhas n (td_users d) then td_users d else vset n [] (td_users d)) TTop)
  | CUserMode n => if vhas n (td_users d) then TOk (tmode_set d (TUser n)) else TRefuse 3
  | CUserClear n =>
      if vhas n (td_users d) then TOk (tupd d (td_acls d) (td_pools d) (td_gps d) (td_tgs d) (vremove n (td_users d)) TTop) else TRefuse 3
  | CTgType n ty =>
      TOk (tupd d (td_acls d) (td_pools d) (td_gps d)
                (vset n (ty, match vlookup n (td_tgs d) with Some (_, secs) => secs | None => [] end) (td_tgs d)) (td_users d) TTop)
  | CTgMode n sec => if vhas n (td_tgs d) then TOk (tmode_set d (TTg n sec)) else TRefuse 3
  | CTgNoSection n sec =>
      match vlookup n (td_tgs d) with
      | Some (ty, secs) =>
          if vhas sec secs then TOk (tupd d (td_acls d) (td_pools d) (td_gps d) (vset n (ty, vremove sec secs) (td_tgs d)) (td_users d) TTop) else TRefuse 3
      | None => TRefuse 3
      end
  | CTgClear n =>
      if vhas n (td_tgs d) then TOk (tupd d (td_acls d) (td_pools d) (td_gps d) (vremove n (td_tgs d)) (td_users d) TTop) else TRefuse 3
  | CBad => TRefuse 6
  | CSub w => tsub d w
  end.

Definition texec (d : tdev) (w : words) : tres := exec_cmd d (classify w).

Fixpoint trun (d : tdev) (cs : list words) (i : nat) : tdev * nat * nat :=
  match cs with
  | [] => (d, 0, 0)
  | c :: r => match texec d c with
              | TOk d' => trun d' r (S i)
              | TRefuse why => (d, S i, why)
              end
  end.
Fixpoint tprefix (d : tdev) (cs : list words) (k : nat) : tdev :=
  match k, cs with
  | S k', c :: r => match texec d c with TOk d' => tprefix d' r k' | TRefuse _ => d end
  | _, _ => d
  end.

(* ---- oracle: per tunnel-group and per user the attribute lines with the references expanded ---- *)
Definition key_of (l : words) : string := match l with x :: _ => x | [] => "" end.
Definition expand_leaf (d : tdev) (l : words) : string :=
  match line_ref l with
  | Some (RAcl, a) => key_of l ++ " [" ++ match vlookup a (td_acls d) with Some ls => join ";" (map (join " ") ls) | None => "?" ++ a end ++ "]"
  | Some (RPool, p) => key_of l ++ " [" ++ match vlookup p (td_pools d) with Some def => join " " def | None => "?" ++ p end ++ "]"
  | _ => join " " l
  end.
Definition gp_sem (d : tdev) (g : string) : string :=
  match vlookup g (td_gps d) with
  | Some b => join ";" (sort_strings (map (expand_leaf d) b))
  | None => "?" ++ g
  end.
Definition expand_line (d : tdev) (l : words) : string :=
  match line_ref l with
  | Some (RGp, g) => key_of l ++ " {" ++ gp_sem d g ++ "}"
  | _ => expand_leaf d l
  end.
Definition tg_sem (d : tdev) (t : string * (string * list (string * block))) : string :=
  fst t ++ " type " ++ fst (snd t) ++ " :: " ++
  join "|" (sort_strings (flat_map (fun s : string * block => map (fun l => fst s ++ ": " ++ expand_line d l) (snd s)) (snd (snd t)))).
Definition user_sem (d : tdev) (u : string * block) : string :=
  "user " ++ fst u ++ " :: " ++ join "|" (sort_strings (map (expand_line d) (snd u))).
Definition tsem (d : tdev) : list string := sort_strings (map (tg_sem d) (td_tgs d) ++ map (user_sem d) (td_users d)).
Definition tequiv (a b : tdev) : bool := strs_eqb (tsem a) (tsem b).

(* ---- rendering ---- *)
Definition tr_acl (a : string * list words) : list string := map (fun l => "access-list " ++ fst a ++ " " ++ join " " l) (snd a).
Definition tr_pool (p : string * words) : string := "ip local pool " ++ fst p ++ " " ++ join " " (snd p).
Definition tr_gp (g : string * block) : list string :=
  ("group-policy " ++ fst g ++ " internal") :: ("group-policy " ++ fst g ++ " attributes") :: map (fun l => " " ++ join " " l) (snd g).
Definition tr_tg (t : string * (string * list (string * block))) : list string :=
  ("tunnel-group " ++ fst t ++ " type " ++ fst (snd t)) ::
  flat_map (fun s : string * block => ("tunnel-group " ++ fst t ++ " " ++ fst s) :: map (fun l => " " ++ join " " l) (snd s)) (snd (snd t)).
Definition tr_user (u : string * block) : list string :=
  ("username " ++ fst u ++ " nopassword") :: ("username " ++ fst u ++ " attributes") :: map (fun l => " " ++ join " " l) (snd u).
Definition trender (d : tdev) : list string :=
  (flat_map tr_acl (td_acls d) ++ map tr_pool (td_pools d) ++ flat_map tr_gp (td_gps d) ++ flat_map tr_tg (td_tgs d) ++ flat_map tr_user (td_users d))%list.

Record tcase := { tc_dev : tdev; tc_tgt : tdev; tc_cmds : list words }.
Definition tjudge (c : tcase) :=
  match trun (tc_dev c) (tc_cmds c) 0 with
  | (d', pos, why) => (pos, why, tequiv d' (tc_tgt c), trender d', tequiv (tc_dev c) (tc_tgt c))
  end.
Definition tprefix_states (c : tcase) : list (list string) :=
  map (fun k => trender (ttop (tprefix (tc_dev c) (tc_cmds c) k))) (seq 1 (List.length (tc_cmds c) - 1)).
