From Coq Require Import List NArith Arith Bool.
From NA Require Import Cisco.IosAcl.
Import ListNotations.

Definition P (b : nat) : ientry := {| i_act := 0; i_body := b; i_log := 0 |}.
Definition D (b : nat) : ientry := {| i_act := 1; i_body := b; i_log := 0 |}.

(* device [p1 p2 p3 p4], target [p1 p4 deny p2 p3]: the case of F-C02-1 *)
Definition m_fc021 : script :=
  [(Keep, P 1); (Add, P 4); (Add, D 9); (Keep, P 2); (Keep, P 3); (Drop, P 4)].

Lemma ios_example :
  exists m cs, diff_ios m = Some cs /\ cs <> [] /\
    match iexec_all (reseq (listA m)) cs with
    | Some r => equiv (map snd r) (listB m) = true
    | None => False
    end.
Proof.
  exists m_fc021. eexists. split; [vm_compute; reflexivity|]. split; [discriminate|].
  vm_compute. reflexivity.
Qed.
