(* Cisco/Oracle.v — the properties C01/C02 (convergence), C07 (frame), C08
   (executability), C10 (resumability), C14 (stepwise safety) as executable
   predicates over the strict device semantics of Cisco/Device.v.  They are
   evaluated on the script the *implementation* printed. *)
From Coq Require Import List String Ascii Bool Arith NArith.
From NA Require Import Base.Str Cisco.Device Cisco.DeviceFrame.
Import ListNotations.
Open Scope string_scope.

Definition why_code (w : why) : nat :=
  match w with
  | WMissingRef => 1 | WStillReferenced => 2 | WDuplicate => 3 | WWrongLine => 4
  | WWrongMode => 5 | WUnknown => 6 | WDupRoute => 7 | WMissing => 8
  end.

(* ---- canonical content of ACL lines: group names replaced by group content ---- *)
Fixpoint insert_toks (x : toks) (l : list toks) : list toks :=
  match l with
  | [] => [x]
  | y :: r => if String.leb (join " " x) (join " " y) then x :: l else y :: insert_toks x r
  end.
Definition sort_toks (l : list toks) : list toks := fold_right insert_toks [] l.

Definition group_canon (d : dev) (g : string) : string :=
  match alookup (d_groups d) g with
  | Some (ty, mem) => "{" ++ join " " ty ++ "|" ++ join "|" (map (join " ") (sort_toks mem)) ++ "}"
  | None => "{?" ++ g ++ "}"
  end.

Fixpoint expand (d : dev) (l : toks) : toks :=
  match l with
  | "object-group" :: n :: r => "object-group" :: group_canon d n :: expand d r
  | w :: r => w :: expand d r
  | [] => []
  end.

Definition acl_content (d : dev) (n : string) : list toks :=
  match alookup (d_acls d) n with
  | Some lines => map (fun ln => expand d (snd ln)) lines
  | None => []
  end.

Fixpoint list_toks_eqb (a b : list toks) : bool :=
  match a, b with
  | [], [] => true
  | x :: a', y :: b' => toks_eqb x y && list_toks_eqb a' b'
  | _, _ => false
  end.

(* IOS: entries inside a run of consecutive rules with the same action may be
   in any order.  Canonical form: sort every maximal run (remarks join the
   current run). *)
Definition ios_action (t : toks) : string := match t with a :: _ => a | [] => "" end.
Fixpoint runs (cur : string) (acc : list toks) (l : list toks) : list (list toks) :=
  match l with
  | [] => [sort_toks acc]
  | t :: r =>
      let a := ios_action t in
      if str_eqb a "remark" || str_eqb a cur || str_eqb cur "" then
        runs (if str_eqb a "remark" then cur else a) (t :: acc) r
      else sort_toks acc :: runs a [t] r
  end.
Definition block_canon (l : list toks) : list toks := List.concat (runs "" [] l).

Definition acl_equiv (ios : bool) (a b : list toks) : bool :=
  if ios then list_toks_eqb (block_canon (map strip_log a)) (block_canon (map strip_log b))
  else list_toks_eqb a b.

(* every managed location carries an ACL of equivalent content (or none on both) *)
Definition binds_equiv (ios : bool) (d tgt : dev) (locs : list toks) : bool :=
  forallb (fun loc =>
    match bind_of d loc, bind_of tgt loc with
    | None, None => true
    | Some a, Some b => acl_equiv ios (acl_content d a) (acl_content tgt b)
    | _, _ => false
    end) locs.

Definition toks_mem (t : toks) (l : list toks) : bool := existsb (toks_eqb t) l.
Definition toks_subset (a b : list toks) : bool := forallb (fun t => toks_mem t b) a.

(* route families: a family is managed iff the target has a route of it *)
Definition route_family (t : toks) : toks :=
  match t with
  | "route" :: _ => ["route"]
  | "ipv6" :: "route" :: _ => ["ipv6"; "route"]
  | "ip" :: "route" :: "vrf" :: v :: _ => ["ip"; "route"; "vrf"; v]
  | "ip" :: "route" :: _ => ["ip"; "route"]
  | _ => []
  end.
Definition routes_equiv (d0 d tgt : dev) : bool :=
  let fams := map route_family (d_routes tgt) in
  let managed t := toks_mem (route_family t) fams in
  toks_subset (filter managed (d_routes d)) (d_routes tgt) &&
  toks_subset (d_routes tgt) (d_routes d) &&
  (* unmanaged families untouched *)
  list_toks_eqb (filter (fun t => negb (managed t)) (d_routes d))
                (filter (fun t => negb (managed t)) (d_routes d0)).

(* no generated object is left unreferenced *)
Definition has_drc (n : string) : bool := contains "-DRC-" n.
Definition no_garbage (d : dev) (keep : list string) : bool :=
  forallb (fun a => negb (has_drc (fst a)) || acl_bound d (fst a) || existsb (str_eqb (fst a)) keep) (d_acls d) &&
  forallb (fun g => negb (has_drc (fst g)) || group_used d (fst g) || existsb (str_eqb (fst g)) keep) (d_groups d).

(* ---- frame: the unmanaged projection ---- *)
Record unmanaged := { u_acls : list string; u_groups : list string; u_locs : list toks; u_routes : list toks }.

Definition proj (u : unmanaged) (d : dev) : list (list toks) :=
  List.app (map (fun n => match alookup (d_acls d) n with Some l => ["acl"; n] :: map snd l | None => [["acl-missing"; n]] end) (u_acls u))
  (List.app (map (fun n => match alookup (d_groups d) n with Some (ty, m) => ("grp" :: n :: ty) :: m | None => [["grp-missing"; n]] end) (u_groups u))
  (List.app (map (fun loc => match bind_of d loc with Some a => [loc; [a]] | None => [loc; []] end) (u_locs u))
   [filter (fun r => toks_mem r (u_routes u)) (d_routes d)])).

Fixpoint lltoks_eqb (a b : list (list toks)) : bool :=
  match a, b with
  | [], [] => true
  | x :: a', y :: b' => list_toks_eqb x y && lltoks_eqb a' b'
  | _, _ => false
  end.

(* first prefix length at which the unmanaged projection differs; 0 = never *)
Fixpoint frame_scan (u : unmanaged) (p0 : list (list toks)) (d : dev) (l : list cmd) (k : nat) : nat :=
  match l with
  | [] => 0
  | c :: r => match exec d c with
              | Ok d' => if lltoks_eqb (proj u d') p0 then frame_scan u p0 d' r (S k) else S k
              | Refuse _ => 0
              end
  end.

(* ---- stepwise safety over a finite packet universe ---- *)
(* matcher table: body of an entry without action and log attribute -> packets *)
Definition mtable := list (toks * list nat).
Definition entry_action (ios : bool) (t : toks) : string :=
  if ios then ios_action t else match t with _ :: a :: _ => a | _ => "" end.
Definition entry_body (ios : bool) (t : toks) : toks :=
  strip_log (if ios then tl t else tl (tl t)).
Definition matches (mt : mtable) (ios : bool) (t : toks) (p : nat) : bool :=
  match find (fun e => toks_eqb (fst e) (entry_body ios t)) mt with
  | Some e => existsb (Nat.eqb p) (snd e)
  | None => false
  end.
Fixpoint verdict (mt : mtable) (ios : bool) (l : list toks) (p : nat) : bool :=
  match l with
  | [] => false
  | t :: r =>
      let a := entry_action ios t in
      if (str_eqb a "permit" || str_eqb a "deny") && matches mt ios t p
      then str_eqb a "permit" else verdict mt ios r p
  end.

Definition acl_at (d : dev) (loc : toks) : list toks :=
  match bind_of d loc with
  | Some a => match alookup (d_acls d) a with Some l => map snd l | None => [] end
  | None => []
  end.

(* An interface without ACL, and on IOS an ACL without entries, filters nothing. *)
Definition bound_verdict (mt : mtable) (ios : bool) (d : dev) (loc : toks) (p : nat) : bool :=
  match bind_of d loc with
  | None => true
  | Some _ => match acl_at d loc with
              | [] => true
              | l => verdict mt ios l p
              end
  end.

Definition step_safe (mt : mtable) (ios : bool) (npk : nat) (d0 tgt d : dev) (locs : list toks) : bool :=
  forallb (fun loc =>
    match bind_of d0 loc, bind_of tgt loc with
    | Some _, Some _ =>
        forallb (fun p =>
          let v0 := verdict mt ios (acl_at d0 loc) p in
          let v1 := verdict mt ios (acl_at tgt loc) p in
          if Bool.eqb v0 v1 then Bool.eqb (bound_verdict mt ios d loc p) v0 else true)
          (seq 0 npk)
    | _, _ => true
    end) locs.

Fixpoint step_scan (mt : mtable) (ios : bool) (npk : nat) (d0 tgt d : dev) (locs : list toks)
         (l : list cmd) (k : nat) : nat :=
  match l with
  | [] => 0
  | c :: r => match exec d c with
              | Ok d' => if step_safe mt ios npk d0 tgt d' locs
                         then step_scan mt ios npk d0 tgt d' locs r (S k) else S k
              | Refuse _ => 0
              end
  end.

(* route coverage: every destination with a route before and after keeps one *)
Definition has_route_key (d : dev) (k : toks) : bool :=
  existsb (fun r => toks_eqb (route_key r) k) (d_routes d).
Fixpoint route_scan (d0 tgt d : dev) (l : list cmd) (k : nat) : nat :=
  match l with
  | [] => 0
  | c :: r =>
      match exec d c with
      | Ok d' =>
          if forallb (fun r0 => let key := route_key r0 in
                        if has_route_key tgt key then has_route_key d' key else true) (d_routes d0)
          then route_scan d0 tgt d' r (S k) else S k
      | Refuse _ => 0
      end
  end.

(* ---- rendering a device state back to configuration text ---- *)
Definition render_asa (header : list string) (d : dev) : list string :=
  List.app header
  (List.app (flat_map (fun g => ("object-group " ++ join " " (fst (snd g)) ++ " " ++ fst g)
                       :: map (fun m => " " ++ join " " m) (snd (snd g))) (d_groups d))
  (List.app (flat_map (fun a => map (fun ln => "access-list " ++ fst a ++ " " ++ join " " (snd ln)) (snd a)) (d_acls d))
  (List.app (map (fun b => "access-group " ++ snd b ++ " " ++ join " " (fst b)) (d_binds d))
   (map (join " ") (d_routes d))))).

(* intfs: interface name and its fixed sub-commands *)
Definition render_ios (intfs : list (string * list string)) (d : dev) : list string :=
  List.app (flat_map (fun a => ("ip access-list extended " ++ fst a) :: map (fun ln => " " ++ join " " (snd ln)) (snd a)) (d_acls d))
  (List.app (flat_map (fun i => ("interface " ++ fst i) :: List.app (map (fun s => " " ++ s) (snd i))
                      (flat_map (fun b => match fst b with
                                         | [n; dir] => if str_eqb n (fst i) then [" ip access-group " ++ snd b ++ " " ++ dir] else []
                                         | _ => []
                                         end) (d_binds d))) intfs)
   (map (join " ") (d_routes d))).

(* ---- one case ---- *)
Record ocase := {
  o_ios : bool;
  o_dev : dev;                 (* device before *)
  o_tgt : dev;                 (* effective target, as a device state *)
  o_locs : list toks;          (* managed binding locations *)
  o_keep : list string;        (* generated-looking names protected by unmanaged references *)
  o_unm : unmanaged;
  o_mt : mtable; o_npk : nat;  (* packet universe for stepwise safety; npk = 0 disables *)
  o_script : list cmd;
  o_header : list string; o_intfs : list (string * list string) }.

Definition render (k : ocase) (d : dev) : list string :=
  if o_ios k then render_ios (o_intfs k) d else render_asa (o_header k) d.

(* verdict: [refused-at (1-based, 0 = none); reason; not-equivalent (1 binds, 2 routes, 3 garbage);
             frame-broken-at; stepwise-unsafe-at; route-uncovered-at] and the final state as text *)
(* premise of DeviceFrame.frame_every_prefix_proved: the script names nothing unmanaged
   (syntactic, hence also evaluated for a script that the strict device refuses) *)
Definition avoids_unmanaged (k : ocase) : bool :=
  script_avoids {| s_acls := u_acls (o_unm k); s_groups := u_groups (o_unm k);
                   s_locs := u_locs (o_unm k); s_routes := u_routes (o_unm k) |} MTop (o_script k).

Definition run_ocase (k : ocase) : list nat * list string :=
  let d0 := o_dev k in
  match exec_all d0 (o_script k) with
  | (Refuse w, n) => ([S n; why_code w; 0; 0; 0; 0; if avoids_unmanaged k then 0 else 1], [])
  | (Ok d, _) =>
      let eq := if negb (binds_equiv (o_ios k) d (o_tgt k) (o_locs k)) then 1
                else if negb (routes_equiv d0 d (o_tgt k)) then 2
                else if negb (no_garbage d (o_keep k)) then 3 else 0 in
      ([0; 0; eq;
        frame_scan (o_unm k) (proj (o_unm k) d0) d0 (o_script k) 0;
        (if Nat.eqb (o_npk k) 0 then 0 else step_scan (o_mt k) (o_ios k) (o_npk k) d0 (o_tgt k) d0 (o_locs k) (o_script k) 0);
        route_scan d0 (o_tgt k) d0 (o_script k) 0;
        (if avoids_unmanaged k then 0 else 1)],
       render k d)
  end%nat.

(* all prefix states as text (C10) *)
Fixpoint prefix_states (k : ocase) (d : dev) (l : list cmd) : list (list string) :=
  match l with
  | [] => []
  | c :: r => match exec d c with
              | Ok d' => render k d' :: prefix_states k d' r
              | Refuse _ => []
              end
  end.
