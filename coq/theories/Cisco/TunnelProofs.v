(* Cisco/TunnelProofs.v — the tunnel-group oracle is equality of the expanded tunnel-groups;
   an accepted run passes through exactly the prefix states; a command that is accepted in a
   sub-mode never touches another object. *)
From Coq Require Import List String Bool Arith Lia.
From NA Require Import Base.Str Cisco.Vpn Cisco.VpnProofs Cisco.Tunnel.
Import ListNotations.
Open Scope string_scope.

Theorem tequiv_is_equal_semantics a b : tequiv a b = true <-> tsem a = tsem b.
Proof. apply strs_eqb_eq. Qed.

Lemma trun_accepts_prefix cs : forall d i d', trun d cs i = (d', 0, 0) -> forall k, k <= List.length cs ->
  exists dk, tprefix d cs k = dk /\ trun dk (skipn k cs) (i + k) = (d', 0, 0).
Proof.
  induction cs as [|c r IH]; intros d i d' H k L.
  - simpl in L. assert (k = 0) by lia. subst k. exists d. split; [reflexivity|]. rewrite Nat.add_0_r. exact H.
  - destruct k as [|k]; [exists d; split; [reflexivity|]; rewrite Nat.add_0_r; exact H|].
    simpl in H. simpl. destruct (texec d c) as [d1|w] eqn:E; [|discriminate].
    destruct (IH d1 (S i) d' H k ltac:(simpl in L; lia)) as (dk & P & R). exists dk. split; [exact P|].
    replace (i + S k) with (S i + k) by lia. exact R.
Qed.
Theorem tprefix_full_is_final d cs d' : trun d cs 0 = (d', 0, 0) -> tprefix d cs (List.length cs) = d'.
Proof.
  intros H. destruct (trun_accepts_prefix cs d 0 d' H (List.length cs) (Nat.le_refl _)) as (dk & P & R).
  rewrite skipn_all in R. simpl in R. injection R as ->. exact P.
Qed.

(* a line entered in a sub-mode leaves the ACLs alone, in a tunnel-group section also the group-policies,
   in a group-policy also the tunnel-groups *)
Theorem tsub_keeps_acls d w d' : tsub d w = TOk d' -> td_acls d' = td_acls d.
Proof.
  unfold tsub. destruct (td_mode d) as [|g|t sec]; [discriminate| |].
  - destruct (vlookup g (td_gps d)) as [b|]; [|discriminate].
    destruct (is_no w) as [l|].
    + destruct (has_line l b); intros H; [injection H as <-; reflexivity | discriminate].
    + destruct (filter_ref w) as [a|].
      * destruct (vhas a (td_acls d)); intros H; [injection H as <-; reflexivity | discriminate].
      * intros H; injection H as <-; reflexivity.
  - destruct (vlookup t (td_tgs d)) as [[ty secs]|]; [|discriminate].
    destruct (is_no w) as [l|].
    + destruct (has_line l _); intros H; [injection H as <-; reflexivity | discriminate].
    + destruct (policy_ref w) as [g|].
      * destruct (vhas g (td_gps d)); intros H; [injection H as <-; reflexivity | discriminate].
      * intros H; injection H as <-; reflexivity.
Qed.

Theorem tsub_in_section_keeps_policies d w d' t sec : td_mode d = TTg t sec -> tsub d w = TOk d' -> td_gps d' = td_gps d.
Proof.
  unfold tsub. intros ->.
  destruct (vlookup t (td_tgs d)) as [[ty secs]|]; [|discriminate].
  destruct (is_no w) as [l|].
  - destruct (has_line l _); intros H; [injection H as <-; reflexivity | discriminate].
  - destruct (policy_ref w) as [g|].
    + destruct (vhas g (td_gps d)); intros H; [injection H as <-; reflexivity | discriminate].
    + intros H; injection H as <-; reflexivity.
Qed.

Theorem tsub_in_policy_keeps_tunnel_groups d w d' g : td_mode d = TGp g -> tsub d w = TOk d' -> td_tgs d' = td_tgs d.
Proof.
  unfold tsub. intros ->.
  destruct (vlookup g (td_gps d)) as [b|]; [|discriminate].
  destruct (is_no w) as [l|].
  - destruct (has_line l b); intros H; [injection H as <-; reflexivity | discriminate].
  - destruct (filter_ref w) as [a|].
    + destruct (vhas a (td_acls d)); intros H; [injection H as <-; reflexivity | discriminate].
    + intros H; injection H as <-; reflexivity.
Qed.
