(* Cisco/TunnelProofs.v — the tunnel-group / user oracle is equality of the expanded objects;
   an accepted run passes through exactly the prefix states; a line that is accepted in a
   sub-mode touches only the block of that sub-mode. *)
From Coq Require Import List String Bool Arith Lia.
From NA Require Import Base.Str Cisco.Vpn Cisco.VpnProofs.
From NA Require Import Cisco.Tunnel.
Import ListNotations.
Open Scope string_scope.

Theorem tequiv_is_equal_semantics a b : tequiv a b = true <-> tsem a = tsem b.
Proof. apply strs_eqb_eq. Qed.

Lemma trun_accepts_prefix cs : forall d i d', trun d cs i = (d', 0, 0) -> forall k, k <= List.length cs ->
  exists dk, tprefix d cs k = dk /\ trun dk (skipn k cs) (i + k) = (d', 0, 0).
Proof.
  induction cs as [|c r IH]; intros d i d' H k L.
  - simpl in L. assert (k = 0) by lia. subst k. exists d. split; [reflexivity|]. rewrite Nat.add_0_r. exact H.
  - destruct k as [|k]; [exists d; split; [reflexivity|]; rewrite Nat.add_0_r; exact H|].
    simpl in H. simpl. destruct (texec d c) as [d1|w] eqn:E; [|discriminate].
    destruct (IH d1 (S i) d' H k ltac:(simpl in L; lia)) as (dk & P & R). exists dk. split; [exact P|].
    replace (i + S k) with (S i + k) by lia. exact R.
Qed.
Theorem tprefix_full_is_final d cs d' : trun d cs 0 = (d', 0, 0) -> tprefix d cs (List.length cs) = d'.
Proof.
  intros H. destruct (trun_accepts_prefix cs d 0 d' H (List.length cs) (Nat.le_refl _)) as (dk & P & R).
  rewrite skipn_all in R. simpl in R. injection R as ->. exact P.
Qed.

Lemma put_block_keeps d b : td_acls (put_block d b) = td_acls d /\ td_pools (put_block d b) = td_pools d /\ td_mode (put_block d b) = td_mode d.
Proof.
  unfold put_block. destruct (td_mode d) as [|g|t sec|u] eqn:M; try (repeat split; first [reflexivity | exact M]).
  destruct (vlookup t (td_tgs d)) as [[ty secs]|]; repeat split; first [reflexivity | exact M].
Qed.

Lemma tsub_result d w d' : tsub d w = TOk d' -> exists b, d' = put_block d b.
Proof.
  unfold tsub. destruct (td_mode d); [discriminate| | |];
  (destruct (cur_block d) as [b|]; [|discriminate];
   destruct (is_no w) as [l|];
   [ destruct (has_line l b); intros H; [injection H as <-; eexists; reflexivity | discriminate]
   | destruct (line_ref w) as [[k nm]|];
     [ destruct (exists_obj k nm d); intros H; [injection H as <-; eexists; reflexivity | discriminate]
     | intros H; injection H as <-; eexists; reflexivity ] ]).
Qed.

(* a line entered in a sub-mode leaves ACLs, pools and the mode alone *)
Theorem tsub_keeps_acls_pools_mode d w d' : tsub d w = TOk d' ->
  td_acls d' = td_acls d /\ td_pools d' = td_pools d /\ td_mode d' = td_mode d.
Proof. intros H. destruct (tsub_result d w d' H) as [b ->]. apply put_block_keeps. Qed.

(* ... in a tunnel-group section or a user also the group-policies, in a group-policy the tunnel-groups and users *)
Theorem tsub_outside_policy_keeps_policies d w d' : (forall g, td_mode d <> TGp g) -> tsub d w = TOk d' -> td_gps d' = td_gps d.
Proof.
  intros M H. destruct (tsub_result d w d' H) as [b ->]. unfold put_block.
  destruct (td_mode d) as [|g|t sec|u]; try reflexivity.
  - exfalso. exact (M g eq_refl).
  - destruct (vlookup t (td_tgs d)) as [[ty secs]|]; reflexivity.
Qed.
Theorem tsub_in_policy_keeps_tunnel_groups_and_users d w d' g : td_mode d = TGp g -> tsub d w = TOk d' ->
  td_tgs d' = td_tgs d /\ td_users d' = td_users d.
Proof.
  intros M H. destruct (tsub_result d w d' H) as [b ->]. unfold put_block. rewrite M. split; reflexivity.
Qed.

(* a reference is only ever entered to an object that exists *)
Theorem tsub_reference_exists d w d' k n : tsub d w = TOk d' -> is_no w = None -> line_ref w = Some (k, n) -> exists_obj k n d = true.
Proof.
  unfold tsub. intros H N R. destruct (td_mode d); [discriminate| | |];
  (destruct (cur_block d) as [b|]; [|discriminate]; rewrite N, R in H; destruct (exists_obj k n d); [reflexivity | discriminate]).
Qed.
