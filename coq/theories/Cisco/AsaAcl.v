(* Cisco/AsaAcl.v — the line-number core of cisco.diffASAACLs (no object-groups):
   model over an edit script given as the merged sequence of kept, dropped and
   added entries; the ACL of the device as a list with positional insert/delete.
   Executable; no proofs here. *)
From Coq Require Import List Arith Bool Lia.
Import ListNotations.

(* An ACL entry: its text without the log attribute, and the log attribute.
   Two entries with the same body cannot both be present on a device. *)
Definition entry := (nat * nat)%type.
Definition body (e : entry) : nat := fst e.
Definition entry_eqb (a b : entry) : bool := Nat.eqb (fst a) (fst b) && Nat.eqb (snd a) (snd b).

(* One element of a valid edit script between device list A and target list B. *)
Inductive tag := Keep | Drop | Add.
Definition tag_eqb (a b : tag) : bool :=
  match a, b with Keep, Keep | Drop, Drop | Add, Add => true | _, _ => false end.

Definition script := list (tag * entry).
Definition listA (m : script) : list entry :=
  map snd (filter (fun x => negb (tag_eqb (fst x) Add)) m).
Definition listB (m : script) : list entry :=
  map snd (filter (fun x => negb (tag_eqb (fst x) Drop)) m).

(* Commands for one ACL; positions are 0-based (the tool prints position+1). *)
Inductive acmd :=
| Ins (k : nat) (e : entry)
| Del (k : nat) (e : entry)
| Mov (kd : nat) (d : entry) (ki : nat) (e : entry).   (* "no ... line kd+1\n ... line ki+1" *)

(* ---- strict device ---- *)
Fixpoint insert_at (k : nat) (e : entry) (l : list entry) : option (list entry) :=
  match k, l with
  | O, _ => Some (e :: l)
  | S k', x :: r => match insert_at k' e r with Some r' => Some (x :: r') | None => None end
  | S _, [] => None
  end.
Fixpoint remove_at (k : nat) (l : list entry) : list entry :=
  match k, l with
  | _, [] => []
  | O, _ :: r => r
  | S k', x :: r => x :: remove_at k' r
  end.

Definition has_body (b : nat) (l : list entry) : bool := existsb (fun x => Nat.eqb (body x) b) l.

Definition dins (k : nat) (e : entry) (l : list entry) : option (list entry) :=
  if has_body (body e) l then None else insert_at k e l.
Definition ddel (k : nat) (e : entry) (l : list entry) : option (list entry) :=
  match nth_error l k with
  | Some x => if entry_eqb x e then Some (remove_at k l) else None
  | None => None
  end.

Definition dexec (l : list entry) (c : acmd) : option (list entry) :=
  match c with
  | Ins k e => dins k e l
  | Del k e => ddel k e l
  | Mov kd d ki e => match ddel kd d l with Some l' => dins ki e l' | None => None end
  end.
Fixpoint dexec_all (l : list entry) (cs : list acmd) : option (list entry) :=
  match cs with
  | [] => Some l
  | c :: r => match dexec l c with Some l' => dexec_all l' r | None => None end
  end.

(* ---- the algorithm ---- *)
(* State: every script element with a flag "currently on the device". *)
Notation item := (tag * entry * bool)%type (only parsing).
Definition it_tag (x : item) : tag := fst (fst x).
Definition it_entry (x : item) : entry := snd (fst x).
Definition it_here (x : item) : bool := snd x.

Definition init_state (m : script) : list item :=
  map (fun x => (fst x, snd x, negb (tag_eqb (fst x) Add))) m.

Definition count_here (l : list item) : nat := length (filter it_here l).
Definition device (l : list item) : list entry := map it_entry (filter it_here l).

(* Find a dropped entry that is still on the device and has the given body:
   (items before it, the entry, items after it). *)
Fixpoint find_drop (b : nat) (l : list item) : option (list item * entry * list item) :=
  match l with
  | [] => None
  | x :: r =>
      if tag_eqb (it_tag x) Drop && it_here x && Nat.eqb (body (it_entry x)) b
      then Some ([], it_entry x, r)
      else match find_drop b r with
           | Some (p, e, s) => Some (x :: p, e, s)
           | None => None
           end
  end.

(* Pass 1: the entries to add, in target order; an entry whose body is still
   present as a dropped entry is moved (deleted and added in one command). *)
Fixpoint pass1 (fuel : nat) (pre suf : list item) : list acmd * list item :=
  match fuel with
  | O => ([], pre ++ suf)        (* not reached: fuel = length suf *)
  | S f =>
  match suf with
  | [] => ([], pre)
  | x :: suf' =>
      if tag_eqb (it_tag x) Add && negb (it_here x) then
        let e := it_entry x in
        match find_drop (body e) pre with
        | Some (p1, d, p2) =>
            let pre' := p1 ++ (Drop, d, false) :: p2 in
            let '(cs, st) := pass1 f (pre' ++ [(Add, e, true)]) suf' in
            (Mov (count_here p1) d (count_here pre') e :: cs, st)
        | None =>
            match find_drop (body e) suf' with
            | Some (s1, d, s2) =>
                let suf'' := s1 ++ (Drop, d, false) :: s2 in
                let '(cs, st) := pass1 f (pre ++ [(Add, e, true)]) suf'' in
                (Mov (count_here pre + count_here s1) d (count_here pre) e :: cs, st)
            | None =>
                let '(cs, st) := pass1 f (pre ++ [(Add, e, true)]) suf' in
                (Ins (count_here pre) e :: cs, st)
            end
        end
      else
        let '(cs, st) := pass1 f (pre ++ [x]) suf' in (cs, st)
  end
  end.

(* Pass 2: remaining dropped entries, bottom-up. [rsuf] is the part of the
   state behind the current point, already processed. *)
Fixpoint pass2 (rpre : list item) (suf : list item) : list acmd :=
  (* rpre: items before the current point in REVERSED order *)
  match rpre with
  | [] => []
  | x :: rpre' =>
      if tag_eqb (it_tag x) Drop && it_here x
      then Del (count_here rpre') (it_entry x) :: pass2 rpre' ((Drop, it_entry x, false) :: suf)
      else pass2 rpre' (x :: suf)
  end.

Definition diff_asa (m : script) : list acmd :=
  let '(cs, st) := pass1 (length m) [] (init_state m) in
  cs ++ pass2 (rev st) [].
