(* Cisco/IosAclBlocks.v — the block ids of diffIOSACLs (markIOSPermitDenyBlocks and the
   split pass over the insert ranges) as invariants:
   - every id covers an interval of the device ACL, rules with the same id have the same action,
   - an insert run whose gap lies inside a block (same id above and below) and was not split
     contains only lines with the action of that block (run_ok),
   - what a suppressed move knows about its insert run and the two block ids (stay_cond). *)
From Coq Require Import List Arith Bool Lia NArith Sorted.
From NA Require Import Cisco.IosAcl Cisco.IosAclFresh Cisco.IosAclMoves.
Import ListNotations.

(* ---- invariants of the block ids ---- *)
Record binv (al : list ientry) (blk : list nat) (mx : nat) : Prop := {
  b_len : length blk = length al;
  b_itv : forall p r q, p <= r -> r <= q -> q < length al -> nthd blk p 0 = nthd blk q 0 -> nthd blk r 0 = nthd blk p 0;
  b_act : forall p q e1 e2, nth_error al p = Some e1 -> nth_error al q = Some e2 -> nthd blk p 0 = nthd blk q 0 ->
          is_rule e1 = true -> is_rule e2 = true -> i_act e1 = i_act e2;
  b_max : forall q, q < length al -> nthd blk q 0 <= mx }.

Lemma mark_len l : forall action id, length (mark_blocks l action id) = length l.
Proof.
  induction l as [|c r IH]; intros action id; [reflexivity|]. cbn [mark_blocks].
  destruct (Nat.eqb (i_act c) 2); [cbn [length]; rewrite IH; reflexivity|].
  destruct action as [a0|]; [destruct (Nat.eqb (i_act c) a0)|]; cbn [length]; rewrite IH; reflexivity.
Qed.

(* ids do not decrease and start at id *)
Lemma mark_mono l : forall action id p q, p <= q -> q < length l ->
  id <= nthd (mark_blocks l action id) p 0 /\ nthd (mark_blocks l action id) p 0 <= nthd (mark_blocks l action id) q 0.
Proof.
  induction l as [|c r IH]; intros action id p q PQ QL; [cbn [length] in QL; lia|].
  assert (STEP : forall action' id', id <= id' -> mark_blocks (c :: r) action id = id' :: mark_blocks r action' id' ->
          id <= nthd (mark_blocks (c :: r) action id) p 0 /\ nthd (mark_blocks (c :: r) action id) p 0 <= nthd (mark_blocks (c :: r) action id) q 0).
  { intros action' id' LE E. rewrite E. unfold nthd. destruct p as [|p'], q as [|q']; cbn [nth].
    - lia.
    - cbn [length] in QL. destruct (IH action' id' q' q' (le_n _) ltac:(lia)) as [A _]. unfold nthd in A. lia.
    - lia.
    - cbn [length] in QL. destruct (IH action' id' p' q' ltac:(lia) ltac:(lia)) as [A B]. unfold nthd in A, B. lia. }
  destruct (Nat.eqb (i_act c) 2) eqn:E2.
  - apply (STEP action id (le_n _)). cbn [mark_blocks]. rewrite E2. reflexivity.
  - destruct action as [a0|].
    + destruct (Nat.eqb (i_act c) a0) eqn:E0.
      * apply (STEP (Some a0) id (le_n _)). cbn [mark_blocks]. rewrite E2, E0. reflexivity.
      * apply (STEP (Some (i_act c)) (S id) ltac:(lia)). cbn [mark_blocks]. rewrite E2, E0. reflexivity.
    + apply (STEP (Some (i_act c)) id (le_n _)). cbn [mark_blocks]. rewrite E2. reflexivity.
Qed.

Lemma nthd_cons {A} (x : A) l q d : nthd (x :: l) (S q) d = nthd l q d.
Proof. reflexivity. Qed.

(* rules with the same id have the same action; a rule that has the start id has the current action *)
Lemma mark_act l : forall action id,
  (forall p q e1 e2, nth_error l p = Some e1 -> nth_error l q = Some e2 ->
     nthd (mark_blocks l action id) p 0 = nthd (mark_blocks l action id) q 0 -> is_rule e1 = true -> is_rule e2 = true -> i_act e1 = i_act e2) /\
  (forall q e a, nth_error l q = Some e -> nthd (mark_blocks l action id) q 0 = id -> is_rule e = true -> action = Some a -> i_act e = a).
Proof.
  induction l as [|c r IH]; intros action id.
  { split; [intros p q e1 e2 H; destruct p; discriminate | intros q e a H; destruct q; discriminate]. }
  assert (GEN : forall action' id', mark_blocks (c :: r) action id = id' :: mark_blocks r action' id' ->
     (* what the head contributes *)
     (is_rule c = true -> forall q e, nth_error r q = Some e -> nthd (mark_blocks r action' id') q 0 = id' -> is_rule e = true -> i_act e = i_act c) ->
     (forall a, is_rule c = true -> id' = id -> action = Some a -> i_act c = a) ->
     (forall q e a, nth_error r q = Some e -> nthd (mark_blocks r action' id') q 0 = id -> is_rule e = true -> action = Some a -> i_act e = a) ->
     (forall p q e1 e2, nth_error (c :: r) p = Some e1 -> nth_error (c :: r) q = Some e2 ->
        nthd (mark_blocks (c :: r) action id) p 0 = nthd (mark_blocks (c :: r) action id) q 0 -> is_rule e1 = true -> is_rule e2 = true -> i_act e1 = i_act e2) /\
     (forall q e a, nth_error (c :: r) q = Some e -> nthd (mark_blocks (c :: r) action id) q 0 = id -> is_rule e = true -> action = Some a -> i_act e = a)).
  { intros action' id' E HEAD H0 TAIL. rewrite E. destruct (IH action' id') as [IH1 _]. split.
    - intros p q e1 e2 N1 N2 EQ R1 R2. destruct p as [|p], q as [|q]; cbn [nth_error] in N1, N2; rewrite ?nthd_cons in EQ.
      + congruence.
      + injection N1 as <-. unfold nthd at 1 in EQ. cbn [nth] in EQ. symmetry. apply (HEAD R1 q e2 N2); [symmetry; exact EQ | exact R2].
      + injection N2 as <-. unfold nthd at 2 in EQ. cbn [nth] in EQ. apply (HEAD R2 p e1 N1); [exact EQ | exact R1].
      + apply (IH1 p q e1 e2 N1 N2 EQ R1 R2).
    - intros q e a N EQ Re Ea. destruct q as [|q]; cbn [nth_error] in N.
      + injection N as <-. unfold nthd in EQ. cbn [nth] in EQ. apply (H0 a Re EQ Ea).
      + rewrite nthd_cons in EQ. apply (TAIL q e a N EQ Re Ea). }
  destruct (Nat.eqb (i_act c) 2) eqn:E2.
  - (* remark *)
    apply (GEN action id); [cbn [mark_blocks]; rewrite E2; reflexivity | | |].
    + unfold is_rule. rewrite E2. discriminate.
    + unfold is_rule. rewrite E2. discriminate.
    + intros q e a N EQ Re Ea. destruct (IH action id) as [_ IH2]. apply (IH2 q e a N EQ Re Ea).
  - destruct action as [a0|].
    + destruct (Nat.eqb (i_act c) a0) eqn:E0.
      * apply Nat.eqb_eq in E0. apply (GEN (Some a0) id); [cbn [mark_blocks]; rewrite E2; rewrite (proj2 (Nat.eqb_eq _ _) E0); reflexivity | | |].
        -- intros _ q e N EQ Re. destruct (IH (Some a0) id) as [_ IH2]. rewrite E0. apply (IH2 q e a0 N EQ Re eq_refl).
        -- intros a _ _ Ea. injection Ea as <-. exact E0.
        -- intros q e a N EQ Re Ea. destruct (IH (Some a0) id) as [_ IH2]. apply (IH2 q e a N EQ Re Ea).
      * apply (GEN (Some (i_act c)) (S id)); [cbn [mark_blocks]; rewrite E2, E0; reflexivity | | |].
        -- intros _ q e N EQ Re. destruct (IH (Some (i_act c)) (S id)) as [_ IH2]. apply (IH2 q e (i_act c) N EQ Re eq_refl).
        -- intros a _ E. lia.
        -- intros q e a N EQ Re Ea. exfalso.
           assert (QL : q < length r) by (apply nth_error_Some; congruence).
           destruct (mark_mono r (Some (i_act c)) (S id) q q (le_n _) QL) as [A _]. lia.
    + apply (GEN (Some (i_act c)) id); [cbn [mark_blocks]; rewrite E2; reflexivity | | |].
      * intros _ q e N EQ Re. destruct (IH (Some (i_act c)) id) as [_ IH2]. apply (IH2 q e (i_act c) N EQ Re eq_refl).
      * intros a _ _ Ea. discriminate.
      * intros q e a N EQ Re Ea. discriminate.
Qed.

Lemma binv_mark al : binv al (mark_blocks al None 1) (fold_left Nat.max (mark_blocks al None 1) 1).
Proof.
  constructor.
  - apply mark_len.
  - intros p r q PR RQ QL E.
    destruct (mark_mono al None 1 p r PR ltac:(lia)) as [_ A]. destruct (mark_mono al None 1 r q RQ QL) as [_ B]. lia.
  - intros p q e1 e2 N1 N2 E R1 R2. destruct (mark_act al None 1) as [H _]. apply (H p q e1 e2 N1 N2 E R1 R2).
  - intros q QL. generalize (mark_blocks al None 1) as l. intros l.
    assert (G : forall l a q, nthd l q 0 <= fold_left Nat.max l a /\ a <= fold_left Nat.max l a).
    { clear. induction l as [|x l IH]; intros a q; cbn [fold_left].
      - unfold nthd. destruct q; cbn [nth]; lia.
      - destruct q as [|q]; [unfold nthd; cbn [nth]; destruct (IH (Nat.max a x) 0) as [_ B]; lia|].
        rewrite nthd_cons. destruct (IH (Nat.max a x) q) as [A B]. lia. }
    apply G.
Qed.

(* ---- split_from ---- *)
Lemma split_len blk : forall g id n, length (split_from blk g id n) = length blk.
Proof.
  induction blk as [|x r IH]; intros g id n; [reflexivity|]. destruct g as [|g]; cbn [split_from].
  - destruct (Nat.eqb x id); [cbn [length]; rewrite IH; reflexivity | reflexivity].
  - cbn [length]. rewrite IH. reflexivity.
Qed.

Lemma split_cases blk : forall g id n q,
  nthd (split_from blk g id n) q 0 = nthd blk q 0 \/ (nthd (split_from blk g id n) q 0 = n /\ nthd blk q 0 = id /\ g <= q /\ q < length blk).
Proof.
  induction blk as [|x r IH]; intros g id n q; [left; reflexivity|]. destruct g as [|g]; cbn [split_from].
  - destruct (Nat.eqb x id) eqn:E; [|left; reflexivity]. apply Nat.eqb_eq in E. subst x. destruct q as [|q].
    + right. unfold nthd. cbn [nth length]. repeat split; lia.
    + rewrite !nthd_cons. destruct (IH 0 id n q) as [H|(A & B & C & D)]; [left; exact H | right; cbn [length]; repeat split; auto; lia].
  - destruct q as [|q]; [left; reflexivity|]. rewrite !nthd_cons.
    destruct (IH g id n q) as [H|(A & B & C & D)]; [left; exact H | right; cbn [length]; repeat split; auto; lia].
Qed.

Lemma split_below blk : forall g id n q, q < g -> nthd (split_from blk g id n) q 0 = nthd blk q 0.
Proof. intros g id n q L. destruct (split_cases blk g id n q) as [H|(_ & _ & C & _)]; [exact H | lia]. Qed.

Lemma split_hit blk : forall g id n q, q < length blk -> g <= q ->
  (forall r, g <= r -> r <= q -> nthd blk r 0 = id) -> nthd (split_from blk g id n) q 0 = n.
Proof.
  induction blk as [|x r IH]; intros g id n q QL GQ ALL; [cbn [length] in QL; lia|]. destruct g as [|g]; cbn [split_from].
  - assert (x = id) by (specialize (ALL 0 (le_n _) ltac:(lia)); exact ALL). subst x. rewrite Nat.eqb_refl.
    destruct q as [|q]; [reflexivity|]. rewrite nthd_cons. apply IH; [cbn [length] in QL; lia | lia|].
    intros r' _ L. specialize (ALL (S r') ltac:(lia) ltac:(lia)). rewrite nthd_cons in ALL. exact ALL.
  - destruct q as [|q]; [lia|]. rewrite nthd_cons. apply IH; [cbn [length] in QL; lia | lia|].
    intros r' L1 L2. specialize (ALL (S r') ltac:(lia) ltac:(lia)). rewrite nthd_cons in ALL. exact ALL.
Qed.

(* splitting a block at g with a fresh id keeps the invariants *)
Lemma binv_split al blk mx g : binv al blk mx -> g < length al ->
  binv al (split_from blk g (nthd blk g 0) (S mx)) (S mx).
Proof.
  intros [BL BI BA BM] GL. set (id := nthd blk g 0). set (blk' := split_from blk g id (S mx)).
  assert (OLD : forall q, q < length al -> nthd blk q 0 <= mx) by exact BM.
  assert (CASE : forall q, q < length al ->
            (nthd blk' q 0 = nthd blk q 0 /\ ~ (g <= q /\ nthd blk q 0 = id)) \/ (nthd blk' q 0 = S mx /\ nthd blk q 0 = id /\ g <= q)).
  { intros q QL. destruct (Nat.le_gt_cases g q) as [GQ|QG].
    - destruct (Nat.eq_dec (nthd blk q 0) id) as [E|NE].
      + right. split; [|split; [exact E | exact GQ]]. apply split_hit; [rewrite BL; exact QL | exact GQ|].
        intros r L1 L2. apply (BI g r q L1 L2 QL). fold id. symmetry. exact E.
      + left. split; [|intros [_ H]; contradiction]. destruct (split_cases blk g id (S mx) q) as [H|(_ & B & _)]; [exact H | contradiction].
    - left. split; [apply split_below; exact QG | intros [H _]; lia]. }
  constructor.
  - unfold blk'. rewrite split_len. exact BL.
  - intros p r q PR RQ QL E.
    destruct (CASE p ltac:(lia)) as [[Ep NP]|(Ep & Ip & Gp)], (CASE q QL) as [[Eq NQ]|(Eq & Iq & Gq)].
    + (* both old *) rewrite Ep, Eq in E. pose proof (BI p r q PR RQ QL E) as Er.
      destruct (CASE r ltac:(lia)) as [[Er' _]|(_ & Ir & Gr)]; [rewrite Er', Ep; exact Er|].
      exfalso. rewrite Er in Ir. apply NQ. split; [lia | rewrite <- E; exact Ir].
    + rewrite Ep, Eq in E. specialize (OLD p ltac:(lia)). lia.
    + rewrite Ep, Eq in E. specialize (OLD q QL). lia.
    + rewrite Ep. destruct (CASE r ltac:(lia)) as [[Er' NR]|(Er' & _)]; [|exact Er'].
      exfalso. apply NR. split; [lia|]. rewrite (BI p r q PR RQ QL ltac:(congruence)). exact Ip.
  - intros p q e1 e2 N1 N2 E R1 R2.
    assert (PL : p < length al) by (apply nth_error_Some; congruence). assert (QL : q < length al) by (apply nth_error_Some; congruence).
    destruct (CASE p PL) as [[Ep NP]|(Ep & Ip & Gp)], (CASE q QL) as [[Eq NQ]|(Eq & Iq & Gq)].
    + rewrite Ep, Eq in E. apply (BA p q e1 e2 N1 N2 E R1 R2).
    + rewrite Ep, Eq in E. specialize (OLD p PL). lia.
    + rewrite Ep, Eq in E. specialize (OLD q QL). lia.
    + apply (BA p q e1 e2 N1 N2 ltac:(congruence) R1 R2).
  - intros q QL. destruct (CASE q QL) as [[Eq _]|(Eq & _)]; [rewrite Eq; specialize (OLD q QL); lia | rewrite Eq; lia].
Qed.

(* ---- block_act ---- *)
Lemma block_act_some al : forall blk id a, block_act al blk id = Some a ->
  exists q e, nth_error al q = Some e /\ nthd blk q 0 = id /\ is_rule e = true /\ i_act e = a.
Proof.
  induction al as [|c r IH]; intros blk id a H; [discriminate|]. destruct blk as [|x br]; [discriminate|]. cbn [block_act] in H.
  destruct (Nat.eqb x id && negb (Nat.eqb (i_act c) 2)) eqn:E.
  - injection H as <-. apply andb_true_iff in E. destruct E as [E1 E2]. apply Nat.eqb_eq in E1. exists 0, c. repeat split; auto.
  - destruct (IH br id a H) as (q & e & N & I & Ru & A). exists (S q), e. repeat split; auto.
Qed.
Lemma block_act_none al : forall blk id, block_act al blk id = None -> length blk = length al ->
  forall q e, nth_error al q = Some e -> nthd blk q 0 = id -> is_rule e = false.
Proof.
  induction al as [|c r IH]; intros blk id H L q e N I; [destruct q; discriminate|]. destruct blk as [|x br]; [discriminate|]. cbn [block_act] in H.
  destruct (Nat.eqb x id && negb (Nat.eqb (i_act c) 2)) eqn:E; [discriminate|]. destruct q as [|q]; cbn [nth_error] in N.
  - injection N as <-. unfold nthd in I. cbn [nth] in I. subst x. rewrite Nat.eqb_refl in E. cbn [andb] in E. exact E.
  - rewrite nthd_cons in I. cbn [length] in L. apply (IH br id H ltac:(lia) q e N I).
Qed.

(* what the split pass guarantees for an insert run *)
Definition run_ok (al : list ientry) (blk : list nat) (g : nat) (ins : list ientry) : Prop :=
  0 < g -> g < length al -> nthd blk (g - 1) 0 = nthd blk g 0 ->
  forall q e, nth_error al q = Some e -> nthd blk q 0 = nthd blk g 0 -> is_rule e = true -> forall c, In c ins -> i_act c = i_act e.

Definition gap_lt (r1 r2 : nat * list ientry) : Prop := fst r1 < fst r2.

Lemma split_pass_inv al : forall rs blk mx blkF mxF,
  split_pass al rs blk mx = (blkF, mxF) -> binv al blk mx -> StronglySorted gap_lt rs ->
  binv al blkF mxF /\ mx <= mxF /\
  (forall q, q < length al -> nthd blkF q 0 = nthd blk q 0 \/ mx < nthd blkF q 0) /\
  (forall g0, (forall r, In r rs -> g0 <= fst r) -> forall q, q < g0 -> nthd blkF q 0 = nthd blk q 0) /\
  (forall g ins, In (g, ins) rs -> run_ok al blkF g ins).
Proof.
  induction rs as [|[g ins] rs IH]; intros blk mx blkF mxF SP BI SS.
  { cbn [split_pass] in SP. injection SP as <- <-. split; [exact BI|]. split; [lia|]. split; [intros; left; reflexivity|]. split; [reflexivity | intros g ins []]. }
  apply StronglySorted_inv in SS. destruct SS as [SS FA]. rewrite Forall_forall in FA.
  cbn [split_pass] in SP.
  (* the state after this run *)
  assert (STEP : exists blk1 mx1, split_pass al rs blk1 mx1 = (blkF, mxF) /\ binv al blk1 mx1 /\ mx <= mx1 /\
            (forall q, q < length al -> nthd blk1 q 0 = nthd blk q 0 \/ mx < nthd blk1 q 0) /\
            (forall q, q < g -> nthd blk1 q 0 = nthd blk q 0) /\ run_ok al blk1 g ins).
  { destruct (inside_block al blk g) as [[act id]|] eqn:IB.
    - (* inside a block *)
      unfold inside_block in IB. destruct g as [|p]; [discriminate|].
      destruct (Nat.ltb (S p) (length al) && Nat.eqb (nthd blk p 0) (nthd blk (S p) 0)) eqn:C; [|discriminate].
      destruct (block_act al blk (nthd blk (S p) 0)) as [a|] eqn:BA; [|discriminate]. injection IB as <- <-.
      apply andb_true_iff in C. destruct C as [C1 C2]. apply Nat.ltb_lt in C1. apply Nat.eqb_eq in C2.
      destruct (block_act_some al blk _ a BA) as (q0 & e0 & N0 & I0 & R0 & A0).
      destruct (existsb (fun c => negb (Nat.eqb (i_act c) a)) ins) eqn:EX.
      + (* split *)
        exists (split_from blk (S p) (nthd blk (S p) 0) (S mx)), (S mx). split; [exact SP|].
        pose proof (binv_split al blk mx (S p) BI C1) as BI1. split; [exact BI1|]. split; [lia|].
        split.
        { intros q QL. destruct (split_cases blk (S p) (nthd blk (S p) 0) (S mx) q) as [H|(H & _)]; [left; exact H | right; rewrite H; lia]. }
        split; [intros q QL; apply split_below; exact QL|].
        intros _ _ E. exfalso. cbn [Nat.sub] in E. rewrite Nat.sub_0_r in E.
        rewrite (split_below blk (S p) _ (S mx) p ltac:(lia)) in E.
        rewrite (split_hit blk (S p) (nthd blk (S p) 0) (S mx) (S p)) in E; [|rewrite (b_len _ _ _ BI); exact C1|lia|].
        * pose proof (b_max _ _ _ BI p ltac:(lia)). lia.
        * intros r L1 L2. replace r with (S p) by lia. reflexivity.
      + (* all inserted lines have the action of the block *)
        exists blk, mx. split; [exact SP|]. split; [exact BI|]. split; [lia|]. split; [intros; left; reflexivity|]. split; [reflexivity|].
        intros _ _ _ q e N I Ru c Hc.
        assert (i_act c = a).
        { destruct (Nat.eq_dec (i_act c) a) as [E|NE]; [exact E|]. exfalso.
          assert (X : existsb (fun c => negb (Nat.eqb (i_act c) a)) ins = true).
          { apply existsb_exists. exists c. split; [exact Hc|]. apply negb_true_iff, Nat.eqb_neq. exact NE. }
          congruence. }
        rewrite H, <- A0. apply (b_act _ _ _ BI q0 q e0 e N0 N ltac:(congruence) R0 Ru).
    - (* not inside *)
      exists blk, mx. split; [exact SP|]. split; [exact BI|]. split; [lia|]. split; [intros; left; reflexivity|]. split; [reflexivity|].
      intros G0 GL E q e N I Ru c Hc. exfalso. unfold inside_block in IB. destruct g as [|p]; [lia|].
      cbn [Nat.sub] in E. rewrite Nat.sub_0_r in E.
      replace (Nat.ltb (S p) (length al)) with true in IB by (symmetry; apply Nat.ltb_lt; exact GL).
      replace (Nat.eqb (nthd blk p 0) (nthd blk (S p) 0)) with true in IB by (symmetry; apply Nat.eqb_eq; exact E). cbn [andb] in IB.
      destruct (block_act al blk (nthd blk (S p) 0)) as [a|] eqn:BA; [discriminate|].
      pose proof (block_act_none al blk _ BA (b_len _ _ _ BI) q e N I). congruence. }
  destruct STEP as (blk1 & mx1 & SP1 & BI1 & LE1 & CH1 & LOW1 & OK1).
  destruct (IH blk1 mx1 blkF mxF SP1 BI1 SS) as (BIF & LEF & CHF & LOWF & OKF).
  split; [exact BIF|]. split; [lia|].
  split.
  { intros q QL. destruct (CHF q QL) as [H|H]; [|right; lia]. rewrite H. destruct (CH1 q QL) as [H1|H1]; [left; exact H1 | right; exact H1]. }
  split.
  { intros g0 LB q QL. rewrite (LOWF g0); [|intros r Hr; apply LB; right; exact Hr|exact QL]. apply LOW1. specialize (LB (g, ins) (or_introl eq_refl)). cbn [fst] in LB. lia. }
  intros g' ins' [E|H]; [|apply OKF, H]. injection E as <- <-.
  (* later splits touch only positions behind g *)
  assert (KEEP : forall q, q <= g -> nthd blkF q 0 = nthd blk1 q 0).
  { intros q QL. destruct rs as [|r0 rs'].
    - cbn [split_pass] in SP1. injection SP1 as <- _. reflexivity.
    - apply (LOWF (S g)); [|lia]. intros r Hr. apply FA in Hr. unfold gap_lt in Hr. cbn [fst] in Hr. lia. }
  intros G0 GL E q e N I Ru c Hc.
  rewrite (KEEP (g - 1) ltac:(lia)), (KEEP g (le_n _)) in E. rewrite (KEEP g (le_n _)) in I.
  assert (QL : q < length al) by (apply nth_error_Some; congruence).
  assert (I1 : nthd blk1 q 0 = nthd blk1 g 0).
  { destruct (CHF q QL) as [H|H]; [congruence|]. exfalso. rewrite I in H. pose proof (b_max _ _ _ BI1 g GL). lia. }
  apply (OK1 G0 GL E q e N I1 Ru c Hc).
Qed.

(* ---- the insert runs: gaps strictly increasing, inside the device ACL ---- *)
Lemma runs_sorted m : forall apos cur,
  StronglySorted gap_lt (runs m apos cur) /\ (forall r, In r (runs m apos cur) -> apos <= fst r /\ fst r <= apos + length (listA m)).
Proof.
  induction m as [|[t e] r IH]; intros apos cur.
  - cbn [runs]. destruct cur; [split; [constructor | intros r []]|]. split; [repeat constructor|]. intros r [<-|[]]. cbn [fst]. lia.
  - assert (NONADD : forall t', t' <> Add -> runs ((t', e) :: r) apos cur = match cur with [] => runs r (S apos) [] | _ => (apos, rev cur) :: runs r (S apos) [] end
             -> length (listA ((t', e) :: r)) = S (length (listA r)) ->
             StronglySorted gap_lt (runs ((t', e) :: r) apos cur) /\ (forall x, In x (runs ((t', e) :: r) apos cur) -> apos <= fst x /\ fst x <= apos + length (listA ((t', e) :: r)))).
    { intros t' _ E LA. rewrite E, LA. destruct (IH (S apos) []) as [S1 B1].
      destruct cur as [|c cs].
      - split; [exact S1|]. intros x Hx. apply B1 in Hx. lia.
      - split.
        + constructor; [exact S1|]. apply Forall_forall. intros x Hx. apply B1 in Hx. unfold gap_lt. cbn [fst]. lia.
        + intros x [<-|Hx]; [cbn [fst]; lia | apply B1 in Hx; lia]. }
    destruct t.
    + apply (NONADD Keep); [discriminate | reflexivity | reflexivity].
    + apply (NONADD Drop); [discriminate | reflexivity | reflexivity].
    + cbn [runs]. destruct (IH apos (e :: cur)) as [S1 B1]. split; [exact S1|]. intros x Hx. apply B1 in Hx. unfold listA in *. cbn [filter is_add fst negb]. exact Hx.
Qed.

(* ---- what a suppressed move knows ---- *)
Lemma all_act_app l1 l2 a : all_act (l1 ++ l2) a = (all_act l1 a && all_act l2 a)%bool.
Proof. induction l1 as [|c r IH]; [reflexivity|]. cbn [List.app all_act]. rewrite IH, andb_assoc. reflexivity. Qed.

Definition stay_cond (blk : list nat) (dl : list (nat * ientry)) (gap : nat) (ins : list ientry) (j : nat) (b : ientry) (p : nat) : Prop :=
  exists a, find_del dl b = Some (p, a) /\
  (if Nat.ltb p gap then all_act (firstn (S j) ins) (first_act ins) = true /\ nthd blk (gap - 1) 0 = nthd blk p 0
   else all_act (skipn (S j) ins) (i_act b) = true /\ nthd blk gap 0 = nthd blk p 0).

Lemma run_decs_stay blk dl gap a0 : forall ins pre i mo, mo = all_act pre a0 ->
  forall j b p, nth_error ins j = Some b -> nth_error (run_decs blk dl gap a0 i mo ins) j = Some (DStay p) ->
  exists a, find_del dl b = Some (p, a) /\
  (if Nat.ltb p gap then all_act (pre ++ firstn (S j) ins) a0 = true /\ nthd blk (gap - 1) 0 = nthd blk p 0
   else all_act (skipn (S j) ins) (i_act b) = true /\ nthd blk gap 0 = nthd blk p 0).
Proof.
  induction ins as [|b0 rest IH]; intros pre i mo MO j b p N D; [destruct j; discriminate|].
  assert (MO' : (mo && Nat.eqb a0 (i_act b0))%bool = all_act (pre ++ [b0]) a0).
  { rewrite all_act_app, MO. cbn [all_act]. rewrite andb_true_r, (Nat.eqb_sym a0). reflexivity. }
  cbn [run_decs] in D. destruct j as [|j]; cbn [nth_error] in N.
  - injection N as <-. destruct (find_del dl b0) as [[pos a]|] eqn:F; cbn [nth_error] in D; [|discriminate].
    match type of D with Some (if ?c then _ else _) = _ => destruct c eqn:SK end; [|discriminate]. injection D as <-.
    exists a. split; [reflexivity|]. apply andb_true_iff in SK. destruct SK as [_ SK].
    destruct (Nat.ltb pos gap).
    + apply andb_true_iff in SK. destruct SK as [S1 S2]. apply Nat.eqb_eq in S2. split; [|exact S2]. cbn [firstn]. rewrite <- MO'. exact S1.
    + apply andb_true_iff in SK. destruct SK as [S1 S2]. apply Nat.eqb_eq in S2. split; [exact S1 | exact S2].
  - assert (D' : nth_error (run_decs blk dl gap a0 (S i) (mo && Nat.eqb a0 (i_act b0)) rest) j = Some (DStay p)).
    { destruct (find_del dl b0) as [[pos a]|]; cbn [nth_error] in D; exact D. }
    destruct (IH (pre ++ [b0]) (S i) _ MO' j b p N D') as (a & F & C). exists a. split; [exact F|].
    cbn [firstn skipn]. rewrite <- app_assoc in C. exact C.
Qed.

Lemma combine_app {A B} (a1 a2 : list A) (b1 b2 : list B) : length a1 = length b1 -> combine (a1 ++ a2) (b1 ++ b2) = combine a1 b1 ++ combine a2 b2.
Proof. revert b1. induction a1 as [|x a1 IH]; intros [|y b1] L; try discriminate; [reflexivity|]. cbn [List.app combine]. rewrite IH by (simpl in L; lia). reflexivity. Qed.

Lemma slots_combine gap : forall ins i (ds : list dec) x d, In (x, d) (combine (slots gap i ins) ds) ->
  exists j, nth_error ins j = Some (snd x) /\ fst x = keyN gap (i + j) /\ nth_error ds j = Some d.
Proof.
  induction ins as [|b r IH]; intros i ds x d H; [destruct H|]. destruct ds as [|d0 dr]; [destruct H|].
  cbn [slots combine] in H. destruct H as [H|H].
  - injection H as <- <-. exists 0. cbn [nth_error fst snd]. rewrite Nat.add_0_r. auto.
  - destruct (IH (S i) dr x d H) as (j & A & B & C). exists (S j). cbn [nth_error]. split; [exact A|]. split; [rewrite B; f_equal; lia | exact C].
Qed.

Lemma all_decs_stay blk dl : forall rs k b p, In ((k, b), DStay p) (combine (all_slots rs) (all_decs blk dl rs)) ->
  exists g ins j, In (g, ins) rs /\ nth_error ins j = Some b /\ k = keyN g j /\ stay_cond blk dl g ins j b p.
Proof.
  induction rs as [|[g ins] rs IH]; intros k b p H; [destruct H|].
  unfold all_slots, all_decs in H. cbn [flat_map fst snd] in H. fold (all_slots rs) in H. fold (all_decs blk dl rs) in H.
  rewrite combine_app in H by (rewrite slots_length, run_decs_length; reflexivity). apply in_app_or in H. destruct H as [H|H].
  - destruct (slots_combine g ins 0 _ _ _ H) as (j & N & K & D). cbn [fst snd Nat.add] in *.
    exists g, ins, j. split; [left; reflexivity|]. split; [exact N|]. split; [exact K|].
    destruct (run_decs_stay blk dl g (first_act ins) ins [] 0 true eq_refl j b p N D) as (a & F & C). exists a. split; [exact F|]. exact C.
  - destruct (IH k b p H) as (g' & ins' & j & I & X). exists g', ins', j. split; [right; exact I | exact X].
Qed.
