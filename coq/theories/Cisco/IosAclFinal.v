(* Cisco/IosAclFinal.v — the ACL that diff_ios leaves on the device filters like the target:
   every line whose move was suppressed crosses only rules of its own action (from the
   block invariants of IosAclBlocks.v), hence the rules of the resulting ACL and of the
   target differ only by exchanges of neighbours with the same action (IosAclEquiv.v). *)
From Coq Require Import List Arith Bool Lia NArith Sorted.
From NA Require Import Cisco.IosAcl Cisco.IosAclFresh Cisco.IosAclMoves Cisco.IosAclEquiv Cisco.IosAclBlocks.
Import ListNotations.

Notation K := (N * (tag * ientry))%type (only parsing).

(* ---- the elements of the numbered script ---- *)
Lemma num_old m : forall apos i k t c, In (k, (t, c)) (num m apos i) -> t <> Add ->
  exists q, k = dkey (apos + q) /\ nth_error (listA m) q = Some c.
Proof.
  induction m as [|[t0 e] r IH]; intros apos i k t c H NT; [destruct H|].
  destruct t0; cbn [num] in H; unfold listA; cbn [filter is_add fst negb map snd]; fold (listA r).
  - destruct H as [H|H].
    + injection H as <- <- <-. exists 0. rewrite Nat.add_0_r. split; reflexivity.
    + destruct (IH _ _ _ _ _ H NT) as (q & A & B). exists (S q). split; [rewrite A; f_equal; lia | exact B].
  - destruct H as [H|H].
    + injection H as <- <- <-. exists 0. rewrite Nat.add_0_r. split; reflexivity.
    + destruct (IH _ _ _ _ _ H NT) as (q & A & B). exists (S q). split; [rewrite A; f_equal; lia | exact B].
  - destruct H as [H|H]; [injection H as _ <- _; congruence|]. apply (IH _ _ _ _ _ H NT).
Qed.

Lemma slots_in gap : forall ins i k c, In (k, c) (slots gap i ins) -> exists j, nth_error ins j = Some c /\ k = keyN gap (i + j).
Proof.
  induction ins as [|b r IH]; intros i k c H; [destruct H|]. cbn [slots] in H. destruct H as [H|H].
  - injection H as <- <-. exists 0. rewrite Nat.add_0_r. split; reflexivity.
  - destruct (IH (S i) k c H) as (j & A & B). exists (S j). split; [exact A | rewrite B; f_equal; lia].
Qed.

Lemma num_add m k c : In (k, (Add, c)) (num m 0 0) -> exists g ins j, In (g, ins) (runs m 0 []) /\ nth_error ins j = Some c /\ k = keyN g j.
Proof.
  intros H. assert (I : In (k, c) (add_slots m)).
  { unfold add_slots. apply in_map_iff. exists (k, (Add, c)). split; [reflexivity|]. apply filter_In. split; [exact H | reflexivity]. }
  rewrite <- all_slots_num in I. unfold all_slots in I. apply in_flat_map in I. destruct I as ([g ins] & Hr & Hs). cbn [fst snd] in Hs.
  destruct (slots_in g ins 0 k c Hs) as (j & A & B). exists g, ins, j. split; [exact Hr|]. split; [exact A | exact B].
Qed.

Lemma runs_len m : short_runs m 0 -> forall g ins, In (g, ins) (runs m 0 []) -> (N.of_nat (length ins) < 10000)%N.
Proof.
  intros SR g ins H. pose proof (runs_short m 0 [] SR ltac:(simpl; lia)) as E.
  destruct (N.lt_ge_cases (N.of_nat (length ins)) 10000) as [L|GE]; [exact L|]. exfalso.
  assert (X : existsb (fun r : nat * list ientry => (10000 <=? N.of_nat (length (snd r)))%N) (runs m 0 []) = true).
  { apply existsb_exists. exists (g, ins). split; [exact H|]. cbn [snd]. apply N.leb_le. exact GE. }
  congruence.
Qed.

Lemma same_gap rs : StronglySorted gap_lt rs -> forall g i1 i2, In (g, i1) rs -> In (g, i2) rs -> i1 = i2.
Proof.
  induction rs as [|r rs IH]; intros SS g i1 i2 H1 H2; [destruct H1|].
  apply StronglySorted_inv in SS. destruct SS as [SS FA]. rewrite Forall_forall in FA.
  destruct H1 as [H1|H1], H2 as [H2|H2].
  - congruence.
  - subst r. apply FA in H2. unfold gap_lt in H2. cbn [fst] in H2. lia.
  - subst r. apply FA in H1. unfold gap_lt in H1. cbn [fst] in H1. lia.
  - apply (IH SS g i1 i2 H1 H2).
Qed.

Lemma all_act_in l a c : all_act l a = true -> In c l -> i_act c = a.
Proof.
  induction l as [|x r IH]; intros H I; [destruct I|]. cbn [all_act] in H. apply andb_true_iff in H. destruct H as [H1 H2].
  destruct I as [<-|I]; [apply Nat.eqb_eq, H1 | apply IH; assumption].
Qed.
Lemma in_firstn {A} (l : list A) : forall j' j c, nth_error l j' = Some c -> j' <= j -> In c (firstn (S j) l).
Proof.
  induction l as [|x r IH]; intros j' j c N L; [destruct j'; discriminate|]. cbn [firstn]. destruct j' as [|j']; cbn [nth_error] in N.
  - injection N as <-. left. reflexivity.
  - right. destruct j as [|j]; [lia|]. apply (IH j' j c N ltac:(lia)).
Qed.
Lemma in_skipn {A} (l : list A) : forall j' j c, nth_error l j' = Some c -> j < j' -> In c (skipn (S j) l).
Proof.
  induction l as [|x r IH]; intros j' j c N L; [destruct j'; discriminate|]. destruct j' as [|j']; [lia|]. cbn [nth_error] in N. cbn [skipn].
  destruct j as [|j]; [apply nth_error_In in N; exact N | apply (IH j' j c N ltac:(lia))].
Qed.

(* ---- every suppressed move of a rule crosses only rules of its own action ---- *)
Lemma between_of_stay m : nodupA m -> nodupB m -> short_runs m 0 ->
  forall k b p, In ((k, b), DStay p) (combine (add_slots m) (diff_decs m)) -> is_rule b = true ->
  between_ok (num m 0 0) k p b.
Proof.
  intros NA NB SR k b p H RB.
  set (S := num m 0 0). set (al := listA m). set (rs := runs m 0 []).
  unfold diff_decs in H. rewrite <- all_slots_num in H. fold rs in H.
  destruct (all_decs_stay (diff_blk m) (drops m 0) rs k b p H) as (g & ins & j & Hr & Nj & -> & (a & FD & COND)).
  (* the block ids after the split pass *)
  destruct (runs_sorted m 0 []) as [SRT BND]. fold rs in SRT, BND.
  set (blk0 := mark_blocks al None 1). set (mx0 := fold_left Nat.max blk0 1).
  assert (DB : diff_blk m = fst (split_pass al rs blk0 mx0)) by reflexivity. rewrite DB in COND. clear DB.
  destruct (split_pass al rs blk0 mx0) as [blk mxF] eqn:SP. cbn [fst] in COND.
  destruct (split_pass_inv al rs blk0 mx0 blk mxF SP (binv_mark al) SRT) as (BI & _ & _ & _ & ROK).
  (* the deleted line *)
  unfold find_del in FD. apply find_some in FD. destruct FD as [Ip SL]. cbn [snd] in SL. apply in_rev in Ip.
  pose proof (drops_num m 0 0 p a Ip) as Ia. fold S in Ia. fold (dkey p) in Ia.
  destruct (num_old m 0 0 _ _ _ Ia ltac:(discriminate)) as (p' & EP & Na). cbn [Nat.add] in EP. apply dkey_inj in EP. subst p'. fold al in Na.
  assert (PL : p < length al) by (apply nth_error_Some; congruence).
  assert (ACT : i_act a = i_act b) by (unfold same_line in SL; apply andb_true_iff in SL; destruct SL as [E _]; apply Nat.eqb_eq, E).
  assert (RA : is_rule a = true) by (unfold is_rule in *; rewrite ACT; exact RB).
  destruct (BND _ Hr) as [_ GB]. cbn [fst Nat.add] in GB. fold al in GB.
  pose proof (runs_len m SR g ins Hr) as LI. assert (JL : j < length ins) by (apply nth_error_Some; congruence).
  intros x Hx LO HI RX. destruct x as [kx [tx c]]. cbn [fst] in LO, HI. change (ent (kx, (tx, c))) with c in *.
  destruct (Nat.ltb p g) eqn:PG.
  - (* the line stays above the inserted lines *)
    apply Nat.ltb_lt in PG. destruct COND as [AA EQ].
    assert (AB : i_act b = first_act ins) by (apply (all_act_in _ _ _ AA), (in_firstn ins j j b Nj (le_n _))).
    rewrite N.min_r in LO by (unfold keyN, dkey; lia). rewrite N.max_l in HI by (unfold keyN, dkey; lia).
    destruct tx.
    + destruct (num_old m 0 0 _ _ _ Hx ltac:(discriminate)) as (q & EK & Nq). cbn [Nat.add] in EK. subst kx. fold al in Nq.
      assert (Q1 : p < q) by (unfold dkey in LO; lia). assert (Q2 : q <= g - 1) by (unfold dkey, keyN in HI; lia).
      rewrite <- ACT. symmetry. apply (b_act _ _ _ BI p q a c Na Nq); [|exact RA|exact RX].
      symmetry. apply (b_itv _ _ _ BI p q (g - 1)); [lia | lia | lia | symmetry; exact EQ].
    + destruct (num_old m 0 0 _ _ _ Hx ltac:(discriminate)) as (q & EK & Nq). cbn [Nat.add] in EK. subst kx. fold al in Nq.
      assert (Q1 : p < q) by (unfold dkey in LO; lia). assert (Q2 : q <= g - 1) by (unfold dkey, keyN in HI; lia).
      rewrite <- ACT. symmetry. apply (b_act _ _ _ BI p q a c Na Nq); [|exact RA|exact RX].
      symmetry. apply (b_itv _ _ _ BI p q (g - 1)); [lia | lia | lia | symmetry; exact EQ].
    + destruct (num_add m kx c Hx) as (g' & ins' & j' & Hr' & Nj' & ->). fold rs in Hr'.
      pose proof (runs_len m SR g' ins' Hr') as LI'. assert (JL' : j' < length ins') by (apply nth_error_Some; congruence).
      assert (G1 : p + 1 <= g') by (unfold dkey, keyN in LO; lia).
      assert (G2 : g' < g \/ (g' = g /\ j' < j)) by (unfold keyN in HI; lia).
      destruct G2 as [G2|[-> G2]].
      * rewrite <- ACT. apply (ROK g' ins' Hr' ltac:(lia) ltac:(lia)) with (q := p); [| exact Na | | exact RA | apply nth_error_In in Nj'; exact Nj'].
        -- rewrite (b_itv _ _ _ BI p (g' - 1) (g - 1)) by (try lia; symmetry; exact EQ).
           rewrite (b_itv _ _ _ BI p g' (g - 1)) by (try lia; symmetry; exact EQ). reflexivity.
        -- symmetry. apply (b_itv _ _ _ BI p g' (g - 1)); [lia | lia | lia | symmetry; exact EQ].
      * assert (ins' = ins) by (apply (same_gap rs SRT g ins' ins Hr' Hr)). subst ins'.
        rewrite AB. apply (all_act_in _ _ _ AA), (in_firstn ins j' j c Nj' ltac:(lia)).
  - (* the line stays below the inserted lines *)
    apply Nat.ltb_ge in PG. destruct COND as [AA EQ].
    rewrite N.min_l in LO by (unfold keyN, dkey; lia). rewrite N.max_r in HI by (unfold keyN, dkey; lia).
    destruct tx.
    + destruct (num_old m 0 0 _ _ _ Hx ltac:(discriminate)) as (q & EK & Nq). cbn [Nat.add] in EK. subst kx. fold al in Nq.
      assert (Q1 : g <= q) by (unfold dkey, keyN in LO; lia). assert (Q2 : q < p) by (unfold dkey in HI; lia).
      rewrite <- ACT. symmetry. apply (b_act _ _ _ BI p q a c Na Nq); [|exact RA|exact RX].
      rewrite <- EQ. symmetry. apply (b_itv _ _ _ BI g q p); [lia | lia | lia | exact EQ].
    + destruct (num_old m 0 0 _ _ _ Hx ltac:(discriminate)) as (q & EK & Nq). cbn [Nat.add] in EK. subst kx. fold al in Nq.
      assert (Q1 : g <= q) by (unfold dkey, keyN in LO; lia). assert (Q2 : q < p) by (unfold dkey in HI; lia).
      rewrite <- ACT. symmetry. apply (b_act _ _ _ BI p q a c Na Nq); [|exact RA|exact RX].
      rewrite <- EQ. symmetry. apply (b_itv _ _ _ BI g q p); [lia | lia | lia | exact EQ].
    + destruct (num_add m kx c Hx) as (g' & ins' & j' & Hr' & Nj' & ->). fold rs in Hr'.
      pose proof (runs_len m SR g' ins' Hr') as LI'. assert (JL' : j' < length ins') by (apply nth_error_Some; congruence).
      assert (G1 : g' <= p) by (unfold dkey, keyN in HI; lia).
      assert (G2 : g < g' \/ (g' = g /\ j < j')) by (unfold keyN in LO; lia).
      destruct G2 as [G2|[-> G2]].
      * rewrite <- ACT. apply (ROK g' ins' Hr' ltac:(lia) ltac:(lia)) with (q := p); [| exact Na | | exact RA | apply nth_error_In in Nj'; exact Nj'].
        -- rewrite (b_itv _ _ _ BI g (g' - 1) p) by (try lia; exact EQ).
           rewrite (b_itv _ _ _ BI g g' p) by (try lia; exact EQ). reflexivity.
        -- rewrite <- EQ. symmetry. apply (b_itv _ _ _ BI g g' p); [lia | lia | lia | exact EQ].
      * assert (ins' = ins) by (apply (same_gap rs SRT g ins' ins Hr' Hr)). subst ins'.
        apply (all_act_in _ _ _ AA), (in_skipn ins j' j c Nj' G2).
Qed.

Lemma forall2_combine {A B} (P : A -> B -> Prop) l1 : forall l2, length l1 = length l2 ->
  (forall x y, In (x, y) (combine l1 l2) -> P x y) -> Forall2 P l1 l2.
Proof.
  induction l1 as [|x l1 IH]; intros [|y l2] L H; try discriminate; constructor.
  - apply H. left. reflexivity.
  - apply IH; [simpl in L; lia|]. intros x' y' I. apply H. right. exact I.
Qed.

(* the rules of the resulting ACL and of the target differ by exchanges of neighbours with the same action *)
Theorem ios_final_filters_like_target m : nodupA m -> nodupB m -> short_runs m 0 ->
  sw_equiv (rules (listB m)) (rules (final_list m)).
Proof.
  intros NA NB SR. apply (ios_final_equiv_cond m NA NB SR). unfold stays_between.
  destruct (script_facts m NA NB SR) as (_ & LEN & _).
  apply forall2_combine; [exact LEN|]. intros [k b] d H. destruct d as [|p|p]; try exact I.
  cbn [fst snd]. intros RB. apply (between_of_stay m NA NB SR k b p H RB).
Qed.

(* the whole ACL core: every command accepted, and the device then filters like the target *)
Theorem ios_acl_equiv m cs : nodupA m -> nodupB m -> short_runs m 0 -> diff_ios m = Some cs ->
  exists l', iexec_all (reseq (listA m)) cs = Some l' /\ sw_equiv (rules (listB m)) (rules (map snd l')).
Proof.
  intros NA NB SR D. destruct (ios_moves_accepted m cs NA NB SR D) as (l' & EX & FL).
  exists l'. split; [exact EX|]. rewrite FL. apply (ios_final_filters_like_target m NA NB SR).
Qed.

(* ... so that every packet gets the verdict the target gives it, whatever the lines match *)
Corollary ios_acl_same_verdicts m cs (matches : ientry -> bool) : nodupA m -> nodupB m -> short_runs m 0 -> diff_ios m = Some cs ->
  exists l', iexec_all (reseq (listA m)) cs = Some l' /\
             fm_verdict matches (rules (map snd l')) = fm_verdict matches (rules (listB m)).
Proof.
  intros NA NB SR D. destruct (ios_acl_equiv m cs NA NB SR D) as (l' & EX & SW). exists l'. split; [exact EX|].
  symmetry. apply sw_equiv_verdict, SW.
Qed.
