(* Cisco/IosAclMoves.v — the numbered commands of diffIOSACLs for EVERY edit
   script, moves included: if no line occurs twice in the device ACL nor in the
   target ACL (IOS itself refuses such ACLs) and every inserted run has fewer
   than 10000 lines, then every command — numbered insert, joined "no N / M line",
   delete by number — is accepted by the numbered ACL of the device, and the ACL
   that results is [final_list m]: the target with every line whose move was
   suppressed standing at its old place.  Nothing here depends on how the block
   logic decides which moves to suppress. *)
From Coq Require Import List Arith Bool Lia NArith Sorted.
From NA Require Import Cisco.IosAcl Cisco.IosAclFresh.
Import ListNotations.

Inductive dec := DNew | DMove (p : nat) | DStay (p : nat).

(* the decision run_cmds takes for every inserted line *)
Fixpoint run_decs (blk : list nat) (dl : list (nat * ientry)) (gap : nat) (action0 : nat)
         (i : nat) (moveok : bool) (ins : list ientry) : list dec :=
  match ins with
  | [] => []
  | b :: rest =>
      let moveok' := moveok && Nat.eqb action0 (i_act b) in
      let ds := run_decs blk dl gap action0 (S i) moveok' rest in
      match find_del dl b with
      | Some (pos, a) =>
          let oldid := nthd blk pos 0 in
          let downok := all_act rest (i_act b) in
          let skip :=
            Nat.eqb (i_log a) (i_log b) &&
            (if Nat.ltb pos gap then moveok' && Nat.eqb (nthd blk (gap - 1) 0) oldid
             else downok && Nat.eqb (nthd blk gap 0) oldid) in
          (if skip then DStay pos else DMove pos) :: ds
      | None => DNew :: ds
      end
  end.

Definition keyN (gap i : nat) : N := (N.of_nat gap * 10000 + N.of_nat i + 1)%N.
Definition dkey (p : nat) : N := ((N.of_nat p + 1) * 10000)%N.

Definition cmd_of (k : N) (b : ientry) (d : dec) : list icmd :=
  match d with DNew => [INum k b] | DMove p => [IMove (dkey p) k b] | DStay _ => [] end.
Definition used_of (d : dec) : list nat := match d with DNew => [] | DMove p => [p] | DStay p => [p] end.

Fixpoint slots (gap i : nat) (ins : list ientry) : list (N * ientry) :=
  match ins with [] => [] | b :: r => (keyN gap i, b) :: slots gap (S i) r end.

Fixpoint cmds_of (sl : list (N * ientry)) (ds : list dec) : list icmd :=
  match sl, ds with
  | (k, b) :: sr, d :: dr => cmd_of k b d ++ cmds_of sr dr
  | _, _ => []
  end.

Lemma run_decs_length blk dl gap a0 ins : forall i mo, length (run_decs blk dl gap a0 i mo ins) = length ins.
Proof.
  induction ins as [|b r IH]; intros i mo; [reflexivity|]. cbn [run_decs].
  destruct (find_del dl b) as [[pos a]|]; cbn [length]; rewrite IH; reflexivity.
Qed.
Lemma slots_length gap ins : forall i, length (slots gap i ins) = length ins.
Proof. induction ins as [|b r IH]; intros i; [reflexivity|]. cbn [slots length]. rewrite IH. reflexivity. Qed.

Lemma run_cmds_decs blk dl gap a0 ins : forall i mo,
  run_cmds blk dl gap a0 i mo ins
  = (cmds_of (slots gap i ins) (run_decs blk dl gap a0 i mo ins), flat_map used_of (run_decs blk dl gap a0 i mo ins)).
Proof.
  induction ins as [|b r IH]; intros i mo; [reflexivity|].
  cbn [run_cmds run_decs slots]. rewrite IH.
  destruct (find_del dl b) as [[pos a]|]; [|reflexivity].
  match goal with |- context [if ?c then (_, _) else _] => destruct c end; reflexivity.
Qed.

Definition first_act (ins : list ientry) : nat := match ins with b :: _ => i_act b | [] => 0 end.
Definition all_decs (blk : list nat) (dl : list (nat * ientry)) (rs : list (nat * list ientry)) : list dec :=
  flat_map (fun r => run_decs blk dl (fst r) (first_act (snd r)) 0 true (snd r)) rs.
Definition all_slots (rs : list (nat * list ientry)) : list (N * ientry) :=
  flat_map (fun r => slots (fst r) 0 (snd r)) rs.

Lemma cmds_of_app s1 d1 s2 d2 : length s1 = length d1 -> cmds_of (s1 ++ s2) (d1 ++ d2) = cmds_of s1 d1 ++ cmds_of s2 d2.
Proof.
  revert d1. induction s1 as [|[k b] sr IH]; intros [|d dr] L; try discriminate; [reflexivity|].
  cbn [cmds_of List.app]. rewrite IH by (simpl in L; lia). rewrite app_assoc. reflexivity.
Qed.

Lemma all_runs_decs blk dl rs :
  all_runs blk dl rs = (cmds_of (all_slots rs) (all_decs blk dl rs), flat_map used_of (all_decs blk dl rs)).
Proof.
  induction rs as [|[gap ins] r IH]; [reflexivity|].
  cbn [all_runs all_slots all_decs flat_map fst snd]. rewrite run_cmds_decs. fold (first_act ins).
  fold (all_slots r). fold (all_decs blk dl r). rewrite IH.
  rewrite cmds_of_app by (rewrite slots_length, run_decs_length; reflexivity).
  rewrite flat_map_app. reflexivity.
Qed.

Lemma all_lengths blk dl rs : length (all_slots rs) = length (all_decs blk dl rs).
Proof.
  induction rs as [|[gap ins] r IH]; [reflexivity|]. unfold all_slots, all_decs in *. cbn [flat_map fst snd].
  rewrite !app_length, slots_length, run_decs_length, IH. reflexivity.
Qed.

(* what a decision says about the deleted lines *)
Definition dec_ok (dl : list (nat * ientry)) (b : ientry) (d : dec) : Prop :=
  match d with
  | DNew => find_del dl b = None
  | DMove p | DStay p => exists a, find_del dl b = Some (p, a)
  end.

Lemma run_decs_ok blk dl gap a0 ins : forall i mo,
  Forall2 (fun s d => dec_ok dl (snd s) d) (slots gap i ins) (run_decs blk dl gap a0 i mo ins).
Proof.
  induction ins as [|b r IH]; intros i mo; [constructor|]. cbn [slots run_decs].
  destruct (find_del dl b) as [[pos a]|] eqn:F.
  - constructor; [|apply IH]. cbn [snd]. match goal with |- dec_ok _ _ (if ?c then _ else _) => destruct c end; exists a; exact F.
  - constructor; [exact F | apply IH].
Qed.
Lemma all_decs_ok blk dl rs : Forall2 (fun s d => dec_ok dl (snd s) d) (all_slots rs) (all_decs blk dl rs).
Proof.
  induction rs as [|[gap ins] r IH]; [constructor|]. unfold all_slots, all_decs in *. cbn [flat_map fst snd].
  apply Forall2_app; [apply run_decs_ok | exact IH].
Qed.

(* the slots are the inserted lines of the numbered script *)
Lemma inums_slots gap ins : forall i, inums gap i ins = map (fun a : N * ientry => INum (fst a) (snd a)) (slots gap i ins).
Proof. induction ins as [|b rr IHi]; intros i; [reflexivity|]. cbn [inums slots map fst snd]. unfold keyN at 1. rewrite IHi. reflexivity. Qed.

Lemma all_runs_nodel blk rs : all_runs blk [] rs = (map (fun a : N * ientry => INum (fst a) (snd a)) (all_slots rs), []).
Proof.
  induction rs as [|[gap ins] r IH]; [reflexivity|]. cbn [all_runs]. rewrite IH.
  rewrite run_cmds_fresh by reflexivity. unfold all_slots. cbn [flat_map fst snd]. rewrite map_app, inums_slots. reflexivity.
Qed.

Definition add_slots (m : script) : list (N * ientry) := map proj (filter (fun x : N * (tag * ientry) => is_add (fst (snd x))) (num m 0 0)).

Lemma all_slots_num m : all_slots (runs m 0 []) = add_slots m.
Proof.
  pose proof (all_runs_fresh [] [] m (fun _ _ => eq_refl) 0 [] (fun _ F => match F with end)) as H.
  rewrite all_runs_nodel in H. cbn [rev inums List.app List.length] in H. rewrite (exp_cmds_num m 0 0) in H.
  injection H as H. unfold add_slots.
  revert H. generalize (all_slots (runs m 0 [])) (map proj (filter (fun x : N * (tag * ientry) => is_add (fst (snd x))) (num m 0 0))).
  induction l as [|[k e] l IH]; intros [|[k' e'] l'] H; try discriminate; [reflexivity|].
  cbn [map fst snd] in H. injection H as -> -> H. f_equal. apply IH, H.
Qed.

(* ---- the ACL on the device is a selection of the numbered script ---- *)
Notation K := (N * (tag * ientry))%type (only parsing).
Definition ent (x : K) : ientry := snd (snd x).

Definition added_keys (sl : list (N * ientry)) (ds : list dec) : list N :=
  flat_map (fun sd => match snd sd with DStay _ => [] | _ => [fst (fst sd)] end) (combine sl ds).
Definition moved_keys (ds : list dec) : list N :=
  flat_map (fun d => match d with DMove p => [dkey p] | _ => [] end) ds.

(* what must hold of a decision when its command is sent *)
Definition step_ok (S : list K) (sel : N -> bool) (k : N) (b : ientry) (d : dec) : Prop :=
  match d with
  | DNew => forall x, In x S -> sel (fst x) = true -> same_line (ent x) b = false
  | DMove p => (exists a, In (dkey p, (Drop, a)) S /\ same_line a b = true) /\ sel (dkey p) = true /\
               (forall x, In x S -> sel (fst x) = true -> same_line (ent x) b = true -> fst x = dkey p)
  | DStay _ => True
  end.

Lemma same_line_trans a b c : same_line a b = true -> same_line b c = true -> same_line a c = true.
Proof. rewrite !same_line_iff. congruence. Qed.
Lemma same_line_sym a b : same_line a b = same_line b a.
Proof. unfold same_line. rewrite (Nat.eqb_sym (i_act a)), (Nat.eqb_sym (i_body a)). reflexivity. Qed.

Lemma ndel_sel (S : list K) sel k : (exists te, In (k, te) S) -> sel k = true ->
  ndel k (sel_list sel S) = Some (sel_list (fun n => (sel n && negb (N.eqb n k))%bool) S).
Proof.
  intros [te I] Hs. unfold ndel.
  assert (E : existsb (fun x : N * ientry => (fst x =? k)%N) (sel_list sel S) = true).
  { apply existsb_exists. exists (k, snd te). split; [|cbn [fst]; apply N.eqb_refl].
    unfold sel_list. apply in_map_iff. exists (k, te). split; [reflexivity|]. apply filter_In. split; [exact I | exact Hs]. }
  rewrite E. f_equal. unfold sel_list. clear. induction S as [|x S' IHS]; [reflexivity|]. cbn [filter].
  destruct (sel (fst x)) eqn:Es; cbn [andb map filter fst].
  - destruct (negb (fst x =? k)%N); cbn [map]; rewrite IHS; reflexivity.
  - exact IHS.
Qed.

Lemma nadd_sel_gen (S : list K) sel k e : StronglySorted klt S -> In (k, (Add, e)) S -> sel k = false ->
  (forall x, In x S -> sel (fst x) = true -> same_line (ent x) e = false) ->
  nadd k e (sel_list sel S) = Some (sel_list (fun n => (sel n || N.eqb n k)%bool) S).
Proof.
  intros SS I Hs NL. unfold nadd.
  assert (E1 : existsb (fun x : N * ientry => (fst x =? k)%N) (sel_list sel S) = false).
  { apply not_true_is_false. intros H. apply existsb_exists in H. destruct H as ([k' e'] & H & E). cbn [fst] in E.
    apply N.eqb_eq in E. subst k'. apply sel_list_keys in H. destruct H as [H _]. congruence. }
  assert (E2 : existsb (fun x : N * ientry => same_line (snd x) e) (sel_list sel S) = false).
  { apply not_true_is_false. intros H. apply existsb_exists in H. destruct H as ([k' e'] & H & E). cbn [snd] in E.
    apply sel_list_keys in H. destruct H as [Hs' [t' I']]. specialize (NL _ I' Hs'). unfold ent in NL. cbn [snd] in NL. congruence. }
  rewrite E1, E2. f_equal. eapply ins_num_sel; eauto.
Qed.

Lemma moved_keys_drop (S : list K) sel sl ds : Forall2 (fun s d => step_ok S sel (fst s) (snd s) d) sl ds ->
  forall n, in_keys (moved_keys ds) n = true -> exists a, In (n, (Drop, a)) S.
Proof.
  induction 1 as [|s d sl ds H1 H2 IH]; intros n M; [discriminate|].
  unfold moved_keys in M. cbn [flat_map] in M. unfold in_keys in M. rewrite existsb_app in M. apply orb_true_iff in M. destruct M as [M|M].
  - destruct d as [|p|p]; try discriminate. cbn [existsb] in M. rewrite orb_false_r in M. apply N.eqb_eq in M. subst n.
    destruct H1 as ((a & Ia & _) & _). exists a. exact Ia.
  - apply IH. exact M.
Qed.

Section Exec.
  Variable S : list K.
  Hypothesis SS : StronglySorted klt S.

  Definition sel_after (sel : N -> bool) (sl : list (N * ientry)) (ds : list dec) : N -> bool :=
    fun n => ((sel n && negb (in_keys (moved_keys ds) n)) || in_keys (added_keys sl ds) n)%bool.

  Lemma uniq x y : In x S -> In y S -> fst x = fst y -> x = y.
  Proof. apply sorted_unique, SS. Qed.

  Lemma exec_decs : forall sl ds sel,
    length sl = length ds ->
    (forall k b, In (k, b) sl -> In (k, (Add, b)) S /\ sel k = false) ->
    NoDup (map fst sl) ->
    (forall k b k' b', In (k, b) sl -> In (k', b') sl -> same_line b b' = true -> k = k') ->
    Forall2 (fun s d => step_ok S sel (fst s) (snd s) d) sl ds ->
    iexec_all (sel_list sel S) (cmds_of sl ds) = Some (sel_list (sel_after sel sl ds) S).
  Proof.
    induction sl as [|[k b] sr IH]; intros ds sel L HI ND LD F.
    - destruct ds; [|discriminate]. cbn [cmds_of iexec_all]. f_equal. apply sel_list_ext. intros x _.
      unfold sel_after, added_keys, moved_keys. cbn [combine flat_map in_keys existsb negb]. rewrite andb_true_r, orb_false_r. reflexivity.
    - destruct ds as [|d dr]; [discriminate|]. cbn [length] in L. injection L as L.
      inversion F as [|? ? ? ? F1 F2]; subst. cbn [fst snd] in F1.
      cbn [map fst] in ND. inversion ND as [|? ? NI ND']; subst.
      destruct (HI k b (or_introl eq_refl)) as [Ik Hk].
      assert (HI' : forall k2 b2, In (k2, b2) sr -> In (k2, (Add, b2)) S /\ k2 <> k).
      { intros k2 b2 H. split; [apply (HI k2 b2 (or_intror H))|]. intros ->. apply NI. apply in_map_iff. exists (k, b2). split; [reflexivity | exact H]. }
      assert (LD' : forall k1 b1 k2 b2, In (k1, b1) sr -> In (k2, b2) sr -> same_line b1 b2 = true -> k1 = k2)
        by (intros k1 b1 k2 b2 H1 H2; apply (LD k1 b1 k2 b2 (or_intror H1) (or_intror H2))).
      (* the state after this step and what the later steps need from it *)
      assert (STEP : forall sel',
        (forall n, sel' n = match d with
                            | DNew => (sel n || N.eqb n k)%bool
                            | DMove p => ((sel n && negb (N.eqb n (dkey p))) || N.eqb n k)%bool
                            | DStay _ => sel n end) ->
        iexec_all (sel_list sel' S) (cmds_of sr dr) = Some (sel_list (sel_after sel' sr dr) S) ->
        iexec_all (sel_list sel S) (cmds_of ((k, b) :: sr) (d :: dr)) = Some (sel_list (sel_after sel ((k, b) :: sr) (d :: dr)) S)).
      { intros sel' Hsel' R. cbn [cmds_of].
        assert (FIN : sel_list (sel_after sel' sr dr) S = sel_list (sel_after sel ((k, b) :: sr) (d :: dr)) S).
        { apply sel_list_ext. intros x Hx. unfold sel_after. rewrite Hsel'. unfold added_keys, moved_keys. cbn [combine flat_map fst snd].
          fold (moved_keys dr). fold (added_keys sr dr).
          assert (MF : (fst x =? k)%N = true -> in_keys (moved_keys dr) (fst x) = false).
          { intros E. apply N.eqb_eq in E. apply not_true_is_false. intros M.
            destruct (moved_keys_drop S sel sr dr F2 _ M) as [a Ia]. rewrite E in Ia.
            assert (X : (k, (Drop, a)) = (k, (Add, b))) by (apply uniq; auto). discriminate. }
          destruct d as [|p|p]; cbn [List.app in_keys existsb]; fold (in_keys (moved_keys dr) (fst x)); fold (in_keys (added_keys sr dr) (fst x)).
          - destruct (fst x =? k)%N; [rewrite (MF eq_refl); destruct (sel (fst x)); reflexivity|].
            destruct (sel (fst x)), (in_keys (moved_keys dr) (fst x)), (in_keys (added_keys sr dr) (fst x)); reflexivity.
          - destruct (fst x =? k)%N; [rewrite (MF eq_refl); destruct (sel (fst x)), (fst x =? dkey p)%N; reflexivity|].
            destruct (sel (fst x)), (fst x =? dkey p)%N, (in_keys (moved_keys dr) (fst x)), (in_keys (added_keys sr dr) (fst x)); reflexivity.
          - reflexivity. }
        destruct d as [|p|p]; cbn [cmd_of List.app iexec_all iexec].
        - rewrite (nadd_sel_gen S sel k b SS Ik Hk F1).
          rewrite (sel_list_ext _ sel' S) by (intros x _; symmetry; apply Hsel'). rewrite R, FIN. reflexivity.
        - destruct F1 as ((a & Ia & SLa) & Hp & ONLY).
          rewrite (ndel_sel S sel (dkey p) (ex_intro (fun te => In (dkey p, te) S) (Drop, a) Ia) Hp).
          rewrite (nadd_sel_gen S _ k b SS Ik).
          + rewrite (sel_list_ext _ sel' S) by (intros x _; symmetry; apply Hsel'). rewrite R, FIN. reflexivity.
          + rewrite Hk. reflexivity.
          + intros x Hx Hsx. apply andb_true_iff in Hsx. destruct Hsx as [Hsx NE]. apply negb_true_iff, N.eqb_neq in NE.
            destruct (same_line (ent x) b) eqn:SL; [|reflexivity]. exfalso. apply NE. apply ONLY; assumption.
        - cbn [List.app]. rewrite (sel_list_ext sel sel' S) by (intros x _; symmetry; apply Hsel'). rewrite R, FIN. reflexivity. }
      (* the remaining steps are still possible *)
      set (sel' := fun n => match d with
                            | DNew => (sel n || N.eqb n k)%bool
                            | DMove p => ((sel n && negb (N.eqb n (dkey p))) || N.eqb n k)%bool
                            | DStay _ => sel n end).
      apply (STEP sel' (fun n => eq_refl)).
      apply IH; [exact L| |exact ND'|exact LD'|].
      + intros k2 b2 H. destruct (HI' k2 b2 H) as [I2 NE]. split; [exact I2|].
        destruct (HI k2 b2 (or_intror H)) as [_ Hs2]. unfold sel'.
        replace (k2 =? k)%N with false by (symmetry; apply N.eqb_neq; exact NE).
        destruct d; rewrite Hs2; reflexivity.
      + (* step_ok is kept *)
        clear STEP IH.
        assert (NEW : forall x, In x S -> sel' (fst x) = true -> sel (fst x) = true \/ (x = (k, (Add, b)) /\ match d with DStay _ => False | _ => True end)).
        { intros x Hx H. unfold sel' in H. destruct d as [|p|p].
          - apply orb_true_iff in H. destruct H as [H|H]; [left; exact H|]. right. split; [|exact I]. apply N.eqb_eq in H.
            apply uniq; [exact Hx | exact Ik | exact H].
          - apply orb_true_iff in H. destruct H as [H|H]; [left; apply andb_true_iff in H; apply H|]. right. split; [|exact I]. apply N.eqb_eq in H.
            apply uniq; [exact Hx | exact Ik | exact H].
          - left. exact H. }
        assert (G : forall sr0 dr0, (forall k2 b2, In (k2, b2) sr0 -> In (k2, b2) sr) ->
                    Forall2 (fun s d0 => step_ok S sel (fst s) (snd s) d0) sr0 dr0 ->
                    Forall2 (fun s d0 => step_ok S sel' (fst s) (snd s) d0) sr0 dr0).
        { induction sr0 as [|[k2 b2] sr0 IHs]; intros dr0 SUB F0; inversion F0 as [|? d2 ? dr2 G1 G2]; subst; constructor.
          - cbn [fst snd] in *.
            assert (I2 : In (k2, b2) sr) by (apply SUB; left; reflexivity).
            assert (NSL : same_line b b2 = false).
            { destruct (same_line b b2) eqn:SL; [|reflexivity]. exfalso.
              assert (k = k2) by (apply (LD k b k2 b2 (or_introl eq_refl) (or_intror I2) SL)). subst k2.
              apply NI. apply in_map_iff. exists (k, b2). split; [reflexivity | exact I2]. }
            destruct d2 as [|p2|p2]; cbn [step_ok] in *.
            + intros x Hx Hsx. destruct (NEW x Hx Hsx) as [H|[-> _]]; [apply G1; assumption|]. exact NSL.
            + destruct G1 as ((a2 & Ia2 & SL2) & Hp2 & ONLY2). split; [exists a2; split; assumption|]. split.
              * unfold sel'. destruct d as [|p|p].
                -- rewrite Hp2. reflexivity.
                -- rewrite Hp2. cbn [andb]. apply orb_true_iff. left. apply negb_true_iff, N.eqb_neq. intros E.
                   (* both moves would take the same deleted line *)
                   destruct F1 as ((a & Ia & SLa) & _ & _). rewrite E in Ia2.
                   assert (X : (dkey p, (Drop, a2)) = (dkey p, (Drop, a))) by (apply uniq; auto). injection X as ->.
                   rewrite same_line_sym in SLa. pose proof (same_line_trans _ _ _ SLa SL2) as Y. congruence.
                -- exact Hp2.
              * intros x Hx Hsx SLx. destruct (NEW x Hx Hsx) as [H|[-> _]]; [apply ONLY2; assumption|]. unfold ent in SLx. cbn [snd] in SLx. congruence.
            + exact I.
          - apply IHs; [intros k3 b3 H3; apply SUB; right; exact H3 | exact G2]. }
        apply G; [auto | exact F2].
  Qed.
End Exec.

(* ---- what diff_ios emits, in terms of the decisions ---- *)
Definition diff_blk (m : script) : list nat :=
  let al := listA m in
  let blk0 := mark_blocks al None 1 in
  fst (split_pass al (runs m 0 []) blk0 (fold_left Nat.max blk0 1)).
Definition diff_decs (m : script) : list dec := all_decs (diff_blk m) (drops m 0) (runs m 0 []).
Definition used_pos (m : script) : list nat := flat_map used_of (diff_decs m).
Definition del_keys (m : script) : list N :=
  map (fun d : nat * ientry => dkey (fst d))
      (filter (fun d : nat * ientry => negb (existsb (Nat.eqb (fst d)) (used_pos m))) (rev (drops m 0))).

Lemma diff_ios_decs m cs : diff_ios m = Some cs ->
  cs = cmds_of (add_slots m) (diff_decs m) ++ map INo (del_keys m).
Proof.
  unfold diff_ios. destruct (existsb _ _); [discriminate|].
  unfold del_keys, used_pos, diff_decs, diff_blk.
  destruct (split_pass _ _ _ _) as [blk mx]. cbn [fst].
  rewrite all_runs_decs. rewrite all_slots_num. intros H. injection H as <-. rewrite map_map. reflexivity.
Qed.

(* ---- no line twice, in the device ACL and in the target ACL ---- *)
Definition nodupA (m : script) : Prop := NoDup (map line_of (listA m)).
Definition nodupB (m : script) : Prop := NoDup (map line_of (listB m)).

Lemma listA_num m : forall apos i, map (fun x : K => snd (snd x)) (filter nonadd (num m apos i)) = listA m.
Proof.
  induction m as [|[t e] r IH]; intros apos i; [reflexivity|].
  destruct t; unfold listA in *; cbn [num filter nonadd is_add fst snd negb map]; first [rewrite IH; reflexivity | apply IH].
Qed.

Lemma nodup_inj {A B} (f : A -> B) l x y : NoDup (map f l) -> In x l -> In y l -> f x = f y -> x = y.
Proof.
  induction l as [|z r IH]; intros ND Hx Hy E; [destruct Hx|]. cbn [map] in ND. inversion ND as [|? ? NI ND']; subst.
  destruct Hx as [Hx|Hx], Hy as [Hy|Hy]; try congruence.
  - subst z. exfalso. apply NI. rewrite E. apply in_map, Hy.
  - subst z. exfalso. apply NI. rewrite <- E. apply in_map, Hx.
  - apply IH; assumption.
Qed.

Lemma nodup_map_filter {A B} (f : A -> B) (g : A -> bool) l : NoDup (map f l) -> NoDup (map f (filter g l)).
Proof.
  induction l as [|x r IH]; intros ND; [constructor|]. cbn [map] in ND. inversion ND as [|? ? NI ND']; subst. cbn [filter].
  destruct (g x); [|apply IH, ND']. cbn [map]. constructor; [|apply IH, ND'].
  intros H. apply NI. apply in_map_iff in H. destruct H as (y & E & Hy). apply filter_In in Hy. rewrite <- E. apply in_map, Hy.
Qed.

Lemma dkey_inj p q : dkey p = dkey q -> p = q.
Proof. unfold dkey. lia. Qed.

Lemma forall2_impl_in {A B} (P Q : A -> B -> Prop) l1 l2 :
  Forall2 P l1 l2 -> (forall a b, In a l1 -> P a b -> Q a b) -> Forall2 Q l1 l2.
Proof.
  induction 1 as [|a b l1 l2 H1 H2 IH]; intros HI; constructor.
  - apply HI; [left; reflexivity | exact H1].
  - apply IH. intros a' b' Ha. apply HI. right. exact Ha.
Qed.

Lemma added_keys_in sl ds n : in_keys (added_keys sl ds) n = true -> exists b, In (n, b) sl.
Proof.
  revert ds. induction sl as [|[k b] sr IH]; intros [|d dr] H; try discriminate.
  unfold added_keys in H. cbn [combine flat_map fst snd] in H. unfold in_keys in H. rewrite existsb_app in H.
  apply orb_true_iff in H. destruct H as [H|H].
  - destruct d; cbn [existsb] in H; try discriminate; rewrite orb_false_r in H; apply N.eqb_eq in H; subst n; exists b; left; reflexivity.
  - destruct (IH dr H) as [b' Hb]. exists b'. right. exact Hb.
Qed.

Lemma moved_keys_used ds p : in_keys (moved_keys ds) (dkey p) = true -> In p (flat_map used_of ds).
Proof.
  induction ds as [|d dr IH]; intros H; [discriminate|]. unfold moved_keys in H. cbn [flat_map] in H. unfold in_keys in H.
  rewrite existsb_app in H. apply orb_true_iff in H. cbn [flat_map]. apply in_or_app. destruct H as [H|H].
  - left. destruct d as [|q|q]; try discriminate. cbn [existsb] in H. rewrite orb_false_r in H. apply N.eqb_eq in H. apply dkey_inj in H. subst q. left. reflexivity.
  - right. apply IH. exact H.
Qed.

(* the ACL after the script: kept lines, deleted lines whose move was suppressed, new and moved lines *)
Definition final_keep (m : script) (x : K) : bool :=
  match fst (snd x) with
  | Keep => true
  | Drop => in_keys (map dkey (used_pos m)) (fst x) && negb (in_keys (moved_keys (diff_decs m)) (fst x))
  | Add => in_keys (added_keys (add_slots m) (diff_decs m)) (fst x)
  end.
Definition final_list (m : script) : list ientry := map ent (filter (final_keep m) (num m 0 0)).

Lemma sel0_spec (S : list K) : (forall x y, In x S -> In y S -> fst x = fst y -> x = y) ->
  forall x, In x S -> in_keys (map fst (filter nonadd S)) (fst x) = nonadd x.
Proof.
  intros UN x Hx. unfold in_keys. destruct (nonadd x) eqn:NA.
  - apply existsb_exists. exists (fst x). split; [|apply N.eqb_refl]. apply in_map. apply filter_In. split; assumption.
  - apply not_true_is_false. intros H. apply existsb_exists in H. destruct H as (k & Hk & E). apply N.eqb_eq in E. subst k.
    apply in_map_iff in Hk. destruct Hk as (y & Ey & Hy). apply filter_In in Hy. destruct Hy as [Hy NAy].
    assert (y = x) by (apply UN; auto). subst y. congruence.
Qed.

Theorem ios_moves_accepted m cs : nodupA m -> nodupB m -> short_runs m 0 -> diff_ios m = Some cs ->
  exists l', iexec_all (reseq (listA m)) cs = Some l' /\ map snd l' = final_list m.
Proof.
  intros NA NB SR D. rewrite (diff_ios_decs m cs D). clear D cs.
  set (S := num m 0 0). pose proof (num_sorted m 0 0 ltac:(simpl; lia) SR) as SS. fold S in SS.
  assert (UN : forall x y, In x S -> In y S -> fst x = fst y -> x = y) by (intros x y; apply sorted_unique, SS).
  set (sel0 := in_keys (map fst (filter nonadd S))).
  pose proof (sel0_spec S UN) as SEL0. fold sel0 in SEL0.
  assert (R0 : reseq (listA m) = sel_list sel0 S).
  { unfold reseq, sel_list. rewrite <- (reseq_num m 0 0). fold S. unfold proj.
    f_equal. apply filter_ext_in. intros x Hx. symmetry. apply SEL0, Hx. }
  rewrite R0.
  (* no line twice, on the numbered script *)
  assert (NAS : NoDup (map (fun x : K => line_of (ent x)) (filter nonadd S))).
  { unfold nodupA in NA. rewrite <- (listA_num m 0 0) in NA. fold S in NA. rewrite map_map in NA. exact NA. }
  assert (NBS : NoDup (map (fun x : K => line_of (ent x)) (filter nondrop S))).
  { unfold nodupB in NB. rewrite <- (listB_num m 0 0) in NB. fold S in NB. rewrite map_map in NB. exact NB. }
  set (sl := add_slots m). set (ds := diff_decs m).
  assert (HI : forall k b, In (k, b) sl -> In (k, (Add, b)) S /\ sel0 k = false).
  { intros k e H. unfold sl, add_slots in H. apply in_map_iff in H. destruct H as ([k' [t' e']] & E & H). unfold proj in E. cbn [fst snd] in E. injection E as -> ->.
    apply filter_In in H. destruct H as [H T]. cbn [fst snd] in T. destruct t'; try discriminate. split; [exact H|].
    pose proof (SEL0 _ H) as X. cbn [fst] in X. rewrite X. reflexivity. }
  assert (ND : NoDup (map fst sl)).
  { unfold sl, add_slots. rewrite map_map. fold S. clear -SS. induction S as [|x S' IH]; [constructor|].
    apply StronglySorted_inv in SS. destruct SS as [SS' FA]. rewrite Forall_forall in FA. cbn [filter].
    destruct (is_add (fst (snd x))); [|apply IH, SS']. cbn [map]. constructor; [|apply IH, SS'].
    intros H. apply in_map_iff in H. destruct H as (y & E & Hy). apply filter_In in Hy. destruct Hy as [Hy _].
    apply FA in Hy. unfold klt in Hy. unfold proj in E. cbn [fst] in E. lia. }
  assert (INB : forall k b, In (k, b) sl -> In (k, (Add, b)) (filter nondrop S)).
  { intros k b H. apply filter_In. split; [apply HI, H | reflexivity]. }
  assert (LD : forall k b k' b', In (k, b) sl -> In (k', b') sl -> same_line b b' = true -> k = k').
  { intros k b k' b' H H' SL. apply same_line_iff in SL.
    assert (X : (k, (Add, b)) = (k', (Add, b'))) by (apply (nodup_inj _ _ _ _ NBS (INB _ _ H) (INB _ _ H')); exact SL).
    congruence. }
  assert (LEN : length sl = length ds).
  { unfold sl, ds, diff_decs. rewrite <- all_slots_num. apply all_lengths. }
  (* a selected line that prints like an inserted line is a deleted line *)
  assert (SELD : forall x k b, In x S -> sel0 (fst x) = true -> In (k, b) sl -> same_line (ent x) b = true ->
                 exists a, x = (fst x, (Drop, a))).
  { intros [kx [tx ex]] k b Hx Hs H SL. rewrite (SEL0 _ Hx) in Hs. destruct tx; [|exists ex; reflexivity|discriminate]. exfalso.
    assert (X : (kx, (Keep, ex)) = (k, (Add, b))).
    { apply (nodup_inj _ _ _ _ NBS); [apply filter_In; split; [exact Hx | reflexivity] | apply INB, H | apply same_line_iff, SL]. }
    discriminate. }
  assert (DROPIN : forall kx a, In (kx, (Drop, a)) S -> exists p, In (p, a) (rev (drops m 0)) /\ kx = dkey p).
  { intros kx a Hx. destruct (drops_num_inv m 0 0 _ _ Hx) as (p & Ip & E). exists p. split; [apply -> in_rev; exact Ip | exact E]. }
  assert (F : Forall2 (fun s d => step_ok S sel0 (fst s) (snd s) d) sl ds).
  { pose proof (all_decs_ok (diff_blk m) (drops m 0) (runs m 0 [])) as OK. rewrite all_slots_num in OK. fold sl in OK. fold (diff_decs m) in OK. fold ds in OK.
    apply (forall2_impl_in _ _ _ _ OK). intros [k b] d H DO. cbn [fst snd] in *.
    destruct d as [|p|p]; cbn [step_ok dec_ok] in *; [| |exact I].
    - intros x Hx Hs. destruct (same_line (ent x) b) eqn:SL; [|reflexivity]. exfalso.
      destruct (SELD x k b Hx Hs H SL) as [a Ex]. rewrite Ex in Hx.
      destruct (DROPIN _ _ Hx) as (p & Ip & _).
      unfold find_del in DO. pose proof (find_none _ _ DO (p, a) Ip) as X. cbn [snd] in X.
      rewrite Ex in SL. unfold ent in SL. cbn [snd] in SL. congruence.
    - destruct DO as [a DO]. unfold find_del in DO. apply find_some in DO. destruct DO as [Ip SLa]. cbn [snd] in SLa.
      apply in_rev in Ip. pose proof (drops_num m 0 0 p a Ip) as Ia. fold S in Ia. fold (dkey p) in Ia.
      split; [exists a; split; assumption|]. split; [pose proof (SEL0 _ Ia) as X; cbn [fst] in X; rewrite X; reflexivity|].
      intros x Hx Hs SL. destruct (SELD x k b Hx Hs H SL) as [a' Ex]. rewrite Ex in Hx, SL. unfold ent in SL. cbn [snd] in SL.
      assert (X : (fst x, (Drop, a')) = (dkey p, (Drop, a))).
      { apply (nodup_inj _ _ _ _ NAS); [apply filter_In; split; [exact Hx | reflexivity] | apply filter_In; split; [exact Ia | reflexivity] |].
        unfold ent. cbn [snd]. apply same_line_iff. rewrite (same_line_sym a b) in SLa. apply (same_line_trans _ _ _ SL SLa). }
      congruence. }
  pose proof (exec_decs S SS sl ds sel0 LEN HI ND LD F) as EA.
  assert (RUN : forall l1 c1 c2 l2, iexec_all l1 c1 = Some l2 -> iexec_all l1 (c1 ++ c2) = iexec_all l2 c2).
  { intros l1 c1. revert l1. induction c1 as [|c r IHc]; intros l1 c2 l2 H; cbn [iexec_all List.app] in *; [injection H as <-; reflexivity|].
    destruct (iexec l1 c); [apply IHc, H | discriminate]. }
  rewrite (RUN _ _ _ _ EA).
  set (sel1 := sel_after sel0 sl ds).
  set (dels := del_keys m).
  (* the deleted numbers *)
  assert (DELS : forall k, In k dels -> exists p a, k = dkey p /\ In (p, a) (drops m 0) /\ ~ In p (used_pos m)).
  { intros k H. unfold dels, del_keys in H. apply in_map_iff in H. destruct H as ([p a] & E & H). cbn [fst] in E.
    apply filter_In in H. destruct H as [H NU]. cbn [fst] in NU. exists p, a. split; [auto|]. split; [apply in_rev, H|].
    intros U. apply negb_true_iff in NU. apply not_true_iff_false in NU. apply NU. apply existsb_exists. exists p. split; [exact U | apply Nat.eqb_refl]. }
  assert (HD : forall k, In k dels -> sel1 k = true /\ exists te, In (k, te) S).
  { intros k H. destruct (DELS k H) as (p & a & -> & Ip & NU). pose proof (drops_num m 0 0 p a Ip) as Ia. fold S in Ia. fold (dkey p) in Ia.
    split; [|eauto]. unfold sel1, sel_after. pose proof (SEL0 _ Ia) as X. cbn [fst] in X. rewrite X. cbn [nonadd snd fst is_add negb andb].
    destruct (in_keys (moved_keys ds) (dkey p)) eqn:M; [|reflexivity]. exfalso. apply NU. apply moved_keys_used. exact M. }
  assert (NDD : NoDup dels).
  { unfold dels, del_keys. destruct (drops_pos_nodup m 0) as [NDp _].
    assert (G : NoDup (map (fun d : nat * ientry => dkey (fst d)) (rev (drops m 0)))).
    { rewrite map_rev. apply NoDup_rev. clear -NDp. induction (drops m 0) as [|d l IHl]; [constructor|]. cbn [map] in *. inversion NDp as [|? ? NI ND']; subst.
      constructor; [|apply IHl, ND']. intros H. apply in_map_iff in H. destruct H as (d' & E & Hd'). apply dkey_inj in E. apply NI. rewrite <- E. apply in_map, Hd'. }
    apply nodup_map_filter, G. }
  rewrite (exec_dels S SS dels sel1 HD NDD).
  eexists. split; [reflexivity|].
  unfold sel_list, final_list. rewrite map_map. cbn [snd]. fold S. unfold ent. f_equal. apply filter_ext_in. intros x Hx.
  (* selected at the end <-> final_keep *)
  unfold final_keep. fold ds. fold sl. unfold sel1, sel_after. rewrite (SEL0 _ Hx). destruct x as [k [t e]]. cbn [fst snd nonadd].
  assert (NOTDEL : forall t', t' <> Drop -> In (k, (t', e)) S -> in_keys dels k = false).
  { intros t' NT H. apply not_true_is_false. intros Dk. apply existsb_exists in Dk. destruct Dk as (k' & Hk' & E). apply N.eqb_eq in E. subst k'.
    destruct (DELS k Hk') as (p & a & -> & Ip & _). pose proof (drops_num m 0 0 p a Ip) as Ia. fold S in Ia. fold (dkey p) in Ia.
    assert (X : (dkey p, (t', e)) = (dkey p, (Drop, a))) by (apply UN; auto). congruence. }
  destruct t; cbn [is_add negb andb orb].
  - (* Keep *) rewrite (NOTDEL Keep ltac:(discriminate) Hx). cbn [negb]. rewrite andb_true_r.
    destruct (in_keys (moved_keys ds) k) eqn:M; [|reflexivity]. exfalso.
    destruct (moved_keys_drop S sel0 sl ds F _ M) as [a Ia]. assert (X : (k, (Keep, e)) = (k, (Drop, a))) by (apply UN; auto). discriminate.
  - (* Drop *) destruct (DROPIN _ _ Hx) as (p & Ip & ->). apply in_rev in Ip.
    assert (A0 : in_keys (added_keys sl ds) (dkey p) = false).
    { apply not_true_is_false. intros A. destruct (added_keys_in _ _ _ A) as [b Hb]. destruct (HI _ _ Hb) as [Ib _].
      assert (X : (dkey p, (Drop, e)) = (dkey p, (Add, b))) by (apply UN; auto). discriminate. }
    rewrite A0, orb_false_r. rewrite andb_comm. f_equal.
    destruct (existsb (Nat.eqb p) (used_pos m)) eqn:U.
    + (* used: not deleted *)
      apply existsb_exists in U. destruct U as (q & Hq & E). apply Nat.eqb_eq in E. subst q.
      replace (in_keys (map dkey (used_pos m)) (dkey p)) with true by (symmetry; apply existsb_exists; exists (dkey p); split; [apply in_map, Hq | apply N.eqb_refl]).
      apply negb_true_iff. apply not_true_is_false. intros Dk. apply existsb_exists in Dk. destruct Dk as (k' & Hk' & E). apply N.eqb_eq in E. subst k'.
      destruct (DELS _ Hk') as (p' & a' & E & _ & NU). apply dkey_inj in E. subst p'. contradiction.
    + replace (in_keys (map dkey (used_pos m)) (dkey p)) with false.
      * apply negb_false_iff. apply existsb_exists. exists (dkey p). split; [|apply N.eqb_refl].
        unfold dels, del_keys. apply in_map_iff. exists (p, e). split; [reflexivity|]. apply filter_In. split; [apply -> in_rev; exact Ip|]. cbn [fst]. rewrite U. reflexivity.
      * symmetry. apply not_true_is_false. intros H. apply existsb_exists in H. destruct H as (k' & Hk' & E). apply N.eqb_eq in E. subst k'.
        apply in_map_iff in Hk'. destruct Hk' as (q & E & Hq). apply dkey_inj in E. subst q.
        apply not_true_iff_false in U. apply U. apply existsb_exists. exists p. split; [exact Hq | apply Nat.eqb_refl].
  - (* Add *) rewrite (NOTDEL Add ltac:(discriminate) Hx). cbn [negb]. rewrite andb_true_r. reflexivity.
Qed.
