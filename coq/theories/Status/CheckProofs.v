From Coq Require Import List ZArith NArith Bool Arith Lia.
From NA Require Import Status.Model Status.Proofs Status.Check.

(* The boolean used by the oracle decides the proposition of the theorems. *)
Lemma establishesb_spec w o d : establishesb w o d = true <-> establishes w o d.
Proof.
  unfold establishesb, establishes. rewrite andb_true_iff, negb_true_iff, Nat.eqb_neq.
  rewrite list_N_eqb_true. tauto.
Qed.
