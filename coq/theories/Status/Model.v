(* Status/Model.v — executable model of status.SetApprove / status.SetCompare /
   status.Read (go/pkg/status/status.go) and of missing-approve's `check`
   (go/cmd/missing-approve/main.go), together with the world they act upon:
   policy directories, the `current` link, the on-disk form of old policies.

   No proofs in this file: it must keep evaluating (correspondence check) when a
   proof breaks. *)
From Coq Require Import List ZArith NArith Bool Arith.
Import ListNotations.
Open Scope Z_scope.

Definition dev := nat.
(* Policy "pK" is the number K >= 1; 0 stands for the empty string. *)
Definition pol := nat.

Inductive ares := ANone | AOk | AFailed.
Inductive cres := CNone | CUp | CDiff.

Record status := {
  a_res : ares; a_pol : pol; a_time : Z;
  c_res : cres; c_pol : pol; c_time : Z }.

Definition zero_status : status :=
  {| a_res := ANone; a_pol := 0%nat; a_time := 0;
     c_res := CNone; c_pol := 0%nat; c_time := 0 |}.

(* status.SetApprove.  [keep_ok] = the repaired behaviour (fix of F-C13-3):
   a failed approve does not overwrite a recorded successful approve. *)
Definition set_approve (v : status) (p : pol) (failed : bool) (now : Z) : status :=
  if failed then
    match a_res v with
    | AOk => v
    | _ => {| a_res := AFailed; a_pol := p; a_time := now;
              c_res := c_res v; c_pol := c_pol v; c_time := c_time v |}
    end
  else {| a_res := AOk; a_pol := p; a_time := now;
          c_res := c_res v; c_pol := c_pol v; c_time := c_time v |}.

(* The behaviour of the pinned, unrepaired tree; kept for the refutation. *)
Definition set_approve_orig (v : status) (p : pol) (failed : bool) (now : Z) : status :=
  {| a_res := if failed then AFailed else AOk; a_pol := p; a_time := now;
     c_res := c_res v; c_pol := c_pol v; c_time := c_time v |}.

Definition is_cdiff (c : cres) : bool := match c with CDiff => true | _ => false end.

(* status.SetCompare *)
Definition set_compare (v : status) (p : pol) (changed : bool) (now : Z) : status :=
  if negb changed then
    {| a_res := a_res v; a_pol := a_pol v; a_time := a_time v;
       c_res := CUp; c_pol := p; c_time := now |}
  else if negb (is_cdiff (c_res v)) || (c_time v <? a_time v) then
    {| a_res := a_res v; a_pol := a_pol v; a_time := a_time v;
       c_res := CDiff; c_pol := p; c_time := now |}
  else v.

(* Six files per device and policy:
   code/D code/D.raw code/ipv6/D code/ipv6/D.raw code/ipv4/D code/ipv4/D.raw
   None = file absent, Some 0 = empty file, Some n = content number n. *)
Definition content := list (option N).

Definition slot (c : content) (i : nat) : option N := nth i c None.

(* What reading a file yields, with absent and empty conflated (nil = empty). *)
Definition rd (o : option N) : N := match o with Some n => n | None => 0%N end.
Definition norm (c : content) : list N :=
  map (fun i => rd (slot c i)) [0;1;2;3;4;5]%nat.

Inductive form := Plain | Bz2 | Removed.

Record policy := { code : list content; pform : form }.

Definition code_of (p : policy) (d : dev) : content := nth d (code p) [].

Record world := {
  pols : list policy;          (* p1, p2, ... ; current = the last one *)
  sts  : dev -> status;
  now  : Z }.

Definition cur (w : world) : pol := length (pols w).
Definition get_pol (w : world) (p : pol) : option policy :=
  match p with O => None | S k => nth_error (pols w) k end.

Definition upd {A} (f : dev -> A) (d : dev) (v : A) : dev -> A :=
  fun d' => if Nat.eqb d d' then v else f d'.

Inductive event :=
| NewPolicy (c : list content)
| ApproveOk (d : dev)
| ApproveFailed (d : dev)
| Compare (d : dev) (uptodate : bool)
| Drift (d : dev)
| Bzip (p : pol)
| Remove (p : pol)
| Damage (d : dev).

Fixpoint set_form (l : list policy) (k : nat) (f : form -> form) : list policy :=
  match l, k with
  | [], _ => []
  | p :: r, O => {| code := code p; pform := f (pform p) |} :: r
  | p :: r, S k' => p :: set_form r k' f
  end.

(* One event; the clock advances by 1 + gap before the event takes place. *)
Definition step_gen (sa : status -> pol -> bool -> Z -> status)
           (w : world) (ge : N * event) : world :=
  let t := now w + 1 + Z.of_N (fst ge) in
  match snd ge with
  | NewPolicy c =>
      {| pols := pols w ++ [{| code := c; pform := Plain |}]; sts := sts w; now := t |}
  | ApproveOk d =>
      {| pols := pols w; sts := upd (sts w) d (sa (sts w d) (cur w) false t); now := t |}
  | ApproveFailed d =>
      {| pols := pols w; sts := upd (sts w) d (sa (sts w d) (cur w) true t); now := t |}
  | Compare d u =>
      {| pols := pols w;
         sts := upd (sts w) d (set_compare (sts w d) (cur w) (negb u) t); now := t |}
  | Drift _ => {| pols := pols w; sts := sts w; now := t |}
  | Bzip p =>
      (* only old policies are compressed; a removed one stays removed *)
      if (Nat.ltb 0 p && Nat.ltb p (cur w))%bool then
        {| pols := set_form (pols w) (p - 1)
                     (fun f => match f with Removed => Removed | _ => Bz2 end);
           sts := sts w; now := t |}
      else {| pols := pols w; sts := sts w; now := t |}
  | Remove p =>
      if (Nat.ltb 0 p && Nat.ltb p (cur w))%bool then
        {| pols := set_form (pols w) (p - 1) (fun _ => Removed);
           sts := sts w; now := t |}
      else {| pols := pols w; sts := sts w; now := t |}
  | Damage d =>
      {| pols := pols w; sts := upd (sts w) d zero_status; now := t |}
  end.

Definition step := step_gen set_approve.
Definition step_orig := step_gen set_approve_orig.

(* The history starts with one policy p1 (missing-approve needs `current`). *)
Definition init (c : list content) : world :=
  {| pols := [{| code := c; pform := Plain |}]; sts := fun _ => zero_status; now := 0 |}.

Definition run (c : list content) (h : list (N * event)) : world :=
  fold_left step h (init c).
Definition run_orig (c : list content) (h : list (N * event)) : world :=
  fold_left step_orig h (init c).

(* ---- missing-approve ---- *)

(* The policy the status file is taken to establish ("devicePolicy"); 0 = "". *)
Definition concl (v : status) : pol :=
  let dp := match a_res v with AOk => a_pol v | _ => 0%nat end in
  let at_ := match a_res v with AOk => a_time v | _ => 0 end in
  if at_ <? c_time v then
    match c_res v with CUp => c_pol v | CDiff => 0%nat | CNone => dp end
  else dp.

(* readFile(p1): plain or bz2 content, nil when neither exists. *)
Definition read_old (p : option policy) (d : dev) : list N :=
  match p with
  | Some q => match pform q with Removed => norm [] | _ => norm (code_of q d) end
  | None => norm []
  end.

Definition on_disk (w : world) (p : pol) : bool :=
  match get_pol w p with
  | Some q => match pform q with Removed => false | _ => true end
  | None => false
  end.

Definition list_N_eqb (a b : list N) : bool :=
  if list_eq_dec N.eq_dec a b then true else false.

(* [dirfix] = repaired behaviour (fix of F-C13-2): a device whose observed
   policy directory is gone is listed. *)
Definition check_gen (dirfix : bool) (w : world) (d : dev) : bool :=
  let dp := concl (sts w d) in
  if Nat.eqb dp 0 then true
  else if Nat.eqb dp (cur w) then false
  else if dirfix && negb (on_disk w dp) then true
  else
    match get_pol w (cur w) with
    | Some c => negb (list_N_eqb (read_old (get_pol w dp) d) (norm (code_of c d)))
    | None => true
    end.

Definition check := check_gen true.
Definition check_orig := check_gen false.

(* A device is enumerated iff code/D, code/ipv6/D or code/ipv4/D exists. *)
Definition is_some {A} (o : option A) : bool := match o with Some _ => true | None => false end.
Definition present (w : world) (d : dev) : bool :=
  match get_pol w (cur w) with
  | Some c => let k := code_of c d in
              is_some (slot k 0) || is_some (slot k 2) || is_some (slot k 4)
  | None => false
  end.

Definition missing_gen (fx : bool) (w : world) (d : dev) : bool :=
  present w d && check_gen fx w d.
Definition missing := missing_gen true.

Definition missing_list (w : world) (n : nat) : list dev :=
  filter (missing w) (seq 0 n).

(* ---- specification: what the history says, never the status file ---- *)

Inductive obs := ObsOk (p : pol) | ObsCmp (p : pol) (uptodate : bool).

(* Number of policies after a history prefix = 1 + number of NewPolicy events. *)
Definition obs_step (d : dev) (s : nat * option obs) (ge : N * event) : nat * option obs :=
  let '(n, o) := s in
  match snd ge with
  | NewPolicy _ => (S n, o)
  | ApproveOk d' => if Nat.eqb d d' then (n, Some (ObsOk n)) else s
  | Compare d' u => if Nat.eqb d d' then (n, Some (ObsCmp n u)) else s
  | Damage d' => if Nat.eqb d d' then (n, None) else s
  | _ => s
  end.

Definition latest_obs (h : list (N * event)) (d : dev) : option obs :=
  snd (fold_left (obs_step d) h (1%nat, None)).

Definition obs_policy (o : option obs) : pol :=
  match o with
  | Some (ObsOk p) => p
  | Some (ObsCmp p true) => p
  | _ => 0%nat
  end.

(* The true code of policy p for device d, whatever happened to the directory. *)
Definition true_code (w : world) (p : pol) (d : dev) : list N :=
  match get_pol w p with Some q => norm (code_of q d) | None => norm [] end.

Definition establishes (w : world) (o : option obs) (d : dev) : Prop :=
  obs_policy o <> 0%nat /\
  true_code w (obs_policy o) d = true_code w (cur w) d.
