(* Status/Proofs.v — refinement invariant between the two status slots and the
   latest conclusive observation of the history; C13 theorems. *)
From Coq Require Import List ZArith NArith Bool Arith Lia.
From NA Require Import Status.Model.
Import ListNotations.
Open Scope Z_scope.

(* The relation between the status record of device d and the pair
   (number of policies, latest observation) computed from the history. *)
Definition slots_ok (v : status) (o : option obs) : Prop :=
  match o with
  | None => a_res v <> AOk /\ c_res v = CNone
  | Some (ObsOk p) => a_res v = AOk /\ a_pol v = p /\ c_time v < a_time v
  | Some (ObsCmp p true) =>
      c_res v = CUp /\ c_pol v = p /\ 0 < c_time v /\ (a_res v = AOk -> a_time v < c_time v)
  | Some (ObsCmp p false) =>
      c_res v = CDiff /\ 0 < c_time v /\ (a_res v = AOk -> a_time v < c_time v)
  end.

Definition obs_bound (n : nat) (o : option obs) : Prop :=
  match o with
  | None => True
  | Some (ObsOk p) | Some (ObsCmp p _) => (1 <= p <= n)%nat
  end.

Record Inv (w : world) (s : nat * option obs) (d : dev) : Prop := {
  inv_cur : cur w = fst s;
  inv_pos : (1 <= cur w)%nat;
  inv_now : 0 <= now w;
  inv_at : 0 <= a_time (sts w d) <= now w;
  inv_ct : 0 <= c_time (sts w d) <= now w;
  inv_slots : slots_ok (sts w d) (snd s);
  inv_bound : obs_bound (fst s) (snd s) }.

Lemma upd_same {A} (f : dev -> A) d v : upd f d v d = v.
Proof. unfold upd. rewrite Nat.eqb_refl. reflexivity. Qed.

Lemma upd_other {A} (f : dev -> A) d d' v : d <> d' -> upd f d v d' = f d'.
Proof. intros H. unfold upd. destruct (Nat.eqb_spec d d'); congruence. Qed.

Lemma cur_app w x : length (pols w ++ [x]) = S (cur w).
Proof. unfold cur. rewrite app_length. simpl. lia. Qed.

Lemma set_form_length l k f : length (set_form l k f) = length l.
Proof.
  revert k; induction l as [|p r IH]; intros k; simpl; [reflexivity|].
  destruct k; simpl; [reflexivity| rewrite IH; reflexivity].
Qed.

Lemma obs_bound_mono n o : obs_bound n o -> obs_bound (S n) o.
Proof. destruct o as [[p|p u]|]; simpl; lia. Qed.

Lemma inv_init c d : Inv (init c) (1%nat, None) d.
Proof.
  constructor; simpl; try lia; unfold cur; simpl; try lia.
  split; [discriminate | reflexivity].
Qed.

(* One step preserves the invariant. *)
Lemma inv_step w s d ge :
  Inv w s d -> Inv (step w ge) (obs_step d s ge) d.
Proof.
  intros [Hc Hp Hn Ha Hct Hs Hb].
  destruct s as [n o]. simpl in Hc, Hs, Hb.
  destruct ge as [g e].
  assert (Hg : 0 <= Z.of_N g) by lia.
  unfold step, step_gen, obs_step. cbn [fst snd].
  destruct e as [c | d' | d' | d' u | d' | p | p | d'].
  - (* NewPolicy *)
    constructor; cbn [fst snd pols sts now]; unfold cur in *; cbn [pols];
      try rewrite app_length; simpl; try lia.
    + exact Hs.
    + apply obs_bound_mono; exact Hb.
  - (* ApproveOk *)
    destruct (Nat.eqb_spec d d') as [<-|Hne].
    + constructor; cbn [fst snd pols sts now]; rewrite ?upd_same;
        unfold cur in *; cbn [pols]; unfold set_approve; cbn; try lia.
      split; [reflexivity | split; [congruence | lia]].
    + constructor; cbn [fst snd pols sts now]; rewrite ?upd_other by congruence;
        unfold cur in *; cbn [pols]; try lia; assumption.
  - (* ApproveFailed *)
    destruct (Nat.eqb d d') eqn:E.
    + apply Nat.eqb_eq in E; subst d'.
      constructor; cbn [fst snd pols sts now]; rewrite ?upd_same;
        unfold cur in *; cbn [pols]; try lia; try assumption;
        unfold set_approve; cbn [negb];
        destruct (a_res (sts w d)) eqn:Ea; cbn; try lia.
      * destruct o as [[p|p [|]]|]; cbn in *; rewrite ?Ea in *; intuition (try congruence; try lia).
      * destruct o as [[p|p [|]]|]; cbn in *; rewrite ?Ea in *; intuition (try congruence; try lia).
      * destruct o as [[p|p [|]]|]; cbn in *; rewrite ?Ea in *; intuition (try congruence; try lia).
    + apply Nat.eqb_neq in E.
      constructor; cbn [fst snd pols sts now]; rewrite ?upd_other by congruence;
        unfold cur in *; cbn [pols]; try lia; assumption.
  - (* Compare *)
    destruct (Nat.eqb_spec d d') as [<-|Hne].
    + destruct u; cbn [negb].
      * constructor; cbn [fst snd pols sts now]; rewrite ?upd_same;
          unfold cur in *; cbn [pols]; unfold set_compare; cbn; try lia.
        repeat split; try congruence; try lia.
      * unfold set_compare; cbn [negb].
        destruct (negb (is_cdiff (c_res (sts w d))) || (c_time (sts w d) <? a_time (sts w d)))%bool eqn:Eb.
        -- constructor; cbn [fst snd pols sts now]; rewrite ?upd_same;
             unfold cur in *; cbn [pols]; cbn; try lia.
           repeat split; try lia.
        -- apply orb_false_elim in Eb. destruct Eb as [Eb1 Eb2].
           apply negb_false_iff in Eb1. apply Z.ltb_ge in Eb2.
           assert (Hcd : c_res (sts w d) = CDiff)
             by (destruct (c_res (sts w d)); simpl in Eb1; congruence).
           constructor; cbn [fst snd pols sts now]; rewrite ?upd_same;
             unfold cur in *; cbn [pols]; try lia.
           ++ destruct o as [[p|p [|]]|]; cbn in *; intuition (try congruence; try lia).
           ++ cbn; lia.
    + constructor; cbn [fst snd pols sts now]; rewrite ?upd_other by congruence;
        unfold cur in *; cbn [pols]; try lia; assumption.
  - (* Drift *)
    constructor; cbn [fst snd pols sts now]; unfold cur in *; cbn [pols]; try lia; assumption.
  - (* Bzip *)
    destruct (Nat.ltb 0 p && Nat.ltb p (cur w))%bool;
      constructor; cbn [fst snd pols sts now]; unfold cur in *; cbn [pols];
      rewrite ?set_form_length; try lia; assumption.
  - (* Remove *)
    destruct (Nat.ltb 0 p && Nat.ltb p (cur w))%bool;
      constructor; cbn [fst snd pols sts now]; unfold cur in *; cbn [pols];
      rewrite ?set_form_length; try lia; assumption.
  - (* Damage *)
    destruct (Nat.eqb_spec d d') as [<-|Hne].
    + constructor; cbn [fst snd pols sts now]; rewrite ?upd_same;
        unfold cur in *; cbn [pols]; cbn; try lia.
      split; [discriminate | reflexivity].
    + constructor; cbn [fst snd pols sts now]; rewrite ?upd_other by congruence;
        unfold cur in *; cbn [pols]; try lia; assumption.
Qed.

Lemma inv_run_from w s d h :
  Inv w s d -> Inv (fold_left step h w) (fold_left (obs_step d) h s) d.
Proof.
  revert w s; induction h as [|ge h IH]; intros w s H; cbn [fold_left]; [exact H|].
  apply IH. apply inv_step. exact H.
Qed.

Lemma inv_run c h d :
  Inv (run c h) (fold_left (obs_step d) h (1%nat, None)) d.
Proof. apply inv_run_from. apply inv_init. Qed.

(* What the status file is taken to establish is what the history says. *)
Lemma concl_obs v o :
  0 <= a_time v -> 0 <= c_time v -> slots_ok v o -> concl v = obs_policy o.
Proof.
  intros Ha Hc H. unfold concl.
  destruct o as [[p|p [|]]|]; cbn in H |- *.
  - destruct H as (E1 & E2 & E3). rewrite E1.
    destruct (a_time v <? c_time v) eqn:E; [apply Z.ltb_lt in E; lia | exact E2].
  - destruct H as (E1 & E2 & E3 & E4). rewrite E1.
    destruct (a_res v) eqn:Ea.
    + destruct (0 <? c_time v) eqn:E; [exact E2 | apply Z.ltb_ge in E; lia].
    + specialize (E4 eq_refl).
      destruct (a_time v <? c_time v) eqn:E; [exact E2 | apply Z.ltb_ge in E; lia].
    + destruct (0 <? c_time v) eqn:E; [exact E2 | apply Z.ltb_ge in E; lia].
  - destruct H as (E1 & E3 & E4). rewrite E1.
    destruct (a_res v) eqn:Ea.
    + destruct (0 <? c_time v) eqn:E; [reflexivity | apply Z.ltb_ge in E; lia].
    + specialize (E4 eq_refl).
      destruct (a_time v <? c_time v) eqn:E; [reflexivity | apply Z.ltb_ge in E; lia].
    + destruct (0 <? c_time v) eqn:E; [reflexivity | apply Z.ltb_ge in E; lia].
  - destruct H as (E1 & E2). rewrite E2.
    destruct (a_res v); try congruence; destruct (_ <? _); reflexivity.
Qed.

Lemma concl_run c h d :
  concl (sts (run c h) d) = obs_policy (latest_obs h d).
Proof.
  pose proof (inv_run c h d) as [_ _ _ Ha Hc Hs _].
  unfold latest_obs. apply concl_obs; [lia | lia | exact Hs].
Qed.

Lemma list_N_eqb_true a b : list_N_eqb a b = true <-> a = b.
Proof. unfold list_N_eqb. destruct (list_eq_dec N.eq_dec a b); split; congruence. Qed.

Lemma cur_exists w : (1 <= cur w)%nat -> exists q, get_pol w (cur w) = Some q.
Proof.
  unfold get_pol, cur. destruct (length (pols w)) as [|k] eqn:E; [lia|]. intros _.
  destruct (nth_error (pols w) k) eqn:En; [eauto|].
  apply nth_error_None in En. lia.
Qed.

Lemma read_old_true w p d :
  on_disk w p = true -> read_old (get_pol w p) d = true_code w p d.
Proof.
  unfold on_disk, read_old, true_code. destruct (get_pol w p) as [q|]; [|discriminate].
  destruct (pform q); [reflexivity | reflexivity | discriminate].
Qed.

(* C13, first half: a device that is not listed has a latest conclusive
   observation that establishes identity with the current code. *)
Theorem never_forgets_proved :
  forall c h d,
    missing (run c h) d = false ->
    present (run c h) d = true ->
    establishes (run c h) (latest_obs h d) d.
Proof.
  intros c h d Hm Hp. unfold missing, missing_gen in Hm. rewrite Hp in Hm. cbn in Hm.
  pose proof (concl_run c h d) as Hc.
  pose proof (inv_run c h d) as [_ Hpos _ _ _ _ _].
  set (w := run c h) in *.
  unfold check_gen in Hm. rewrite Hc in Hm. unfold establishes.
  destruct (Nat.eqb_spec (obs_policy (latest_obs h d)) 0) as [E0|E0]; [discriminate|].
  split; [exact E0|].
  destruct (Nat.eqb_spec (obs_policy (latest_obs h d)) (cur w)) as [E1|E1];
    [rewrite E1; reflexivity|].
  cbn [andb] in Hm.
  destruct (on_disk w (obs_policy (latest_obs h d))) eqn:Ed; cbn in Hm; [|discriminate].
  destruct (cur_exists w Hpos) as [q Hq]. rewrite Hq in Hm.
  apply negb_false_iff in Hm. apply list_N_eqb_true in Hm.
  rewrite read_old_true in Hm by exact Ed. rewrite Hm.
  unfold true_code. rewrite Hq. reflexivity.
Qed.

(* C13, second half: a device whose latest conclusive observation establishes
   identity while the observed policy is on disk is omitted. *)
Theorem omits_established_proved :
  forall c h d,
    establishes (run c h) (latest_obs h d) d ->
    on_disk (run c h) (obs_policy (latest_obs h d)) = true ->
    missing (run c h) d = false.
Proof.
  intros c h d [E0 Et] Hd.
  unfold missing, missing_gen. apply andb_false_iff. right.
  pose proof (concl_run c h d) as Hc.
  pose proof (inv_run c h d) as [_ Hpos _ _ _ _ _].
  set (w := run c h) in *.
  unfold check_gen. rewrite Hc.
  destruct (Nat.eqb_spec (obs_policy (latest_obs h d)) 0) as [E|E]; [contradiction|].
  destruct (Nat.eqb_spec (obs_policy (latest_obs h d)) (cur w)) as [E1|E1]; [reflexivity|].
  rewrite Hd. cbn.
  destruct (cur_exists w Hpos) as [q Hq]. rewrite Hq.
  apply negb_false_iff. apply list_N_eqb_true.
  rewrite read_old_true by exact Hd. rewrite Et. unfold true_code. rewrite Hq. reflexivity.
Qed.

(* ---- Refutations for the pinned, unrepaired code ---- *)

Definition c_a : content := [Some 1%N].
Definition c_b : content := [Some 2%N].

(* F-C13-3: compare UPTODATE p1; new policy p2 (other code); approve OK p2;
   approve FAILED p2; new policy p3 with the code of p1. *)
Definition h_c13_3 : list (N * event) :=
  [(0%N, Compare 0%nat true); (0%N, NewPolicy [c_b]); (0%N, ApproveOk 0%nat);
   (0%N, ApproveFailed 0%nat); (0%N, NewPolicy [c_a])].

Lemma never_forgets_orig_refuted :
  exists c h d,
    missing_gen false (run_orig c h) d = false /\
    present (run_orig c h) d = true /\
    ~ establishes (run_orig c h) (latest_obs h d) d.
Proof.
  exists [c_a], h_c13_3, 0%nat. split; [vm_compute; reflexivity|].
  split; [vm_compute; reflexivity|].
  intros [_ H]. vm_compute in H. discriminate.
Qed.

(* F-C13-1: approve OK p1; approve FAILED p1 -> listed although established. *)
Lemma omits_established_orig_refuted :
  exists c h d,
    establishes (run_orig c h) (latest_obs h d) d /\
    on_disk (run_orig c h) (obs_policy (latest_obs h d)) = true /\
    missing_gen false (run_orig c h) d = true.
Proof.
  exists [c_a], [(0%N, ApproveOk 0%nat); (0%N, ApproveFailed 0%nat)], 0%nat.
  split; [split; [vm_compute; discriminate | vm_compute; reflexivity]|].
  split; vm_compute; reflexivity.
Qed.

(* F-C13-2: approve OK p1, new policy p2 whose code file is empty, p1 removed:
   with the original check (absent = empty) the device is omitted. *)
Lemma never_forgets_nodirfix_refuted :
  exists c h d,
    missing_gen false (run c h) d = false /\
    present (run c h) d = true /\
    ~ establishes (run c h) (latest_obs h d) d.
Proof.
  exists [c_a], [(0%N, ApproveOk 0%nat); (0%N, NewPolicy [[Some 0%N]]); (0%N, Remove 1%nat)], 0%nat.
  split; [vm_compute; reflexivity|]. split; [vm_compute; reflexivity|].
  intros [_ H]. vm_compute in H. discriminate.
Qed.

(* Non-vacuity: a history with a sticky DIFF, a later approve, a failed approve,
   compression of the observed policy and a new policy with equal code: the
   device is omitted and all hypotheses of both theorems hold. *)
Definition h_example : list (N * event) :=
  [(2%N, Compare 0%nat false); (0%N, Compare 0%nat false); (5%N, ApproveOk 0%nat);
   (1%N, ApproveFailed 0%nat); (0%N, NewPolicy [c_a; c_b]); (3%N, Bzip 1%nat);
   (0%N, Drift 1%nat)].

Example example_hyps :
  missing (run [c_a; c_a] h_example) 0%nat = false /\
  present (run [c_a; c_a] h_example) 0%nat = true /\
  on_disk (run [c_a; c_a] h_example) (obs_policy (latest_obs h_example 0%nat)) = true /\
  latest_obs h_example 0%nat = Some (ObsOk 1%nat) /\
  cur (run [c_a; c_a] h_example) = 2%nat /\
  missing (run [c_a; c_a] (h_example ++ [(0%N, Compare 1%nat false)])) 1%nat = true.
Proof. vm_compute. repeat split. Qed.
