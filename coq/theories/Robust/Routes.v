(* Robust/Routes.v — field extraction from route commands (cisco/diff.go
   dstOfRoute, alignVRFs.routeVRF) with the index expressions of the Go code,
   and the proof that they never panic. *)
From Coq Require Import List String Ascii Bool Arith Lia.
From NA Require Import Base.Str Robust.GoStr Robust.GoStrProofs.
Import ListNotations.
Open Scope string_scope.

Fixpoint index_where (f : string -> bool) (l : list string) (i : nat) : option nat :=
  match l with
  | [] => None
  | x :: r => if f x then Some i else index_where f r (S i)
  end.

Inductive rdst := RPrefix (tok : string) | RIpMask (ip mask : string) | RNone.

(* result: vrf and the tokens handed to netip.ParsePrefix / ParseAddr *)
Definition dst_of_route (prefix parsed : string) : res (string * rdst) :=
  let l := split_char " " parsed in
  if String.eqb prefix "ipv6 route" then
    do d <- match index_where (contains "/") l 0 with
            | Some i => do t <- idx l i; Ok (RPrefix t)
            | None => Ok RNone
            end;
    do vrf <- (if Nat.leb 6 (List.length l) then
                 do l2 <- idx l 2; if String.eqb l2 "vrf" then idx l 3 else Ok ""
               else Ok "");
    Ok (vrf, d)
  else
    do l0 <- idx l 0;
    do vi <- (if (String.eqb l0 "ip" && Nat.leb 4 (List.length l))%bool then
                do l2 <- idx l 2; if String.eqb l2 "vrf" then do v <- idx l 3; Ok (v, 4) else Ok ("", 2)
              else Ok ("", 2));
    let (vrf, i) := vi in
    if Nat.leb (i + 2) (List.length l) then
      do ip <- idx l i; do mask <- idx l (i + 1); Ok (vrf, RIpMask ip mask)
    else Ok (vrf, RNone).

Definition route_vrf (parsed : string) : res string :=
  let tokens := fields parsed in
  if Nat.leb 4 (List.length tokens) then
    do t2 <- idx tokens 2; if String.eqb t2 "vrf" then idx tokens 3 else Ok ""
  else Ok "".

Lemma idx_ok {A} (l : list A) i : i < List.length l -> exists x, idx l i = Ok x.
Proof. intros H. unfold idx. destruct (nth_error l i) eqn:E; [eauto|]. apply nth_error_None in E. lia. Qed.

Lemma index_where_lt f l : forall i k, index_where f l i = Some k -> i <= k < i + List.length l.
Proof.
  induction l as [|x r IH]; intros i k H; simpl in H; [discriminate|].
  destruct (f x); [injection H as <-; simpl; lia|]. apply IH in H. simpl. lia.
Qed.

Theorem dst_of_route_total_proved prefix parsed : exists r, dst_of_route prefix parsed = Ok r.
Proof.
  unfold dst_of_route. set (l := split_char " " parsed).
  assert (NE : 0 < List.length l) by (pose proof (split_char_nonempty " " parsed); subst l; destruct (split_char " " parsed); [congruence | simpl; lia]).
  destruct (String.eqb prefix "ipv6 route").
  - assert (D : exists d, match index_where (contains "/") l 0 with
                          | Some i => do t <- idx l i; Ok (RPrefix t) | None => Ok RNone end = Ok d).
    { destruct (index_where (contains "/") l 0) as [i|] eqn:E; [|eauto].
      apply index_where_lt in E. destruct (idx_ok l i ltac:(lia)) as [t ->]. cbn [bind]. eauto. }
    destruct D as [d ->]. cbn [bind].
    destruct (Nat.leb 6 (List.length l)) eqn:L6; [|cbn [bind]; eauto]. apply Nat.leb_le in L6.
    destruct (idx_ok l 2 ltac:(lia)) as [l2 ->]. cbn [bind]. destruct (String.eqb l2 "vrf"); [|cbn [bind]; eauto].
    destruct (idx_ok l 3 ltac:(lia)) as [v ->]. cbn [bind]. eauto.
  - destruct (idx_ok l 0 NE) as [l0 ->]. cbn [bind].
    assert (V : exists vrf i, (if (String.eqb l0 "ip" && Nat.leb 4 (List.length l))%bool then
                do l2 <- idx l 2; if String.eqb l2 "vrf" then do v <- idx l 3; Ok (v, 4) else Ok ("", 2)
              else Ok ("", 2)) = Ok (vrf, i)).
    { destruct (String.eqb l0 "ip" && Nat.leb 4 (List.length l))%bool eqn:C; [|eauto].
      apply andb_true_iff in C. destruct C as [_ C]. apply Nat.leb_le in C.
      destruct (idx_ok l 2 ltac:(lia)) as [l2 ->]. cbn [bind]. destruct (String.eqb l2 "vrf"); [|eauto].
      destruct (idx_ok l 3 ltac:(lia)) as [v ->]. cbn [bind]. eauto. }
    destruct V as (vrf & i & ->). cbn [bind].
    destruct (Nat.leb (i + 2) (List.length l)) eqn:L; [|eauto]. apply Nat.leb_le in L.
    destruct (idx_ok l i ltac:(lia)) as [ip ->]. cbn [bind].
    destruct (idx_ok l (i + 1) ltac:(lia)) as [mask ->]. cbn [bind]. eauto.
Qed.

Theorem route_vrf_total_proved parsed : exists r, route_vrf parsed = Ok r.
Proof.
  unfold route_vrf. destruct (Nat.leb 4 (List.length (fields parsed))) eqn:L; [|eauto]. apply Nat.leb_le in L.
  destruct (idx_ok (fields parsed) 2 ltac:(lia)) as [t2 ->]. cbn [bind]. destruct (String.eqb t2 "vrf"); [|eauto].
  destruct (idx_ok (fields parsed) 3 ltac:(lia)) as [v ->]. eauto.
Qed.
