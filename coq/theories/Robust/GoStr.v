(* Robust/GoStr.v — Go slice / string primitives with their panics made
   explicit, as used by the token-level code of go/pkg/cisco (C20).
   Executable; lemmas are in Robust/GoStrProofs.v. *)
From Coq Require Import List String Ascii Bool Arith NArith ZArith.
From NA Require Import Base.Str.
Import ListNotations.
Open Scope string_scope.

(* Outcome of a piece of Go code: a value, an error returned / errlog.Abort
   (exit status 1 with a message), a deliberate panic(...) of the program,
   or a runtime panic (index / slice bounds out of range, nil dereference,
   negative Repeat count). *)
Inductive res (A : Type) : Type :=
| Ok (a : A)
| Err (msg : string)
| Deliberate (msg : string)
| Panic.
Arguments Ok {A} a.
Arguments Err {A} msg.
Arguments Deliberate {A} msg.
Arguments Panic {A}.

(* one byte given by its number (used by generated files) *)
Definition B (n : nat) : string := String (ascii_of_nat n) EmptyString.

Definition bind {A B} (r : res A) (f : A -> res B) : res B :=
  match r with
  | Ok a => f a
  | Err m => Err m
  | Deliberate m => Deliberate m
  | Panic => Panic
  end.
Notation "'do' x <- r ; f" := (bind r (fun x => f)) (at level 200, x pattern, r at level 100, f at level 200).

Definition is_panic {A} (r : res A) : bool := match r with Panic => true | _ => false end.

(* l[i] *)
Definition idx {A} (l : list A) (i : nat) : res A :=
  match nth_error l i with Some x => Ok x | None => Panic end.
(* l[n:] *)
Definition slice_from {A} (l : list A) (n : nat) : res (list A) :=
  if Nat.leb n (List.length l) then Ok (skipn n l) else Panic.
(* l[:n] *)
Definition slice_to {A} (l : list A) (n : nat) : res (list A) :=
  if Nat.leb n (List.length l) then Ok (firstn n l) else Panic.
(* l[i] = v *)
Fixpoint set_nth {A} (l : list A) (i : nat) (v : A) : list A :=
  match l, i with
  | [], _ => []
  | _ :: r, O => v :: r
  | x :: r, S k => x :: set_nth r k v
  end.
Definition set_idx {A} (l : list A) (i : nat) (v : A) : res (list A) :=
  if Nat.ltb i (List.length l) then Ok (set_nth l i v) else Panic.
(* s[0] of a string *)
Definition str_idx0 (s : string) : res ascii :=
  match s with String c _ => Ok c | EmptyString => Panic end.

(* unicode.IsSpace restricted to ASCII: \t \n \v \f \r and space *)
Definition is_space (c : ascii) : bool :=
  let n := nat_of_ascii c in ((Nat.leb 9 n && Nat.leb n 13) || Nat.eqb n 32)%bool.
(* \s of Go's regexp: [\t\n\f\r ] *)
Definition is_re_space (c : ascii) : bool :=
  let n := nat_of_ascii c in (Nat.eqb n 9 || Nat.eqb n 10 || Nat.eqb n 12 || Nat.eqb n 13 || Nat.eqb n 32)%bool.

(* strings.Fields *)
Fixpoint fields_aux (cur : string) (s : string) : list string :=
  match s with
  | EmptyString => match cur with EmptyString => [] | _ => [rev_str cur] end
  | String c r =>
      if is_space c then
        match cur with EmptyString => fields_aux "" r | _ => rev_str cur :: fields_aux "" r end
      else fields_aux (String c cur) r
  end.
Definition fields (s : string) : list string := fields_aux "" s.

(* strings.TrimRightFunc(s, unicode.IsSpace) *)
Fixpoint trim_right_space (s : string) : string :=
  match s with
  | EmptyString => EmptyString
  | String c r =>
      match trim_right_space r with
      | EmptyString => if is_space c then EmptyString else String c EmptyString
      | t => String c t
      end
  end.

(* strings.IndexFunc(line, c != ' '): number of leading blanks; None if all blank *)
Fixpoint index_non_blank (s : string) : option nat :=
  match s with
  | EmptyString => None
  | String c r => if Ascii.eqb c " " then option_map S (index_non_blank r) else Some 0
  end.

(* strings.Split(s, "\n") *)
Definition lines_of (s : string) : list string := split_char "010"%char s.

(* strings.Cut(s, sep) for any separator *)
Fixpoint cut_str (sep s : string) : option (string * string) :=
  if has_prefix sep s then Some (EmptyString, drop (String.length sep) s)
  else match s with
       | EmptyString => None
       | String c r =>
           match cut_str sep r with
           | Some (b, a) => Some (String c b, a)
           | None => None
           end
       end.

Fixpoint repeat_str (s : string) (n : nat) : string :=
  match n with O => "" | S k => s ++ repeat_str s k end.

(* strconv.ParseUint(w, 10, 0) followed by int(num): digits only, below 2^64;
   the conversion to int wraps. *)
Definition parse_uint (w : string) : option Z :=
  match parse_dec w with
  | Some n => if N.ltb n 18446744073709551616%N then
                Some (if N.ltb n 9223372036854775808%N then Z.of_N n else (Z.of_N n - 18446744073709551616)%Z)
              else None
  | None => None
  end.

Fixpoint assoc (k : string) (l : list (string * string)) : option string :=
  match l with
  | [] => None
  | (k', v) :: r => if String.eqb k k' then Some v else assoc k r
  end.

Definition last_word_nonblank (s : string) : bool :=
  match rev_str s with
  | EmptyString => false
  | String c _ => negb (is_space c)
  end.
