(* Robust/Check.v — comparison of the model with what the implementation
   returned for the same text (written by the harness as a term). *)
From Coq Require Import List String Ascii Bool Arith NArith ZArith.
From NA Require Import Base.Str Robust.GoStr Robust.Parse Gen.CiscoTables.
Import ListNotations.
Open Scope string_scope.

Record xmc := { x_orig : string; x_parsed : string; x_name : string; x_seq : Z; x_ref : list string; x_append : bool }.
Record xcmd := { xc_prefix : string; xc_m : xmc; xc_sub : list xmc }.
Definition xentry := (string * string * list xcmd)%type.

Inductive expected :=
| XConfig (l : list xentry)
| XErr (msg : string)        (* error returned by ParseConfig *)
| XAbort                     (* errlog.Abort *)
| XDeliberate (msg : string) (* panic(error) of the program *)
| XPanic.                    (* runtime panic *)

Record pcase := { k_ios : bool; k_raw : bool; k_text : string; k_exp : expected }.

Definition xmc_of (m : mc) : xmc :=
  {| x_orig := m_orig m; x_parsed := m_parsed m; x_name := m_name m; x_seq := m_seq m; x_ref := m_ref m; x_append := m_append m |}.
Definition xcmd_of (c : cmd) : xcmd :=
  {| xc_prefix := c_prefix c; xc_m := xmc_of (c_m c); xc_sub := map xmc_of (c_sub c) |}.

Definition xmc_eqb (a b : xmc) : bool :=
  (String.eqb (x_orig a) (x_orig b) && String.eqb (x_parsed a) (x_parsed b) && String.eqb (x_name a) (x_name b)
   && Z.eqb (x_seq a) (x_seq b) && list_eqb (x_ref a) (x_ref b) && Bool.eqb (x_append a) (x_append b))%bool.
Fixpoint all2 {A} (f : A -> A -> bool) (a b : list A) : bool :=
  match a, b with
  | [], [] => true
  | x :: a', y :: b' => (f x y && all2 f a' b')%bool
  | _, _ => false
  end.
Definition xcmd_eqb (a b : xcmd) : bool :=
  (String.eqb (xc_prefix a) (xc_prefix b) && xmc_eqb (xc_m a) (xc_m b) && all2 xmc_eqb (xc_sub a) (xc_sub b))%bool.
Definition xentry_eqb (a b : xentry) : bool :=
  (String.eqb (fst (fst a)) (fst (fst b)) && String.eqb (snd (fst a)) (snd (fst b)) && all2 xcmd_eqb (snd a) (snd b))%bool.

(* the dump of the hook: sorted by prefix and name, empty lists are not shown *)
Definition dump (cfg : config) : list xentry :=
  flat_map (fun k => match cfg_get cfg k with
                     | Some l => [(fst k, snd k, map xcmd_of l)]
                     | None => []
                     end) (sorted_keys cfg).

Definition run_model (c : pcase) : res config :=
  parse_config (if k_ios c then ios_descrs else asa_descrs) name_tables (k_ios c) (k_raw c) (k_text c).

(* 0: agree; 1: one side panics / fails and the other does not; 2: values differ *)
Definition verdict (c : pcase) : nat :=
  match run_model c, k_exp c with
  | Ok cfg, XConfig l => if all2 xentry_eqb (dump cfg) l then 0 else 2
  | Err m, XErr m' => if String.eqb m m' then 0 else 2
  | Err _, XAbort => 0
  | Deliberate m, XDeliberate m' => if String.eqb m m' then 0 else 2
  | Panic, XPanic => 0
  | _, _ => 1
  end.
Definition verdicts (l : list pcase) : list nat := map verdict l.

Definition model_class (c : pcase) : nat :=
  match run_model c with Ok _ => 0 | Err _ => 1 | Deliberate _ => 2 | Panic => 3 end.
