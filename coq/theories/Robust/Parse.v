(* Robust/Parse.v — executable model of go/pkg/cisco/parse.go: ParseConfig
   (line loop, lookupCmd, matchCmd), postprocessParsed (ACL normalisation,
   crypto map interface, transform-set references, pfs default, route metric,
   aaa-server lines, subject-name) and checkReferences, with every index and
   slice expression of the Go code written as an operation that can panic.
   The command descriptions and the name tables are parameters; the instances
   regenerated from the source are in Gen/CiscoTables.v. *)
From Coq Require Import List String Ascii Bool Arith NArith ZArith.
From NA Require Import Base.Str Robust.GoStr.
Import ListNotations.
Open Scope string_scope.
Notation "a +++ b" := (List.app a b) (at level 60, right associativity).

(* ---------- command descriptions (cmdType) ---------- *)
Record tinfo := { ti_template : list string; ti_ref : list string; ti_ignore : bool }.
Record ctype := { ct_prefix : string; ct_info : tinfo; ct_sub : list tinfo }.

Record tables := {
  tb_proto : list (string * string);
  tb_proto_non_numeric : list (string * string);
  tb_tcp : list (string * string);
  tb_udp : list (string * string);
  tb_icmp : list (string * string);
  tb_icmp6 : list (string * string);
  tb_log : list (string * string) }.

(* ---------- parsed commands ---------- *)
Record mc := { m_tref : list string;   (* c.typ.ref as seen by this command *)
               m_orig : string; m_parsed : string; m_name : string; m_seq : Z;
               m_ref : list string; m_append : bool }.
Record cmd := { c_prefix : string; c_m : mc; c_sub : list mc; c_subtypes : list tinfo }.

Definition set_parsed (m : mc) (p : string) : mc :=
  {| m_tref := m_tref m; m_orig := m_orig m; m_parsed := p; m_name := m_name m; m_seq := m_seq m;
     m_ref := m_ref m; m_append := m_append m |}.
Definition set_orig (m : mc) (o : string) : mc :=
  {| m_tref := m_tref m; m_orig := o; m_parsed := m_parsed m; m_name := m_name m; m_seq := m_seq m;
     m_ref := m_ref m; m_append := m_append m |}.
Definition set_refs (m : mc) (tref ref : list string) : mc :=
  {| m_tref := tref; m_orig := m_orig m; m_parsed := m_parsed m; m_name := m_name m; m_seq := m_seq m;
     m_ref := ref; m_append := m_append m |}.
Definition set_append (m : mc) (a : bool) : mc :=
  {| m_tref := m_tref m; m_orig := m_orig m; m_parsed := m_parsed m; m_name := m_name m; m_seq := m_seq m;
     m_ref := m_ref m; m_append := a |}.
Definition set_main (c : cmd) (m : mc) : cmd :=
  {| c_prefix := c_prefix c; c_m := m; c_sub := c_sub c; c_subtypes := c_subtypes c |}.
Definition set_sub (c : cmd) (l : list mc) : cmd :=
  {| c_prefix := c_prefix c; c_m := c_m c; c_sub := l; c_subtypes := c_subtypes c |}.

(* ---------- matchCmd ---------- *)
Inductive mres :=
| MNo
| MIncomplete
| MPanic
| MYes (parsed_rev : list string) (name : string) (seq : Z) (ref_rev : list string).

Definition dq : string := String (ascii_of_nat 34) EmptyString.          (* double quote *)
Definition bsdq : string := String (ascii_of_nat 92) dq.                  (* backslash, double quote *)

Fixpoint find_closing (args : list string) (j : nat) : option nat :=
  match args with
  | [] => None
  | w2 :: r => if (has_suffix dq w2 && negb (has_suffix bsdq w2))%bool then Some j else find_closing r (S j)
  end.

Fixpoint match_tpl (tpl args : list string) (parsed_rev : list string) (name : string) (seq : Z)
         (ref_rev : list string) : mres :=
  match tpl with
  | [] => match args with [] => MYes parsed_rev name seq ref_rev | _ => MNo end
  | tok :: tpl' =>
      match args with
      | [] => MNo
      | w :: rest =>
          if String.eqb tok "$NAME" then match_tpl tpl' rest (tok :: parsed_rev) w seq ref_rev
          else if String.eqb tok "$SEQ" then
            match parse_uint w with
            | None => MNo
            | Some n => match_tpl tpl' rest (tok :: parsed_rev) name n ref_rev
            end
          else if String.eqb tok "$REF" then match_tpl tpl' rest (tok :: parsed_rev) name seq (w :: ref_rev)
          else if String.eqb tok dq then
            match w with
            | EmptyString => MPanic                                   (* w[0] *)
            | String c _ =>
                if Ascii.eqb c (ascii_of_nat 34) then
                  match find_closing args 0 with
                  | Some j => match_tpl tpl' (skipn (S j) args)
                                        (join " " (firstn (S j) args) :: parsed_rev) name seq ref_rev
                  | None => MIncomplete
                  end
                else match_tpl tpl' rest ((dq ++ w ++ dq) :: parsed_rev) name seq ref_rev
            end
          else if String.eqb tok "*" then MYes (join " " args :: parsed_rev) name seq ref_rev
          else if String.eqb tok w then match_tpl tpl' rest (w :: parsed_rev) name seq ref_rev
          else MNo
      end
  end.

Definition mk_mc (prefix : string) (words : list string) (ti : tinfo) (parsed_rev : list string)
           (name : string) (seq : Z) (ref_rev : list string) : mc :=
  let words' := if String.eqb prefix "" then words else prefix :: words in
  let parsed' := if String.eqb prefix "" then rev parsed_rev else prefix :: rev parsed_rev in
  {| m_tref := ti_ref ti; m_orig := join " " words'; m_parsed := join " " parsed'; m_name := name;
     m_seq := seq; m_ref := rev ref_rev; m_append := false |}.

(* result: index of the matching description and the command; None if no
   description matches or the matching one is marked "ignore" *)
Fixpoint match_cmd_from (i : nat) (prefix : string) (words : list string) (l : list tinfo)
  : res (option (nat * mc)) :=
  match l with
  | [] => Ok None
  | ti :: r =>
      match match_tpl (ti_template ti) words [] "" 0%Z [] with
      | MNo => match_cmd_from (S i) prefix words r
      | MIncomplete => Deliberate ("Incomplete string in: [" ++ join " " words ++ "]")
      | MPanic => Panic
      | MYes p n s rf =>
          if ti_ignore ti then Ok None else Ok (Some (i, mk_mc prefix words ti p n s rf))
      end
  end.
Definition match_cmd := match_cmd_from 0.

(* ---------- lookupCmd: walk along the words of the prefix ---------- *)
Fixpoint list_eqb (a b : list string) : bool :=
  match a, b with
  | [], [] => true
  | x :: a', y :: b' => (String.eqb x y && list_eqb a' b')%bool
  | _, _ => false
  end.
Fixpoint is_proper_prefix (a b : list string) : bool :=
  match a, b with
  | [], _ :: _ => true
  | x :: a', y :: b' => (String.eqb x y && is_proper_prefix a' b')%bool
  | _, _ => false
  end.
Definition prefix_words (d : ctype) : list string := split_char " " (ct_prefix d).

Fixpoint lookup_walk (descrs : list ctype) (words : list string) (i fuel : nat) : res (option (ctype * mc)) :=
  match fuel with
  | O => Ok None
  | S fuel' =>
      let path := firstn (S i) words in
      let l := filter (fun d => list_eqb (prefix_words d) path) descrs in
      match l with
      | _ :: _ =>
          do r <- match_cmd (join " " path) (skipn (S i) words) (map ct_info l);
          match r with
          | None => Ok None
          | Some (k, m) => match nth_error l k with Some d => Ok (Some (d, m)) | None => Panic end
          end
      | [] =>
          if existsb (fun d => is_proper_prefix path (prefix_words d)) descrs
          then lookup_walk descrs words (S i) fuel'
          else Ok None
      end
  end.
Definition lookup_cmd (descrs : list ctype) (line : string) : res (option cmd) :=
  let words := split_char " " line in
  do r <- lookup_walk descrs words 0 (List.length words);
  match r with
  | None => Ok None
  | Some (d, m) => Ok (Some {| c_prefix := ct_prefix d; c_m := m; c_sub := []; c_subtypes := ct_sub d |})
  end.

(* ---------- the configuration: prefix -> name -> commands ---------- *)
Definition key := (string * string)%type.
Definition key_eqb (a b : key) : bool := (String.eqb (fst a) (fst b) && String.eqb (snd a) (snd b))%bool.
Definition config := list (key * list cmd).

Fixpoint cfg_get (cfg : config) (k : key) : option (list cmd) :=
  match cfg with
  | [] => None
  | (k', v) :: r => if key_eqb k k' then Some v else cfg_get r k
  end.
Fixpoint cfg_set (cfg : config) (k : key) (v : list cmd) : config :=
  match cfg with
  | [] => [(k, v)]
  | (k', v') :: r => if key_eqb k k' then (k, v) :: r else (k', v') :: cfg_set r k v
  end.
Fixpoint cfg_del (cfg : config) (k : key) : config :=
  match cfg with
  | [] => []
  | (k', v') :: r => if key_eqb k k' then r else (k', v') :: cfg_del r k
  end.
Definition cfg_add (cfg : config) (c : cmd) : config :=
  let k := (c_prefix c, m_name (c_m c)) in
  cfg_set cfg k (match cfg_get cfg k with Some l => l +++ [c] | None => [c] end).

(* ---------- the line loop of ParseConfig ---------- *)
Record pstate := { ps_cfg : config; ps_cur : option cmd; ps_first : bool; ps_indent : nat; ps_append : bool }.

Definition flush (st : pstate) : config :=
  match ps_cur st with Some c => cfg_add (ps_cfg st) c | None => ps_cfg st end.

Definition first_sub_parsed (c : cmd) : string :=
  match c_sub c with s :: _ => m_parsed s | [] => "..." end.

Definition parse_line (descrs : list ctype) (is_raw : bool) (st : pstate) (raw_line : string) : res pstate :=
  let line := trim_right_space raw_line in
  match line with
  | EmptyString => Ok st
  | String c0 _ =>
      if Ascii.eqb c0 "!" then Ok st
      else if String.eqb line "[APPEND]" then
        Ok {| ps_cfg := ps_cfg st; ps_cur := ps_cur st; ps_first := ps_first st; ps_indent := ps_indent st; ps_append := true |}
      else if negb (Ascii.eqb c0 " ") then
        (* toplevel command *)
        let cfg := flush st in
        do r <- lookup_cmd descrs line;
        match r with
        | None =>
            if is_raw then Err ("Unexpected command:" ++ String "010" ">>" ++ line ++ "<<")
            else Ok {| ps_cfg := cfg; ps_cur := None; ps_first := true; ps_indent := ps_indent st; ps_append := ps_append st |}
        | Some c =>
            Ok {| ps_cfg := cfg; ps_cur := Some (set_main c (set_append (c_m c) (ps_append st)));
                  ps_first := true; ps_indent := ps_indent st; ps_append := ps_append st |}
        end
      else
        match ps_cur st with
        | None => Ok st
        | Some prev =>
            match index_non_blank line with
            | None => Panic                                   (* line[-1:] *)
            | Some gi =>
                let bad := (negb (ps_first st) && Nat.ltb gi (ps_indent st))%bool in
                if bad then
                  Err ("Bad indentation in subcommands:" ++ String "010" ">>" ++ repeat_str " " (ps_indent st)
                       ++ first_sub_parsed prev ++ "<<" ++ String "010" ">>" ++ line ++ "<<")
                else
                  let indent := if ps_first st then gi else ps_indent st in
                  if Nat.ltb (String.length line) indent then Panic    (* line[indent:] *)
                  else
                    let line2 := drop indent line in
                    do c1 <- str_idx0 line2;                           (* line[0] *)
                    let st' := {| ps_cfg := ps_cfg st; ps_cur := ps_cur st; ps_first := false;
                                  ps_indent := indent; ps_append := ps_append st |} in
                    if Ascii.eqb c1 " " then Ok st'
                    else
                      do r <- match_cmd "" (fields line2) (c_subtypes prev);
                      match r with
                      | None => Ok st'
                      | Some (_, m) =>
                          Ok {| ps_cfg := ps_cfg st;
                                ps_cur := Some (set_sub prev (c_sub prev +++ [set_append m (ps_append st)]));
                                ps_first := false; ps_indent := indent; ps_append := ps_append st |}
                      end
            end
        end
  end.

Fixpoint parse_lines (descrs : list ctype) (is_raw : bool) (st : pstate) (ls : list string) : res pstate :=
  match ls with
  | [] => Ok st
  | l :: r => do st' <- parse_line descrs is_raw st l; parse_lines descrs is_raw st' r
  end.

(* ---------- postprocessACLParts ---------- *)
(* parts is a window into tokens: pre_rev holds the words already passed
   (with the replacements written through), rest the remaining window *)
Record aparts := { ap_pre : list string; ap_rest : list string; ap_proto : string; ap_ref : list string }.

Definition ap_len (a : aparts) : nat := List.length (ap_rest a).
Definition ap_get (a : aparts) (i : nat) : res string := idx (ap_rest a) i.
Definition ap_set (a : aparts) (i : nat) (v : string) : res aparts :=
  do r <- set_idx (ap_rest a) i v;
  Ok {| ap_pre := ap_pre a; ap_rest := r; ap_proto := ap_proto a; ap_ref := ap_ref a |}.
(* parts = parts[n:] *)
Definition ap_adv (a : aparts) (n : nat) : res aparts :=
  do r <- slice_from (ap_rest a) n;
  Ok {| ap_pre := rev (firstn n (ap_rest a)) +++ ap_pre a; ap_rest := r; ap_proto := ap_proto a; ap_ref := ap_ref a |}.
Definition ap_skip (a : aparts) (n : nat) : res aparts := ap_adv a (Nat.min n (ap_len a)).

Definition conv_named (m : list (string * string)) (a : aparts) : res aparts :=
  if Nat.ltb 0 (ap_len a) then
    do w <- ap_get a 0;
    do a1 <- match assoc w m with Some num => ap_set a 0 num | None => Ok a end;
    ap_adv a1 1
  else Ok a.
Definition conv_named_port (tb : tables) (a : aparts) : res aparts :=
  if String.eqb (ap_proto a) "tcp" then conv_named (tb_tcp tb) a
  else if String.eqb (ap_proto a) "udp" then conv_named (tb_udp tb) a
  else Ok a.
Definition conv_object_group (a : aparts) : res aparts :=
  do a1 <- (if Nat.leb 2 (ap_len a) then
              do name <- ap_get a 1;
              do a' <- ap_set a 1 "$REF";
              Ok {| ap_pre := ap_pre a'; ap_rest := ap_rest a'; ap_proto := ap_proto a'; ap_ref := ap_ref a' +++ [name] |}
            else Ok a);
  ap_skip a1 2.
Definition conv_proto (tb : tables) (a : aparts) : res aparts :=
  if Nat.eqb (ap_len a) 0 then Ok a
  else
    do w <- ap_get a 0;
    if String.eqb w "object-group" then conv_object_group a
    else if String.eqb w "object" then ap_skip a 2
    else
      do a1 <- match assoc w (tb_proto_non_numeric tb) with Some n => ap_set a 0 n | None => Ok a end;
      do p <- ap_get a1 0;
      conv_named (tb_proto tb)
                 {| ap_pre := ap_pre a1; ap_rest := ap_rest a1; ap_proto := p; ap_ref := ap_ref a1 |}.

Definition in_list (w : string) (l : list string) : bool := existsb (String.eqb w) l.

Definition conv_object (tb : tables) (a : aparts) : res aparts :=
  if Nat.ltb 0 (ap_len a) then
    do w <- ap_get a 0;
    if String.eqb w "object-group" then conv_object_group a
    else if in_list w ["log"; "log-input"] then
      do a1 <- ap_adv a 1;
      do a2 <- (if Nat.ltb 0 (ap_len a1) then
                  do w1 <- ap_get a1 0;
                  do a' <- match assoc w1 (tb_log tb) with Some n => ap_set a1 0 n | None => Ok a1 end;
                  do w2 <- ap_get a' 0;
                  do a'' <- (if String.eqb w2 "6" then ap_set a' 0 "" else Ok a');
                  ap_adv a'' 1
                else Ok a1);
      conv_named (tb_log tb) a2
    else if in_list w ["host"; "object"; "object-group-security"; "object-group-user"; "security-group"; "user"; "user-group"]
    then ap_skip a 2
    else if in_list w ["any"; "any4"; "any6"; "interface"] then ap_adv a 1
    else
      match cut_char "/" w with
      | Some (ip, bits) =>
          do a1 <- (if String.eqb bits "0" then ap_set a 0 "any6"
                    else if String.eqb bits "128" then ap_set a 0 ("host " ++ ip) else Ok a);
          ap_adv a1 1
      | None =>
          if Nat.leb 2 (ap_len a) then
            do w1 <- ap_get a 1;
            do a1 <- (if String.eqb w1 "0.0.0.0" then do x <- ap_set a 0 "any4"; ap_set x 1 ""
                      else if String.eqb w1 "255.255.255.255" then do x <- ap_set a 0 "host"; ap_set x 1 w
                      else Ok a);
            ap_adv a1 2
          else Ok a
      end
  else Ok a.

Definition conv_port_or_object (tb : tables) (a : aparts) : res aparts :=
  if Nat.ltb 0 (ap_len a) then
    do w <- ap_get a 0;
    if in_list w ["eq"; "gt"; "lt"; "neq"] then do a1 <- ap_adv a 1; conv_named_port tb a1
    else if String.eqb w "range" then
      do a1 <- ap_adv a 1; do a2 <- conv_named_port tb a1; conv_named_port tb a2
    else conv_object tb a
  else Ok a.

Definition conv_icmp (tb : tables) (a : aparts) : res aparts :=
  if Nat.ltb 0 (ap_len a) then
    if String.eqb (ap_proto a) "icmp" then
      do w <- ap_get a 0;
      match assoc w (tb_icmp tb) with
      | Some r => do a1 <- ap_set a 0 r; ap_adv a1 1
      | None => Ok a
      end
    else if String.eqb (ap_proto a) "icmp6" then conv_named (tb_icmp6 tb) a
    else Ok a
  else Ok a.

(* strconv.ParseUint(parts[0], 10, 8) succeeds *)
Definition is_uint8 (w : string) : bool :=
  match parse_dec w with Some n => N.ltb n 256 | None => false end.
Definition skip_number (a : aparts) : res aparts :=
  if Nat.ltb 0 (ap_len a) then
    do w <- ap_get a 0;
    if is_uint8 w then ap_adv a 1 else Ok a
  else Ok a.

Definition postprocess_acl_parts (tb : tables) (parts : list string) : res aparts :=
  let a0 := {| ap_pre := []; ap_rest := parts; ap_proto := ""; ap_ref := [] |} in
  do a1 <- conv_proto tb a0;
  do a2 <- conv_object tb a1;
  do a3 <- (if in_list (ap_proto a2) ["tcp"; "udp"] then
              do x <- conv_port_or_object tb a2; do y <- conv_port_or_object tb x; conv_port_or_object tb y
            else if in_list (ap_proto a2) ["icmp"; "icmp6"] then
              do x <- conv_object tb a2; do y <- conv_icmp tb x; skip_number y
            else conv_object tb a2);
  conv_object tb a3.

Definition ap_tokens (a : aparts) : list string := rev (ap_pre a) +++ ap_rest a.
Definition del_empty (l : list string) : list string := filter (fun w => negb (String.eqb w "")) l.

Definition og5 : list string := ["object-group"; "object-group"; "object-group"; "object-group"; "object-group"].

(* postprocessASAACL and the assignment of c.typ.ref that follows it *)
Definition postprocess_asa_acl (tb : tables) (m : mc) : res mc :=
  let tokens := fields (m_parsed m) in
  do t2 <- idx tokens 2;
  if negb (String.eqb t2 "extended") then Ok (set_refs m og5 (m_ref m))
  else
    do parts <- slice_from tokens 4;
    do a <- postprocess_acl_parts tb parts;
    let tokens' := firstn 4 tokens +++ ap_tokens a in
    Ok (set_refs (set_parsed m (join " " (del_empty tokens'))) og5 (m_ref m +++ ap_ref a)).

Fixpoint restore_ref (now orig : list string) : list string :=
  match now, orig with
  | w :: n', o :: o' => (if String.eqb w "$REF" then o else w) :: restore_ref n' o'
  | _, _ => now
  end.

Definition postprocess_ios_acl (tb : tables) (m : mc) : res mc :=
  let tokens := fields (m_parsed m) in
  do t0 <- idx tokens 0;
  do mt <- (if String.eqb t0 "$SEQ" then
              do t <- slice_from tokens 1;
              let o := match cut_char " " (m_orig m) with Some (_, a) => a | None => "" end in
              Ok (set_orig (set_parsed m (join " " t)) o, t)
            else Ok (m, tokens));
  let (m1, tokens1) := mt in
  do t0' <- idx tokens1 0;
  if String.eqb t0' "remark" then Ok m1
  else
    do parts <- slice_from tokens1 1;
    do a <- postprocess_acl_parts tb parts;
    let tokens' := restore_ref (firstn 1 tokens1 +++ ap_tokens a) tokens1 in
    Ok (set_refs (set_parsed m1 (join " " (del_empty tokens'))) (m_tref m1) []).

(* ---------- the other normalisations of postprocessParsed ---------- *)
Fixpoint map_res {A B} (f : A -> res B) (l : list A) : res (list B) :=
  match l with
  | [] => Ok []
  | x :: r => do y <- f x; do ys <- map_res f r; Ok (y :: ys)
  end.

(* apply f to every command stored under the prefix *)
Definition map_prefix (p : string) (f : cmd -> res cmd) (cfg : config) : res config :=
  map_res (fun kv : key * list cmd =>
             if String.eqb (fst (fst kv)) p then do l <- map_res f (snd kv); Ok (fst kv, l) else Ok kv) cfg.

Definition on_main (f : mc -> res mc) (c : cmd) : res cmd := do m <- f (c_m c); Ok (set_main c m).

(* for _, l := range lookup["ip access-list extended"] { for _, c := range l[0].sub *)
Definition ios_acl_entry (tb : tables) (l : list cmd) : res (list cmd) :=
  match l with
  | [] => Panic                                                  (* l[0] *)
  | c :: r => do s <- map_res (postprocess_ios_acl tb) (c_sub c); Ok (set_sub c s :: r)
  end.

Definition move_crypto_map_interface (cfg : config) : config :=
  match cfg_get cfg ("crypto map", "") with
  | Some l => cfg_set (cfg_del (cfg_del cfg ("crypto map interface", "")) ("crypto map", "")) ("crypto map interface", "") l
  | None => cfg
  end.

Definition rep11 (d : string) : list string := [d; d; d; d; d; d; d; d; d; d; d].

Definition set_trans_ref (part : string) (m : mc) : res mc :=
  let cmd_part := " set " ++ part ++ " " in
  match cut_str cmd_part (m_parsed m) with
  | Some (def, names) =>
      let nl := fields names in
      if Nat.ltb 11 (List.length nl) then Err ("Too many values in '" ++ m_orig m ++ "'")
      else
        match nl with
        | [] => Panic                                            (* strings.Repeat with a negative count *)
        | _ => Ok (set_refs (set_parsed m (def ++ cmd_part ++ repeat_str "$REF " (List.length nl - 1) ++ "$REF"))
                            (rep11 ("crypto ipsec " ++ part)) nl)
        end
  | None => Ok m
  end.

Definition strip_pfs_default (m : mc) : res mc :=
  if has_suffix "$NAME $SEQ set pfs group14" (m_parsed m)
  then Ok (set_parsed m (trim_suffix (m_parsed m) " group14")) else Ok m.

Definition strip_metric (m : mc) : res mc :=
  let tokens := split_char " " (m_parsed m) in
  if Nat.eqb (List.length tokens) 6 then do t <- slice_to tokens 5; Ok (set_parsed m (join " " t)) else Ok m.

(* one line "aaa-server NAME [(if)] host X ..." behind the first one *)
Definition aaa_line (name : string) (acc : string * list cmd) (c : cmd) : res (string * list cmd) :=
  let (ldap_map, done) := acc in
  let words := fields (m_parsed (c_m c)) in
  do w2 <- idx words 2;
  do ch <- str_idx0 w2;
  do words1 <- (if Ascii.eqb ch "(" then
                  do tl <- slice_from words 3;
                  do _ <- slice_from words 2;
                  (* copy(words[2:], words[3:]) keeps the length *)
                  Ok (firstn 2 words +++ tl +++ skipn (2 + List.length tl) words)
                else Ok words);
  do w2' <- idx words1 2;
  if (Nat.leb 4 (List.length words1) && String.eqb w2' "host")%bool then
    do words2 <- set_idx words1 3 "x";
    do words3 <- slice_to words2 4;
    do ref <- (match c_sub c with
               | [] => Ok ""
               | s :: _ => idx (m_ref s) 0
               end);
    if (negb (String.eqb ldap_map " ") && negb (String.eqb ldap_map ref))%bool then
      Err ("aaa-server " ++ name ++ " must not use different values in 'ldap-attribute-map'")
    else Ok (ref, done +++ [set_main c (set_parsed (c_m c) (join " " words3))])
  else Ok (ldap_map, done +++ [c]).

Fixpoint fold_res {A B} (f : B -> A -> res B) (l : list A) (b : B) : res B :=
  match l with
  | [] => Ok b
  | x :: r => do b' <- f b x; fold_res f r b'
  end.

Definition aaa_entry (name : string) (l : list cmd) : res (list cmd) :=
  match l with
  | [] => Panic                                                  (* l[0] *)
  | c0 :: r =>
      if negb (has_suffix "protocol ldap" (m_parsed (c_m c0))) then Ok l
      else
        match r with
        | [] => Ok l
        | _ =>
            do acc <- fold_res (aaa_line name) r (" ", []);
            slice_to (c0 :: snd acc) 2
        end
  end.

(* keys of a prefix in sorted order of the names *)
Definition names_of (p : string) (cfg : config) : list string :=
  sort_strings (map (fun kv : key * list cmd => snd (fst kv)) (filter (fun kv : key * list cmd => String.eqb (fst (fst kv)) p) cfg)).

Definition aaa_servers (cfg : config) : res config :=
  fold_res (fun cfg name =>
              match cfg_get cfg ("aaa-server", name) with
              | Some l => do l' <- aaa_entry name l; Ok (cfg_set cfg ("aaa-server", name) l')
              | None => Ok cfg
              end) (names_of "aaa-server" cfg) cfg.

Definition lower_subject_name (c : cmd) : res cmd :=
  Ok (set_sub c (map (fun s => if has_prefix "subject-name" (m_parsed s) then set_parsed s (to_lower (m_parsed s)) else s) (c_sub c))).

Definition map_entries (p : string) (f : list cmd -> res (list cmd)) (cfg : config) : res config :=
  map_res (fun kv : key * list cmd =>
             if String.eqb (fst (fst kv)) p then do l <- f (snd kv); Ok (fst kv, l) else Ok kv) cfg.

Definition postprocess_parsed (tb : tables) (cfg : config) : res config :=
  do c1 <- map_prefix "access-list" (on_main (postprocess_asa_acl tb)) cfg;
  do c2 <- map_entries "ip access-list extended" (ios_acl_entry tb) c1;
  let c3 := move_crypto_map_interface c2 in
  do c4 <- map_prefix "crypto map" (on_main (set_trans_ref "ikev1 transform-set")) c3;
  do c5 <- map_prefix "crypto map" (on_main (set_trans_ref "ikev2 ipsec-proposal")) c4;
  do c6 <- map_prefix "crypto dynamic-map" (on_main (set_trans_ref "ikev1 transform-set")) c5;
  do c7 <- map_prefix "crypto dynamic-map" (on_main (set_trans_ref "ikev2 ipsec-proposal")) c6;
  do c8 <- map_prefix "crypto map" (on_main strip_pfs_default) c7;
  do c9 <- map_prefix "crypto dynamic-map" (on_main strip_pfs_default) c8;
  do c10 <- map_prefix "route" (on_main strip_metric) c9;
  do c11 <- map_prefix "ipv6 route" (on_main strip_metric) c10;
  do c12 <- aaa_servers c11;
  map_prefix "crypto ca certificate map" lower_subject_name c12.

(* ---------- checkReferences ---------- *)
Definition default_objects : list (key * list string) :=
  [(("group-policy", "DfltGrpPolicy"), ["internal"]);
   (("tunnel-group", "DefaultL2LGroup"), ["type ipsec-l2l"; "general-attributes"]);
   (("tunnel-group", "DefaultRAGroup"), ["type remote-access"; "general-attributes"]);
   (("tunnel-group", "DefaultWEBVPNGroup"), ["type webvpn"; "general-attributes"])].
Fixpoint default_of (k : key) (l : list (key * list string)) : option (list string) :=
  match l with
  | [] => None
  | (k', v) :: r => if key_eqb k k' then Some v else default_of k r
  end.

(* addDefaultObject: the fixedName / anchor marks are not part of the model *)
Definition add_default_object (descrs : list ctype) (cfg : config) (prefix name : string) (vl : list string) : res config :=
  fold_res (fun cfg arg =>
              do r <- lookup_cmd descrs (prefix ++ " " ++ name ++ " " ++ arg);
              match r with
              | None => Panic                                    (* c.parsed of a nil command *)
              | Some c =>
                  let l := match cfg_get cfg (prefix, name) with Some l => l | None => [] end in
                  if existsb (fun c2 => String.eqb (m_parsed (c_m c2)) (m_parsed (c_m c))) l then Ok cfg
                  else Ok (cfg_set cfg (prefix, name) (c :: l))
              end) vl cfg.

Inductive refstep := RKeep | RClear.

(* the loop over c.ref of one command; returns the configuration (defaults
   may have been added) and whether the references of the command are removed *)
Fixpoint check_refs (descrs : list ctype) (is_raw : bool) (m : mc) (i : nat) (refs : list string) (cfg : config)
  : res (config * refstep) :=
  match refs with
  | [] => Ok (cfg, RKeep)
  | name :: r =>
      do prefix <- idx (m_tref m) i;                             (* c.typ.ref[i] *)
      match cfg_get cfg (prefix, name) with
      | Some _ => check_refs descrs is_raw m (S i) r cfg
      | None =>
          match default_of (prefix, name) default_objects with
          | Some vl => do cfg' <- add_default_object descrs cfg prefix name vl; check_refs descrs is_raw m (S i) r cfg'
          | None =>
              if (negb is_raw && String.eqb prefix "ip access-list extended")%bool then Ok (cfg, RClear)
              else Err ("'" ++ m_orig m ++ "' references unknown '" ++ prefix ++ " " ++ name ++ "'")
          end
      end
  end.

Definition check_mc (descrs : list ctype) (is_raw : bool) (cfg : config) (m : mc) : res (config * mc) :=
  do r <- check_refs descrs is_raw m 0 (m_ref m) cfg;
  match snd r with
  | RKeep => Ok (fst r, m)
  | RClear => Ok (fst r, set_refs (set_parsed m (m_orig m)) (m_tref m) [])
  end.

Fixpoint check_mcs (descrs : list ctype) (is_raw : bool) (cfg : config) (l : list mc) : res (config * list mc) :=
  match l with
  | [] => Ok (cfg, [])
  | m :: r =>
      do x <- check_mc descrs is_raw cfg m;
      do y <- check_mcs descrs is_raw (fst x) r;
      Ok (fst y, snd x :: snd y)
  end.

(* the commands of one (prefix, name), processed one after the other; the list
   is read once before the loop, the configuration changes underneath *)
Fixpoint check_cmds (descrs : list ctype) (is_raw : bool) (k : key) (n : nat) (l : list cmd) (cfg : config) : res config :=
  match l with
  | [] => Ok cfg
  | c :: r =>
      do x <- check_mc descrs is_raw cfg (c_m c);
      do y <- check_mcs descrs is_raw (fst x) (c_sub c);
      let c' := set_sub (set_main c (snd x)) (snd y) in
      let cfg1 := fst y in
      (* the command is changed in place (pointer): position n of its list *)
      let cfg2 := match cfg_get cfg1 k with
                  | Some cur => cfg_set cfg1 k (set_nth cur n c')
                  | None => cfg1
                  end in
      check_cmds descrs is_raw k (S n) r cfg2
  end.

Definition sorted_keys (cfg : config) : list key :=
  let prefixes := sort_strings (nodup string_dec (map (fun kv : key * list cmd => fst (fst kv)) cfg)) in
  flat_map (fun p => map (fun n => (p, n)) (names_of p cfg)) prefixes.

Definition check_references (descrs : list ctype) (is_raw : bool) (cfg : config) : res config :=
  fold_res (fun cfg k =>
              match cfg_get cfg k with
              | Some l => check_cmds descrs is_raw k 0 l cfg
              | None => Ok cfg
              end) (sorted_keys cfg) cfg.

(* ---------- IOS: removeBanner ---------- *)
Fixpoint span_ns (s : string) : string * string :=      (* maximal run of non-\s *)
  match s with
  | EmptyString => ("", "")
  | String c r => if is_re_space c then ("", s) else let (a, b) := span_ns r in (String c a, b)
  end.
Fixpoint span_s (s : string) : string * string :=       (* maximal run of \s *)
  match s with
  | EmptyString => ("", "")
  | String c r => if is_re_space c then let (a, b) := span_s r in (String c a, b) else ("", s)
  end.
Definition last_char (s : string) : option ascii :=
  match rev_str s with String c _ => Some c | EmptyString => None end.

(* ^banner\s\S+\s+(.)\S on a line without its newline: the captured character *)
Definition banner_delim (line : string) : option ascii :=
  match cut_prefix line "banner" with
  | Some (String c r) =>
      if is_re_space c then
        let (w, r1) := span_ns r in
        match w with
        | EmptyString => None
        | _ =>
            let (sp, r2) := span_s r1 in
            match sp with
            | EmptyString => None
            | _ =>
                match r2 with
                | String c1 (String c2 _) =>
                    if negb (is_re_space c2) then Some c1
                    else match sp with
                         | String _ (String _ _) => last_char sp
                         | _ => None
                         end
                | String c1 EmptyString =>
                    match sp with
                    | String _ (String _ _) => last_char sp
                    | _ => None
                    end
                | EmptyString => None
                end
            end
        end
      else None
  | _ => None
  end.

Fixpoint remove_banner_lines (ls : list string) (end_banner : option ascii) : list string :=
  match ls with
  | [] => []
  | [l] => [l]                                     (* the rest without newline is copied *)
  | l :: r =>
      match end_banner with
      | Some e =>
          match l with
          | String c _ => if Ascii.eqb c e then remove_banner_lines r None else remove_banner_lines r end_banner
          | EmptyString => remove_banner_lines r end_banner
          end
      | None =>
          match banner_delim l with
          | Some e => remove_banner_lines r (Some e)
          | None => l :: remove_banner_lines r None
          end
      end
  end.

(* ---------- ParseConfig ---------- *)
Definition init_state : pstate :=
  {| ps_cfg := []; ps_cur := None; ps_first := false; ps_indent := 1; ps_append := false |}.

Definition parse_config (descrs : list ctype) (tb : tables) (is_ios is_raw : bool) (text : string) : res config :=
  let ls := lines_of text in
  let ls' := if is_ios then remove_banner_lines ls None else ls in
  do st <- parse_lines descrs is_raw init_state ls';
  do cfg <- postprocess_parsed tb (flush st);
  check_references descrs is_raw cfg.
