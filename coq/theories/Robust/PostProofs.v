(* Robust/PostProofs.v — postprocessParsed and checkReferences never end in a
   runtime panic on what the line loop produces. *)
From Coq Require Import List String Ascii Bool Arith ZArith Lia.
From NA Require Import Base.Str Robust.GoStr Robust.GoStrProofs Robust.Parse Robust.AclProofs Robust.ParseProofs.
Import ListNotations.
Open Scope string_scope.

Lemma map_res_spec {A B} (f : A -> res B) (P : A -> Prop) (R : B -> Prop) l :
  Forall P l -> (forall x, P x -> f x <> Panic /\ forall y, f x = Ok y -> R y) ->
  map_res f l <> Panic /\ forall l', map_res f l = Ok l' -> Forall R l' /\ List.length l' = List.length l.
Proof.
  intros F H. induction F as [|x r Px Fr IH]; simpl; [split; [discriminate | intros l' E; injection E as <-; split; [constructor | reflexivity]]|].
  destruct (H x Px) as [NP HR]. destruct (f x) as [y| | |]; cbn [bind]; try congruence; try (split; [discriminate | intros; discriminate]).
  destruct IH as [NP2 HR2]. destruct (map_res f r) as [ys| | |]; cbn [bind]; try congruence; try (split; [discriminate | intros; discriminate]).
  split; [discriminate|]. intros l' E. injection E as <-. destruct (HR2 ys eq_refl) as [F2 L2].
  split; [constructor; [apply HR; reflexivity | exact F2] | simpl; lia].
Qed.

Lemma fold_res_spec {A B} (f : B -> A -> res B) (I : B -> Prop) l : forall b,
  I b -> (forall b x, I b -> In x l -> f b x <> Panic /\ forall b', f b x = Ok b' -> I b') ->
  fold_res f l b <> Panic /\ forall b', fold_res f l b = Ok b' -> I b'.
Proof.
  induction l as [|x r IH]; intros b Ib H; simpl; [split; [discriminate | intros b' E; injection E as <-; exact Ib]|].
  destruct (H b x Ib (or_introl eq_refl)) as [NP HI]. destruct (f b x) as [b1| | |]; cbn [bind]; try congruence;
    try (split; [discriminate | intros; discriminate]).
  apply IH; [apply HI; reflexivity|]. intros b2 y Ib2 Iy. apply H; [exact Ib2 | right; exact Iy].
Qed.

Section Post.
Variable descrs : list ctype.
Variable tb : tables.
Hypothesis TOK : forallb (ctype_ok descrs) descrs = true.
Hypothesis DS_og : default_safe descrs "object-group" = true.
Hypothesis DS_t1 : default_safe descrs "crypto ipsec ikev1 transform-set" = true.
Hypothesis DS_t2 : default_safe descrs "crypto ipsec ikev2 ipsec-proposal" = true.

Definition ref_ok (m : mc) : Prop :=
  List.length (m_ref m) <= List.length (m_tref m) /\ forallb (default_safe descrs) (m_tref m) = true.

(* what the steps of postprocessParsed need from a command stored under prefix p;
   the flags switch off the parts that a step has used up *)
Definition Q (acl ios aaa ens : bool) (p : string) (c : cmd) : Prop :=
  ref_ok (c_m c) /\ Forall ref_ok (c_sub c)
  /\ (ens = true -> (p = "crypto map" \/ p = "crypto dynamic-map") -> ends_ns (m_parsed (c_m c)) = true)
  /\ (acl = true -> p = "access-list" -> 4 <= List.length (fields (m_parsed (c_m c))) /\ m_ref (c_m c) = [])
  /\ (ios = true -> p = "ip access-list extended" -> Forall (fun s => 2 <= List.length (fields (m_parsed s))) (c_sub c))
  /\ (aaa = true -> p = "aaa-server" -> 3 <= List.length (fields (m_parsed (c_m c)))
                                        /\ Forall (fun s => 1 <= List.length (m_ref s)) (c_sub c)).
Definition E (acl ios aaa ens : bool) (kv : key * list cmd) : Prop :=
  snd kv <> [] /\ Forall (Q acl ios aaa ens (fst (fst kv))) (snd kv).

Lemma mc_wf_ref_ok ti p m : mc_wf ti p m -> forallb (default_safe descrs) (ti_ref ti) = true -> ref_ok m.
Proof. intros (L & _ & _ & _ & _ & T & R) D. split; [rewrite T, R; lia | rewrite T; exact D]. Qed.
Lemma mc_wf_fields ti p m : mc_wf ti p m -> p + List.length (ti_template ti) <= List.length (fields (m_parsed m)).
Proof. intros (L & -> & NB & LL & _). rewrite <- LL. apply fields_join_length, NB. Qed.

Lemma wf_Q kv : entry_wf descrs kv -> E true true true true kv.
Proof.
  intros [NE F]. split; [exact NE|]. eapply Forall_impl; [|exact F]. intros c [(d & I & P & M & S & SF) KP].
  destruct (ctype_ok_parts descrs TOK d I) as (K1 & K2 & K3 & K4 & K5 & K6 & K7 & K8 & K9).
  rewrite <- KP, P.
  assert (SR : Forall ref_ok (c_sub c)).
  { eapply Forall_impl; [|exact SF]. intros s (ti & Iti & W). eapply mc_wf_ref_ok; [exact W|].
    rewrite forallb_forall in K6. apply K6, Iti. }
  split; [eapply mc_wf_ref_ok; eauto|]. split; [exact SR|]. split; [intros _ _; destruct M as (L & _ & _ & _ & EN & _); exact EN|].
  split; [|split].
  - intros _ PE. rewrite PE in K7. cbn [negb orb] in K7. rewrite String.eqb_refl in K7. cbn [negb orb] in K7.
    apply andb_true_iff in K7. destruct K7 as [K7a K7b]. apply Nat.leb_le in K7a. apply Nat.eqb_eq in K7b.
    split; [pose proof (mc_wf_fields _ _ _ M); lia|].
    destruct M as (L & _ & _ & _ & _ & _ & R). rewrite K7b in R. destruct (m_ref (c_m c)); [reflexivity | discriminate].
  - intros _ PE. rewrite PE in K8. rewrite String.eqb_refl in K8. cbn [negb orb] in K8.
    eapply Forall_impl; [|exact SF]. intros s (ti & Iti & W). rewrite forallb_forall in K8. specialize (K8 ti Iti).
    apply Nat.leb_le in K8. pose proof (mc_wf_fields _ _ _ W). lia.
  - intros _ PE. rewrite PE in K9. rewrite String.eqb_refl in K9. cbn [negb orb] in K9.
    apply andb_true_iff in K9. destruct K9 as [K9a K9b]. apply Nat.leb_le in K9a.
    split; [pose proof (mc_wf_fields _ _ _ M); lia|].
    eapply Forall_impl; [|exact SF]. intros s (ti & Iti & W). rewrite forallb_forall in K9b. specialize (K9b ti Iti).
    apply Nat.leb_le in K9b. destruct W as (L & _ & _ & _ & _ & _ & R). lia.
Qed.

(* a step that maps the commands under one prefix *)
Lemma map_prefix_spec p f a1 i1 s1 e1 a2 i2 s2 e2 cfg :
  Forall (E a1 i1 s1 e1) cfg ->
  (forall c, Q a1 i1 s1 e1 p c -> f c <> Panic /\ forall c', f c = Ok c' -> Q a2 i2 s2 e2 p c') ->
  (forall q c, q <> p -> Q a1 i1 s1 e1 q c -> Q a2 i2 s2 e2 q c) ->
  map_prefix p f cfg <> Panic /\ forall cfg', map_prefix p f cfg = Ok cfg' -> Forall (E a2 i2 s2 e2) cfg'.
Proof.
  intros F Hp Hq. unfold map_prefix.
  match goal with |- map_res ?g cfg <> Panic /\ _ =>
    destruct (map_res_spec g (E a1 i1 s1 e1) (E a2 i2 s2 e2) cfg F) as [NP HR] end.
  - intros [k l] [NE FQ]. cbn [fst snd] in *. destruct (String.eqb (fst k) p) eqn:Ep.
    + apply String.eqb_eq in Ep. rewrite Ep in FQ.
      destruct (map_res_spec f _ _ l FQ Hp) as [NP HR].
      destruct (map_res f l) as [l'| | |]; cbn [bind]; try congruence; try (split; [discriminate | intros; discriminate]).
      split; [discriminate|]. intros y Ey. injection Ey as <-. destruct (HR l' eq_refl) as [FR LL].
      split; cbn [fst snd]; [destruct l, l'; simpl in LL; congruence || discriminate | rewrite Ep; exact FR].
    + split; [discriminate|]. intros y Ey. injection Ey as <-. split; cbn [fst snd]; [exact NE|].
      eapply Forall_impl; [|exact FQ]. intros c. apply Hq. intros X. rewrite X, String.eqb_refl in Ep. discriminate.
  - split; [exact NP|]. intros cfg' Ec. apply HR, Ec.
Qed.

Lemma ref_ok_set_parsed m p : ref_ok m -> ref_ok (set_parsed m p).
Proof. intros H. exact H. Qed.
Lemma ref_ok_set_orig m o : ref_ok m -> ref_ok (set_orig m o).
Proof. intros H. exact H. Qed.

Lemma og5_safe : forallb (default_safe descrs) og5 = true.
Proof. unfold og5. cbn [forallb]. rewrite DS_og. reflexivity. Qed.

(* ---- step 1: ASA ACL lines ---- *)
Lemma asa_acl_step c : Q true true true true "access-list" c ->
  on_main (postprocess_asa_acl tb) c <> Panic /\
  forall c', on_main (postprocess_asa_acl tb) c = Ok c' -> Q false true true true "access-list" c'.
Proof.
  intros (R & SR & EN & A & I & S). destruct (A eq_refl eq_refl) as [L4 R0].
  unfold on_main, postprocess_asa_acl.
  destruct (fields (m_parsed (c_m c))) as [|t0 [|t1 [|t2 [|t3 parts]]]] eqn:F; simpl in L4; try lia.
  cbn [idx nth_error bind]. 
  assert (G : forall m', ref_ok m' -> Q false true true true "access-list" (set_main c m')).
  { intros m' R'. split; [exact R'|]. split; [exact SR|]. split; [intros _ [X|X]; discriminate|].
    split; [intros X; discriminate|]. split; intros _ X; discriminate. }
  destruct (negb (String.eqb t2 "extended")).
  { cbn [bind]. split; [discriminate|]. intros c' H. injection H as <-. apply G.
    split; cbn [set_refs m_ref m_tref]; [rewrite R0; simpl; lia | apply og5_safe]. }
  unfold slice_from. cbn [List.length Nat.leb skipn bind].
  destruct (postprocess_acl_parts_total tb parts) as (a & -> & _ & L5). cbn [bind].
  split; [discriminate|]. intros c' H. injection H as <-. apply G.
  split; cbn [set_refs m_ref m_tref]; [rewrite R0; simpl; exact L5 | apply og5_safe].
Qed.

Lemma Q_weaken a1 i1 s1 e1 a2 i2 s2 e2 p c :
  (a2 = true -> a1 = true) -> (i2 = true -> i1 = true) -> (s2 = true -> s1 = true) -> (e2 = true -> e1 = true) ->
  Q a1 i1 s1 e1 p c -> Q a2 i2 s2 e2 p c.
Proof.
  intros Ha Hi Hs He (R & SR & EN & A & I & S). split; [exact R|]. split; [exact SR|].
  split; [intros X; apply EN, He, X|]. split; [intros X; apply A, Ha, X|]. split; [intros X; apply I, Hi, X | intros X; apply S, Hs, X].
Qed.

(* ---- step 2: IOS ACL lines ---- *)
Lemma ios_acl_line m : ref_ok m -> 2 <= List.length (fields (m_parsed m)) ->
  postprocess_ios_acl tb m <> Panic /\ forall m', postprocess_ios_acl tb m = Ok m' -> ref_ok m'.
Proof.
  intros R L. unfold postprocess_ios_acl.
  destruct (fields (m_parsed m)) as [|t0 [|t1 rest]] eqn:F; simpl in L; try lia.
  cbn [idx nth_error bind].
  assert (G : forall m1 tokens1 u0 ur, ref_ok m1 -> tokens1 = u0 :: ur ->
     (do t0' <- idx tokens1 0;
      if String.eqb t0' "remark" then Ok m1
      else do parts <- slice_from tokens1 1;
           do a <- postprocess_acl_parts tb parts;
           let tokens' := restore_ref (firstn 1 tokens1 +++ ap_tokens a) tokens1 in
           Ok (set_refs (set_parsed m1 (join " " (del_empty tokens'))) (m_tref m1) [])) <> Panic /\
     forall m', (do t0' <- idx tokens1 0;
      if String.eqb t0' "remark" then Ok m1
      else do parts <- slice_from tokens1 1;
           do a <- postprocess_acl_parts tb parts;
           let tokens' := restore_ref (firstn 1 tokens1 +++ ap_tokens a) tokens1 in
           Ok (set_refs (set_parsed m1 (join " " (del_empty tokens'))) (m_tref m1) [])) = Ok m' -> ref_ok m').
  { intros m1 tokens1 u0 ur R1 ->. cbn [idx nth_error bind]. destruct (String.eqb u0 "remark").
    - split; [discriminate|]. intros m' H. injection H as <-. exact R1.
    - unfold slice_from. cbn [List.length Nat.leb skipn bind].
      destruct (postprocess_acl_parts_total tb ur) as (a & -> & _ & _). cbn [bind].
      split; [discriminate|]. intros m' H. injection H as <-. destruct R1 as [R1a R1b]. split; cbn [set_refs m_ref m_tref set_parsed]; [simpl; lia | exact R1b]. }
  destruct (String.eqb t0 "$SEQ").
  - unfold slice_from. cbn [List.length Nat.leb skipn bind]. eapply G; [|reflexivity]. exact R.
  - cbn [bind]. eapply G; [exact R | reflexivity].
Qed.

Lemma ios_acl_step l : l <> [] -> Forall (Q false true true true "ip access-list extended") l ->
  ios_acl_entry tb l <> Panic /\
  forall l', ios_acl_entry tb l = Ok l' -> l' <> [] /\ Forall (Q false false true true "ip access-list extended") l'.
Proof.
  intros NE F. destruct l as [|c r]; [congruence|]. inversion F as [|? ? Qc Fr]; subst.
  destruct Qc as (R & SR & EN & A & I & S). specialize (I eq_refl eq_refl). unfold ios_acl_entry.
  assert (FS : Forall (fun s => ref_ok s /\ 2 <= List.length (fields (m_parsed s))) (c_sub c)).
  { clear -SR I. induction SR; inversion I; subst; constructor; auto. }
  destruct (map_res_spec (postprocess_ios_acl tb) _ ref_ok (c_sub c) FS) as [NP HR].
  { intros s [Rs Ls]. apply ios_acl_line; assumption. }
  destruct (map_res (postprocess_ios_acl tb) (c_sub c)) as [subs| | |]; cbn [bind]; try congruence; try (split; [discriminate | intros; discriminate]).
  split; [discriminate|]. intros l' H. injection H as <-. split; [discriminate|]. constructor.
  - destruct (HR subs eq_refl) as [FR _]. split; [exact R|]. split; [exact FR|].
    split; [intros _ [X|X]; discriminate|]. split; [intros; discriminate|]. split; intros; discriminate.
  - eapply Forall_impl; [|exact Fr]. intros c0. apply Q_weaken; auto.
Qed.

Lemma map_entries_spec p g a1 i1 s1 e1 a2 i2 s2 e2 cfg :
  Forall (E a1 i1 s1 e1) cfg ->
  (forall l, l <> [] -> Forall (Q a1 i1 s1 e1 p) l ->
             g l <> Panic /\ forall l', g l = Ok l' -> l' <> [] /\ Forall (Q a2 i2 s2 e2 p) l') ->
  (forall q c, q <> p -> Q a1 i1 s1 e1 q c -> Q a2 i2 s2 e2 q c) ->
  map_entries p g cfg <> Panic /\ forall cfg', map_entries p g cfg = Ok cfg' -> Forall (E a2 i2 s2 e2) cfg'.
Proof.
  intros F Hp Hq. unfold map_entries.
  match goal with |- map_res ?g0 cfg <> Panic /\ _ =>
    destruct (map_res_spec g0 (E a1 i1 s1 e1) (E a2 i2 s2 e2) cfg F) as [NP HR] end.
  - intros [k l] [NE FQ]. cbn [fst snd] in *. destruct (String.eqb (fst k) p) eqn:Ep.
    + apply String.eqb_eq in Ep. rewrite Ep in FQ. destruct (Hp l NE FQ) as [NP HR].
      destruct (g l) as [l'| | |]; cbn [bind]; try congruence; try (split; [discriminate | intros; discriminate]).
      split; [discriminate|]. intros y Ey. injection Ey as <-. destruct (HR l' eq_refl) as [NE' FR].
      split; cbn [fst snd]; [exact NE' | rewrite Ep; exact FR].
    + split; [discriminate|]. intros y Ey. injection Ey as <-. split; cbn [fst snd]; [exact NE|].
      eapply Forall_impl; [|exact FQ]. intros c. apply Hq. intros X. rewrite X, String.eqb_refl in Ep. discriminate.
  - split; [exact NP|]. intros cfg' Ec. apply HR, Ec.
Qed.

(* ---- cfg operations and E ---- *)
Lemma cfg_get_E a i s e cfg k l : Forall (E a i s e) cfg -> cfg_get cfg k = Some l -> E a i s e (k, l).
Proof.
  induction cfg as [|[k' v] r IH]; simpl; intros W H; [discriminate|].
  inversion W as [|? ? W1 W2]; subst. destruct (key_eqb k k') eqn:Ek; [|apply IH; assumption].
  injection H as <-. apply key_eqb_eq in Ek. subst k'. exact W1.
Qed.
Lemma cfg_set_E a i s e cfg k l : Forall (E a i s e) cfg -> E a i s e (k, l) -> Forall (E a i s e) (cfg_set cfg k l).
Proof.
  induction cfg as [|[k' v] r IH]; simpl; intros W H; [constructor; [exact H | constructor]|].
  inversion W as [|? ? W1 W2]; subst. destruct (key_eqb k k'); constructor; auto.
Qed.
Lemma cfg_del_E a i s e cfg k : Forall (E a i s e) cfg -> Forall (E a i s e) (cfg_del cfg k).
Proof.
  induction cfg as [|[k' v] r IH]; simpl; intros W; [constructor|].
  inversion W as [|? ? W1 W2]; subst. destruct (key_eqb k k'); [exact W2 | constructor; auto].
Qed.

Lemma move_E a i s e cfg : Forall (E a i s e) cfg -> Forall (E a i s e) (move_crypto_map_interface cfg).
Proof.
  intros F. unfold move_crypto_map_interface. destruct (cfg_get cfg ("crypto map", "")) as [l|] eqn:G; [|exact F].
  destruct (cfg_get_E _ _ _ _ _ _ _ F G) as [NE FQ]. cbn [fst snd] in *.
  apply cfg_set_E; [apply cfg_del_E, cfg_del_E, F|]. split; cbn [fst snd]; [exact NE|].
  eapply Forall_impl; [|exact FQ]. intros c (R & SR & EN & A & I & S).
  split; [exact R|]. split; [exact SR|]. split; [intros _ [X|X]; discriminate|].
  split; [intros _ X; discriminate|]. split; intros _ X; discriminate.
Qed.

(* ---- steps 4-7: references to transform sets ---- *)
Lemma rep11_safe d : default_safe descrs d = true -> forallb (default_safe descrs) (rep11 d) = true.
Proof. intros H. unfold rep11. cbn [forallb]. rewrite H. reflexivity. Qed.

Lemma ends_ns_sep part : ends_ns (" set " ++ part ++ " ") = false.
Proof.
  assert (G : forall x, ends_ns (x ++ " ") = false).
  { intros x. rewrite ends_ns_app by discriminate. reflexivity. }
  change (" set " ++ part ++ " ") with (" set " ++ (part ++ " ")). rewrite <- append_assoc. apply G.
Qed.

Lemma trans_ref_step part p c a i s :
  default_safe descrs ("crypto ipsec " ++ part) = true -> (p = "crypto map" \/ p = "crypto dynamic-map") ->
  Q a i s true p c ->
  on_main (set_trans_ref part) c <> Panic /\ forall c', on_main (set_trans_ref part) c = Ok c' -> Q a i s true p c'.
Proof.
  intros DS Hp (R & SR & EN & A & I & S). unfold on_main, set_trans_ref.
  destruct (cut_str (" set " ++ part ++ " ") (m_parsed (c_m c))) as [[def names]|] eqn:C.
  - assert (NE : ends_ns names = true).
    { eapply cut_rest_ends; [exact C | apply EN; auto | apply ends_ns_sep | discriminate]. }
    pose proof (fields_nonblank names (ends_ns_nonblank _ NE)) as FN.
    destruct (Nat.ltb 11 (List.length (fields names))) eqn:L11; cbn [bind]; [split; [discriminate | intros; discriminate]|].
    destruct (fields names) as [|n0 nl] eqn:F; [congruence|]. cbn [bind].
    split; [discriminate|]. intros c' H. injection H as <-.
    apply Nat.ltb_ge in L11.
    split; [split; cbn [set_main c_m set_refs m_ref m_tref]; [exact L11 | apply rep11_safe, DS]|].
    split; [exact SR|]. split.
    + intros _ _. cbn [set_main c_m set_refs set_parsed m_parsed].
      assert (AR : forall x y, ends_ns y = true -> ends_ns (x ++ y) = true).
      { intros x y Hy. rewrite ends_ns_app; [exact Hy | intros ->; discriminate]. }
      apply AR.
      match goal with |- ends_ns ?t = true =>
        change t with (" set " ++ ((part ++ " ") ++ (repeat_str "$REF " (List.length (n0 :: nl) - 1) ++ "$REF"))) end.
      apply AR, AR, AR. reflexivity.
    + split; [intros X Y; destruct Hp as [Hp|Hp]; rewrite Hp in Y; discriminate|].
      split; [intros X Y; destruct Hp as [Hp|Hp]; rewrite Hp in Y; discriminate|].
      intros X Y; destruct Hp as [Hp|Hp]; rewrite Hp in Y; discriminate.
  - cbn [bind]. split; [discriminate|]. intros c' H. injection H as <-.
    split; [exact R|]. split; [exact SR|]. split; [exact EN|]. split; [exact A|]. split; [exact I | exact S].
Qed.

(* steps that only rewrite parsed of the main command *)
Lemma parsed_only_step (f : mc -> res mc) a i s p c :
  (forall m, f m <> Panic /\ forall m', f m = Ok m' -> m_ref m' = m_ref m /\ m_tref m' = m_tref m) ->
  p <> "access-list" -> p <> "aaa-server" ->
  Q a i s false p c -> on_main f c <> Panic /\ forall c', on_main f c = Ok c' -> Q a i s false p c'.
Proof.
  intros Hf P1 P2 (R & SR & EN & A & I & S). unfold on_main. destruct (Hf (c_m c)) as [NP HR].
  destruct (f (c_m c)) as [m'| | |]; cbn [bind]; try congruence; try (split; [discriminate | intros; discriminate]).
  split; [discriminate|]. intros c' H. injection H as <-. destruct (HR m' eq_refl) as [E1 E2].
  split; [destruct R as [Ra Rb]; split; cbn [set_main c_m]; [rewrite E1, E2; exact Ra | rewrite E2; exact Rb]|].
  split; [exact SR|]. split; [intros X; discriminate|]. split; [intros _ X; congruence|].
  split; [exact I | intros _ X; congruence].
Qed.

Lemma strip_pfs_ok m : strip_pfs_default m <> Panic /\ forall m', strip_pfs_default m = Ok m' -> m_ref m' = m_ref m /\ m_tref m' = m_tref m.
Proof.
  unfold strip_pfs_default. destruct (has_suffix _ _); (split; [discriminate|]); intros m' H; injection H as <-; split; reflexivity.
Qed.
Lemma strip_metric_ok m : strip_metric m <> Panic /\ forall m', strip_metric m = Ok m' -> m_ref m' = m_ref m /\ m_tref m' = m_tref m.
Proof.
  unfold strip_metric. destruct (Nat.eqb (List.length (split_char " " (m_parsed m))) 6) eqn:L.
  - apply Nat.eqb_eq in L. unfold slice_to. rewrite L. cbn [Nat.leb bind].
    split; [discriminate|]. intros m' H. injection H as <-. split; reflexivity.
  - split; [discriminate|]. intros m' H. injection H as <-. split; reflexivity.
Qed.

(* ---- step 12: aaa-server lines ---- *)
Definition Qa : cmd -> Prop := Q false false true false "aaa-server".

Lemma nonblank_x : nonblank "x" = true. Proof. reflexivity. Qed.

Lemma aaa_line_spec name acc c :
  Forall Qa (snd acc) -> Qa c ->
  aaa_line name acc c <> Panic /\
  forall acc', aaa_line name acc c = Ok acc' -> Forall Qa (snd acc') /\ List.length (snd acc') = S (List.length (snd acc)).
Proof.
  destruct acc as [ldap done]. cbn [snd]. intros FD QC. pose proof QC as (R & SR & _ & _ & _ & AA).
  destruct (AA eq_refl eq_refl) as [L3 SUBS].
  unfold aaa_line. pose proof (fields_words (m_parsed (c_m c))) as FWD.
  destruct (fields (m_parsed (c_m c))) as [|w0 [|w1 [|w2 rest]]] eqn:F; simpl in L3; try lia.
  cbn [idx nth_error bind].
  destruct w2 as [|ch w2']; [cbn [forallb] in FWD; rewrite !andb_true_iff in FWD; destruct FWD as (_ & _ & X & _); discriminate|].
  cbn [str_idx0 bind].
  assert (DONE : forall c', Qa c' -> Forall Qa (done +++ [c'])) by (intros c' H; apply Forall_app; split; [exact FD | constructor; [exact H | constructor]]).
  assert (QP : forall l, 3 <= List.length l -> forallb nonblank l = true -> Qa (set_main c (set_parsed (c_m c) (join " " l)))).
  { intros l Ll NB. split; [exact R|]. split; [exact SR|]. split; [intros X; discriminate|]. split; [intros X; discriminate|].
    split; [intros X; discriminate|]. intros _ _. split; [|exact SUBS]. cbn [set_main c_m set_parsed m_parsed].
    pose proof (fields_join_length l NB). lia. }
  assert (NBW : forall l, forallb word l = true -> forallb nonblank l = true).
  { induction l as [|x l IH]; [reflexivity|]. cbn [forallb]. intros H. apply andb_true_iff in H. destruct H as [Hx Hl].
    rewrite (word_nonblank _ Hx), (IH Hl). reflexivity. }
  (* the rest of the function on the words after the optional copy *)
  assert (G : forall words1, 3 <= List.length words1 -> forallb nonblank words1 = true ->
    (do w2' <- idx words1 2;
     if (Nat.leb 4 (List.length words1) && String.eqb w2' "host")%bool
     then do words2 <- set_idx words1 3 "x";
          do words3 <- slice_to words2 4;
          do ref <- match c_sub c with [] => Ok "" | s :: _ => idx (m_ref s) 0 end;
          if (negb (String.eqb ldap " ") && negb (String.eqb ldap ref))%bool
          then Err ("aaa-server " ++ name ++ " must not use different values in 'ldap-attribute-map'")
          else Ok (ref, done +++ [set_main c (set_parsed (c_m c) (join " " words3))])
     else Ok (ldap, done +++ [c])) <> Panic /\
    forall acc', (do w2' <- idx words1 2;
     if (Nat.leb 4 (List.length words1) && String.eqb w2' "host")%bool
     then do words2 <- set_idx words1 3 "x";
          do words3 <- slice_to words2 4;
          do ref <- match c_sub c with [] => Ok "" | s :: _ => idx (m_ref s) 0 end;
          if (negb (String.eqb ldap " ") && negb (String.eqb ldap ref))%bool
          then Err ("aaa-server " ++ name ++ " must not use different values in 'ldap-attribute-map'")
          else Ok (ref, done +++ [set_main c (set_parsed (c_m c) (join " " words3))])
     else Ok (ldap, done +++ [c])) = Ok acc' -> Forall Qa (snd acc') /\ List.length (snd acc') = S (List.length done)).
  { intros words1 L NB. destruct words1 as [|u0 [|u1 [|u2 ur]]]; simpl in L; try lia. cbn [idx nth_error bind].
    destruct (Nat.leb 4 (List.length (u0 :: u1 :: u2 :: ur)) && String.eqb u2 "host")%bool eqn:C.
    - apply andb_true_iff in C. destruct C as [C _]. apply Nat.leb_le in C. destruct ur as [|u3 ur']; [simpl in C; lia|].
      unfold set_idx, slice_to. cbn [List.length Nat.ltb Nat.leb set_nth firstn bind].
      assert (RF : exists ref, match c_sub c with [] => Ok "" | s :: _ => idx (m_ref s) 0 end = Ok ref).
      { destruct (c_sub c) as [|s0 sr]; [eexists; reflexivity|]. inversion SUBS as [|? ? S0 _]; subst.
        unfold idx. destruct (m_ref s0); [simpl in S0; lia | eexists; reflexivity]. }
      destruct RF as [ref ->]. cbn [bind].
      destruct (negb (String.eqb ldap " ") && negb (String.eqb ldap ref))%bool; [split; [discriminate | intros; discriminate]|].
      split; [discriminate|]. intros acc' H. injection H as <-. cbn [snd]. split.
      + apply DONE. apply (QP [u0; u1; u2; "x"]); [simpl; lia|]. cbn [forallb] in *. rewrite !andb_true_iff in NB. destruct NB as (N0 & N1 & N2 & _).
        rewrite N0, N1, N2. reflexivity.
      + rewrite app_length. simpl. lia.
    - split; [discriminate|]. intros acc' H. injection H as <-. cbn [snd]. split; [apply DONE, QC|]. rewrite app_length. simpl. lia. }
  pose proof (NBW _ FWD) as NB0.
  destruct (Ascii.eqb ch "(").
  - unfold slice_from. cbn [List.length Nat.leb skipn bind]. apply G.
    + cbn [firstn List.length]. rewrite !app_length. cbn [List.length]. rewrite skipn_length. cbn [List.length]. lia.
    + cbn [firstn List.app]. cbn [forallb] in NB0. rewrite !andb_true_iff in NB0. destruct NB0 as (N0 & N1 & N2 & NR).
      cbn [forallb]. rewrite N0, N1. cbn [andb]. rewrite forallb_app. rewrite NR. cbn [andb].
      apply forallb_skipn. cbn [forallb]. rewrite N0, N1, N2, NR. reflexivity.
  - cbn [bind]. apply G; [simpl; lia | exact NB0].
Qed.

Lemma aaa_entry_spec name l : l <> [] -> Forall Qa l ->
  aaa_entry name l <> Panic /\ forall l', aaa_entry name l = Ok l' -> l' <> [] /\ Forall Qa l'.
Proof.
  intros NE F. destruct l as [|c0 r]; [congruence|]. unfold aaa_entry.
  destruct (negb (has_suffix "protocol ldap" (m_parsed (c_m c0)))); [split; [discriminate|]; intros l' H; injection H as <-; split; [discriminate | exact F]|].
  destruct r as [|c1 r']; [split; [discriminate|]; intros l' H; injection H as <-; split; [discriminate | exact F]|].
  inversion F as [|? ? Q0 Fr]; subst.
  assert (LEN : forall ls acc, Forall Qa ls -> Forall Qa (snd acc) ->
                 fold_res (aaa_line name) ls acc <> Panic /\
                 forall acc', fold_res (aaa_line name) ls acc = Ok acc' ->
                   List.length (snd acc') = List.length (snd acc) + List.length ls /\ Forall Qa (snd acc')).
  { induction ls as [|x ls IH]; intros acc Fl Fa; simpl; [split; [discriminate|]; intros acc' H; injection H as <-; split; [simpl; lia | exact Fa]|].
    inversion Fl as [|? ? Qx Fls]; subst. destruct (aaa_line_spec name acc x Fa Qx) as [NPx HRx].
    destruct (aaa_line name acc x) as [acc1| | |]; cbn [bind]; try congruence; try (split; [discriminate | intros; discriminate]).
    destruct (HRx acc1 eq_refl) as [F1 L1]. destruct (IH acc1 Fls F1) as [NP2 HR2]. split; [exact NP2|].
    intros acc' H. destruct (HR2 acc' H) as [L2 F2]. split; [simpl; lia | exact F2]. }
  destruct (LEN (c1 :: r') (" ", []) Fr (Forall_nil _)) as [NP HR].
  destruct (fold_res (aaa_line name) (c1 :: r') (" ", [])) as [acc| | |] eqn:FR; cbn [bind]; try congruence;
    try (split; [discriminate | intros; discriminate]).
  destruct (HR acc eq_refl) as [L FQ]. cbn [snd List.length] in L.
  unfold slice_to. destruct (snd acc) as [|a1 ar] eqn:SA; [simpl in L; lia|]. cbn [List.length Nat.leb firstn].
  split; [discriminate|]. intros l' H. injection H as <-. split; [discriminate|].
  inversion FQ as [|? ? Qa1 _]; subst. constructor; [exact Q0|]. constructor; [exact Qa1 | constructor].
Qed.

Lemma aaa_servers_spec cfg : Forall (E false false true false) cfg ->
  aaa_servers cfg <> Panic /\ forall cfg', aaa_servers cfg = Ok cfg' -> Forall (E false false true false) cfg'.
Proof.
  intros F. unfold aaa_servers. apply (fold_res_spec _ (fun cfg => Forall (E false false true false) cfg)); [exact F|].
  intros cfg0 name F0 _. destruct (cfg_get cfg0 ("aaa-server", name)) as [l|] eqn:G; [|split; [discriminate|]; intros b H; injection H as <-; exact F0].
  destruct (cfg_get_E _ _ _ _ _ _ _ F0 G) as [NE FQ]. cbn [fst snd] in *.
  destruct (aaa_entry_spec name l NE FQ) as [NP HR].
  destruct (aaa_entry name l) as [l'| | |]; cbn [bind]; try congruence; try (split; [discriminate | intros; discriminate]).
  split; [discriminate|]. intros b H. injection H as <-. destruct (HR l' eq_refl) as [NE' FQ'].
  apply cfg_set_E; [exact F0|]. split; [exact NE' | exact FQ'].
Qed.

(* ---- step 13 ---- *)
Lemma lower_step a i s p c : p <> "ip access-list extended" -> p <> "aaa-server" ->
  Q a i s false p c -> lower_subject_name c <> Panic /\ forall c', lower_subject_name c = Ok c' -> Q a i s false p c'.
Proof.
  intros P1 P2 (R & SR & EN & A & I & AA). unfold lower_subject_name. split; [discriminate|]. intros c' H. injection H as <-.
  split; [exact R|]. split.
  - cbn [set_sub c_sub]. clear -SR. induction SR as [|x l Hx Hl IH]; [constructor|]. cbn [map]. constructor; [|exact IH].
    destruct (has_prefix "subject-name" (m_parsed x)); exact Hx.
  - split; [intros X; discriminate|]. split; [exact A|]. split; [intros _ X; congruence | intros _ X; congruence].
Qed.

(* ---- postprocessParsed as a whole ---- *)
Definition Qfin (c : cmd) : Prop := ref_ok (c_m c) /\ Forall ref_ok (c_sub c).

Theorem postprocess_parsed_spec cfg : cfg_wf descrs cfg ->
  postprocess_parsed tb cfg <> Panic /\
  forall cfg', postprocess_parsed tb cfg = Ok cfg' -> Forall (fun kv : key * list cmd => Forall Qfin (snd kv)) cfg'.
Proof.
  intros W. assert (F0 : Forall (E true true true true) cfg) by (eapply Forall_impl; [apply wf_Q | exact W]).
  unfold postprocess_parsed.
  Ltac step H NP HR c :=
    match goal with |- (bind ?r _) <> Panic /\ _ =>
      destruct H as [NP HR]; destruct r as [c| | |]; cbn [bind]; try congruence; try (split; [discriminate | intros; discriminate]);
      specialize (HR c eq_refl) end.
  (* 1 *)
  assert (W1 : forall q c, q <> "access-list" -> Q true true true true q c -> Q false true true true q c).
  { intros q c _. apply Q_weaken; auto. }
  assert (W2 : forall q c, q <> "ip access-list extended" -> Q false true true true q c -> Q false false true true q c).
  { intros q c _. apply Q_weaken; auto. }
  step (map_prefix_spec "access-list" (on_main (postprocess_asa_acl tb)) true true true true false true true true cfg F0
          asa_acl_step W1) NP1 F1 c1.
  (* 2 *)
  step (map_entries_spec "ip access-list extended" (ios_acl_entry tb) false true true true false false true true c1 F1
          ios_acl_step W2) NP2 F2 c2.
  (* 3 *)
  pose proof (move_E _ _ _ _ _ F2) as F3. set (c3 := move_crypto_map_interface c2) in *.
  assert (OTHER : forall a i s e p q c, (p = "crypto map" \/ p = "crypto dynamic-map") -> q <> p -> Q a i s e q c -> Q a i s e q c) by auto.
  (* 4-7 *)
  step (map_prefix_spec "crypto map" (on_main (set_trans_ref "ikev1 transform-set")) false false true true false false true true c3 F3
          (fun c => trans_ref_step "ikev1 transform-set" "crypto map" c _ _ _ DS_t1 (or_introl eq_refl)) (fun q c _ H => H)) NP4 F4 c4.
  step (map_prefix_spec "crypto map" (on_main (set_trans_ref "ikev2 ipsec-proposal")) false false true true false false true true c4 F4
          (fun c => trans_ref_step "ikev2 ipsec-proposal" "crypto map" c _ _ _ DS_t2 (or_introl eq_refl)) (fun q c _ H => H)) NP5 F5 c5.
  step (map_prefix_spec "crypto dynamic-map" (on_main (set_trans_ref "ikev1 transform-set")) false false true true false false true true c5 F5
          (fun c => trans_ref_step "ikev1 transform-set" "crypto dynamic-map" c _ _ _ DS_t1 (or_intror eq_refl)) (fun q c _ H => H)) NP6 F6 c6.
  step (map_prefix_spec "crypto dynamic-map" (on_main (set_trans_ref "ikev2 ipsec-proposal")) false false true true false false true true c6 F6
          (fun c => trans_ref_step "ikev2 ipsec-proposal" "crypto dynamic-map" c _ _ _ DS_t2 (or_intror eq_refl)) (fun q c _ H => H)) NP7 F7 c7.
  (* 8-11: only parsed of the main command changes *)
  assert (F7' : Forall (E false false true false) c7).
  { eapply Forall_impl; [|exact F7]. intros kv [NE FQ]. split; [exact NE|]. eapply Forall_impl; [|exact FQ].
    intros c. apply Q_weaken; auto. }
  step (map_prefix_spec "crypto map" (on_main strip_pfs_default) false false true false false false true false c7 F7'
          (fun c => parsed_only_step strip_pfs_default _ _ _ "crypto map" c strip_pfs_ok ltac:(discriminate) ltac:(discriminate)) (fun q c _ H => H)) NP8 F8 c8.
  step (map_prefix_spec "crypto dynamic-map" (on_main strip_pfs_default) false false true false false false true false c8 F8
          (fun c => parsed_only_step strip_pfs_default _ _ _ "crypto dynamic-map" c strip_pfs_ok ltac:(discriminate) ltac:(discriminate)) (fun q c _ H => H)) NP9 F9 c9.
  step (map_prefix_spec "route" (on_main strip_metric) false false true false false false true false c9 F9
          (fun c => parsed_only_step strip_metric _ _ _ "route" c strip_metric_ok ltac:(discriminate) ltac:(discriminate)) (fun q c _ H => H)) NP10 F10 c10.
  step (map_prefix_spec "ipv6 route" (on_main strip_metric) false false true false false false true false c10 F10
          (fun c => parsed_only_step strip_metric _ _ _ "ipv6 route" c strip_metric_ok ltac:(discriminate) ltac:(discriminate)) (fun q c _ H => H)) NP11 F11 c11.
  (* 12 *)
  step (aaa_servers_spec c11 F11) NP12 F12 c12.
  (* 13 *)
  destruct (map_prefix_spec "crypto ca certificate map" lower_subject_name false false true false false false true false c12 F12
          (fun c => lower_step _ _ _ "crypto ca certificate map" c ltac:(discriminate) ltac:(discriminate)) (fun q c _ H => H)) as [NP13 F13].
  split; [exact NP13|]. intros cfg' H. specialize (F13 cfg' H). eapply Forall_impl; [|exact F13].
  intros kv [_ FQ]. eapply Forall_impl; [|exact FQ]. intros c (R & SR & _). split; assumption.
Qed.

(* ---------- checkReferences ---------- *)
Definition cfg_ref (cfg : config) : Prop := Forall (fun kv : key * list cmd => Forall Qfin (snd kv)) cfg.

Lemma cfg_get_ref cfg k l : cfg_ref cfg -> cfg_get cfg k = Some l -> Forall Qfin l.
Proof.
  induction cfg as [|[k' v] r IH]; simpl; intros W H; [discriminate|].
  inversion W as [|? ? W1 W2]; subst. destruct (key_eqb k k'); [injection H as <-; exact W1 | apply IH; assumption].
Qed.
Lemma cfg_set_ref cfg k l : cfg_ref cfg -> Forall Qfin l -> cfg_ref (cfg_set cfg k l).
Proof.
  induction cfg as [|[k' v] r IH]; simpl; intros W H; [constructor; [exact H | constructor]|].
  inversion W as [|? ? W1 W2]; subst. destruct (key_eqb k k'); constructor; auto. apply IH; assumption.
Qed.
Lemma Forall_set_nth {A} (P : A -> Prop) l n x : Forall P l -> P x -> Forall P (set_nth l n x).
Proof.
  revert n. induction l as [|y r IH]; intros n F Px; [destruct n; constructor|].
  inversion F; subst. destruct n; simpl; constructor; auto.
Qed.

Lemma default_of_in k l vl : default_of k l = Some vl -> In (k, vl) l.
Proof.
  induction l as [|[k' v] r IH]; simpl; [discriminate|]. destruct (key_eqb k k') eqn:Ek.
  - intros H. injection H as <-. apply key_eqb_eq in Ek. subst k'. left. reflexivity.
  - intros H. right. apply IH, H.
Qed.

Lemma default_args_end : forallb (fun kv : key * list string => forallb ends_ns (snd kv)) default_objects = true.
Proof. reflexivity. Qed.

Lemma add_default_spec cfg prefix name vl :
  cfg_ref cfg -> default_safe descrs prefix = true -> default_of (prefix, name) default_objects = Some vl ->
  add_default_object descrs cfg prefix name vl <> Panic /\
  forall cfg', add_default_object descrs cfg prefix name vl = Ok cfg' -> cfg_ref cfg'.
Proof.
  intros W DS D. apply default_of_in in D. unfold add_default_object.
  assert (SAFE : forallb (fun arg => is_some_cmd (lookup_cmd descrs (prefix ++ " " ++ name ++ " " ++ arg))) vl = true).
  { unfold default_safe in DS. rewrite forallb_forall in DS. specialize (DS _ D). cbn [fst snd] in DS.
    rewrite String.eqb_refl in DS. exact DS. }
  assert (ENDS : forallb ends_ns vl = true).
  { pose proof default_args_end as H. rewrite forallb_forall in H. apply (H _ D). }
  apply (fold_res_spec _ cfg_ref); [exact W|]. intros cfg0 arg W0 IA.
  rewrite forallb_forall in SAFE, ENDS. specialize (SAFE arg IA). specialize (ENDS arg IA).
  destruct (lookup_cmd descrs (prefix ++ " " ++ name ++ " " ++ arg)) as [[c|]| | |] eqn:L; try discriminate SAFE. cbn [bind].
  assert (EL : ends_ns (prefix ++ " " ++ name ++ " " ++ arg) = true).
  { assert (AR : forall x y, ends_ns y = true -> ends_ns (x ++ y) = true).
    { intros x y Hy. rewrite ends_ns_app; [exact Hy | intros ->; discriminate]. }
    apply AR, AR, AR, AR. exact ENDS. }
  destruct (lookup_cmd_spec descrs TOK _ EL) as [_ WC]. destruct (WC c L) as [(d & I & P & M & S & SF) SE].
  assert (QC : Qfin c).
  { destruct (ctype_ok_parts descrs TOK d I) as (_ & _ & _ & _ & K5 & _). split; [eapply mc_wf_ref_ok; eauto | rewrite SE; constructor]. }
  destruct (existsb _ _); (split; [discriminate|]); intros b H; injection H as <-; [exact W0|].
  apply cfg_set_ref; [exact W0|]. constructor; [exact QC|].
  destruct (cfg_get cfg0 (prefix, name)) eqn:G; [eapply cfg_get_ref; eauto | constructor].
Qed.

Lemma check_refs_spec is_raw m : forallb (default_safe descrs) (m_tref m) = true ->
  forall refs i cfg, i + List.length refs <= List.length (m_tref m) -> cfg_ref cfg ->
  check_refs descrs is_raw m i refs cfg <> Panic /\
  forall r, check_refs descrs is_raw m i refs cfg = Ok r -> cfg_ref (fst r).
Proof.
  intros DS. induction refs as [|name r IH]; intros i cfg L W; cbn [check_refs].
  - split; [discriminate|]. intros x H. injection H as <-. exact W.
  - simpl in L. unfold idx. destruct (nth_error (m_tref m) i) as [prefix|] eqn:N; [|apply nth_error_None in N; lia].
    cbn [bind]. destruct (cfg_get cfg (prefix, name)); [apply IH; [lia | exact W]|].
    destruct (default_of (prefix, name) default_objects) as [vl|] eqn:D.
    + assert (DSP : default_safe descrs prefix = true) by (rewrite forallb_forall in DS; apply DS; eapply nth_error_In; eauto).
      destruct (add_default_spec cfg prefix name vl W DSP D) as [NP HR].
      destruct (add_default_object descrs cfg prefix name vl) as [cfg'| | |]; cbn [bind]; try congruence;
        try (split; [discriminate | intros; discriminate]).
      apply IH; [lia | apply HR; reflexivity].
    + destruct (negb is_raw && String.eqb prefix "ip access-list extended")%bool; [|split; [discriminate | intros; discriminate]].
      split; [discriminate|]. intros x H. injection H as <-. exact W.
Qed.

Lemma check_mc_spec is_raw cfg m : cfg_ref cfg -> ref_ok m ->
  check_mc descrs is_raw cfg m <> Panic /\
  forall r, check_mc descrs is_raw cfg m = Ok r -> cfg_ref (fst r) /\ ref_ok (snd r).
Proof.
  intros W [RL RD]. unfold check_mc. destruct (check_refs_spec is_raw m RD (m_ref m) 0 cfg ltac:(simpl; lia) W) as [NP HR].
  destruct (check_refs descrs is_raw m 0 (m_ref m) cfg) as [[cfg' st]| | |]; cbn [bind]; try congruence; try (split; [discriminate | intros; discriminate]).
  specialize (HR _ eq_refl). cbn [fst snd] in *. destruct st; (split; [discriminate|]); intros r H; injection H as <-; cbn [fst snd].
  - split; [exact HR | split; assumption].
  - split; [exact HR|]. split; cbn [set_refs m_ref m_tref set_parsed]; [simpl; lia | exact RD].
Qed.

Lemma check_mcs_spec is_raw l : forall cfg, cfg_ref cfg -> Forall ref_ok l ->
  check_mcs descrs is_raw cfg l <> Panic /\
  forall r, check_mcs descrs is_raw cfg l = Ok r -> cfg_ref (fst r) /\ Forall ref_ok (snd r).
Proof.
  induction l as [|m r IH]; intros cfg W F; cbn [check_mcs].
  - split; [discriminate|]. intros x H. injection H as <-. split; [exact W | constructor].
  - inversion F as [|? ? Fm Fr]; subst. destruct (check_mc_spec is_raw cfg m W Fm) as [NP HR].
    destruct (check_mc descrs is_raw cfg m) as [x| | |]; cbn [bind]; try congruence; try (split; [discriminate | intros; discriminate]).
    destruct (HR x eq_refl) as [W1 R1]. destruct (IH (fst x) W1 Fr) as [NP2 HR2].
    destruct (check_mcs descrs is_raw (fst x) r) as [y| | |]; cbn [bind]; try congruence; try (split; [discriminate | intros; discriminate]).
    destruct (HR2 y eq_refl) as [W2 R2]. split; [discriminate|]. intros z H. injection H as <-. cbn [fst snd].
    split; [exact W2 | constructor; assumption].
Qed.

Lemma check_cmds_spec is_raw k l : forall n cfg, cfg_ref cfg -> Forall Qfin l ->
  check_cmds descrs is_raw k n l cfg <> Panic /\
  forall cfg', check_cmds descrs is_raw k n l cfg = Ok cfg' -> cfg_ref cfg'.
Proof.
  induction l as [|c r IH]; intros n cfg W F; cbn [check_cmds].
  - split; [discriminate|]. intros x H. injection H as <-. exact W.
  - inversion F as [|? ? [Rc Sc] Fr]; subst. destruct (check_mc_spec is_raw cfg (c_m c) W Rc) as [NP HR].
    destruct (check_mc descrs is_raw cfg (c_m c)) as [x| | |]; cbn [bind]; try congruence; try (split; [discriminate | intros; discriminate]).
    destruct (HR x eq_refl) as [W1 R1]. destruct (check_mcs_spec is_raw (c_sub c) (fst x) W1 Sc) as [NP2 HR2].
    destruct (check_mcs descrs is_raw (fst x) (c_sub c)) as [y| | |]; cbn [bind]; try congruence; try (split; [discriminate | intros; discriminate]).
    destruct (HR2 y eq_refl) as [W2 R2]. apply IH; [|exact Fr].
    destruct (cfg_get (fst y) k) as [cur|] eqn:G; [|exact W2].
    apply cfg_set_ref; [exact W2|]. apply Forall_set_nth; [eapply cfg_get_ref; eauto|]. split; [exact R1 | exact R2].
Qed.

Theorem check_references_spec is_raw cfg : cfg_ref cfg -> check_references descrs is_raw cfg <> Panic.
Proof.
  intros W. unfold check_references.
  destruct (fold_res_spec (fun cfg k => match cfg_get cfg k with Some l => check_cmds descrs is_raw k 0 l cfg | None => Ok cfg end)
              cfg_ref (sorted_keys cfg) cfg W) as [NP _]; [|exact NP].
  intros cfg0 k W0 _. destruct (cfg_get cfg0 k) as [l|] eqn:G; [|split; [discriminate|]; intros b H; injection H as <-; exact W0].
  apply check_cmds_spec; [exact W0 | eapply cfg_get_ref; eauto].
Qed.

(* ---------- ParseConfig ---------- *)
Theorem parse_config_no_panic_proved is_ios is_raw text : parse_config descrs tb is_ios is_raw text <> Panic.
Proof.
  unfold parse_config.
  assert (W0 : st_wf descrs init_state) by (split; [constructor | intros c H; discriminate]).
  destruct (parse_lines_spec descrs TOK is_raw (if is_ios then remove_banner_lines (lines_of text) None else lines_of text) init_state W0) as [NP HR].
  destruct (parse_lines descrs is_raw init_state _) as [st| | |]; cbn [bind]; try congruence; try discriminate.
  specialize (HR st eq_refl). destruct (postprocess_parsed_spec (flush st) (flush_wf descrs st HR)) as [NP2 HR2].
  destruct (postprocess_parsed tb (flush st)) as [cfg| | |]; cbn [bind]; try congruence; try discriminate.
  apply check_references_spec. apply HR2. reflexivity.
Qed.
End Post.

Theorem parse_config_total_proved descrs : tables_ok descrs = true ->
  forall tb is_ios is_raw text, parse_config descrs tb is_ios is_raw text <> Panic.
Proof.
  unfold tables_ok. rewrite !andb_true_iff. intros [[[T D1] D2] D3] tb is_ios is_raw text.
  apply parse_config_no_panic_proved; assumption.
Qed.
