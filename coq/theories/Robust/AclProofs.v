(* Robust/AclProofs.v — postprocessACLParts never panics, for every token list
   and every content of the name tables; it keeps the number of tokens and
   collects at most five references. *)
From Coq Require Import List String Ascii Bool Arith Lia.
From NA Require Import Base.Str Robust.GoStr Robust.Parse.
Import ListNotations.
Open Scope string_scope.

Definition ap_size (a : aparts) : nat := List.length (ap_pre a) + List.length (ap_rest a).

(* a step that succeeds, keeps the number of tokens and adds at most k references *)
Definition good (k : nat) (a : aparts) (r : res aparts) : Prop :=
  exists a', r = Ok a' /\ ap_size a' = ap_size a /\ List.length (ap_ref a') <= List.length (ap_ref a) + k
             /\ ap_proto a' = ap_proto a.
(* the same, the protocol may change *)
Definition good' (k : nat) (a : aparts) (r : res aparts) : Prop :=
  exists a', r = Ok a' /\ ap_size a' = ap_size a /\ List.length (ap_ref a') <= List.length (ap_ref a) + k.

Lemma good_weaken k k' a r : good k a r -> k <= k' -> good k' a r.
Proof. intros (a' & E & S & R & P) L. exists a'. repeat split; auto. lia. Qed.
Lemma good_good' k a r : good k a r -> good' k a r.
Proof. intros (a' & E & S & R & P). exists a'. auto. Qed.

Lemma good_bind k1 k2 k a r f :
  good k1 a r -> (forall a', good k2 a' (f a')) -> k1 + k2 <= k -> good k a (bind r f).
Proof.
  intros (a1 & E & S & R & P) H L. subst r. simpl.
  destruct (H a1) as (a2 & E2 & S2 & R2 & P2). exists a2. repeat split; try congruence. lia.
Qed.
Lemma good'_bind k1 k2 k a r f :
  good' k1 a r -> (forall a', good' k2 a' (f a')) -> k1 + k2 <= k -> good' k a (bind r f).
Proof.
  intros (a1 & E & S & R) H L. subst r. simpl.
  destruct (H a1) as (a2 & E2 & S2 & R2). exists a2. repeat split; try congruence. lia.
Qed.

Ltac break_if :=
  match goal with
  | |- context [if ?b then _ else _] => destruct b
  end.
Ltac finish :=
  eexists; split; [reflexivity|]; unfold ap_size; cbn [ap_pre ap_rest ap_ref ap_proto];
  repeat rewrite ?app_length, ?rev_length; cbn [List.length List.app rev firstn skipn]; repeat split; try reflexivity; try lia.
Ltac unf := unfold ap_skip, ap_adv, ap_set, ap_get, ap_len, idx, set_idx, slice_from, bind;
            cbn [ap_pre ap_rest ap_ref ap_proto List.length nth_error set_nth Nat.leb Nat.ltb Nat.eqb Nat.min skipn firstn rev List.app].

Ltac unf0 := unfold ap_get, ap_len, idx; cbn [ap_rest List.length nth_error Nat.leb Nat.ltb Nat.eqb bind].

Lemma conv_named_good m a : good 0 a (conv_named m a).
Proof.
  destruct a as [pre [|w0 rest] proto ref]; unfold conv_named, good; unf; [finish|].
  destruct (assoc w0 m); unf; finish.
Qed.

Lemma conv_named_port_good tb a : good 0 a (conv_named_port tb a).
Proof.
  unfold conv_named_port. destruct (String.eqb _ "tcp"); [apply conv_named_good|].
  destruct (String.eqb _ "udp"); [apply conv_named_good|]. destruct a; unfold good; finish.
Qed.

Lemma conv_object_group_good a : good 1 a (conv_object_group a).
Proof.
  destruct a as [pre [|w0 [|w1 rest]] proto ref]; unfold conv_object_group, good; unf; finish.
Qed.

Lemma ap_skip_good a n : good 0 a (ap_skip a n).
Proof.
  unfold ap_skip, ap_adv, slice_from, good, bind, ap_len.
  assert (H : Nat.leb (Nat.min n (List.length (ap_rest a))) (List.length (ap_rest a)) = true) by (apply Nat.leb_le; lia).
  rewrite H. eexists; split; [reflexivity|]. unfold ap_size; cbn [ap_pre ap_rest ap_ref ap_proto].
  rewrite app_length, rev_length, firstn_length, skipn_length. repeat split; lia.
Qed.

Lemma conv_proto_good tb a :
  exists a', conv_proto tb a = Ok a' /\ ap_size a' = ap_size a /\
             (List.length (ap_ref a') <= List.length (ap_ref a) \/
              (List.length (ap_ref a') <= List.length (ap_ref a) + 1 /\ ap_proto a' = ap_proto a)).
Proof.
  destruct a as [pre [|w0 rest] proto ref]; unfold conv_proto; [unf; eexists; split; [reflexivity|]; split; [reflexivity|left; apply Nat.le_refl]|].
  unf0. destruct (String.eqb w0 "object-group").
  { destruct (conv_object_group_good {| ap_pre := pre; ap_rest := w0 :: rest; ap_proto := proto; ap_ref := ref |}) as (a2 & E2 & S2 & R2 & P2).
    exists a2. split; [exact E2|]. split; [exact S2|]. right. split; assumption. }
  destruct (String.eqb w0 "object").
  { destruct (ap_skip_good {| ap_pre := pre; ap_rest := w0 :: rest; ap_proto := proto; ap_ref := ref |} 2) as (a2 & E2 & S2 & R2 & P2).
    exists a2. split; [exact E2|]. split; [exact S2|]. left. lia. }
  destruct (assoc w0 (tb_proto_non_numeric tb)); unf;
    match goal with |- context [conv_named ?m ?x] => destruct (conv_named_good m x) as (a2 & E2 & S2 & R2 & P2) end;
    exists a2; (split; [exact E2|]); unfold ap_size in *; cbn [ap_pre ap_rest ap_ref ap_proto List.length] in *; (split; [lia | left; lia]).
Qed.

Lemma conv_object_good tb a : good 1 a (conv_object tb a).
Proof.
  destruct a as [pre [|w0 rest] proto ref]; unfold conv_object; [unfold good; unf; finish|].
  unf0. destruct (String.eqb w0 "object-group"); [apply conv_object_group_good|].
  destruct (in_list w0 ["log"; "log-input"]).
  { destruct rest as [|w1 rest]; unf.
    - eapply good_weaken; [|apply Nat.le_0_1].
      match goal with |- good _ _ (conv_named ?m ?x) => destruct (conv_named_good m x) as (a2 & E2 & S2 & R2 & P2) end.
      exists a2. split; [exact E2|]. unfold ap_size in *. cbn [ap_pre ap_rest ap_ref ap_proto List.length] in *. repeat split; try lia; try congruence.
    - eapply good_weaken; [|apply Nat.le_0_1].
      destruct (assoc w1 (tb_log tb)) as [n|]; unf;
        match goal with |- context [String.eqb ?x "6"] => destruct (String.eqb x "6") end; unf;
        match goal with |- good _ _ (conv_named ?m ?x) => destruct (conv_named_good m x) as (a2 & E2 & S2 & R2 & P2) end;
        exists a2; (split; [exact E2|]); unfold ap_size in *; cbn [ap_pre ap_rest ap_ref ap_proto List.length List.app] in *;
        repeat split; try lia; try congruence. }
  destruct (in_list w0 _); [eapply good_weaken; [apply ap_skip_good|lia]|].
  destruct (in_list w0 _); [unfold good; unf; finish|].
  destruct (cut_char "/" w0) as [[ip bits]|].
  { destruct (String.eqb bits "0"); [unfold good; unf; finish|].
    destruct (String.eqb bits "128"); unfold good; unf; finish. }
  destruct rest as [|w1 rest]; unf; [unfold good; finish|].
  destruct (String.eqb w1 "0.0.0.0"); [unfold good; unf; finish|].
  destruct (String.eqb w1 "255.255.255.255"); unfold good; unf; finish.
Qed.

Lemma conv_port_or_object_good tb a : good 1 a (conv_port_or_object tb a).
Proof.
  destruct a as [pre [|w0 rest] proto ref]; unfold conv_port_or_object; [unfold good; unf; finish|].
  unf0. destruct (in_list w0 _).
  { eapply good_weaken; [|apply Nat.le_0_1]. unf.
    match goal with |- good _ _ (conv_named_port ?t ?x) => destruct (conv_named_port_good t x) as (a2 & E2 & S2 & R2 & P2) end.
    exists a2. split; [exact E2|]. unfold ap_size in *. cbn [ap_pre ap_rest ap_ref ap_proto List.length List.app] in *. repeat split; try lia; congruence. }
  destruct (String.eqb w0 "range"); [|apply conv_object_good].
  eapply good_weaken; [|apply Nat.le_0_1]. unf.
  match goal with |- good _ _ (match (conv_named_port ?t ?x) with _ => _ end) => destruct (conv_named_port_good t x) as (a2 & E2 & S2 & R2 & P2) end.
  rewrite E2.
  destruct (conv_named_port_good tb a2) as (a3 & E3 & S3 & R3 & P3).
  exists a3. split; [exact E3|]. unfold ap_size in *. cbn [ap_pre ap_rest ap_ref ap_proto List.length List.app] in *. repeat split; try lia; congruence.
Qed.

Lemma conv_icmp_good tb a : good 0 a (conv_icmp tb a).
Proof.
  destruct a as [pre [|w0 rest] proto ref]; unfold conv_icmp; [unfold good; unf; finish|].
  unf0. cbn [ap_proto]. destruct (String.eqb proto "icmp").
  { destruct (assoc w0 (tb_icmp tb)); unfold good; unf; finish. }
  destruct (String.eqb proto "icmp6"); [apply conv_named_good | unfold good; finish].
Qed.

Lemma skip_number_good a : good 0 a (skip_number a).
Proof.
  destruct a as [pre [|w0 rest] proto ref]; unfold skip_number, good; unf; [finish|].
  destruct (is_uint8 w0); unf; finish.
Qed.

Lemma good_ok a : good 0 a (Ok a).
Proof. destruct a; unfold good; finish. Qed.

(* the whole function: succeeds, keeps the number of tokens, at most five references *)
Theorem postprocess_acl_parts_total tb parts :
  exists a, postprocess_acl_parts tb parts = Ok a
            /\ List.length (ap_tokens a) = List.length parts /\ List.length (ap_ref a) <= 5.
Proof.
  unfold postprocess_acl_parts.
  set (a0 := {| ap_pre := []; ap_rest := parts; ap_proto := ""; ap_ref := [] |}).
  destruct (conv_proto_good tb a0) as (a1 & E1 & S1 & R1). rewrite E1. cbn [bind].
  destruct (conv_object_good tb a1) as (a2 & E2 & S2 & R2 & P2). rewrite E2. cbn [bind].
  assert (G3 : good' (if in_list (ap_proto a2) ["tcp"; "udp"] then 3 else 1) a2
     (if in_list (ap_proto a2) ["tcp"; "udp"]
      then do x <- conv_port_or_object tb a2; do y <- conv_port_or_object tb x; conv_port_or_object tb y
      else if in_list (ap_proto a2) ["icmp"; "icmp6"]
           then do x <- conv_object tb a2; do y <- conv_icmp tb x; skip_number y
           else conv_object tb a2)).
  { apply good_good'. destruct (in_list (ap_proto a2) ["tcp"; "udp"]).
    - apply (good_bind 1 2 3); [apply conv_port_or_object_good | | lia]. intros x.
      apply (good_bind 1 1 2); [apply conv_port_or_object_good | | lia]. intros y. apply conv_port_or_object_good.
    - destruct (in_list (ap_proto a2) ["icmp"; "icmp6"]).
      + apply (good_bind 1 0 1); [apply conv_object_good | | lia]. intros x.
        apply (good_bind 0 0 0); [apply conv_icmp_good | | lia]. intros y. apply skip_number_good.
      + apply conv_object_good. }
  destruct G3 as (a3 & E3 & S3 & R3). rewrite E3. cbn [bind].
  destruct (conv_object_good tb a3) as (a4 & E4 & S4 & R4 & P4). exists a4. split; [exact E4|].
  unfold ap_tokens, ap_size in *. rewrite app_length, rev_length. subst a0. cbn [ap_pre ap_rest ap_ref ap_proto List.length] in *. split; [lia|].
  destruct R1 as [R1 | [R1 P1]].
  - destruct (in_list (ap_proto a2) ["tcp"; "udp"]); lia.
  - rewrite P2, P1 in R3. cbn in R3. lia.
Qed.
