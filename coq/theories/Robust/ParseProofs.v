(* Robust/ParseProofs.v — ParseConfig (line loop, matching, postprocessing,
   check of references) never ends in a runtime panic: for every text, for
   every table of command descriptions that passes the boolean check
   tables_ok, and every content of the name tables. *)
From Coq Require Import List String Ascii Bool Arith ZArith Lia.
From NA Require Import Base.Str Robust.GoStr Robust.GoStrProofs Robust.Parse Robust.AclProofs.
Import ListNotations.
Open Scope string_scope.

(* ---------- conditions on the tables (decidable; checked on the generated ones) ---------- *)
Fixpoint star_last (tpl : list string) : bool :=
  match tpl with
  | [] => true
  | [_] => true
  | t :: r => (negb (String.eqb t "*") && star_last r)%bool
  end.
Definition count_ref (tpl : list string) : nat := List.length (filter (String.eqb "$REF") tpl).
Definition last_not_dq (tpl : list string) : bool := negb (String.eqb (last tpl "") dq).
Definition tinfo_ok (ti : tinfo) : bool :=
  (forallb word (ti_template ti) && star_last (ti_template ti) && last_not_dq (ti_template ti)
   && Nat.eqb (List.length (ti_ref ti)) (count_ref (ti_template ti)))%bool.
Definition no_dq (tpl : list string) : bool := forallb (fun t => negb (String.eqb t dq)) tpl.

Definition is_some_cmd (r : res (option cmd)) : bool := match r with Ok (Some _) => true | _ => false end.
Definition default_safe (descrs : list ctype) (p : string) : bool :=
  forallb (fun kv : key * list string =>
             (negb (String.eqb (fst (fst kv)) p)
              || forallb (fun arg => is_some_cmd (lookup_cmd descrs (fst (fst kv) ++ " " ++ snd (fst kv) ++ " " ++ arg))) (snd kv))%bool)
          default_objects.

Definition ctype_ok (descrs : list ctype) (d : ctype) : bool :=
  (tinfo_ok (ct_info d) && no_dq (ti_template (ct_info d)) && ends_ns (join " " (prefix_words d))
   && forallb (fun ti => (tinfo_ok ti && negb (Nat.eqb (List.length (ti_template ti)) 0))%bool) (ct_sub d)
   && forallb (default_safe descrs) (ti_ref (ct_info d))
   && forallb (fun ti => forallb (default_safe descrs) (ti_ref ti)) (ct_sub d)
   (* what the postprocessing relies on *)
   && (negb (String.eqb (ct_prefix d) "access-list")
       || (Nat.leb 3 (List.length (ti_template (ct_info d))) && Nat.eqb (List.length (ti_ref (ct_info d))) 0))
   && (negb (String.eqb (ct_prefix d) "ip access-list extended") || forallb (fun ti => Nat.leb 2 (List.length (ti_template ti))) (ct_sub d))
   && (negb (String.eqb (ct_prefix d) "aaa-server")
       || (Nat.leb 2 (List.length (ti_template (ct_info d))) && forallb (fun ti => Nat.leb 1 (List.length (ti_ref ti))) (ct_sub d))))%bool.

Definition tables_ok (descrs : list ctype) : bool :=
  (forallb (ctype_ok descrs) descrs && default_safe descrs "object-group"
   && default_safe descrs "crypto ipsec ikev1 transform-set" && default_safe descrs "crypto ipsec ikev2 ipsec-proposal")%bool.

(* ---------- matchCmd ---------- *)
Lemma list_eqb_eq a b : list_eqb a b = true -> a = b.
Proof.
  revert b; induction a as [|x a IH]; intros [|y b] H; simpl in H; try discriminate; [reflexivity|].
  apply andb_true_iff in H. destruct H as [H1 H2]. apply String.eqb_eq in H1. f_equal; auto.
Qed.

Lemma no_dq_no_panic tpl : forall args pr n s rr, no_dq tpl = true -> match_tpl tpl args pr n s rr <> MPanic.
Proof.
  induction tpl as [|tok tpl IH]; intros args pr n s rr H; simpl.
  - destruct args; discriminate.
  - simpl in H. apply andb_true_iff in H. destruct H as [Ht Hr]. destruct args as [|w rest]; [discriminate|].
    destruct (String.eqb tok "$NAME"); [apply IH, Hr|].
    destruct (String.eqb tok "$SEQ"); [destruct (parse_uint w); [apply IH, Hr | discriminate]|].
    destruct (String.eqb tok "$REF"); [apply IH, Hr|].
    destruct (String.eqb tok dq); [discriminate|].
    destruct (String.eqb tok "*"); [discriminate|].
    destruct (String.eqb tok w); [apply IH, Hr | discriminate].
Qed.

Lemma forallb_skipn {A} (f : A -> bool) l k : forallb f l = true -> forallb f (skipn k l) = true.
Proof.
  revert k; induction l as [|x r IH]; intros [|k] H; simpl in *; auto.
  apply andb_true_iff in H. destruct H. auto.
Qed.

Lemma words_no_panic tpl : forall args pr n s rr, forallb word args = true -> match_tpl tpl args pr n s rr <> MPanic.
Proof.
  induction tpl as [|tok tpl IH]; intros args pr n s rr H; simpl.
  - destruct args; discriminate.
  - destruct args as [|w rest]; [discriminate|]. pose proof H as H0. simpl in H. apply andb_true_iff in H. destruct H as [Hw Hr].
    destruct (String.eqb tok "$NAME"); [apply IH, Hr|].
    destruct (String.eqb tok "$SEQ"); [destruct (parse_uint w); [apply IH, Hr | discriminate]|].
    destruct (String.eqb tok "$REF"); [apply IH, Hr|].
    destruct (String.eqb tok dq).
    { destruct w as [|c w']; [discriminate Hw|].
      destruct (Ascii.eqb c (ascii_of_nat 34)); [|apply IH, Hr].
      destruct (find_closing _ 0); [|discriminate]. apply IH. apply forallb_skipn. first [exact H0 | exact Hr]. }
    destruct (String.eqb tok "*"); [discriminate|].
    destruct (String.eqb tok w); [apply IH, Hr | discriminate].
Qed.

Lemma dq_nonblank : nonblank dq = true. Proof. reflexivity. Qed.

(* what a successful match produces: one word of parsed per template token *)
Lemma match_tpl_yes tpl : forall args pr n s rr P n' s' rf,
  forallb word tpl = true -> star_last tpl = true ->
  (args <> [] -> ends_ns (last args "") = true) ->
  match_tpl tpl args pr n s rr = MYes P n' s' rf ->
  exists Q, P = (rev Q ++ pr)%list /\ List.length Q = List.length tpl /\ forallb nonblank Q = true
            /\ (last_not_dq tpl = true -> Q <> [] -> ends_ns (last Q "") = true)
            /\ List.length rf = List.length rr + count_ref tpl.
Proof.
  induction tpl as [|tok tpl IH]; intros args pr n s rr P n' s' rf Hw Hs Hl H; simpl in H.
  - destruct args; [|discriminate]. injection H as <- <- <- <-. exists []. repeat split; auto; unfold count_ref; simpl; lia.
  - destruct args as [|w rest]; [discriminate|].
    simpl in Hw. apply andb_true_iff in Hw. destruct Hw as [Htok Hw].
    assert (Hs' : star_last tpl = true).
    { destruct tpl; [reflexivity|]. simpl in Hs. apply andb_true_iff in Hs. apply Hs. }
    assert (Hl' : rest <> [] -> ends_ns (last rest "") = true).
    { intros NE. destruct rest; [congruence|]. apply Hl. discriminate. }
    (* common continuation: the token consumed one word and produced q *)
    assert (K : forall q rr' n1 s1 args', nonblank q = true -> (last_not_dq (tok :: tpl) = true -> tpl = [] -> ends_ns q = true) ->
                (args' <> [] -> ends_ns (last args' "") = true) ->
                List.length rr' = List.length rr + (if String.eqb "$REF" tok then 1 else 0) ->
                match_tpl tpl args' (q :: pr) n1 s1 rr' = MYes P n' s' rf ->
                exists Q, P = (rev Q ++ pr)%list /\ List.length Q = S (List.length tpl) /\ forallb nonblank Q = true
                          /\ (last_not_dq (tok :: tpl) = true -> Q <> [] -> ends_ns (last Q "") = true)
                          /\ List.length rf = List.length rr + count_ref (tok :: tpl)).
    { intros q rr' n1 s1 args' Hq Hqe Hl2 Hrr HM.
      destruct (IH _ _ _ _ _ _ _ _ _ Hw Hs' Hl2 HM) as (Q & -> & LQ & NB & EL & RL).
      exists (q :: Q). split; [simpl; rewrite <- app_assoc; reflexivity|]. split; [simpl; lia|].
      split; [simpl; rewrite Hq, NB; reflexivity|]. split.
      - intros LD _. destruct Q as [|q2 Q2].
        + simpl. apply Hqe; [exact LD|]. destruct tpl; [reflexivity | discriminate].
        + change (last (q :: q2 :: Q2) "") with (last (q2 :: Q2) ""). apply EL; [|discriminate].
          unfold last_not_dq in *. destruct tpl; [discriminate | exact LD].
      - rewrite RL, Hrr. unfold count_ref. cbn [filter]. destruct (String.eqb "$REF" tok); cbn [List.length]; lia. }
    destruct (String.eqb tok "$NAME") eqn:E1.
    { apply String.eqb_eq in E1. subst tok. refine (K "$NAME" rr w s rest _ _ Hl' _ H); [reflexivity | reflexivity | simpl; lia]. }
    destruct (String.eqb tok "$SEQ") eqn:E2.
    { apply String.eqb_eq in E2. subst tok. destruct (parse_uint w) as [num|]; [|discriminate].
      refine (K "$SEQ" rr n num rest _ _ Hl' _ H); [reflexivity | reflexivity | simpl; lia]. }
    destruct (String.eqb tok "$REF") eqn:E3.
    { apply String.eqb_eq in E3. subst tok. refine (K "$REF" (w :: rr) n s rest _ _ Hl' _ H); [reflexivity | reflexivity | simpl; lia]. }
    assert (NR : String.eqb "$REF" tok = false) by (rewrite String.eqb_sym; exact E3).
    destruct (String.eqb tok dq) eqn:E4.
    { apply String.eqb_eq in E4. subst tok. destruct w as [|c w']; [discriminate|].
      assert (ND : last_not_dq (dq :: tpl) = true -> tpl = [] -> False).
      { intros LD ->. vm_compute in LD. discriminate. }
      destruct (Ascii.eqb c (ascii_of_nat 34)) eqn:Ec.
      - destruct (find_closing (String c w' :: rest) 0) as [j|] eqn:Ef; [|discriminate].
        refine (K (join " " (firstn (S j) (String c w' :: rest))) rr n s (skipn (S j) (String c w' :: rest)) _ _ _ _ H).
        + cbn [firstn]. apply join_nonblank_hd. apply Ascii.eqb_eq in Ec. subst c. reflexivity.
        + intros LD T. destruct (ND LD T).
        + intros NE. rewrite last_skipn; [apply Hl; discriminate|].
          destruct (Nat.ltb (S j) (List.length (String c w' :: rest))) eqn:L; [apply Nat.ltb_lt in L; exact L|].
          apply Nat.ltb_ge in L. rewrite skipn_all2 in NE by exact L. congruence.
        + rewrite NR. lia.
      - refine (K (dq ++ String c w' ++ dq) rr n s rest _ _ Hl' _ H).
        + apply nonblank_app_l. reflexivity.
        + intros LD T. destruct (ND LD T).
        + rewrite NR. lia. }
    destruct (String.eqb tok "*") eqn:E5.
    { apply String.eqb_eq in E5. subst tok. injection H as <- <- <- <-.
      assert (T : tpl = []). { destruct tpl; [reflexivity|]. simpl in Hs. discriminate. }
      subst tpl. exists [join " " (w :: rest)]. split; [reflexivity|]. split; [reflexivity|].
      assert (EN : ends_ns (join " " (w :: rest)) = true) by (apply join_last_ends, Hl; discriminate).
      split; [cbn [forallb]; rewrite (ends_ns_nonblank _ EN); reflexivity|]. split; [intros; exact EN|]. unfold count_ref. cbn [filter].
      destruct (String.eqb "$REF" "*") eqn:X; [vm_compute in X; discriminate|]. cbn [List.length]. lia. }
    destruct (String.eqb tok w) eqn:E6; [|discriminate].
    apply String.eqb_eq in E6. subst w. refine (K tok rr n s rest _ _ Hl' _ H).
    + apply word_nonblank, Htok.
    + intros _ _. apply word_ends_ns, Htok.
    + rewrite NR. lia.
Qed.

(* ---------- well-formed commands ---------- *)
Definition mc_wf (ti : tinfo) (pfx : nat) (m : mc) : Prop :=
  exists L, m_parsed m = join " " L /\ forallb nonblank L = true
            /\ List.length L = pfx + List.length (ti_template ti)
            /\ ends_ns (m_parsed m) = true /\ m_tref m = ti_ref ti
            /\ List.length (m_ref m) = List.length (ti_ref ti).

Lemma tinfo_ok_parts ti : tinfo_ok ti = true ->
  forallb word (ti_template ti) = true /\ star_last (ti_template ti) = true /\ last_not_dq (ti_template ti) = true
  /\ List.length (ti_ref ti) = count_ref (ti_template ti).
Proof.
  unfold tinfo_ok. intros H. repeat (apply andb_true_iff in H; destruct H as [H ?]).
  repeat split; auto. apply Nat.eqb_eq. assumption.
Qed.

Lemma match_cmd_from_panic i prefix words l :
  (forallb (fun ti => no_dq (ti_template ti)) l = true \/ forallb word words = true) ->
  match_cmd_from i prefix words l <> Panic.
Proof.
  revert i. induction l as [|ti r IH]; intros i H; simpl; [discriminate|].
  destruct (match_tpl (ti_template ti) words [] "" 0%Z []) eqn:E.
  - apply IH. destruct H as [H|H]; [left; simpl in H; apply andb_true_iff in H; apply H | right; exact H].
  - discriminate.
  - exfalso. destruct H as [H|H].
    + simpl in H. apply andb_true_iff in H. destruct H as [H _]. eapply no_dq_no_panic; eauto.
    + eapply words_no_panic; eauto.
  - destruct (ti_ignore ti); discriminate.
Qed.

Lemma match_cmd_from_wf i prefix words l k m :
  forallb tinfo_ok l = true ->
  (words <> [] -> ends_ns (last words "") = true) ->
  (prefix = "" \/ ends_ns prefix = true) ->
  (prefix = "" -> forallb (fun ti => negb (Nat.eqb (List.length (ti_template ti)) 0)) l = true) ->
  match_cmd_from i prefix words l = Ok (Some (k, m)) ->
  exists ti, nth_error l (k - i) = Some ti /\ i <= k /\ mc_wf ti (if String.eqb prefix "" then 0 else 1) m.
Proof.
  revert i. induction l as [|ti r IH]; intros i Hok Hl Hp Hne H; simpl in H; [discriminate|].
  simpl in Hok. apply andb_true_iff in Hok. destruct Hok as [Hti Hok].
  assert (Hne' : prefix = "" -> forallb (fun ti => negb (Nat.eqb (List.length (ti_template ti)) 0)) r = true).
  { intros E. specialize (Hne E). simpl in Hne. apply andb_true_iff in Hne. apply Hne. }
  destruct (match_tpl (ti_template ti) words [] "" 0%Z []) as [| | |P n s rf] eqn:E; try discriminate.
  - destruct (IH (S i) Hok Hl Hp Hne' H) as (ti' & N & L & W). exists ti'. split; [|split; [lia | exact W]].
    replace (k - i) with (S (k - S i)) by lia. exact N.
  - destruct (ti_ignore ti); [discriminate|]. injection H as <- <-.
    exists ti. split; [rewrite Nat.sub_diag; reflexivity|]. split; [lia|].
    destruct (tinfo_ok_parts ti Hti) as (Hw & Hs & Hd & Hr).
    destruct (match_tpl_yes _ _ _ _ _ _ _ _ _ _ Hw Hs Hl E) as (Q & -> & LQ & NB & EL & RL).
    rewrite app_nil_r. unfold mc_wf, mk_mc. cbn [m_parsed m_tref m_ref]. rewrite rev_involutive, rev_length.
    destruct (String.eqb prefix "") eqn:Ep.
    + apply String.eqb_eq in Ep. exists Q. split; [reflexivity|]. split; [exact NB|]. split; [lia|].
      split; [|split; [reflexivity | simpl in RL; lia]].
      apply join_last_ends. apply EL; [exact Hd|]. specialize (Hne Ep). simpl in Hne. apply andb_true_iff in Hne.
      destruct Hne as [Hne _]. destruct Q; [simpl in LQ; rewrite <- LQ in Hne; discriminate | discriminate].
    + destruct Hp as [Hp|Hp]; [subst prefix; discriminate|].
      exists (prefix :: Q). split; [reflexivity|]. split; [simpl; rewrite (ends_ns_nonblank _ Hp), NB; reflexivity|].
      split; [simpl; lia|]. split; [|split; [reflexivity | simpl in RL; lia]].
      apply join_last_ends. destruct Q as [|q Q']; [exact Hp|].
      change (last (prefix :: q :: Q') "") with (last (q :: Q') ""). apply EL; [exact Hd | discriminate].
Qed.

Definition sub_wf (d : ctype) (s : mc) : Prop := exists ti, In ti (ct_sub d) /\ mc_wf ti 0 s.
Definition cmd_wf (descrs : list ctype) (c : cmd) : Prop :=
  exists d, In d descrs /\ c_prefix c = ct_prefix d /\ mc_wf (ct_info d) 1 (c_m c)
            /\ c_subtypes c = ct_sub d /\ Forall (sub_wf d) (c_sub c).

Lemma mc_wf_append ti p m a : mc_wf ti p m -> mc_wf ti p (set_append m a).
Proof. intros (L & H). exists L. exact H. Qed.

Lemma nth_error_map_inv {A B} (f : A -> B) l k y :
  nth_error (map f l) k = Some y -> exists x, nth_error l k = Some x /\ f x = y.
Proof.
  revert k; induction l as [|x r IH]; intros [|k] H; simpl in H; try discriminate.
  - injection H as <-. exists x. auto.
  - apply IH, H.
Qed.

Section WithTables.
Variable descrs : list ctype.
Hypothesis TOK : forallb (ctype_ok descrs) descrs = true.

Lemma ctype_ok_in d : In d descrs -> ctype_ok descrs d = true.
Proof. intros H. rewrite forallb_forall in TOK. apply TOK, H. Qed.

Lemma ctype_ok_parts d : In d descrs ->
  tinfo_ok (ct_info d) = true /\ no_dq (ti_template (ct_info d)) = true /\ ends_ns (join " " (prefix_words d)) = true
  /\ forallb (fun ti => (tinfo_ok ti && negb (Nat.eqb (List.length (ti_template ti)) 0))%bool) (ct_sub d) = true
  /\ forallb (default_safe descrs) (ti_ref (ct_info d)) = true
  /\ forallb (fun ti => forallb (default_safe descrs) (ti_ref ti)) (ct_sub d) = true
  /\ (negb (String.eqb (ct_prefix d) "access-list")
       || (Nat.leb 3 (List.length (ti_template (ct_info d))) && Nat.eqb (List.length (ti_ref (ct_info d))) 0))%bool = true
  /\ (negb (String.eqb (ct_prefix d) "ip access-list extended") || forallb (fun ti => Nat.leb 2 (List.length (ti_template ti))) (ct_sub d))%bool = true
  /\ (negb (String.eqb (ct_prefix d) "aaa-server")
       || (Nat.leb 2 (List.length (ti_template (ct_info d))) && forallb (fun ti => Nat.leb 1 (List.length (ti_ref ti))) (ct_sub d)))%bool = true.
Proof.
  intros H. pose proof (ctype_ok_in d H) as K. unfold ctype_ok in K. rewrite !andb_true_iff in K. tauto.
Qed.

Lemma lookup_walk_spec words : (words <> [] -> ends_ns (last words "") = true) ->
  forall fuel i,
  lookup_walk descrs words i fuel <> Panic /\
  (forall d m, lookup_walk descrs words i fuel = Ok (Some (d, m)) -> In d descrs /\ mc_wf (ct_info d) 1 m).
Proof.
  intros Hl. induction fuel as [|fuel IH]; intros i; cbn [lookup_walk]; [split; [discriminate | intros; discriminate]|].
  set (path := firstn (S i) words).
  destruct (filter (fun d => list_eqb (prefix_words d) path) descrs) as [|d0 l'] eqn:F.
  - destruct (existsb _ descrs); [apply IH | split; [discriminate | intros; discriminate]].
  - assert (IN : forall d, In d (d0 :: l') -> In d descrs /\ prefix_words d = path).
    { intros d H. rewrite <- F in H. apply filter_In in H. destruct H as [H1 H2]. split; [exact H1 | apply list_eqb_eq, H2]. }
    assert (OKL : forallb tinfo_ok (map ct_info (d0 :: l')) = true /\ forallb (fun ti => no_dq (ti_template ti)) (map ct_info (d0 :: l')) = true).
    { split; apply forallb_forall; intros ti H; apply in_map_iff in H; destruct H as (d & <- & H);
        destruct (IN d H) as [H1 _]; destruct (ctype_ok_parts d H1) as (K1 & K2 & _); assumption. }
    destruct OKL as [OK1 OK2].
    assert (PE : ends_ns (join " " path) = true).
    { destruct (IN d0 (or_introl eq_refl)) as [H1 H2]. rewrite <- H2.
      destruct (ctype_ok_parts d0 H1) as (_ & _ & K3 & _). exact K3. }
    assert (HL2 : skipn (S i) words <> [] -> ends_ns (last (skipn (S i) words) "") = true).
    { intros NE. rewrite last_skipn.
      - apply Hl. intros ->. destruct i; discriminate.
      - destruct (Nat.ltb (S i) (List.length words)) eqn:L; [apply Nat.ltb_lt in L; exact L|].
        apply Nat.ltb_ge in L. rewrite skipn_all2 in NE by exact L. congruence. }
    unfold match_cmd.
    pose proof (match_cmd_from_panic 0 (join " " path) (skipn (S i) words) (map ct_info (d0 :: l')) (or_introl OK2)) as NP.
    destruct (match_cmd_from 0 (join " " path) (skipn (S i) words) (map ct_info (d0 :: l'))) as [[[k m]|]| | |] eqn:E;
      cbn [bind]; try (split; [discriminate | intros; discriminate]); [|congruence].
    assert (PNE : join " " path = "" -> False) by (intros X; rewrite X in PE; discriminate).
    destruct (match_cmd_from_wf 0 _ _ _ _ _ OK1 HL2 (or_intror PE) (fun X => False_rect _ (PNE X)) E) as (ti & N & _ & W).
    rewrite Nat.sub_0_r in N. destruct (nth_error_map_inv _ _ _ _ N) as (d & Nd & <-). rewrite Nd.
    split; [discriminate|]. intros d' m' H. injection H as <- <-.
    split; [apply (IN d), (nth_error_In _ _ Nd)|].
    destruct (String.eqb (join " " path) "") eqn:X; [apply String.eqb_eq in X; destruct (PNE X) | exact W].
Qed.

Lemma lookup_cmd_spec line : ends_ns line = true ->
  lookup_cmd descrs line <> Panic /\ (forall c, lookup_cmd descrs line = Ok (Some c) -> cmd_wf descrs c /\ c_sub c = []).
Proof.
  intros E. unfold lookup_cmd.
  assert (Hl : split_char " " line <> [] -> ends_ns (last (split_char " " line) "") = true) by (intros _; apply split_last_ends, E).
  destruct (lookup_walk_spec _ Hl (List.length (split_char " " line)) 0) as [NP W].
  destruct (lookup_walk descrs (split_char " " line) 0 _) as [[[d m]|]| | |]; cbn [bind]; try congruence;
    try (split; [discriminate | intros; discriminate]).
  split; [discriminate|]. intros c H. injection H as <-. destruct (W d m eq_refl) as [I WF].
  split; [|reflexivity]. exists d. split; [exact I|]. split; [reflexivity|]. split; [exact WF|]. split; [reflexivity | constructor].
Qed.

(* ---------- the line loop ---------- *)
Definition entry_wf (kv : key * list cmd) : Prop :=
  snd kv <> [] /\ Forall (fun c => cmd_wf descrs c /\ c_prefix c = fst (fst kv)) (snd kv).
Definition cfg_wf (cfg : config) : Prop := Forall entry_wf cfg.
Definition st_wf (st : pstate) : Prop :=
  cfg_wf (ps_cfg st) /\ (forall c, ps_cur st = Some c -> cmd_wf descrs c).

Lemma key_eqb_eq a b : key_eqb a b = true -> a = b.
Proof.
  destruct a, b. unfold key_eqb. simpl. intros H. apply andb_true_iff in H. destruct H as [H1 H2].
  apply String.eqb_eq in H1, H2. congruence.
Qed.
Lemma cfg_get_wf cfg k l : cfg_wf cfg -> cfg_get cfg k = Some l -> entry_wf (k, l).
Proof.
  induction cfg as [|[k' v] r IH]; simpl; intros W H; [discriminate|].
  inversion W as [|? ? W1 W2]; subst. destruct (key_eqb k k') eqn:E; [|apply IH; assumption].
  injection H as <-. apply key_eqb_eq in E. subst k'. exact W1.
Qed.
Lemma cfg_set_wf cfg k l : cfg_wf cfg -> entry_wf (k, l) -> cfg_wf (cfg_set cfg k l).
Proof.
  induction cfg as [|[k' v] r IH]; simpl; intros W H; [constructor; [exact H | constructor]|].
  inversion W as [|? ? W1 W2]; subst. destruct (key_eqb k k'); constructor; auto. apply IH; assumption.
Qed.
Lemma cfg_add_wf cfg c : cfg_wf cfg -> cmd_wf descrs c -> cfg_wf (cfg_add cfg c).
Proof.
  intros W H. unfold cfg_add. apply cfg_set_wf; [exact W|].
  destruct (cfg_get cfg _) eqn:E.
  - destruct (cfg_get_wf _ _ _ W E) as [NE F]. split; cbn [snd fst] in *; [destruct l; discriminate|].
    apply Forall_app. split; [exact F | constructor; [split; [exact H | reflexivity] | constructor]].
  - split; cbn [snd fst]; [discriminate | constructor; [split; [exact H | reflexivity] | constructor]].
Qed.
Lemma flush_wf st : st_wf st -> cfg_wf (flush st).
Proof. intros [W C]. unfold flush. destruct (ps_cur st); [apply cfg_add_wf; auto | exact W]. Qed.

Lemma no_space_rev_aux s acc : no_space (rev_str_aux s acc) = (no_space s && no_space acc)%bool.
Proof.
  revert acc; induction s as [|c r IH]; intros acc; simpl; [reflexivity|]. rewrite IH. simpl.
  destruct (is_space c), (no_space r), (no_space acc); reflexivity.
Qed.
Lemma word_rev_str x cur : no_space (String x cur) = true -> word (rev_str (String x cur)) = true.
Proof.
  intros H. unfold word. unfold rev_str at 1. rewrite no_space_rev_aux, H. cbn [andb no_space].
  destruct (rev_str (String x cur)) eqn:E; [exfalso; eapply rev_str_cons_nonempty; exact E | reflexivity].
Qed.
Lemma fields_aux_words cur s : no_space cur = true -> forallb word (fields_aux cur s) = true.
Proof.
  revert cur; induction s as [|c r IH]; intros cur H; cbn [fields_aux].
  - destruct cur as [|x cur']; [reflexivity|]. cbn [forallb]. rewrite (word_rev_str _ _ H). reflexivity.
  - destruct (is_space c) eqn:Ec.
    + destruct cur as [|x cur']; [apply IH; reflexivity|]. cbn [forallb]. rewrite (word_rev_str _ _ H), (IH "" eq_refl). reflexivity.
    + apply IH. cbn [no_space]. rewrite Ec, H. reflexivity.
Qed.
Lemma fields_words s : forallb word (fields s) = true.
Proof. apply fields_aux_words. reflexivity. Qed.
Lemma forallb_last {A} (f : A -> bool) l d : forallb f l = true -> l <> [] -> f (last l d) = true.
Proof.
  induction l as [|x r IH]; [congruence|]. intros H _. simpl in H. apply andb_true_iff in H. destruct H as [Hx Hr].
  destruct r; [exact Hx | apply IH; [exact Hr | discriminate]].
Qed.

Lemma parse_line_spec is_raw st raw_line : st_wf st ->
  parse_line descrs is_raw st raw_line <> Panic /\
  (forall st', parse_line descrs is_raw st raw_line = Ok st' -> st_wf st').
Proof.
  intros WF. pose proof WF as [WC WP]. unfold parse_line.
  destruct (trim_right_space raw_line) as [|c0 rest] eqn:T; [split; [discriminate | intros st' H; injection H as <-; exact WF]|].
  assert (EN : ends_ns (String c0 rest) = true) by (rewrite <- T; apply trim_right_ends; rewrite T; discriminate).
  set (line := String c0 rest) in *.
  destruct (Ascii.eqb c0 "!"); [split; [discriminate | intros st' H; injection H as <-; exact WF]|].
  destruct (String.eqb line "[APPEND]"); [split; [discriminate | intros st' H; injection H as <-; exact WF]|].
  destruct (negb (Ascii.eqb c0 " ")) eqn:TOP.
  - destruct (lookup_cmd_spec line EN) as [NP W].
    destruct (lookup_cmd descrs line) as [[c|]| | |] eqn:L; cbn [bind]; try congruence; try (split; [discriminate | intros; discriminate]).
    + split; [discriminate|]. intros st' H. injection H as <-. split; cbn [ps_cfg ps_cur]; [apply flush_wf, WF|].
      intros c' H. injection H as <-. destruct (W c eq_refl) as [(d & I & P & M & S & F) SE].
      exists d. split; [exact I|]. split; [exact P|]. split; [apply mc_wf_append, M|]. split; [exact S | exact F].
    + destruct is_raw; (split; [discriminate|]); intros st' H; [discriminate|]. injection H as <-.
      split; cbn [ps_cfg ps_cur]; [apply flush_wf, WF | intros; discriminate].
  - destruct (ps_cur st) as [prev|] eqn:CUR; [|split; [discriminate | intros st' H; injection H as <-; exact WF]].
    destruct (index_non_blank_ends line EN) as (gi & GI & GL). rewrite GI.
    destruct (negb (ps_first st) && Nat.ltb gi (ps_indent st))%bool eqn:BAD; [split; [discriminate | intros; discriminate]|].
    set (indent := if ps_first st then gi else ps_indent st).
    assert (IL : indent <= gi).
    { unfold indent. destruct (ps_first st); [lia|]. simpl in BAD. apply Nat.ltb_ge in BAD. exact BAD. }
    destruct (Nat.ltb (String.length line) indent) eqn:LT; [apply Nat.ltb_lt in LT; lia|].
    pose proof (drop_le_nonempty line gi indent GI IL) as DNE.
    destruct (drop indent line) as [|c1 r1] eqn:D; [congruence|]. cbn [str_idx0 bind].
    destruct (Ascii.eqb c1 " ").
    { split; [discriminate|]. intros st' H. injection H as <-. split; cbn [ps_cfg ps_cur]; [exact WC | first [exact WP | rewrite CUR; exact WP]]. }
    destruct (WP prev eq_refl) as (d & I & P & M & S & F).
    destruct (ctype_ok_parts d I) as (_ & _ & _ & KS & _).
    assert (SOK : forallb tinfo_ok (c_subtypes prev) = true /\
                  forallb (fun ti => negb (Nat.eqb (List.length (ti_template ti)) 0)) (c_subtypes prev) = true).
    { rewrite S. split; apply forallb_forall; intros ti H; rewrite forallb_forall in KS; specialize (KS ti H);
        apply andb_true_iff in KS; apply KS. }
    destruct SOK as [SOK1 SOK2].
    pose proof (fields_words (String c1 r1)) as FW.
    pose proof (match_cmd_from_panic 0 "" (fields (String c1 r1)) (c_subtypes prev) (or_intror FW)) as NP.
    unfold match_cmd.
    destruct (match_cmd_from 0 "" (fields (String c1 r1)) (c_subtypes prev)) as [[[k m]|]| | |] eqn:E; cbn [bind]; try congruence;
      try (split; [discriminate | intros; discriminate]).
    + split; [discriminate|]. intros st' H. injection H as <-. split; cbn [ps_cfg ps_cur]; [exact WC|].
      intros c' H. injection H as <-.
      assert (HL : fields (String c1 r1) <> [] -> ends_ns (last (fields (String c1 r1)) "") = true).
      { intros NE. apply word_ends_ns. apply forallb_last; assumption. }
      destruct (match_cmd_from_wf 0 "" _ _ _ _ SOK1 HL (or_introl eq_refl) (fun _ => SOK2) E) as (ti & N & _ & W).
      exists d. split; [exact I|]. split; [exact P|]. split; [exact M|]. split; [exact S|]. cbn [c_sub set_sub]. apply Forall_app. split; [exact F|]. constructor; [|constructor].
      exists ti. split; [rewrite <- S; eapply nth_error_In; eauto | apply mc_wf_append, W].
    + split; [discriminate|]. intros st' H. injection H as <-. split; cbn [ps_cfg ps_cur]; [exact WC | first [exact WP | rewrite CUR; exact WP]].
Qed.

Lemma parse_lines_spec is_raw ls : forall st, st_wf st ->
  parse_lines descrs is_raw st ls <> Panic /\
  (forall st', parse_lines descrs is_raw st ls = Ok st' -> st_wf st').
Proof.
  induction ls as [|l r IH]; intros st WF; simpl; [split; [discriminate | intros st' H; injection H as <-; exact WF]|].
  destruct (parse_line_spec is_raw st l WF) as [NP W].
  destruct (parse_line descrs is_raw st l) as [st1| | |]; cbn [bind]; try congruence; try (split; [discriminate | intros; discriminate]).
  apply IH, W. reflexivity.
Qed.
End WithTables.
