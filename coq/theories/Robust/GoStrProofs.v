(* Robust/GoStrProofs.v — facts about strings.Fields, Split, Join, Cut and
   TrimRight that the no-panic proofs need. *)
From Coq Require Import List String Ascii Bool Arith Lia.
From NA Require Import Base.Str Robust.GoStr.
Import ListNotations.
Open Scope string_scope.

Fixpoint nonblank (s : string) : bool :=
  match s with EmptyString => false | String c r => (negb (is_space c) || nonblank r)%bool end.
(* the last character exists and is no white space *)
Fixpoint ends_ns (s : string) : bool :=
  match s with
  | EmptyString => false
  | String c EmptyString => negb (is_space c)
  | String _ r => ends_ns r
  end.
(* no white space at all, not empty *)
Fixpoint no_space (s : string) : bool :=
  match s with EmptyString => true | String c r => (negb (is_space c) && no_space r)%bool end.
Definition word (s : string) : bool := (no_space s && negb (String.eqb s ""))%bool.

Lemma ends_ns_nonblank s : ends_ns s = true -> nonblank s = true.
Proof.
  induction s as [|c r IH]; simpl; [discriminate|]. destruct r as [|c' r'].
  - intros ->. reflexivity.
  - intros H. rewrite (IH H). apply orb_true_r.
Qed.
Lemma word_ends_ns s : word s = true -> ends_ns s = true.
Proof.
  unfold word. induction s as [|c r IH]; simpl; [discriminate|].
  intros H. apply andb_true_iff in H. destruct H as [H _]. apply andb_true_iff in H. destruct H as [Hc Hr].
  destruct r as [|c' r']; [exact Hc|]. apply IH. rewrite Hr. reflexivity.
Qed.
Lemma word_nonblank s : word s = true -> nonblank s = true.
Proof. intros H. apply ends_ns_nonblank, word_ends_ns, H. Qed.

Lemma ends_ns_app a b : b <> "" -> ends_ns (a ++ b) = ends_ns b.
Proof.
  intros Hb. induction a as [|c r IH]; simpl; [reflexivity|].
  destruct (r ++ b) eqn:E; [destruct r; [simpl in E; congruence | discriminate]|]. exact IH.
Qed.
Lemma nonblank_app_l a b : nonblank a = true -> nonblank (a ++ b) = true.
Proof. induction a as [|c r IH]; simpl; [discriminate|]. destruct (is_space c); simpl; auto. Qed.
Lemma nonblank_app_r a b : nonblank b = true -> nonblank (a ++ b) = true.
Proof. intros H. induction a as [|c r IH]; simpl; [exact H|]. rewrite IH. apply orb_true_r. Qed.

(* ---- rev_str ---- *)
Lemma rev_str_aux_nonempty s acc : acc <> "" -> rev_str_aux s acc <> "".
Proof. revert acc; induction s as [|c r IH]; simpl; intros acc H; [exact H|]. apply IH. discriminate. Qed.
Lemma rev_str_cons_nonempty c s : rev_str (String c s) <> "".
Proof. unfold rev_str. simpl. apply rev_str_aux_nonempty. discriminate. Qed.

(* ---- strings.Fields ---- *)
Lemma fields_aux_app_space cur a c b :
  is_space c = true -> fields_aux cur (a ++ String c b) = (fields_aux cur a ++ fields b)%list.
Proof.
  intros Hc. revert cur. induction a as [|x a IH]; intros cur; simpl.
  - rewrite Hc. destruct cur; reflexivity.
  - destruct (is_space x).
    + destruct cur; rewrite IH; reflexivity.
    + apply IH.
Qed.
Lemma fields_app_space a b : fields (a ++ " " ++ b) = (fields a ++ fields b)%list.
Proof. unfold fields. simpl. apply fields_aux_app_space. reflexivity. Qed.

Lemma fields_join l : fields (join " " l) = flat_map fields l.
Proof.
  induction l as [|x r IH]; [reflexivity|]. destruct r as [|y r].
  - simpl. rewrite app_nil_r. reflexivity.
  - change (join " " (x :: y :: r)) with (x ++ " " ++ join " " (y :: r)).
    rewrite fields_app_space, IH. reflexivity.
Qed.

Lemma fields_aux_nonempty cur s : (cur <> "" \/ nonblank s = true) -> fields_aux cur s <> [].
Proof.
  revert cur. induction s as [|c r IH]; intros cur H; simpl.
  - destruct H as [H|H]; [|discriminate]. destruct cur; [congruence | discriminate].
  - destruct (is_space c) eqn:E.
    + destruct cur; [|discriminate]. apply IH. right. destruct H as [H|H]; [congruence|]. simpl in H. rewrite E in H. exact H.
    + apply IH. left. discriminate.
Qed.
Lemma fields_nonblank s : nonblank s = true -> fields s <> [].
Proof. intros H. apply fields_aux_nonempty. right. exact H. Qed.

Lemma fields_aux_elem cur s w : In w (fields_aux cur s) -> w <> "".
Proof.
  revert cur. induction s as [|c r IH]; intros cur H; simpl in H.
  - destruct cur; [destruct H|]. destruct H as [<-|[]]. apply rev_str_cons_nonempty.
  - destruct (is_space c).
    + destruct cur; [apply (IH _ H)|]. destruct H as [<-|H]; [apply rev_str_cons_nonempty | apply (IH _ H)].
    + apply (IH _ H).
Qed.
Lemma fields_elem s w : In w (fields s) -> w <> "".
Proof. apply fields_aux_elem. Qed.

Lemma flat_map_fields_length l : forallb nonblank l = true -> List.length l <= List.length (flat_map fields l).
Proof.
  induction l as [|x r IH]; simpl; [lia|]. intros H. apply andb_true_iff in H. destruct H as [Hx Hr].
  rewrite app_length. specialize (IH Hr). pose proof (fields_nonblank x Hx). destruct (fields x); [congruence|]. simpl. lia.
Qed.
Lemma fields_join_length l : forallb nonblank l = true -> List.length l <= List.length (fields (join " " l)).
Proof. intros H. rewrite fields_join. apply flat_map_fields_length, H. Qed.

(* ---- TrimRight, IndexFunc ---- *)
Lemma trim_right_ends s : trim_right_space s <> "" -> ends_ns (trim_right_space s) = true.
Proof.
  induction s as [|c r IH]; simpl; [congruence|].
  destruct (trim_right_space r) as [|c' t] eqn:E.
  - destruct (is_space c) eqn:Ec; [congruence|]. intros _. simpl. rewrite Ec. reflexivity.
  - intros _. change (ends_ns (String c (String c' t))) with (ends_ns (String c' t)). apply IH. discriminate.
Qed.

Lemma space_is_space : is_space " " = true.
Proof. reflexivity. Qed.
Lemma eqb_space_is_space c : Ascii.eqb c " " = true -> is_space c = true.
Proof. intros H. apply Ascii.eqb_eq in H. subst c. reflexivity. Qed.

Lemma index_non_blank_ends s : ends_ns s = true -> exists gi, index_non_blank s = Some gi /\ gi < String.length s.
Proof.
  induction s as [|c r IH]; simpl; [discriminate|]. intros H.
  destruct (Ascii.eqb c " ") eqn:E.
  - destruct r as [|c' r']; [apply eqb_space_is_space in E; rewrite E in H; discriminate|].
    destruct (IH H) as (gi & -> & L). exists (S gi). split; [reflexivity | simpl in *; lia].
  - exists 0. split; [reflexivity | lia].
Qed.

(* the character at the indentation is no blank *)
Lemma index_non_blank_drop s gi : index_non_blank s = Some gi ->
  exists c r, drop gi s = String c r /\ Ascii.eqb c " " = false.
Proof.
  revert gi. induction s as [|c r IH]; simpl; intros gi H; [discriminate|].
  destruct (Ascii.eqb c " ") eqn:E.
  - destruct (index_non_blank r) as [g|]; [|discriminate]. injection H as <-. simpl. apply IH. reflexivity.
  - injection H as <-. simpl. eauto.
Qed.
Lemma drop_le_nonempty s gi k : index_non_blank s = Some gi -> k <= gi -> drop k s <> "".
Proof.
  revert gi k. induction s as [|c r IH]; simpl; intros gi k H L; [discriminate|].
  destruct k as [|k]; [discriminate|]. simpl.
  destruct (Ascii.eqb c " "); [|injection H as <-; lia].
  destruct (index_non_blank r) as [g|] eqn:E; [|discriminate]. injection H as <-. apply (IH g); [reflexivity | lia].
Qed.
Lemma drop_ends s k : drop k s <> "" -> ends_ns (drop k s) = ends_ns s.
Proof.
  revert k. induction s as [|c r IH]; intros k H; [destruct k; reflexivity|].
  destruct k as [|k]; [reflexivity|]. simpl drop in *. rewrite (IH k H).
  destruct r; [destruct k; simpl in H; congruence | reflexivity].
Qed.

(* ---- strings.Split(s, " ") ---- *)
Lemma split_char_nonempty c s : split_char c s <> [].
Proof. induction s as [|x r IH]; simpl; [discriminate|]. destruct (Ascii.eqb x c); [discriminate|]. destruct (split_char c r); discriminate. Qed.

Lemma split_last_ends s : ends_ns s = true -> ends_ns (last (split_char " " s) "") = true.
Proof.
  induction s as [|x r IH]; simpl; [discriminate|]. intros H.
  destruct r as [|y r'].
  - simpl. destruct (Ascii.eqb x " ") eqn:E; [apply eqb_space_is_space in E; rewrite E in H; discriminate|]. simpl. exact H.
  - specialize (IH H). destruct (Ascii.eqb x " ").
    + pose proof (split_char_nonempty " " (String y r')) as NE. destruct (split_char " " (String y r')) eqn:E; [congruence|]. exact IH.
    + destruct (split_char " " (String y r')) as [|h t] eqn:E; [exfalso; eapply split_char_nonempty; eauto|].
      destruct t as [|h2 t2].
      * simpl in *. destruct h; [discriminate|]. exact IH.
      * exact IH.
Qed.

(* ---- Join ---- *)
Lemma join_cons2 x y r : join " " (x :: y :: r) = x ++ " " ++ join " " (y :: r).
Proof. reflexivity. Qed.
Lemma ends_ns_cons c s : s <> "" -> ends_ns (String c s) = ends_ns s.
Proof. destruct s; [congruence | reflexivity]. Qed.
Lemma join_last_ends l : ends_ns (last l "") = true -> ends_ns (join " " l) = true.
Proof.
  induction l as [|x r IH]; [discriminate|]. destruct r as [|y r]; [simpl; auto|].
  intros H. rewrite join_cons2.
  assert (J : ends_ns (join " " (y :: r)) = true) by (apply IH; exact H).
  assert (NE : join " " (y :: r) <> "") by (intros E; rewrite E in J; discriminate).
  rewrite ends_ns_app by (simpl; discriminate).
  change (" " ++ join " " (y :: r)) with (String " " (join " " (y :: r))). rewrite ends_ns_cons by exact NE. exact J.
Qed.
Lemma join_nonblank_hd x r : nonblank x = true -> nonblank (join " " (x :: r)) = true.
Proof. intros H. destruct r; [exact H|]. rewrite join_cons2. apply nonblank_app_l, H. Qed.

Lemma last_skipn {A} (l : list A) k d : k < List.length l -> last (skipn k l) d = last l d.
Proof.
  revert k. induction l as [|x r IH]; intros k H; [simpl in H; lia|].
  destruct k as [|k]; [reflexivity|]. simpl skipn. simpl in H. rewrite IH by lia.
  destruct r; [simpl in H; lia | reflexivity].
Qed.

(* ---- HasPrefix, Cut ---- *)
Lemma prefix_split p s : String.prefix p s = true -> s = p ++ drop (String.length p) s.
Proof.
  revert s. induction p as [|c p IH]; intros s H; [reflexivity|].
  destruct s as [|c' s]; [discriminate|]. simpl in H.
  destruct (ascii_dec c c') as [->|]; [|discriminate]. simpl. f_equal. apply IH, H.
Qed.
Lemma cut_str_spec sep s b a : cut_str sep s = Some (b, a) -> s = b ++ sep ++ a.
Proof.
  revert b a. induction s as [|c r IH]; intros b a H.
  - destruct sep; simpl in H; [|discriminate]. injection H as <- <-. reflexivity.
  - cbn [cut_str] in H. unfold has_prefix in H. destruct (String.prefix sep (String c r)) eqn:E.
    + injection H as <- <-. apply prefix_split in E. exact E.
    + destruct (cut_str sep r) as [[b' a']|]; [|discriminate]. injection H as <- <-. simpl. f_equal. apply IH. reflexivity.
Qed.
Lemma append_assoc (a b c : string) : (a ++ b) ++ c = a ++ (b ++ c).
Proof. induction a; simpl; congruence. Qed.
Lemma cut_rest_ends sep s b a :
  cut_str sep s = Some (b, a) -> ends_ns s = true -> ends_ns sep = false -> sep <> "" -> ends_ns a = true.
Proof.
  intros H Hs Hsep Hne. apply cut_str_spec in H. subst s.
  destruct a as [|c a'].
  - exfalso. rewrite ends_ns_app in Hs.
    + assert (E : sep ++ "" = sep) by (clear; induction sep; simpl; congruence). rewrite E in Hs. congruence.
    + destruct sep; [congruence | discriminate].
  - rewrite <- append_assoc in Hs. rewrite ends_ns_app in Hs by discriminate. exact Hs.
Qed.
