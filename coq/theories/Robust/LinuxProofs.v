(* Robust/LinuxProofs.v — the Linux parser never ends in a runtime panic. *)
From Coq Require Import List String Ascii Bool Arith Lia.
From NA Require Import Base.Str Robust.GoStr Robust.GoStrProofs Robust.LinuxParse.
Import ListNotations.
Open Scope string_scope.

Definition nonempty_words (ws : list string) : Prop := forall w, In w ws -> w <> "".

Lemma idx_lt {A} (l : list A) i : i < List.length l -> exists x, idx l i = Ok x.
Proof. intros H. unfold idx. destruct (nth_error l i) eqn:E; [eauto|]. apply nth_error_None in E. lia. Qed.

Lemma parse_route_line_ok line : parse_route_line line <> LPanic.
Proof.
  unfold parse_route_line. destruct (cut_prefix line "ip route add ") as [rest|]; [|discriminate].
  destruct (contains " scope link" rest); [discriminate|]. destruct (proto_auto rest); [discriminate|].
  set (words := fields rest). destruct (Nat.leb 3 (List.length words)) eqn:L3; [|discriminate]. apply Nat.leb_le in L3.
  destruct (idx_lt words 1 ltac:(lia)) as [w1 ->]. destruct (negb (String.eqb w1 "via")); [discriminate|].
  destruct (idx_lt words 0 ltac:(lia)) as [w0 E0]. destruct (idx_lt words 2 ltac:(lia)) as [w2 E2].
  destruct (Nat.ltb 3 (List.length words)) eqn:L4.
  - destruct (Nat.eqb (List.length words) 5) eqn:L5; [|discriminate]. apply Nat.eqb_eq in L5.
    destruct (idx_lt words 3 ltac:(lia)) as [w3 ->]. destruct (String.eqb w3 "dev"); [|discriminate]. rewrite E0, E2. discriminate.
  - rewrite E0, E2. discriminate.
Qed.

Lemma parse_routes_ok ls : parse_routes ls <> LPanic.
Proof.
  induction ls as [|l r IH]; simpl; [discriminate|]. pose proof (parse_route_line_ok l) as H.
  destruct (parse_route_line l) as [|e|]; [exact IH | discriminate | congruence].
Qed.

Lemma starts_dash_ok w : w <> "" -> exists d, starts_dash w = Ok d.
Proof. destruct w; [congruence | simpl; eauto]. Qed.

Lemma take_args_ok ws : nonempty_words ws -> exists rest, take_args ws = Ok rest /\ nonempty_words rest /\ List.length rest <= List.length ws.
Proof.
  induction ws as [|w r IH]; intros NE; [exists []; repeat split; auto; intros ? []|].
  cbn [take_args]. destruct (starts_dash_ok w (NE w (or_introl eq_refl))) as [d ->]. cbn [bind].
  destruct (d || String.eqb w "!")%bool; [exists (w :: r); repeat split; auto|].
  destruct (IH (fun x Hx => NE x (or_intror Hx))) as (rest & E & N & L). exists rest. repeat split; auto. simpl. lia.
Qed.

Lemma opt_loop_ok fuel : forall ws, nonempty_words ws -> opt_loop fuel ws <> LPanic.
Proof.
  induction fuel as [|f IH]; intros ws NE; [discriminate|]. cbn [opt_loop].
  destruct ws as [|w0 r0]; [discriminate|].
  assert (NE0 : nonempty_words r0) by (intros x Hx; apply NE; right; exact Hx).
  set (ab := if String.eqb w0 "!" then r0 else w0 :: r0).
  assert (NEab : nonempty_words ab) by (unfold ab; destruct (String.eqb w0 "!"); assumption).
  destruct ab as [|key r1]; [discriminate|].
  assert (NE1 : nonempty_words r1) by (intros x Hx; apply NEab; right; exact Hx).
  assert (G : exists r3, match r1 with
                | b :: a :: _ => if String.eqb b "!" then match starts_dash a with Ok d => if d then Some r1 else Some (tl r1) | _ => None end else Some r1
                | _ => Some r1 end = Some r3 /\ nonempty_words r3).
  { destruct r1 as [|b [|a r']]; [eauto | eauto|]. destruct (String.eqb b "!"); [|eauto].
    destruct (starts_dash_ok a (NE1 a (or_intror (or_introl eq_refl)))) as [d ->]. destruct d; [eauto|].
    exists (a :: r'). split; [reflexivity|]. intros x Hx. apply NE1. right. exact Hx. }
  destruct G as (r3 & -> & NE3). destruct (take_args_ok r3 NE3) as (rest & -> & NR & _). apply IH, NR.
Qed.

Lemma fields_nonempty s : nonempty_words (fields s).
Proof. intros w H. apply (fields_elem s w H). Qed.
Lemma skipn_nonempty ws k : nonempty_words ws -> nonempty_words (skipn k ws).
Proof. intros NE w H. apply NE. revert ws NE H. induction k as [|k IH]; intros ws NE H; [exact H|]. destruct ws; [destruct H|]. right. apply (IH ws (fun x Hx => NE x (or_intror Hx)) H). Qed.

Lemma parse_iptables_ok ls : forall it ch, parse_iptables ls it ch <> LPanic.
Proof.
  induction ls as [|raw r IH]; intros it ch; cbn [parse_iptables]; [discriminate|].
  destruct (trim_space raw) as [|c rest] eqn:T; [apply IH|].
  destruct (Ascii.eqb c "*"); [apply IH|].
  destruct (Ascii.eqb c ":").
  { destruct (negb it); [discriminate|]. destruct (Nat.leb 2 (List.length (fields rest))) eqn:L; [|apply IH]. apply Nat.leb_le in L.
    destruct (idx_lt (fields rest) 0 ltac:(lia)) as [n ->]. destruct (idx_lt (fields rest) 1 ltac:(lia)) as [p ->]. apply IH. }
  destruct (Ascii.eqb c "-") eqn:Ed.
  { destruct (negb it); [discriminate|]. set (words := fields (String c rest)).
    assert (NB : nonblank (String c rest) = true).
    { simpl. apply Ascii.eqb_eq in Ed. subst c. reflexivity. }
    pose proof (fields_nonblank _ NB) as FN. fold words in FN.
    destruct words as [|w0 ws] eqn:EW; [congruence|]. unfold idx. cbn [nth_error].
    destruct (negb (String.eqb w0 "-A")); [discriminate|].
    destruct (Nat.ltb (List.length (w0 :: ws)) 2) eqn:L2; [discriminate|]. apply Nat.ltb_ge in L2.
    destruct ws as [|name ws']; [simpl in L2; lia|]. cbn [nth_error].
    destruct (negb (existsb (String.eqb name) ch)); [discriminate|].
    unfold slice_from. cbn [List.length Nat.leb skipn].
    assert (NW : nonempty_words ws').
    { intros x Hx. apply (fields_elem (String c rest)). fold words. rewrite EW. right. right. exact Hx. }
    pose proof (opt_loop_ok (S (List.length ws')) ws' NW) as OL.
    destruct (opt_loop (S (List.length ws')) ws') as [|e|]; [apply IH | discriminate | congruence]. }
  destruct (String.eqb (String c rest) "[APPEND]" || String.eqb (String c rest) "COMMIT")%bool; [apply IH | discriminate].
Qed.

Theorem parse_linux_total_proved text : parse_linux text <> LPanic.
Proof.
  unfold parse_linux. pose proof (parse_routes_ok (filter (has_prefix "ip route")
     (filter (fun l => match l with EmptyString => false | String c _ => negb (Ascii.eqb c "#") end) (map trim_space (lines_of text))))) as H.
  destruct (parse_routes _) as [|e|]; [apply parse_iptables_ok | discriminate | congruence].
Qed.
