(* Robust/LinuxParse.v — go/pkg/linux/parse.go (ParseConfig, parseRoutes,
   parseIPTables) with every index and slice expression as an operation that can
   panic; the result is only the outcome (accepted / which diagnostic), the values
   are the subject of C05.  No runtime panic for any text. *)
From Coq Require Import List String Ascii Bool Arith Lia.
From NA Require Import Base.Str Robust.GoStr Robust.GoStrProofs.
Import ListNotations.
Open Scope string_scope.

(* strings.TrimSpace (ASCII white space) *)
Fixpoint trim_left_space (s : string) : string :=
  match s with
  | String c r => if is_space c then trim_left_space r else s
  | EmptyString => EmptyString
  end.
Definition trim_space (s : string) : string := trim_left_space (trim_right_space s).

Inductive lerr := EUnexpectedRoute | EPolicyOutsideTable | ERuleOutsideTable | EUnsupportedCommand | EIncompleteCommand
                | EPolicyBeforeRules | ETrailingBang | EUnknownCommand.
Inductive lres := LOk | LErr (e : lerr) | LPanic.

Definition is_digit_c (c : ascii) : bool := let n := nat_of_ascii c in (Nat.leb 48 n && Nat.leb n 57)%bool.
(* ` proto (?:kernel|boot|[0-9]+)` matches somewhere *)
Fixpoint proto_auto (s : string) : bool :=
  if (has_prefix " proto kernel" s || has_prefix " proto boot" s)%bool then true
  else match cut_prefix s " proto " with
       | Some (String c _) => if is_digit_c c then true else match s with String _ r => proto_auto r | EmptyString => false end
       | _ => match s with String _ r => proto_auto r | EmptyString => false end
       end.

Definition parse_route_line (line : string) : lres :=
  match cut_prefix line "ip route add " with
  | None => LErr EUnexpectedRoute
  | Some rest =>
      if contains " scope link" rest then LOk
      else if proto_auto rest then LOk
      else
        let words := fields rest in
        if Nat.leb 3 (List.length words) then
          match idx words 1 with
          | Ok w1 =>
              if negb (String.eqb w1 "via") then LErr EUnexpectedRoute
              else if Nat.ltb 3 (List.length words) then
                (if Nat.eqb (List.length words) 5 then
                   match idx words 3 with
                   | Ok w3 => if String.eqb w3 "dev" then
                                match idx words 0, idx words 2 with Ok _, Ok _ => LOk | _, _ => LPanic end
                              else LErr EUnexpectedRoute
                   | _ => LPanic
                   end
                 else LErr EUnexpectedRoute)
              else match idx words 0, idx words 2 with Ok _, Ok _ => LOk | _, _ => LPanic end
          | _ => LPanic
          end
        else LErr EUnexpectedRoute
  end.

Fixpoint parse_routes (ls : list string) : lres :=
  match ls with
  | [] => LOk
  | l :: r => match parse_route_line l with LOk => parse_routes r | e => e end
  end.

(* the option loop of one rule; words are the fields behind "-A CHAIN" *)
Definition starts_dash (w : string) : res bool :=
  match w with String c _ => Ok (Ascii.eqb c "-") | EmptyString => Panic end.      (* words[0][0] *)

Fixpoint take_args (ws : list string) : res (list string) :=
  match ws with
  | [] => Ok []
  | w :: r => do d <- starts_dash w;
              if (d || String.eqb w "!")%bool then Ok ws else take_args r
  end.

Fixpoint opt_loop (fuel : nat) (ws : list string) : lres :=
  match fuel with
  | O => LOk
  | S f =>
      match ws with
      | [] => LOk
      | w0 :: r0 =>
          (* negation before the key *)
          let after_bang := if String.eqb w0 "!" then r0 else ws in
          match after_bang with
          | [] => LErr ETrailingBang
          | key :: r1 =>
              (* negation before the first argument *)
              let r2 := match r1 with
                        | b :: a :: _ =>
                            if String.eqb b "!" then
                              match starts_dash a with
                              | Ok d => if d then Some r1 else Some (tl r1)
                              | _ => None
                              end
                            else Some r1
                        | _ => Some r1
                        end in
              match r2 with
              | None => LPanic
              | Some r3 => match take_args r3 with
                           | Ok rest => opt_loop f rest
                           | _ => LPanic
                           end
              end
          end
      end
  end.

(* state: are we inside a table, the chains defined in it *)
Fixpoint parse_iptables (ls : list string) (in_table : bool) (chains : list string) : lres :=
  match ls with
  | [] => LOk
  | raw :: r =>
      let line := trim_space raw in
      match line with
      | EmptyString => parse_iptables r in_table chains
      | String c rest =>
          if Ascii.eqb c "*" then parse_iptables r true []
          else if Ascii.eqb c ":" then
            if negb in_table then LErr EPolicyOutsideTable
            else
              let words := fields rest in
              if Nat.leb 2 (List.length words) then
                match idx words 0, idx words 1 with
                | Ok n, Ok _ => parse_iptables r in_table (n :: chains)
                | _, _ => LPanic
                end
              else parse_iptables r in_table chains
          else if Ascii.eqb c "-" then
            if negb in_table then LErr ERuleOutsideTable
            else
              let words := fields line in
              match idx words 0 with
              | Ok w0 =>
                  if negb (String.eqb w0 "-A") then LErr EUnsupportedCommand
                  else if Nat.ltb (List.length words) 2 then LErr EIncompleteCommand
                  else match idx words 1 with
                       | Ok name =>
                           if negb (existsb (String.eqb name) chains) then LErr EPolicyBeforeRules
                           else match slice_from words 2 with
                                | Ok ws => match opt_loop (S (List.length ws)) ws with
                                           | LOk => parse_iptables r in_table chains
                                           | e => e
                                           end
                                | _ => LPanic
                                end
                       | _ => LPanic
                       end
              | _ => LPanic
              end
          else if (String.eqb line "[APPEND]" || String.eqb line "COMMIT")%bool then parse_iptables r in_table chains
          else LErr EUnknownCommand
      end
  end.

Definition parse_linux (text : string) : lres :=
  let ls := filter (fun l => match l with EmptyString => false | String c _ => negb (Ascii.eqb c "#") end)
                   (map trim_space (lines_of text)) in
  let rl := filter (has_prefix "ip route") ls in
  let tl_ := filter (fun l => negb (has_prefix "ip route" l)) ls in
  match parse_routes rl with
  | LOk => parse_iptables tl_ false []
  | e => e
  end.

Definition lclass (text : string) : nat :=
  match parse_linux text with
  | LOk => 0
  | LErr EUnexpectedRoute => 1 | LErr EPolicyOutsideTable => 2 | LErr ERuleOutsideTable => 3 | LErr EUnsupportedCommand => 4
  | LErr EIncompleteCommand => 5 | LErr EPolicyBeforeRules => 6 | LErr ETrailingBang => 7 | LErr EUnknownCommand => 8
  | LPanic => 99
  end.
