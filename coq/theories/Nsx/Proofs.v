(* Nsx/Proofs.v — the oracle as semantic equality, what each kind of request
   leaves untouched, and the two ways of equalising a group. *)
From Coq Require Import List String Bool Arith Lia.
From NA Require Import Base.Str Panos.Device Nsx.Device.
Import ListNotations.
Open Scope string_scope.

Lemma strs_eqb_eq a b : strs_eqb a b = true <-> a = b.
Proof.
  revert b; induction a as [|x a IH]; intros [|y b]; simpl; split; try congruence; auto.
  - intros H. apply andb_true_iff in H. destruct H as [H1 H2]. apply String.eqb_eq in H1. apply IH in H2. congruence.
  - intros H. injection H as -> ->. rewrite String.eqb_refl. apply IH. reflexivity.
Qed.
Lemma nsem_eqb_eq a b : nsem_eqb a b = true <-> a = b.
Proof.
  revert b; induction a as [|[i x] a IH]; intros [|[j y] b]; simpl; split; try congruence; auto.
  - intros H. rewrite !andb_true_iff in H. destruct H as [[H1 H2] H3]. apply String.eqb_eq in H1. apply strs_eqb_eq in H2. apply IH in H3. congruence.
  - intros H. injection H as -> -> ->. rewrite !andb_true_iff. repeat split; [apply String.eqb_refl | apply strs_eqb_eq; reflexivity | apply IH; reflexivity].
Qed.
Theorem nequiv_is_equal_semantics a b : nequiv a b = true <-> nsem a = nsem b.
Proof. apply nsem_eqb_eq. Qed.

Definition is_rule_req (q : req) : bool :=
  match q with PolPut _ _ | PolDelete _ | RulePut _ _ | RulePatch _ _ | RuleDelete _ _ => true | _ => false end.

(* requests on groups and services leave the policies as they are;
   requests on policies and rules leave groups and services as they are *)
Theorem object_requests_keep_policies m q m' :
  is_rule_req q = false -> nexec_req m q = NDone m' -> m_pol m' = m_pol m.
Proof.
  destruct q; simpl; intros P E; try discriminate.
  - injection E as <-. reflexivity.
  - destruct (has id (m_svc m)); [injection E as <-; reflexivity | discriminate].
  - destruct (negb (has id (m_svc m))); [discriminate|]. destruct (svc_used m id); [discriminate|]. injection E as <-. reflexivity.
  - injection E as <-. reflexivity.
  - destruct (lookup id (m_grp m)); [injection E as <-; reflexivity | discriminate].
  - destruct (lookup id (m_grp m)); [|discriminate]. destruct (forallb _ ips); [injection E as <-; reflexivity | discriminate].
  - destruct (has id (m_grp m)); [injection E as <-; reflexivity | discriminate].
  - destruct (negb (has id (m_grp m))); [discriminate|]. destruct (grp_used m id); [discriminate|]. injection E as <-. reflexivity.
Qed.

Theorem rule_requests_keep_objects m q m' :
  is_rule_req q = true -> nexec_req m q = NDone m' -> m_grp m' = m_grp m /\ m_svc m' = m_svc m.
Proof.
  destruct q; simpl; intros P E; try discriminate.
  - destruct (forallb (rule_ok m) rules); [injection E as <-; split; reflexivity | discriminate].
  - destruct (has id (m_pol m)); [injection E as <-; split; reflexivity | discriminate].
  - destruct (lookup pol (m_pol m)); [|discriminate]. destruct (negb (rule_ok m r)); [discriminate|].
    destruct (find_nrule (n_id r) l); injection E as <-; split; reflexivity.
  - destruct (lookup pol (m_pol m)); [|discriminate]. destruct (negb (rule_ok m r)); [discriminate|].
    destruct (find_nrule (n_id r) l); [injection E as <-; split; reflexivity | discriminate].
  - destruct (lookup pol (m_pol m)); [|discriminate]. destruct (find_nrule id l); [injection E as <-; split; reflexivity | discriminate].
Qed.

(* ---- equalising a group: remove what the target does not have, add what is new ---- *)
Lemma mem_in x l : mem x l = true <-> In x l.
Proof.
  unfold mem. rewrite existsb_exists. split.
  - intros (y & I & E). apply String.eqb_eq in E. subst. exact I.
  - intros I. exists x. split; [exact I | apply String.eqb_refl].
Qed.

Definition to_remove (old new : list string) : list string := filter (fun x => negb (mem x new)) old.
Definition to_add (old new : list string) : list string := filter (fun x => negb (mem x old)) new.
Definition incremental (old new : list string) : list string :=
  merge_members (filter (fun x => negb (mem x (to_remove old new))) old) (to_add old new).

Theorem incremental_same_set old new x : In x (incremental old new) <-> In x new.
Proof.
  unfold incremental, merge_members, to_remove, to_add. rewrite in_app_iff, !filter_In. split.
  - intros [[Io H] | [[In_ H1] H2]]; [|exact In_].
    destruct (mem x new) eqn:M; [apply mem_in, M|]. exfalso.
    assert (X : mem x (filter (fun x0 => negb (mem x0 new)) old) = true) by (apply mem_in, filter_In; split; [exact Io | rewrite M; reflexivity]).
    rewrite X in H. discriminate.
  - intros I. destruct (mem x old) eqn:M.
    + left. apply mem_in in M. split; [exact M|].
      destruct (mem x (filter (fun x0 => negb (mem x0 new)) old)) eqn:F; [|reflexivity].
      apply mem_in, filter_In in F. destruct F as [_ F]. assert (Y : mem x new = true) by (apply mem_in, I). rewrite Y in F. discriminate.
    + right. split; [split; [exact I | try rewrite M; reflexivity]|].
      destruct (mem x (filter (fun x0 => negb (mem x0 (filter (fun x1 => negb (mem x1 new)) old))) old)) eqn:F; [|reflexivity].
      apply mem_in, filter_In in F. destruct F as [F _]. apply mem_in in F. congruence.
Qed.

Lemma to_remove_present old new : forallb (fun x => mem x old) (to_remove old new) = true.
Proof. apply forallb_forall. intros x H. apply filter_In in H. apply mem_in, H. Qed.

Lemma lookup_replace {A} k (v : A) l : has k l = true -> lookup k (replace_key k v l) = Some v.
Proof.
  unfold has. induction l as [|[k' v'] r IH]; simpl; [discriminate|]. destruct (String.eqb k k') eqn:E; simpl.
  - rewrite String.eqb_refl. reflexivity.
  - rewrite E. exact IH.
Qed.

(* both requests are accepted and the group then holds exactly the target's addresses (as a set) *)
Theorem group_incremental_converges m id old new :
  lookup id (m_grp m) = Some old ->
  exists m1 m2, nexec_req m (GrpRemove id (to_remove old new)) = NDone m1
             /\ nexec_req m1 (GrpAdd id (to_add old new)) = NDone m2
             /\ exists ips, lookup id (m_grp m2) = Some ips /\ forall x, In x ips <-> In x new.
Proof.
  intros L. simpl. rewrite L, to_remove_present. eexists. eexists. split; [reflexivity|].
  assert (H : has id (m_grp m) = true) by (unfold has; rewrite L; reflexivity).
  cbn [m_grp with_grp]. rewrite (lookup_replace _ _ _ H). split; [reflexivity|].
  cbn [m_grp with_grp]. eexists. split.
  - apply lookup_replace. clear -H. unfold has in *. induction (m_grp m) as [|[k v] r IH]; simpl in *; [discriminate|].
    destruct (String.eqb id k) eqn:E; simpl; [rewrite String.eqb_refl; reflexivity | rewrite E; apply IH, H].
  - intros x. apply incremental_same_set.
Qed.

Theorem group_patch_converges m id old new :
  lookup id (m_grp m) = Some old ->
  exists m1, nexec_req m (GrpPatch id new) = NDone m1 /\ lookup id (m_grp m1) = Some new.
Proof.
  intros L. simpl. assert (H : has id (m_grp m) = true) by (unfold has; rewrite L; reflexivity). rewrite H.
  eexists. split; [reflexivity|]. apply lookup_replace, H.
Qed.
