(* Nsx/Device.v — object store of an NSX-T manager (gateway policies, groups,
   services with the Netspoc prefix) and the REST calls drc emits; strict:
   PATCH / DELETE / POST on a missing id are refused, a referenced group or
   service cannot be deleted, references to Netspoc objects must exist. *)
From Coq Require Import List String Bool Arith.
From NA Require Import Base.Str Panos.Device.
Import ListNotations.
Open Scope string_scope.

Record nrule := { n_id : string; n_misc : string; n_src : string; n_dst : string; n_srv : string }.
Record mgr := { m_pol : list (string * list nrule); m_grp : list (string * list string); m_svc : list (string * string) }.

Inductive req :=
| SvcPut (id def : string) | SvcPatch (id def : string) | SvcDelete (id : string)
| GrpPut (id : string) (ips : list string)
| GrpAdd (id : string) (ips : list string) | GrpRemove (id : string) (ips : list string)
| GrpPatch (id : string) (ips : list string) | GrpDelete (id : string)
| PolPut (id : string) (rules : list nrule) | PolDelete (id : string)
| RulePut (pol : string) (r : nrule) | RulePatch (pol : string) (r : nrule) | RuleDelete (pol id : string).

(* 1 unknown object referenced, 2 object still referenced, 3 no such id, 5 address to remove not present *)
Inductive nout := NDone (m : mgr) | NRefused (why : nat).

Definition gprefix : string := "/infra/domains/default/groups/".
Definition sprefix : string := "/infra/services/".
Definition group_of (s : string) : option string := cut_prefix s gprefix.
Definition service_of (s : string) : option string := cut_prefix s sprefix.
Definition managed (id : string) : bool := has_prefix "Netspoc" id.

Definition gref_ok (m : mgr) (s : string) : bool :=
  match group_of s with Some g => (negb (managed g) || has g (m_grp m))%bool | None => true end.
Definition sref_ok (m : mgr) (s : string) : bool :=
  match service_of s with Some g => (negb (managed g) || has g (m_svc m))%bool | None => true end.
Definition rule_ok (m : mgr) (r : nrule) : bool := (gref_ok m (n_src r) && gref_ok m (n_dst r) && sref_ok m (n_srv r))%bool.

Definition all_rules (m : mgr) : list nrule := flat_map snd (m_pol m).
Definition grp_used (m : mgr) (g : string) : bool :=
  existsb (fun r => (String.eqb (n_src r) (gprefix ++ g) || String.eqb (n_dst r) (gprefix ++ g))%bool) (all_rules m).
Definition svc_used (m : mgr) (s : string) : bool := existsb (fun r => String.eqb (n_srv r) (sprefix ++ s)) (all_rules m).

Definition with_pol (m : mgr) l := {| m_pol := l; m_grp := m_grp m; m_svc := m_svc m |}.
Definition with_grp (m : mgr) l := {| m_pol := m_pol m; m_grp := l; m_svc := m_svc m |}.
Definition with_svc (m : mgr) l := {| m_pol := m_pol m; m_grp := m_grp m; m_svc := l |}.

Definition upsert {A} (k : string) (v : A) (l : list (string * A)) : list (string * A) :=
  if has k l then replace_key k v l else (l ++ [(k, v)])%list.

Fixpoint find_nrule (id : string) (l : list nrule) : option nrule :=
  match l with [] => None | r :: t => if String.eqb id (n_id r) then Some r else find_nrule id t end.
Fixpoint remove_nrule (id : string) (l : list nrule) : list nrule :=
  match l with [] => [] | r :: t => if String.eqb id (n_id r) then t else r :: remove_nrule id t end.
Fixpoint replace_nrule (r' : nrule) (l : list nrule) : list nrule :=
  match l with [] => [] | r :: t => if String.eqb (n_id r') (n_id r) then r' :: t else r :: replace_nrule r' t end.

Definition nexec_req (m : mgr) (q : req) : nout :=
  match q with
  | SvcPut id def => NDone (with_svc m (upsert id def (m_svc m)))
  | SvcPatch id def => if has id (m_svc m) then NDone (with_svc m (replace_key id def (m_svc m))) else NRefused 3
  | SvcDelete id =>
      if negb (has id (m_svc m)) then NRefused 3 else if svc_used m id then NRefused 2
      else NDone (with_svc m (remove_key id (m_svc m)))
  | GrpPut id ips => NDone (with_grp m (upsert id ips (m_grp m)))
  | GrpAdd id ips =>
      match lookup id (m_grp m) with
      | Some old => NDone (with_grp m (replace_key id (merge_members old ips) (m_grp m)))
      | None => NRefused 3
      end
  | GrpRemove id ips =>
      match lookup id (m_grp m) with
      | Some old => if forallb (fun x => mem x old) ips
                    then NDone (with_grp m (replace_key id (filter (fun x => negb (mem x ips)) old) (m_grp m)))
                    else NRefused 5
      | None => NRefused 3
      end
  | GrpPatch id ips => if has id (m_grp m) then NDone (with_grp m (replace_key id ips (m_grp m))) else NRefused 3
  | GrpDelete id =>
      if negb (has id (m_grp m)) then NRefused 3 else if grp_used m id then NRefused 2
      else NDone (with_grp m (remove_key id (m_grp m)))
  | PolPut id rules =>
      if forallb (rule_ok m) rules then NDone (with_pol m (upsert id rules (m_pol m))) else NRefused 1
  | PolDelete id => if has id (m_pol m) then NDone (with_pol m (remove_key id (m_pol m))) else NRefused 3
  | RulePut pol r =>
      match lookup pol (m_pol m) with
      | None => NRefused 3
      | Some rules =>
          if negb (rule_ok m r) then NRefused 1
          else match find_nrule (n_id r) rules with
               | Some _ => NDone (with_pol m (replace_key pol (replace_nrule r rules) (m_pol m)))
               | None => NDone (with_pol m (replace_key pol (rules ++ [r])%list (m_pol m)))
               end
      end
  | RulePatch pol r =>
      match lookup pol (m_pol m) with
      | None => NRefused 3
      | Some rules =>
          if negb (rule_ok m r) then NRefused 1
          else match find_nrule (n_id r) rules with
               | Some _ => NDone (with_pol m (replace_key pol (replace_nrule r rules) (m_pol m)))
               | None => NRefused 3
               end
      end
  | RuleDelete pol id =>
      match lookup pol (m_pol m) with
      | None => NRefused 3
      | Some rules =>
          match find_nrule id rules with
          | Some _ => NDone (with_pol m (replace_key pol (remove_nrule id rules) (m_pol m)))
          | None => NRefused 3
          end
      end
  end.

Fixpoint nrun_reqs (m : mgr) (qs : list req) (i : nat) : mgr * nat * nat :=
  match qs with
  | [] => (m, 0, 0)
  | q :: r => match nexec_req m q with
              | NDone m' => nrun_reqs m' r (S i)
              | NRefused why => (m, S i, why)
              end
  end.

(* ---- oracle ---- *)
Fixpoint dedup (l : list string) : list string :=
  match l with [] => [] | x :: r => if mem x r then dedup r else x :: dedup r end.
Definition expand_g (m : mgr) (s : string) : string :=
  match group_of s with
  | Some g => match lookup g (m_grp m) with
              | Some ips => "{" ++ join "," (sort_strings (dedup ips)) ++ "}"
              | None => s
              end
  | None => s
  end.
Definition expand_s (m : mgr) (s : string) : string :=
  match service_of s with
  | Some g => match lookup g (m_svc m) with Some def => "=" ++ def | None => s end
  | None => s
  end.
Definition expand_nrule (m : mgr) (r : nrule) : string :=
  n_misc r ++ "|" ++ expand_g m (n_src r) ++ "|" ++ expand_g m (n_dst r) ++ "|" ++ expand_s m (n_srv r).
(* per policy (sorted by id) the sorted list of expanded rules *)
Definition nsem (m : mgr) : list (string * list string) :=
  map (fun id => (id, sort_strings (map (expand_nrule m) (match lookup id (m_pol m) with Some l => l | None => [] end))))
      (sort_strings (map fst (m_pol m))).
Fixpoint strs_eqb (a b : list string) : bool :=
  match a, b with
  | [], [] => true
  | x :: a', y :: b' => (String.eqb x y && strs_eqb a' b')%bool
  | _, _ => false
  end.
Fixpoint nsem_eqb (a b : list (string * list string)) : bool :=
  match a, b with
  | [], [] => true
  | (i, x) :: a', (j, y) :: b' => (String.eqb i j && strs_eqb x y && nsem_eqb a' b')%bool
  | _, _ => false
  end.
Definition nequiv (a b : mgr) : bool := nsem_eqb (nsem a) (nsem b).

(* Netspoc services the target does not define; Netspoc groups no rule uses *)
Definition leftover_services (fin tgt : mgr) : list string :=
  filter (fun id => (managed id && negb (has id (m_svc tgt)))%bool) (map fst (m_svc fin)).
Definition leftover_groups (fin : mgr) : list string :=
  filter (fun id => (managed id && negb (grp_used fin id))%bool) (map fst (m_grp fin)).

Definition render_nrule (pol : string) (r : nrule) : string :=
  "R|" ++ pol ++ "|" ++ n_id r ++ "|" ++ n_misc r ++ "|" ++ n_src r ++ "|" ++ n_dst r ++ "|" ++ n_srv r.
Definition render_pol (p : string * list nrule) : list string := ("P|" ++ fst p) :: map (render_nrule (fst p)) (snd p).
Definition render_g (g : string * list string) : string := "G|" ++ fst g ++ "|" ++ join ";" (snd g).
Definition render_s (s : string * string) : string := "S|" ++ fst s ++ "|" ++ snd s.
Definition nrender (m : mgr) : list string :=
  (flat_map render_pol (m_pol m) ++ map render_g (m_grp m) ++ map render_s (m_svc m))%list.

Record ncase := { nc_dev : mgr; nc_tgt : mgr; nc_reqs : list req }.
Definition njudge (c : ncase) :=
  match nrun_reqs (nc_dev c) (nc_reqs c) 0 with
  | (m', pos, why) => (pos, why, nequiv m' (nc_tgt c), leftover_services m' (nc_tgt c), leftover_groups m', nrender m')
  end.
Definition nalready (c : ncase) : bool :=
  (nequiv (nc_dev c) (nc_tgt c) && match leftover_services (nc_dev c) (nc_tgt c) with [] => true | _ => false end
   && match leftover_groups (nc_dev c) with [] => true | _ => false end)%bool.
