From Coq Require Import List Arith Bool Lia Permutation.
From NA Require Import Merge.Model.
Import ListNotations.

Section Proofs.
Variable A : Type.
Variable permits : A -> bool.

(* subsequence *)
Inductive sub : list A -> list A -> Prop :=
| sub_nil : sub [] []
| sub_skip x l m : sub l m -> sub l (x :: m)
| sub_take x l m : sub l m -> sub (x :: l) (x :: m).

Lemma sub_refl l : sub l l.
Proof. induction l; [apply sub_nil | apply sub_take; assumption]. Qed.
Lemma sub_nil_l l : sub [] l.
Proof. induction l; [apply sub_nil | apply sub_skip; assumption]. Qed.
Lemma sub_app l1 m1 l2 m2 : sub l1 m1 -> sub l2 m2 -> sub (l1 ++ l2) (m1 ++ m2).
Proof. induction 1; simpl; intros H2; [exact H2 | apply sub_skip; auto | apply sub_take; auto]. Qed.
Lemma sub_app_l l m p : sub l m -> sub l (p ++ m).
Proof. intros H. induction p; simpl; [exact H | apply sub_skip; exact IHp]. Qed.
Lemma sub_app_r l m p : sub l m -> sub l (m ++ p).
Proof. intros H. rewrite <- (app_nil_r l). apply sub_app; [exact H | apply sub_nil_l]. Qed.

Lemma after_last_permit_le l : after_last_permit permits l <= length l.
Proof.
  induction l as [|x r IH]; simpl; [lia|].
  destruct (Nat.eqb (after_last_permit permits r) 0); [destruct (permits x); lia | lia].
Qed.

(* behind the index nothing permits; the entry in front of it (if any) permits *)
Lemma after_last_permit_tail l :
  forallb (fun x => negb (permits x)) (skipn (after_last_permit permits l) l) = true.
Proof.
  induction l as [|x r IH]; [reflexivity|]. cbn [after_last_permit].
  destruct (Nat.eqb (after_last_permit permits r) 0) eqn:E.
  - apply Nat.eqb_eq in E. rewrite E in IH. simpl in IH.
    destruct (permits x) eqn:Ep; simpl; [exact IH | rewrite Ep; exact IH].
  - exact IH.
Qed.

Lemma after_last_permit_head l k :
  after_last_permit permits l = S k -> exists x, nth_error l k = Some x /\ permits x = true.
Proof.
  revert k; induction l as [|x r IH]; intros k H; [discriminate|]. cbn [after_last_permit] in H.
  destruct (Nat.eqb (after_last_permit permits r) 0) eqn:E.
  - destruct (permits x) eqn:Ep; [|discriminate]. injection H as <-. exists x. split; [reflexivity | exact Ep].
  - apply Nat.eqb_neq in E. injection H as H. destruct k as [|k]; [congruence|].
    destruct (IH k H) as [y [Hy Py]]. exists y. split; [exact Hy | exact Py].
Qed.

(* ---- the placement function ---- *)
Lemma place_perm (pre apd l : list A) idx : Permutation (place pre apd l idx) (pre ++ l ++ apd).
Proof.
  unfold place. apply Permutation_app_head.
  rewrite <- (firstn_skipn idx l) at 3. rewrite <- app_assoc.
  apply Permutation_app_head. apply Permutation_app_comm.
Qed.

Lemma place_sub_l (pre apd l : list A) idx : sub l (place pre apd l idx).
Proof.
  unfold place. apply sub_app_l. rewrite <- (firstn_skipn idx l) at 1.
  apply sub_app; [apply sub_refl | apply sub_app_l; apply sub_refl].
Qed.
Lemma place_sub_pre (pre apd l : list A) idx : sub pre (place pre apd l idx).
Proof. unfold place. apply sub_app_r. apply sub_refl. Qed.
Lemma place_sub_app (pre apd l : list A) idx : sub apd (place pre apd l idx).
Proof. unfold place. apply sub_app_l. apply sub_app_l. apply sub_app_r. apply sub_refl. Qed.

Lemma merge_acl_place acl raw :
  merge_acl permits acl raw =
  place [] (appends raw) (prepends raw ++ acl)
        (match appends raw with [] => 0 | _ => after_last_permit permits (prepends raw ++ acl) end).
Proof.
  unfold merge_acl, place. destruct (appends raw) eqn:E; simpl; [reflexivity | reflexivity].
Qed.

(* C18: every entry of every part exactly once *)
Theorem merge_acl_permutation_proved acl raw :
  Permutation (merge_acl permits acl raw) (prepends raw ++ acl ++ appends raw).
Proof. rewrite merge_acl_place. rewrite place_perm. simpl. rewrite <- app_assoc. reflexivity. Qed.

Lemma sub_cons_inv a l m : sub (a :: l) m -> sub l m.
Proof.
  intros H. remember (a :: l) as u eqn:Eu. revert a l Eu.
  induction H; intros a l0 Eu; [discriminate | apply sub_skip; eapply IHsub; exact Eu |].
  injection Eu as -> ->. apply sub_skip. exact H.
Qed.
Lemma sub_app_inv_r l1 l2 m : sub (l1 ++ l2) m -> sub l2 m.
Proof. induction l1 as [|a l1 IH]; simpl; intros H; [exact H | apply IH; eapply sub_cons_inv; exact H]. Qed.
Lemma sub_app_inv_l l1 l2 m : sub (l1 ++ l2) m -> sub l1 m.
Proof.
  intros H. remember (l1 ++ l2) as u eqn:Eu. revert l1 l2 Eu.
  induction H; intros l1 l2 Eu.
  - destruct l1; [apply sub_nil | discriminate].
  - apply sub_skip. eapply IHsub. exact Eu.
  - destruct l1 as [|a l1]; [apply sub_nil_l|]. simpl in Eu. injection Eu as -> ->.
    apply sub_take. eapply IHsub. reflexivity.
Qed.

(* the relative order inside each part is preserved *)
Theorem merge_acl_keeps_order_proved acl raw :
  sub acl (merge_acl permits acl raw) /\ sub (prepends raw) (merge_acl permits acl raw) /\
  sub (appends raw) (merge_acl permits acl raw).
Proof.
  rewrite merge_acl_place. split; [|split].
  - eapply sub_app_inv_r. apply place_sub_l.
  - eapply sub_app_inv_l. apply place_sub_l.
  - apply place_sub_app.
Qed.

(* raw entries precede all Netspoc entries unless marked APPEND: the result
   starts with the prepended part as long as the APPEND entries land behind it *)
Theorem merge_acl_raw_first_proved acl raw :
  appends raw = [] -> merge_acl permits acl raw = prepends raw ++ acl.
Proof. intros H. unfold merge_acl. rewrite H. reflexivity. Qed.

(* APPEND entries follow the last permitting entry and precede the trailing
   non-permitting entries *)
Theorem merge_acl_append_placement_proved acl raw :
  appends raw <> [] ->
  exists l1 l2, merge_acl permits acl raw = l1 ++ appends raw ++ l2 /\
                l1 ++ l2 = prepends raw ++ acl /\
                forallb (fun x => negb (permits x)) l2 = true /\
                (l1 = [] \/ exists x, last l1 x = x /\ In x l1 /\ permits (last l1 x) = true).
Proof.
  intros Hne. unfold merge_acl. destruct (appends raw) as [|a0 ar] eqn:E; [contradiction|].
  set (l := prepends raw ++ acl). set (k := after_last_permit permits l).
  exists (firstn k l), (skipn k l). split; [reflexivity|]. split; [apply firstn_skipn|].
  split; [apply after_last_permit_tail|].
  destruct k as [|k'] eqn:Ek; [left; reflexivity|]. right.
  destruct (after_last_permit_head l k' Ek) as [x [Hx Px]].
  assert (Hl : firstn (S k') l = firstn k' l ++ [x]).
  { clear -Hx. revert k' Hx; induction l as [|y r IH]; intros [|k'] Hx; simpl in *; try discriminate.
    - injection Hx as ->. reflexivity.
    - rewrite (IH _ Hx). reflexivity. }
  exists x. rewrite Hl. rewrite last_last. split; [reflexivity|]. split; [apply in_or_app; right; left; reflexivity | exact Px].
Qed.

(* the rulebase variant: every part once, in order, raw first, APPEND last *)
Theorem merge_rulebase_spec_proved (rules : list A) (raw : list (A * bool)) :
  merge_rulebase rules raw = prepends raw ++ rules ++ appends raw.
Proof. reflexivity. Qed.
End Proofs.
