(* Merge/Model.v — merging the hand-written raw part (and the IPv6 part) into a
   Netspoc ACL / chain / rulebase: cisco.mergeASAACLs, cisco.mergeIOSACLs,
   linux MergeSpoc (rule loop), panos MergeSpoc (rules).  Executable. *)
From Coq Require Import List Arith Bool.
Import ListNotations.

Section Merge.
Variable A : Type.
(* "permitting" entry for ASA / IOS; for Linux: an entry that is not a DROP *)
Variable permits : A -> bool.

(* index behind the last permitting entry, 0 if there is none *)
Fixpoint after_last_permit (l : list A) : nat :=
  match l with
  | [] => 0
  | x :: r => let k := after_last_permit r in
              if Nat.eqb k 0 then (if permits x then 1 else 0) else S k
  end.

Definition place (pre apd l : list A) (idx : nat) : list A :=
  pre ++ firstn idx l ++ apd ++ skipn idx l.

Definition prepends (raw : list (A * bool)) : list A := map fst (filter (fun x => negb (snd x)) raw).
Definition appends (raw : list (A * bool)) : list A := map fst (filter (fun x => snd x) raw).

(* mergeIOSACLs; mergeASAACLs without the IPv6 special case: raw entries are
   prepended, [APPEND] entries are placed behind the last permitting entry of
   the list obtained so far *)
Definition merge_acl (acl : list A) (raw : list (A * bool)) : list A :=
  let l := prepends raw ++ acl in
  match appends raw with
  | [] => l
  | app => firstn (after_last_permit l) l ++ app ++ skipn (after_last_permit l) l
  end.

(* mergeASAACLs when the IPv6 part is merged: a terminating "deny ip any6 any6"
   of the merged part goes to the end *)
Definition merge_asa_v6 (is_deny6 : A -> bool) (acl : list A) (raw : list (A * bool)) : list A :=
  let pre := prepends raw in
  let '(acl1, pre1) :=
    match rev pre with
    | last :: rinit => if is_deny6 last then (acl ++ [last], rev rinit) else (acl, pre)
    | [] => (acl, pre)
    end in
  let l := pre1 ++ acl1 in
  match appends raw with
  | [] => l
  | app => firstn (after_last_permit l) l ++ app ++ skipn (after_last_permit l) l
  end.

(* panos: prepended rules, Netspoc rules, appended rules *)
Definition merge_rulebase (rules : list A) (raw : list (A * bool)) : list A :=
  prepends raw ++ rules ++ appends raw.
End Merge.

Arguments after_last_permit {A}.
Arguments place {A}.
Arguments prepends {A}.
Arguments appends {A}.
Arguments merge_acl {A}.
Arguments merge_asa_v6 {A}.
Arguments merge_rulebase {A}.
