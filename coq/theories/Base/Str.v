(* Base/Str.v — the string functions of the Go library that the modelled code
   uses (strings.HasPrefix, CutSuffix, ToLower, TrimLeft, Split, Join, Cut,
   sort.Strings, strconv.Itoa), over Coq byte strings.  Executable; no proofs. *)
From Coq Require Import List String Ascii Bool Arith NArith.
From Coq Require DecimalString.
Import ListNotations.
Open Scope string_scope.

Definition str_eqb := String.eqb.

Fixpoint rev_str_aux (s acc : string) : string :=
  match s with EmptyString => acc | String c r => rev_str_aux r (String c acc) end.
Definition rev_str (s : string) : string := rev_str_aux s "".

Definition has_prefix (p s : string) : bool := String.prefix p s.
Definition has_suffix (p s : string) : bool := String.prefix (rev_str p) (rev_str s).

Fixpoint drop (n : nat) (s : string) : string :=
  match n, s with
  | O, _ => s
  | S k, String _ r => drop k r
  | S _, EmptyString => EmptyString
  end.

Fixpoint take (n : nat) (s : string) : string :=
  match n, s with
  | S k, String c r => String c (take k r)
  | _, _ => EmptyString
  end.

(* strings.CutPrefix / CutSuffix *)
Definition cut_prefix (s p : string) : option string :=
  if has_prefix p s then Some (drop (String.length p) s) else None.
Definition cut_suffix (s p : string) : option string :=
  if has_suffix p s then Some (take (String.length s - String.length p) s) else None.
Definition trim_suffix (s p : string) : string :=
  match cut_suffix s p with Some r => r | None => s end.

Definition lower_ascii (c : ascii) : ascii :=
  let n := nat_of_ascii c in
  if (Nat.leb 65 n && Nat.leb n 90)%bool then ascii_of_nat (n + 32) else c.
Fixpoint to_lower (s : string) : string :=
  match s with EmptyString => EmptyString | String c r => String (lower_ascii c) (to_lower r) end.

(* strings.TrimLeft(s, "0") *)
Fixpoint trim_left_zero (s : string) : string :=
  match s with
  | String "0"%char r => trim_left_zero r
  | _ => s
  end.

(* strings.Cut(s, sep) for a one-byte separator: (before, after, found) *)
Fixpoint cut_char (c : ascii) (s : string) : option (string * string) :=
  match s with
  | EmptyString => None
  | String x r =>
      if Ascii.eqb x c then Some (EmptyString, r)
      else match cut_char c r with
           | Some (b, a) => Some (String x b, a)
           | None => None
           end
  end.

(* strings.Split(s, sep) for a one-byte separator (never returns []). *)
Fixpoint split_char (c : ascii) (s : string) : list string :=
  match s with
  | EmptyString => [EmptyString]
  | String x r =>
      if Ascii.eqb x c then EmptyString :: split_char c r
      else match split_char c r with
           | h :: t => String x h :: t
           | [] => [String x EmptyString]
           end
  end.

Fixpoint join (sep : string) (l : list string) : string :=
  match l with
  | [] => ""
  | [x] => x
  | x :: r => x ++ sep ++ join sep r
  end.

(* sort.Strings: insertion sort by byte-wise order (result is the sorted list). *)
Fixpoint insert_str (x : string) (l : list string) : list string :=
  match l with
  | [] => [x]
  | y :: r => if String.leb x y then x :: l else y :: insert_str x r
  end.
Definition sort_strings (l : list string) : list string := fold_right insert_str [] l.

Fixpoint contains (sub s : string) : bool :=
  if has_prefix sub s then true
  else match s with EmptyString => false | String _ r => contains sub r end.

Definition first_char (s : string) : option ascii :=
  match s with EmptyString => None | String c _ => Some c end.

Definition is_digit (c : ascii) : bool :=
  let n := nat_of_ascii c in (Nat.leb 48 n && Nat.leb n 57)%bool.

Definition itoa (n : nat) : string := DecimalString.NilZero.string_of_uint (Nat.to_uint n).
Definition ntoa (n : N) : string := DecimalString.NilZero.string_of_uint (N.to_uint n).

(* Decimal digits -> number; None if empty or a non-digit occurs. *)
Fixpoint digits_val (s : string) (acc : N) : option N :=
  match s with
  | EmptyString => Some acc
  | String c r =>
      if is_digit c then digits_val r (acc * 10 + N.of_nat (nat_of_ascii c - 48))%N else None
  end.
Definition parse_dec (s : string) : option N :=
  match s with EmptyString => None | _ => digits_val s 0%N end.

Definition hex_val (c : ascii) : option N :=
  let n := nat_of_ascii c in
  if is_digit c then Some (N.of_nat (n - 48))
  else if (Nat.leb 97 n && Nat.leb n 102)%bool then Some (N.of_nat (n - 87))
  else if (Nat.leb 65 n && Nat.leb n 70)%bool then Some (N.of_nat (n - 55))
  else None.
Fixpoint hex_digits_val (s : string) (acc : N) : option N :=
  match s with
  | EmptyString => Some acc
  | String c r => match hex_val c with
                  | Some v => hex_digits_val r (acc * 16 + v)%N
                  | None => None
                  end
  end.
Fixpoint oct_digits_val (s : string) (acc : N) : option N :=
  match s with
  | EmptyString => Some acc
  | String c r =>
      let n := nat_of_ascii c in
      if (Nat.leb 48 n && Nat.leb n 55)%bool then oct_digits_val r (acc * 8 + N.of_nat (n - 48))%N else None
  end.
