(* Secrets/Model.v — the masking of the login URL that panos.getAPIKey writes to
   the log and embeds in error messages: url.Values.Encode orders the keys and
   escapes the values; the regular expression (password=).*?(&|$) replaces the
   value up to the next '&'.  Model over byte strings. *)
From Coq Require Import List String Ascii Bool Arith.
From NA Require Import Base.Str.
Import ListNotations.
Open Scope string_scope.

(* characters url.QueryEscape leaves unchanged *)
Definition unreserved (c : ascii) : bool :=
  let n := nat_of_ascii c in
  (Nat.leb 48 n && Nat.leb n 57) || (Nat.leb 65 n && Nat.leb n 90) || (Nat.leb 97 n && Nat.leb n 122)
  || Nat.eqb n 45 || Nat.eqb n 46 || Nat.eqb n 95 || Nat.eqb n 126.

Definition hexdigit (n : nat) : ascii := ascii_of_nat (if Nat.ltb n 10 then 48 + n else 55 + n).

Fixpoint query_escape (s : string) : string :=
  match s with
  | EmptyString => EmptyString
  | String c r =>
      if unreserved c then String c (query_escape r)
      else if Ascii.eqb c " " then String "+" (query_escape r)
      else let n := nat_of_ascii c in
           String "%" (String (hexdigit (n / 16)) (String (hexdigit (n mod 16)) (query_escape r)))
  end.

Fixpoint skip_to_amp (s : string) : string :=
  match s with
  | EmptyString => EmptyString
  | String c r => if Ascii.eqb c "&" then s else skip_to_amp r
  end.

(* passRE.ReplaceAllString(s, "${1}xxx$2") *)
Fixpoint mask (fuel : nat) (s : string) : string :=
  match fuel with
  | O => s
  | S f =>
      match cut_prefix s "password=" with
      | Some rest => "password=xxx" ++ mask f (skip_to_amp rest)
      | None => match s with
                | EmptyString => EmptyString
                | String c r => String c (mask f r)
                end
      end
  end.

(* url.Values{"type","user","password"}.Encode(): keys sorted *)
Definition login_query (user pass : string) : string :=
  "password=" ++ query_escape pass ++ "&type=keygen&user=" ++ query_escape user.

Fixpoint has_char (c : ascii) (s : string) : bool :=
  match s with EmptyString => false | String x r => Ascii.eqb x c || has_char c r end.
