From Coq Require Import List String Ascii Bool Arith Lia.
From NA Require Import Base.Str Secrets.Model.
Import ListNotations.
Open Scope string_scope.

Lemma hexdigit_not c n : n < 16 -> nat_of_ascii c < 48 \/ (57 < nat_of_ascii c /\ nat_of_ascii c < 65) -> Ascii.eqb (hexdigit n) c = false.
Proof.
  intros Hn Hc. apply Ascii.eqb_neq. intro E. subst c. unfold hexdigit in Hc.
  destruct (Nat.ltb n 10) eqn:El.
  - apply Nat.ltb_lt in El. rewrite nat_ascii_embedding in Hc by lia. lia.
  - apply Nat.ltb_ge in El. rewrite nat_ascii_embedding in Hc by lia. lia.
Qed.

(* the escaped form never contains '&' or '=' *)
Lemma escape_no_special s c :
  (c = "&"%char \/ c = "="%char) -> has_char c (query_escape s) = false.
Proof.
  intros Hc. induction s as [|x r IH]; [reflexivity|]. cbn [query_escape].
  destruct (unreserved x) eqn:Eu.
  - cbn [has_char]. rewrite IH, orb_false_r. apply Ascii.eqb_neq. intro E. subst x.
    destruct Hc as [->| ->]; vm_compute in Eu; discriminate.
  - destruct (Ascii.eqb x " ").
    + cbn [has_char]. rewrite IH, orb_false_r. destruct Hc as [->| ->]; reflexivity.
    + cbn [has_char]. rewrite IH, orb_false_r.
      assert (H1 : nat_of_ascii x / 16 < 16).
      { pose proof (nat_ascii_bounded x). apply Nat.div_lt_upper_bound; lia. }
      assert (H2 : nat_of_ascii x mod 16 < 16) by (apply Nat.mod_upper_bound; lia).
      destruct Hc as [->| ->].
      * rewrite (hexdigit_not "&" _ H1), (hexdigit_not "&" _ H2) by (left; vm_compute; lia). reflexivity.
      * rewrite (hexdigit_not "=" _ H1), (hexdigit_not "=" _ H2) by (right; vm_compute; lia). reflexivity.
Qed.

Lemma skip_to_amp_app e t : has_char "&" e = false -> skip_to_amp (e ++ String "&" t) = String "&" t.
Proof.
  induction e as [|x r IH]; intros H; [reflexivity|].
  cbn [has_char] in H. apply orb_false_elim in H. destruct H as [H1 H2].
  cbn [append skip_to_amp]. rewrite H1. apply IH. exact H2.
Qed.

(* a string without '=' has no occurrence of "password=" *)
Lemma prefix_pw_needs_eq s : has_char "=" s = false -> cut_prefix s "password=" = None.
Proof.
  intros H. unfold cut_prefix, has_prefix.
  destruct (String.prefix "password=" s) eqn:E; [|reflexivity]. exfalso.
  do 9 (destruct s as [|? s]; [simpl in E; try discriminate|];
        cbn [String.prefix] in E;
        match type of E with (if ?d then _ else _) = true => destruct d; [subst|discriminate] end;
        cbn [has_char] in H; try (apply orb_false_elim in H; destruct H as [? H])).
  all: try discriminate.
Qed.

Lemma mask_id fuel s : has_char "=" s = false -> mask fuel s = s.
Proof.
  revert s; induction fuel as [|f IH]; intros s H; [reflexivity|].
  cbn [mask]. rewrite (prefix_pw_needs_eq s H).
  destruct s as [|c r]; [reflexivity|]. cbn [has_char] in H. apply orb_false_elim in H. destruct H as [_ H].
  rewrite (IH r H). reflexivity.
Qed.

Lemma cut_prefix_pw X : cut_prefix ("password=" ++ X) "password=" = Some X.
Proof. unfold cut_prefix, has_prefix. cbn. destruct X; reflexivity. Qed.

Lemma mask_step_other f c r :
  cut_prefix (String c r) "password=" = None -> mask (S f) (String c r) = String c (mask f r).
Proof. intros H. cbn [mask]. rewrite H. reflexivity. Qed.

Lemma cut_prefix_head c r : Ascii.eqb c "p" = false -> cut_prefix (String c r) "password=" = None.
Proof.
  intros H. unfold cut_prefix, has_prefix. cbn [String.prefix].
  destruct (ascii_dec "p" c) as [E|E]; [subst; discriminate | reflexivity].
Qed.

(* The logged login URL is the same for every password. *)
Theorem masked_login_independent_of_password_proved :
  forall user pass fuel, 19 <= fuel ->
    mask fuel (login_query user pass) = "password=xxx&type=keygen&user=" ++ query_escape user.
Proof.
  intros user pass fuel Hf. unfold login_query.
  destruct fuel as [|f]; [lia|]. cbn [mask]. rewrite cut_prefix_pw.
  change ("&type=keygen&user=" ++ query_escape user) with (String "&" ("type=keygen&user=" ++ query_escape user)).
  rewrite skip_to_amp_app by (apply escape_no_special; left; reflexivity).
  set (U := query_escape user).
  assert (HU : has_char "=" U = false) by (apply escape_no_special; right; reflexivity).
  (* "&type=keygen&user=" : the only 'p' is followed by 'e', not 'a' *)
  cbn [append].
  repeat (destruct f as [|f]; [lia|];
          first [ rewrite mask_step_other by (apply cut_prefix_head; reflexivity)
                | rewrite mask_step_other by (unfold cut_prefix, has_prefix; cbn [String.prefix];
                                              repeat match goal with |- context [ascii_dec ?a ?b] => destruct (ascii_dec a b); try discriminate end;
                                              reflexivity) ]).
  rewrite mask_id by exact HU. reflexivity.
Qed.
