#!/usr/bin/env python3
"""simdev — a scripted ASA / IOS / Linux device for session checks.
Spawned by the tool through SIMULATE_ROUTER="python3 simdev.py SCENARIO.json".
Talks on stdin/stdout like a device behind ssh (CRLF line ends, command echo,
prompt without newline).  Every received line is appended to the transcript
file with its ordinal.  A fault plan injects, at the k-th received line, an
error text, unexpected output, a stall beyond the timeout, or a connection close.

scenario keys: family (ASA|IOS|Linux), hostname, banner (text shown at login or
""), issue (Linux: content of /etc/issue), enable ("none"|"nopass"|"pass"),
password ("..."), config (text of write term / sh run), routes + iptables
(Linux), width511 (ASA), faults: [{at: k, kind: error|garbage|stall|eof}],
banners: [{at: k, form: 1..5, kind: "2:00"|"1:00"|"aborted"}] (IOS reload
banners relative to the k-th received line), transcript: path, stall_s: seconds,
nvram_confirm (IOS write memory asks [confirm]), wm_fail (write memory fails)"""
import json, os, sys, time

sc = json.load(open(sys.argv[1]))
fam = sc['family']
host = sc.get('hostname', 'router')
tr = open(sc['transcript'], 'a')
count = [0]
faults = {f['at']: f['kind'] for f in sc.get('faults', [])}
banners = {b['at']: b for b in sc.get('banners', [])}
out = sys.stdout


def log(kind, text):
    tr.write(json.dumps(dict(n=count[0], kind=kind, text=text)) + '\n')
    tr.flush()


def send(s):
    out.write(s.replace('\n', '\r\n'))
    out.flush()


def banner_text(kind):
    msg = {'2:00': 'SHUTDOWN in 0:02:00', '1:00': 'SHUTDOWN in 0:01:00', 'aborted': 'SHUTDOWN ABORTED'}[kind]
    return '\n\n\n\x07***\n*** --- %s ---\n***\n' % msg


def readline():
    line = sys.stdin.readline()
    if line == '':
        log('eof-from-tool', '')
        sys.exit(0)
    line = line.rstrip('\r\n')
    count[0] += 1
    log('recv', line)
    gate = sc.get('gate')
    if gate and gate['at'] == count[0]:
        # park the session here until the harness lets it go on
        open(gate['file'] + '.reached', 'w').write(str(os.getpid()))
        for _ in range(600):
            if os.path.exists(gate['file'] + '.go'):
                break
            time.sleep(0.05)
    k = faults.get(count[0])
    if k == 'eof':
        log('fault', 'eof')
        sys.stdout.close()
        os._exit(0)
    if k == 'stall':
        log('fault', 'stall')
        time.sleep(sc.get('stall_s', 3))
        os._exit(0)
    return line, k


prompt = [host + '#']


def respond(cmd, body, fault=None, echo=True):
    """echo, output, prompt — with an optional reload banner woven in."""
    b = banners.get(count[0])
    ptxt = prompt[0]
    if fault == 'error':
        body = "ERROR: % Invalid input detected at '^' marker.\n" if fam != 'Linux' else 'bash: command failed\n'
    elif fault == 'garbage':
        body = 'unexpected output %d\n' % count[0]
    elif fault == 'warnerr':
        # the warning the tool expects for this kind of command, followed by a rejection
        body = ('WARNING: Same object-group is used more than once in one config line. This config is redundant.\n'
                'ERROR: Unable to add, access-list config limit reached\n')
    elif fault == 'info':
        body = 'INFO: Security level for "inside" set to 100 by default.\n'
    ech = cmd + '\n' if echo else ''
    if b:
        bt = banner_text(b['kind'])
        form = b['form']
        log('banner', json.dumps(b))
        if form == 1:      # banner and a fresh prompt before the echo
            send(bt + '\n' + ptxt + ech + body + ptxt)
        elif form == 2:    # after the output, followed by a fresh prompt
            send(ech + body + ptxt + bt + '\n' + ptxt)
        elif form == 3:    # after the output, no fresh prompt
            send(ech + body + bt + ptxt)
        elif form == 4:    # inside the echo
            h = max(1, len(cmd) // 2)
            send(cmd[:h] + bt + cmd[h:] + '\n' + body + ptxt)
        else:              # form 5: inside the echo, directly behind first word
            h = cmd.find(' ') if ' ' in cmd else len(cmd)
            send(cmd[:h] + bt + cmd[h:] + '\n' + body + ptxt)
    else:
        send(ech + body + ptxt)


def login():
    if sc.get('ssh_key_question'):
        send('The authenticity of host can\'t be established.\nAre you sure you want to continue connecting (yes/no)? ')
        readline()
    send('Enter Password:' if fam != 'Linux' else 'password:')
    line, k = readline()
    log('password', line)
    if sc.get('reject_password'):
        send('\nEnter Password:')
        readline()
        send('\nPermission denied\n')
        sys.exit(0)
    if fam == 'Linux':
        send('\nLast login: today\n' + host + ':~$ ')
        return
    bn = sc.get('banner', '')
    send('\n' + (bn + '\n' if bn else ''))
    en = sc.get('enable', 'none')
    if en == 'none':
        send(host + '#')
        return
    send(host + '>')
    line, k = readline()            # enable
    if en == 'pass':
        send(line + '\nPassword:')
        line, k = readline()
        log('password', line)
        send('\n' + host + '#')
    else:
        send(line + '\n' + host + '#')


def main():
    login()
    conf_mode = False
    while True:
        line, k = readline()
        cmd = line
        body = ''
        if cmd == 'exit':
            send('exit\n')
            break
        look = cmd[3:] if cmd.startswith('do ') else cmd
        if fam == 'ASA':
            if look == 'sh pager':
                body = 'no pager\n' if sc.get('nopager', True) else 'pager lines 24\n'
            elif look == 'sh term':
                body = 'Width = %d, no monitor\n' % (511 if sc.get('width511', True) else 80)
            elif look == 'sh ver':
                body = 'Cisco Adaptive Security Appliance Software Version 9.12(4)\n'
            elif look == 'show hostname':
                body = sc.get('reported_hostname', host) + '\n'
            elif look == 'write term':
                body = sc.get('config', '')
            elif look == 'write memory':
                body = ('Building configuration...\nCryptochecksum: abcdef01\n[OK]\n' if not sc.get('wm_fail')
                        else 'Building configuration...\n%Error copying\n')
        elif fam == 'IOS':
            if look == 'sh ver':
                body = 'Cisco IOS Software, C2900 Software, Version 15.1(4)M4\n'
            elif look == 'sh run':
                body = sc.get('config', '')
            elif look == '':
                # empty command: fresh prompt
                if sc.get('reported_hostname'):
                    send('\n' + sc['reported_hostname'] + '#')
                    continue
            elif look.startswith('reload in') and k in ('error', 'garbage'):
                pass            # rejected: plain error text and prompt, no dialogue
            elif look.startswith('reload in'):
                send(cmd + '\n\nSystem configuration has been modified. Save? [yes/no]: ')
                l2, k2 = readline()
                send(l2 + '\n\nReload reason: Reload Command\nProceed with reload? [confirm]')
                l3, k3 = readline()
                send('\n\n' + prompt[0])
                continue
            elif look == 'reload cancel' and k in ('error', 'garbage'):
                pass
            elif look == 'reload cancel':
                send(cmd + '\n' + prompt[0] + banner_text('aborted') + '\n' + prompt[0])
                continue
            elif look == 'write memory':
                if sc.get('nvram_confirm'):
                    send(cmd + '\nWarning: Attempting to overwrite an NVRAM configuration previously written\n'
                         'by a different version of the system image.\nOverwrite the previous NVRAM configuration?[confirm]')
                    readline()
                    send('\nBuilding configuration...\n[OK]\n' + prompt[0])
                    continue
                body = ('Building configuration...\n[OK]\n' if not sc.get('wm_fail') else 'Building configuration...\n%Error\n')
        else:  # Linux
            prompt[0] = 'router#' if sc.get('_ps1') else host + ':~$ '
            if look.startswith('PS1='):
                sc['_ps1'] = True
                send(cmd + '\n' + 'router#')
                continue
            if look == 'uname -r':
                body = '5.10.0\n'
            elif look == 'uname -m':
                body = 'x86_64\n'
            elif look == 'hostname -s':
                body = sc.get('reported_hostname', host) + '\n'
            elif look.startswith('grep ') and look.endswith('/etc/issue'):
                body = sc.get('issue', '')
            elif look == 'ip route show':
                body = sc.get('routes', '')
            elif look == 'iptables-save':
                body = sc.get('iptables', '')
            elif look == 'echo $?':
                body = ('1\n' if sc.get('_failed') else '0\n')
                sc['_failed'] = False
            elif look == 'which iptables-restore':
                body = '/sbin/iptables-restore\n'
        if k in ('error', 'garbage', 'warnerr', 'info'):
            log('fault', k)
            if fam == 'Linux' and k == 'error' and (look.startswith('ip route ') and not look.startswith('ip route show')
                                                      or look.startswith('chmod ') or look.startswith('/etc/network') or look.startswith('mv -f')):
                sc['_failed'] = True
                respond(cmd, '', None)
            else:
                respond(cmd, body, k)
        else:
            respond(cmd, body)


main()
