"""C09 — any device-side failure stops the run and is reported truthfully."""
import json
from vlib import common as C
from vlib import session as S
from vlib import session_props as P


def main(ctx):
    st = ctx.proof_status()
    failing, breaks, cov = [], [], {}
    if ctx.build_impl() and ctx.build_harness():
        quick = ctx.tier == 'quick'
        items, meta = [], []
        for fam in ('ASA', 'IOS', 'Linux', 'PAN-OS', 'NSX'):
            for mode in ('approve', 'compare'):
                base = P.baseline(ctx, fam, 'do-approve', mode)
                if base['rc'] != 0:
                    breaks.append(dict(correspondence='fault-free %s %s session does not succeed' % (fam, mode),
                                       stderr=base['err'][-400:], transcript=base['transcript']))
                    continue
                plan = P.plan_from(fam, base['tr'])
                n = len(plan)
                step = 1 if (not quick or mode == 'approve') else 2
                kinds = ['error', 'garbage', 'eof', 'stall'] if fam not in S.HTTP_FAMS else list(P.HTTP_KINDS)
                jobs = P.fault_jobs(fam, 'do-approve', mode, n, kinds, step=step)
                if fam == 'NSX':
                    # only the replies to GET requests carry a body the tool needs; elsewhere status (and token header) decide
                    jobs = [j for j in jobs if not (j['faults'][0]['kind'] == 'malformed' and plan[j['faults'][0]['at'] - 1][0] != 6)]
                if fam == 'PAN-OS' and mode == 'approve':
                    for k, (c_, _) in enumerate(plan):
                        if c_ == 17:
                            jobs.append(dict(fam=fam, front='do-approve', mode=mode, faults=[dict(at=k + 1, kind='jobfail')], timeout_s=1))
                if fam == 'ASA' and mode == 'approve':
                    # replies mixing an expected warning with a rejection, and harmless INFO lines, at the change commands
                    for k, (c_, _) in enumerate(plan):
                        if c_ in (9, 10):
                            jobs.append(dict(fam=fam, front='do-approve', mode=mode, faults=[dict(at=k + 1, kind='warnerr')], timeout_s=1))
                            jobs.append(dict(fam=fam, front='do-approve', mode=mode, faults=[dict(at=k + 1, kind='info')], timeout_s=1))
                if quick and len(jobs) > 70:
                    jobs = [j for i, j in enumerate(jobs) if j['faults'][0]['kind'] != 'stall' or i % 3 == 0]
                res = S.run_sessions(ctx, jobs)
                for job, r in zip(jobs, res):
                    f = job['faults'][0]
                    obs = P.observe(fam, r, base['pairs'])
                    # a malformed reply to a read may be detected only when the collected configuration is parsed:
                    # further reads (never changes) may follow before the run stops
                    if r['rc'] != 0 and f['kind'] in P.JUNK_KINDS and all(e[1] in ('conf', 'read') for e in obs if e[0] > f['at']) \
                       and any(e[0] == f['at'] and e[1] in ('conf', 'read') for e in obs):
                        obs = [e for e in obs if e[0] <= f['at']]
                    kind = f['kind']
                    pos = f['at'] - 1
                    code = 1 if kind in P.JUNK_KINDS else 2
                    faults = [(pos, code)] if kind != 'info' else []
                    # Linux: a failing command is reported by the exit status asked for afterwards
                    if fam == 'Linux' and kind == 'error' and pos < n and plan[pos][0] in (9, 10):
                        nxt = next((i for i in range(pos + 1, n) if plan[i][0] == 18), None)
                        faults = [(nxt, 1)] if nxt is not None else faults
                    items.append(P.c_scase(plan, faults, [P.CODE[e[1]] for e in obs], r['rc'] == 0))
                    meta.append((fam, mode, job, r, obs, plan))
        verdicts = P.eval_scases(ctx, 'c09', items)
        stats = dict(sessions=len(items), effective_fault_runs=0, ignored_junk_runs=0)
        for (fam, mode, job, r, obs, plan), v in zip(meta, verdicts):
            corr_t, corr_ok, eff_ok, lit_ok, guard_ok, ro = v
            f = job['faults'][0]
            stt, hist = P.status_of(r)
            slot = stt.get('approve' if mode == 'approve' else 'compare', {}).get('result')
            rep = dict(property='C09', family=fam, front='do-approve', mode=mode, fault=f, rc=r['rc'],
                       received=[(e[0], e[1], e[2]) for e in obs], status=stt, history_end=hist,
                       stderr=r['err'][-400:], device=r['scenario'].get('config'), target=r['target'],
                       how='sim/simdev.py is spawned through SIMULATE_ROUTER; the fault is injected at the at-th line the device receives')
            failed = r['rc'] != 0
            want_slot = ('FAILED' if mode == 'approve' else 'DIFF') if failed else ('OK' if mode == 'approve' else None)
            if r['rc'] not in (0, 1) or r['rc'] == 'hang':
                failing.append(dict(what='%s %s: exit status %s with fault %s' % (fam, mode, r['rc'], f), replay=rep, finding=None, key='rc'))
            elif eff_ok:
                failing.append(dict(what='%s %s: after the fault at line %d (%s) the device still receives a change or save command'
                                    % (fam, mode, f['at'], f['kind']), replay=rep, finding=None, key='aftereff'))
            elif failed and (slot != want_slot or hist != 'END: FAILED'):
                failing.append(dict(what='%s %s: failed run recorded as status=%s history=%r' % (fam, mode, slot, hist),
                                    replay=rep, finding=None, key='record'))
            elif not failed and mode == 'approve' and (slot != 'OK' or hist != 'END: OK'):
                failing.append(dict(what='%s approve: successful run recorded as status=%s history=%r' % (fam, slot, hist),
                                    replay=rep, finding=None, key='record'))
            elif lit_ok:
                stats['ignored_junk_runs'] += 1
                failing.append(dict(what='%s %s: %s in reply to a command whose output the tool does not inspect (line %d: %r) is ignored; '
                                         'changes are sent and the run is reported as successful'
                                    % (fam, mode, f['kind'], f['at'], next((e[2] for e in obs if e[0] == f['at']), '?')),
                                    replay=rep, finding='F-C09-1', key='literal'))
            elif corr_t or corr_ok:
                breaks.append(dict(correspondence='Session.Model.run vs real dialogue', family=fam, mode=mode, fault=f,
                                   observed=[e[1] for e in obs], rc=r['rc'], verdict=v))
            if failed:
                stats['effective_fault_runs'] += 1
        cov = dict(evaluations=len(items), distinct_nontrivial=len(set(items)),
                   rule='fault enumeration: every line the simulated ASA / IOS / Linux device receives x {error text, unexpected output, '
                        'connection close, stall (sampled)} x {approve, compare} through do-approve; distinct by (plan, fault, observed trace)',
                   traces_validated_against_impl=len(items), correspondence_mismatches=len(breaks), **stats,
                   samples=[dict(family=meta[0][0], mode=meta[0][1], fault=meta[0][2]['faults'], received=[e[1] for e in meta[0][4]])] if meta else [])
    cov = C.proof_coverage(ctx, cov)
    assumptions = [
        'the device is sim/simdev.py (CLI dialogue of ASA, IOS, Linux); PAN-OS / NSX faults: see C09 evidence key http when built',
        'a stall is a reply later than the configured timeout (1 s in the runs); real timing and pty buffering are not modelled',
        'the plan (request classes) is taken from the fault-free run of the real tool; which replies are inspected is the table CHECKED in vlib/session_props.py',
    ]
    return C.finish(ctx, failing, breaks, cov, assumptions)
