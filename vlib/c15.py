"""C15 — IOS changes always run under a reload guard and survive its banners."""
from vlib import common as C
from vlib import session as S
from vlib import session_props as P


def main(ctx):
    st = ctx.proof_status()
    failing, breaks, cov = [], [], {}
    if ctx.build_impl() and ctx.build_harness():
        quick = ctx.tier == 'quick'
        base = P.baseline(ctx, 'IOS', 'do-approve', 'approve')
        btr = base['tr']
        plan = P.plan_from('IOS', btr)
        items = [P.c_scase(plan, [], [P.CODE[e[1]] for e in btr], base['rc'] == 0)]
        # positions inside the guarded region: from the command after the guard dialogue to the cancellation
        first = next(i for i, e in enumerate(btr) if e[1] == 'guard') + 3
        last = next(i for i, e in enumerate(btr) if e[1] == 'unguard')
        positions = list(range(first + 1, last + 1))       # 1-based line numbers
        jobs = []
        for k in positions:
            for form in (1, 2, 3, 4, 5):
                for kind in ('2:00', '1:00', 'aborted'):
                    if quick and (k + form) % 2 and kind != '1:00':
                        continue
                    jobs.append(dict(fam='IOS', front='do-approve', mode='approve', banners=[dict(at=k, form=form, kind=kind)], timeout_s=2))
        res = S.run_sessions(ctx, jobs)
        base_changes = [e[2] for e in btr if e[1] in ('change', 'change2')]
        for job, r in zip(jobs, res):
            b = job['banners'][0]
            obs = P.observe('IOS', r, base['pairs'])
            changes = [e[2] for e in obs if e[1] in ('change', 'change2')]
            rep = dict(property='C15', family='IOS', banner=b, received=[(e[0], e[1], e[2]) for e in obs], rc=r['rc'], stderr=r['err'][-300:],
                       how='the reload banner is woven into the reply to the at-th received line in one of the five known forms '
                           '(1 banner+prompt before echo, 2 after output with prompt, 3 after output, 4 inside echo, 5 behind first word)')
            st_, hist = P.status_of(r)
            # form 2 arrives behind the prompt of its command: it is seen by the following command
            seen_at = b['at'] + 1 if b['form'] == 2 else b['at']
            at_cls = next((e[1] for e in btr if e[0] == seen_at), None)
            nxt_cls = next((e[1] for e in btr if e[0] == seen_at + 1), None)
            if r['rc'] != 0 or changes != base_changes or st_.get('approve', {}).get('result') != 'OK':
                # configure terminal / end are sent without banner handling (SendCmd): known finding
                fid = 'F-C15-1' if at_cls in ('enter', 'leave', 'unguard') else None
                if at_cls == 'change' and nxt_cls == 'change2' and b['form'] in (1, 2, 3):
                    fid = 'F-C15-2'
                failing.append(dict(what='banner %s form %d at line %d (%s) changes the outcome of the run (rc=%s)'
                                    % (b['kind'], b['form'], b['at'], at_cls, r['rc']),
                                    replay=rep, finding=fid, key='outcome'))
                continue
            # re-arm after the one-minute warning: "do reload in 2" before the next change
            if b['kind'] == '1:00':
                idx = next((i for i, e in enumerate(obs) if e[0] == seen_at), None)
                cmd_at = obs[idx][1] if idx is not None else None
                after = obs[idx + 1:] if idx is not None else []
                # a joined line: the second half is already sent
                if after and after[0][1] == 'change2':
                    after = after[1:]
                if cmd_at in ('change', 'change2') and not (after and after[0][1] == 'guard'):
                    failing.append(dict(what='one-minute warning at line %d (form %d): the reload is not re-armed before the next command' % (b['at'], b['form']),
                                        replay=rep, finding=None, key='rearm'))
                    continue
            plan2 = [(P.CODE[e[1]], False) for e in obs]
            items.append(P.c_scase(plan2, [], [P.CODE[e[1]] for e in obs], True))
            jobs_meta = rep
        verdicts = P.eval_scases(ctx, 'c15', items)
        for it, v in zip(items, verdicts):
            if v[4]:
                failing.append(dict(what='a change or the save lies outside the reload guard', replay=dict(property='C15', case=it), finding=None, key='guard'))
        cov = dict(evaluations=len(jobs) + 1, distinct_nontrivial=len(set(items)),
                   rule='IOS approve through do-approve; banner kinds {2:00, 1:00, aborted} x five forms x every command position between guard and cancellation; '
                        'distinct by received class sequence',
                   traces_validated_against_impl=len(jobs) + 1, positions=len(positions),
                   samples=[dict(banner=jobs[0]['banners'][0], received=[e[1] for e in P.observe('IOS', res[0], base['pairs'])])] if jobs else [])
    cov = C.proof_coverage(ctx, cov)
    return C.finish(ctx, failing, breaks, cov,
                    ['banner frames arrive in one of the five forms and are not split across reads inside the frame itself; '
                     'timing of a real reload timer is not modelled'])
