"""C16 — output is a deterministic function of the inputs.

Proof: coq/theories/Determinism/{Model,Proofs}.v, Properties/C16.v over the
inventory of map-range loops regenerated from the Go source on every run
(Gen/MapRanges.v; `unreviewed = []` is a theorem).
Tie / search: the freshly built drc is run many times in fresh processes on
byte-identical inputs — every file-compare example of the repository's test data
(expanded with the library the tests use) plus inputs with ties — and stdout,
stderr and exit status are compared byte for byte."""
import json, os, shutil, subprocess
from concurrent.futures import ThreadPoolExecutor
from vlib import common as C


def J(model, device, netspoc, **kw):
    return dict(model=model, device=device, netspoc=netspoc, **kw)


ASA_IF = 'interface Ethernet0/0\n nameif outside\ninterface Ethernet0/1\n nameif inside\n'


def ties():
    """Inputs with ties: what is chosen must not depend on the iteration order."""
    l = []
    # several identical object-groups on the device, one needed
    grp = lambda n: 'object-group network %s\n network-object 10.0.1.0 255.255.255.0\n network-object host 10.0.2.2\n' % n
    l.append(('asa-identical-groups', J('ASA', ASA_IF + grp('g1') + grp('g2') + grp('g3') + grp('g4') +
              ''.join('access-list a%d extended permit ip object-group g%d any4\n' % (i, i) for i in (1, 2, 3, 4)) +
              'access-list outside_in extended permit tcp object-group g1 any4 eq 80\naccess-group outside_in in interface outside\n',
              grp('n1') + grp('n2') +
              'access-list outside_in extended permit tcp object-group n1 any4 eq 80\n'
              'access-list outside_in extended permit udp object-group n2 any4 eq 53\naccess-group outside_in in interface outside\n')))
    # two target groups that both match two device groups
    l.append(('asa-groups-many-to-many', J('ASA', ASA_IF + grp('g1') + grp('g2') +
              'access-list outside_in extended permit tcp object-group g1 any4 eq 80\n'
              'access-list outside_in extended permit tcp object-group g2 any4 eq 81\naccess-group outside_in in interface outside\n',
              grp('n1') + grp('n2') + grp('n3') +
              'access-list outside_in extended permit tcp object-group n3 any4 eq 81\n'
              'access-list outside_in extended permit tcp object-group n2 any4 eq 80\n'
              'access-list outside_in extended permit tcp object-group n1 any4 eq 82\naccess-group outside_in in interface outside\n')))
    # crypto map entries with the same peer
    cm = lambda seq, net, pfs, peer='10.0.0.1': (
        'access-list crypto-outside-%d extended permit ip any4 10.0.%d.0 255.255.255.0\n'
        'crypto map crypto-outside %d match address crypto-outside-%d\ncrypto map crypto-outside %d set pfs group%d\n'
        'crypto map crypto-outside %d set peer %s\ncrypto map crypto-outside %d set ikev1 transform-set Trans1\n' % (seq, net, seq, seq, seq, pfs, seq, peer, seq))
    ts = 'crypto ipsec ikev1 transform-set Trans1 esp-3des esp-md5-hmac\n'
    l.append(('asa-crypto-equal-peers', J('ASA', ASA_IF + ts + cm(1, 1, 19) + 'crypto map crypto-outside interface outside\n',
              ts + cm(1, 1, 19) + cm(2, 2, 20) + 'crypto map crypto-outside interface outside\n')))
    l.append(('asa-crypto-equal-peers-3', J('ASA', ASA_IF + ts + cm(5, 1, 19) + cm(7, 2, 20) + 'crypto map crypto-outside interface outside\n',
              ts + cm(1, 3, 19) + cm(2, 2, 21) + cm(3, 1, 14) + 'crypto map crypto-outside interface outside\n')))
    l.append(('asa-crypto-device-equal-peers', J('ASA', ASA_IF + ts + cm(1, 1, 19) + cm(2, 2, 20) + cm(3, 3, 21) + 'crypto map crypto-outside interface outside\n',
              ts + cm(1, 3, 5) + 'crypto map crypto-outside interface outside\n')))
    # several identical simple objects
    tsn = lambda n: 'crypto ipsec ikev1 transform-set %s esp-aes-256 esp-sha-hmac\n' % n
    l.append(('asa-identical-simple-objects', J('ASA', ASA_IF + tsn('T1') + tsn('T2') + tsn('T3') +
              'crypto map crypto-outside 1 set peer 10.0.0.1\ncrypto map crypto-outside 1 set ikev1 transform-set T2\ncrypto map crypto-outside interface outside\n',
              tsn('Trans1') + tsn('Trans2') +
              'crypto map crypto-outside 1 set peer 10.0.0.1\ncrypto map crypto-outside 1 set ikev1 transform-set Trans1\n'
              'crypto map crypto-outside 2 set peer 10.0.0.2\ncrypto map crypto-outside 2 set ikev1 transform-set Trans2\ncrypto map crypto-outside interface outside\n')))
    # several invalid references: which one is reported
    l.append(('asa-two-unknown-references', J('ASA', ASA_IF,
              'access-list a1 extended permit ip object-group gx any4\naccess-list a2 extended permit ip object-group gy any4\n'
              'access-group a1 in interface outside\naccess-group a2 in interface inside\n'
              'crypto map cm 1 match address nope1\ncrypto map cm 1 set peer 10.0.0.1\ncrypto map cm 2 match address nope2\ncrypto map cm 2 set peer 10.0.0.2\n'
              'crypto map cm interface outside\n')))
    l.append(('asa-device-unknown-references', J('ASA', ASA_IF +
              'access-list a1 extended permit ip object-group gx any4\naccess-list a2 extended permit ip object-group gy any4\n'
              'access-group a1 in interface outside\naccess-group a2 in interface inside\n',
              'access-list a1 extended permit ip any4 any4\naccess-group a1 in interface outside\n')))
    l.append(('asa-two-aaa-servers', J('ASA', ASA_IF,
              'aaa-server S1 protocol ldap\naaa-server S2 protocol ldap\naaa-server S3 protocol ldap\n'
              'access-list a1 extended permit ip any4 any4\naccess-group a1 in interface outside\n')))
    # raw file: several clashes, several unused objects, several equal simple objects
    l.append(('asa-raw-several-clashes', J('ASA', ASA_IF,
              'object-group network g1\n network-object host 10.0.0.1\nobject-group network g2\n network-object host 10.0.0.2\n'
              'access-list a1 extended permit ip object-group g1 object-group g2\naccess-group a1 in interface outside\n',
              raw='object-group network g1\n network-object host 10.9.0.1\nobject-group network g2\n network-object host 10.9.0.2\n'
                  'access-list a1 extended permit ip object-group g1 object-group g2\naccess-group a1 in interface outside\n')))
    l.append(('asa-raw-two-errors', J('ASA', ASA_IF,
              'object-group network g1\n network-object host 10.0.0.1\naccess-list a1 extended permit ip object-group g1 any4\n'
              'access-group a1 in interface outside\n',
              raw='object-group network g1\n network-object host 10.9.0.1\naccess-list a1 extended permit ip object-group g1 any4\n'
                  'access-group a1 in interface outside\ncrypto ca certificate map x 10\n subject-name attr ea eq a@b\n'
                  'tunnel-group tg type ipsec-l2l\ntunnel-group-map x 10 tg\n')))
    l.append(('asa-raw-several-unused', J('ASA', ASA_IF,
              'access-list a1 extended permit ip any4 any4\naccess-group a1 in interface outside\n',
              raw='object-group network r1\n network-object host 10.9.0.1\nobject-group network r2\n network-object host 10.9.0.2\n'
                  'object-group network r3\n network-object host 10.9.0.3\naccess-list unused1 extended permit ip any4 any4\n'
                  'access-list unused2 extended permit ip any4 any4\n' + tsn('U1') + tsn('U2'))))
    l.append(('asa-raw-unbound-and-double', J('ASA', ASA_IF,
              'access-list a1 extended permit ip any4 any4\naccess-group a1 in interface outside\n'
              'access-list a2 extended permit ip any4 any4\naccess-group a2 in interface inside\n',
              raw='access-list r1 extended permit ip host 1.1.1.1 any4\naccess-group r1 in interface outside\n'
                  'access-list r2 extended permit ip host 1.1.1.2 any4\naccess-group r2 in interface inside\n'
                  'access-list r3 extended permit ip host 1.1.1.3 any4\naccess-group r3 in interface dmz\n'
                  'access-list r4 extended permit ip host 1.1.1.4 any4\naccess-group r4 in interface dmz2\n')))
    l.append(('asa-ipv6-and-raw', J('ASA', ASA_IF,
              'access-list a1 extended permit ip any4 any4\naccess-group a1 in interface outside\n'
              'access-list a2 extended permit ip any4 any4\naccess-group a2 in interface inside\nroute outside 10.1.0.0 255.255.0.0 10.0.0.1\n',
              ipv6='access-list a1 extended permit ip any6 any6\naccess-group a1 in interface outside\n'
                   'access-list a2 extended permit ip any6 any6\naccess-group a2 in interface inside\nipv6 route outside 1000::/16 1::1\n',
              raw='route outside 10.2.0.0 255.255.0.0 10.0.0.2\nroute inside 10.3.0.0 255.255.0.0 10.0.1.2\n')))
    # IOS
    ios_if = 'interface Ethernet1\n ip address 10.0.6.1 255.255.255.0\ninterface Ethernet2\n ip address 10.0.7.1 255.255.255.0\n'
    acl = lambda n, extra='': 'ip access-list extended %s\n permit ip host 10.0.1.1 any\n permit tcp 10.0.2.0 0.0.0.255 any eq 80\n%s deny ip any any\n' % (n, extra)
    l.append(('ios-identical-acls', J('IOS', acl('E1') + acl('E2') + acl('E3') +
              'interface Ethernet1\n ip address 10.0.6.1 255.255.255.0\n ip access-group E1 in\n ip access-group E3 out\n'
              'interface Ethernet2\n ip address 10.0.7.1 255.255.255.0\n ip access-group E2 in\n',
              acl('N1', ' permit udp any any eq 53\n') + acl('N2') + acl('N3', ' permit udp any any eq 53\n') +
              'interface Ethernet1\n ip address 10.0.6.1 255.255.255.0\n ip access-group N1 in\n ip access-group N2 out\n'
              'interface Ethernet2\n ip address 10.0.7.1 255.255.255.0\n ip access-group N3 in\n')))
    l.append(('ios-vrf-routes', J('IOS', ios_if + 'ip route vrf A 10.1.0.0 255.255.0.0 10.0.6.2\nip route vrf B 10.1.0.0 255.255.0.0 10.0.6.2\n'
              'ip route vrf C 10.1.0.0 255.255.0.0 10.0.6.2\nip route 10.1.0.0 255.255.0.0 10.0.6.2\n',
              ios_if + 'ip route vrf D 10.2.0.0 255.255.0.0 10.0.6.2\nip route vrf B 10.2.0.0 255.255.0.0 10.0.6.2\n')))
    l.append(('ios-crypto-equal-peers', J('IOS', ios_if +
              'ip access-list extended crypto-1\n permit ip any 10.0.1.0 0.0.0.255\n'
              'crypto map VPN 1 ipsec-isakmp\n match address crypto-1\n set peer 10.0.0.1\n set pfs group2\n'
              'interface Ethernet1\n crypto map VPN\n',
              'ip access-list extended crypto-1\n permit ip any 10.0.1.0 0.0.0.255\nip access-list extended crypto-2\n permit ip any 10.0.2.0 0.0.0.255\n'
              'crypto map VPN 1 ipsec-isakmp\n match address crypto-1\n set peer 10.0.0.1\n set pfs group2\n'
              'crypto map VPN 2 ipsec-isakmp\n match address crypto-2\n set peer 10.0.0.1\n set pfs group5\n'
              'interface Ethernet1\n ip address 10.0.6.1 255.255.255.0\n crypto map VPN\n')))
    # Linux
    l.append(('linux-option-ties', J('Linux', '*filter\n:INPUT DROP\n:c1 -\n:c2 -\n:c3 -\n-A INPUT -s 10.0.0.1 -d 10.0.0.2 -p tcp --dport 80 -j c1\n'
              '-A INPUT -s 10.0.0.3 -j c2\n-A c1 -j ACCEPT\n-A c2 -j ACCEPT\n-A c3 -j ACCEPT\nCOMMIT\n',
              '*filter\n:INPUT DROP\n:d1 -\n:d2 -\n-A INPUT -s 10.0.0.9 -d 10.0.0.8 -p udp --dport 81 -j d1\n-A INPUT -d 10.0.0.3 -j d2\n'
              '-A d1 -j ACCEPT\n-A d2 -j ACCEPT\nCOMMIT\n')))
    l.append(('linux-raw-two-tables', J('Linux', '', '*filter\n:INPUT DROP\n-A INPUT -s 10.0.0.1 -j ACCEPT\nCOMMIT\n*nat\n:PREROUTING ACCEPT\nCOMMIT\n',
              raw='*mangle\n:PREROUTING ACCEPT\n:x1 -\n-A PREROUTING -j x1\nCOMMIT\n*raw\n:PREROUTING ACCEPT\n:y1 -\n-A PREROUTING -j y1\nCOMMIT\n'
                  '*filter\n:INPUT DROP\n:z1 -\n:z2 -\n-A INPUT -j z1\n-A z1 -j ACCEPT\n-A z2 -j ACCEPT\nCOMMIT\n')))
    l.append(('linux-raw-two-errors', J('Linux', '', '*filter\n:INPUT DROP\n:c1 -\n:c2 -\n-A INPUT -j c1\n-A c1 -j ACCEPT\n-A c2 -j ACCEPT\nCOMMIT\n'
              '*nat\n:PREROUTING ACCEPT\n:n1 -\n-A n1 -j ACCEPT\nCOMMIT\n',
              raw='*filter\n:c1 -\n:c2 -\n-A c1 -j DROP\n-A c2 -j DROP\nCOMMIT\n*nat\n:n1 -\n-A n1 -j DROP\nCOMMIT\n')))
    # PAN-OS with several vsys: the order of the per-vsys blocks, and which unknown vsys is reported
    def pan(vs):
        body = ''
        for name, dst in vs:
            body += ('<entry name="%s"><display-name>managed by Netspoc</display-name><rulebase><security><rules>'
                     '<entry name="r1"><action>allow</action><from><member>z1</member></from><to><member>z2</member></to><source><member>any</member></source>'
                     '<destination><member>%s</member></destination><service><member>any</member></service><application><member>any</member></application>'
                     '<rule-type>interzone</rule-type></entry></rules></security></rulebase>'
                     '<address><entry name="%s"><ip-netmask>%s/32</ip-netmask></entry></address></entry>' % (name, dst, dst, dst.replace('IP_', '')))
        return '<?xml version="1.0"?>\n<config><devices><entry name="localhost.localdomain"><vsys>' + body + '</vsys></entry></devices></config>\n'
    l.append(('panos-two-vsys-both-change', J('PAN-OS', pan([('vsys1', 'IP_10.1.1.1'), ('vsys2', 'IP_10.1.1.2'), ('vsys3', 'IP_10.1.1.3')]),
                                              pan([('vsys1', 'IP_10.1.1.4'), ('vsys2', 'IP_10.1.1.5'), ('vsys3', 'IP_10.1.1.6')]))))
    l.append(('panos-two-unknown-vsys', J('PAN-OS', pan([('vsys1', 'IP_10.1.1.1')]),
                                          pan([('vsys1', 'IP_10.1.1.1'), ('vsys5', 'IP_10.1.1.5'), ('vsys6', 'IP_10.1.1.6'), ('vsys7', 'IP_10.1.1.7')]))))
    return l


def write_job(d, job):
    code = os.path.join(d, 'code')
    os.makedirs(code, exist_ok=True)
    w = lambda p, t: (os.makedirs(os.path.dirname(p), exist_ok=True), open(p, 'w').write(t))
    w(os.path.join(d, 'device'), job['device'])
    w(os.path.join(code, 'router'), job['netspoc'])
    w(os.path.join(code, 'router.info'), json.dumps(dict(model=job['model'], name_list=['router'], ip_list=['10.1.13.33'])))
    if job.get('raw') is not None:
        w(os.path.join(code, 'router.raw'), job['raw'])
    if job.get('ipv6') is not None:
        w(os.path.join(code, 'ipv6', 'router'), job['ipv6'])


def repeat(ctx, d, runs):
    """Returns the list of distinct (rc, stdout, stderr) with their counts."""
    seen = {}
    env = dict(os.environ, HOME=d)
    env.pop('SIMULATE_ROUTER', None)
    for _ in range(runs):
        try:
            p = subprocess.run([os.path.join(ctx.bin, 'drc'), 'device', 'code/router'], cwd=d, env=env,
                               stdout=subprocess.PIPE, stderr=subprocess.PIPE, timeout=60)
            err = p.stderr.decode('utf-8', 'replace')
            if 'goroutine ' in err:
                # a Go panic (reported by C20): the trace below the message holds addresses of this process
                err = err[:err.index('goroutine ')] + '[stack trace]\n'
            k = (p.returncode, p.stdout.decode('utf-8', 'replace'), err)
        except subprocess.TimeoutExpired:
            try:    # once more with a long limit: the sandbox may be loaded
                p = subprocess.run([os.path.join(ctx.bin, 'drc'), 'device', 'code/router'], cwd=d, env=env,
                                   stdout=subprocess.PIPE, stderr=subprocess.PIPE, timeout=600)
                k = (p.returncode, p.stdout.decode('utf-8', 'replace'), p.stderr.decode('utf-8', 'replace'))
            except subprocess.TimeoutExpired:
                k = ('hang', '', '')
        seen[k] = seen.get(k, 0) + 1
    return seen


def main(ctx):
    st = ctx.proof_status()
    failing, breaks, cov = [], [], {}
    for s in getattr(ctx, 'maprange_unreviewed', []) or []:
        breaks.append(dict(correspondence='map-range inventory: a loop over a Go map is new or changed and has not been reviewed',
                           case=s))
    if ctx.build_impl() and ctx.build_harness():
        quick = ctx.tier == 'quick'
        td = os.path.join(ctx.work, 'td')
        rc, out, err = C.run([os.path.join(ctx.bin, 'nah'), 'testdata', os.path.join(C.REPO, 'go', 'testdata'), td], timeout=300)
        index = json.loads(out) if rc == 0 and out.strip() else []
        if not index:
            breaks.append(dict(correspondence='expansion of the repository test data failed', case=err[-300:]))
        corpus = []   # (name, dir, runs, files)
        r_td, r_tie = (6, 48) if quick else (40, 600)
        for e in index:
            corpus.append(('%s: %s' % (e['file'], e['title']), e['dir'], r_td, None))
        tl = ties()
        for i, (name, job) in enumerate(tl):
            d = os.path.join(ctx.work, 'tie%d' % i)
            write_job(d, job)
            corpus.append((name, d, r_tie, job))
        with ThreadPoolExecutor(16) as ex:
            res = list(ex.map(lambda c: repeat(ctx, c[1], c[2]), corpus))
        nontrivial, errors = 0, 0
        for (name, d, runs, job), seen in zip(corpus, res):
            first = next(iter(seen))
            if first[1].strip():
                nontrivial += 1
            if first[0] == 1:
                errors += 1
            if len(seen) > 1:
                files = job
                if files is None:
                    files = {}
                    for root, _, fs in os.walk(d):
                        for f in fs:
                            p = os.path.join(root, f)
                            files[os.path.relpath(p, d)] = open(p, errors='replace').read()
                variants = [dict(count=n, rc=k[0], stdout=k[1], stderr=k[2][-600:]) for k, n in seen.items()]
                what = 'differs in ' + ', '.join(w for j, w in enumerate(('exit status', 'change script', 'messages'))
                                                 if len(set(k[j] for k in seen)) > 1)
                failing.append(dict(what='%d runs of drc on byte-identical input "%s": output %s' % (runs, name, what),
                                    replay=dict(property='C16', input=name, files=files, command='drc device code/router (repeated %d times)' % runs,
                                                variants=variants), finding=None, key=name))
        cov = dict(evaluations=sum(c[2] for c in corpus), distinct_nontrivial=len(corpus),
                   rule='every file-compare example of go/testdata/*.t (%d inputs, %d runs each) and %d inputs with ties (identical groups, '
                        'crypto entries with equal peers, identical simple objects, several invalid references, raw files with several '
                        'clashes / unused objects / tables; %d runs each); distinct by input' % (len(index), r_td, len(tl), r_tie),
                   traces_validated_against_impl=len(corpus), inputs_with_change_script=nontrivial, inputs_rejected=errors,
                   map_range_sites=getattr(ctx, 'maprange_sites', None), samples=[dict(input=corpus[-1][0], outcome=list(res[-1])[0][0])] if corpus else [])
    cov = C.proof_coverage(ctx, cov)
    return C.finish(ctx, failing, breaks, cov,
                    ['each reviewed loop is an instance of the pattern recorded for it in vlib/maprange_sites.py (review by reading; a changed loop text invalidates it)',
                     'outside loops over maps the Go code is sequential and a function of its inputs: no goroutines in the planning code, '
                     'sort/slices sorting is deterministic for a given input, time stamps appear only in log files',
                     'a Go panic is compared by its message; the stack trace (addresses of the process) is cut — panics are the subject of C20',
                     'approve planning is observed through drc DEVICE NETSPOC (the same diff code as used with a device session)'])
