"""Tie of Cisco/Routes.v (diff_croutes) to cisco.diffRoutes: generated route lists of one
VRF for ASA and IOS; the commands printed by drc (add, delete, replacement in one
transaction) must be exactly the commands of the Gallina model for the edit script of
the library the tool calls (on the sorted route lines), and executing them on the
routing table of the model must end in the target routes."""
from vlib import common as C
from vlib import cisco as K
from vlib import drcrun

DSTS = ['10.%d.0.0' % k for k in range(10, 26)]
HOPS = ['10.9.9.%d' % k for k in range(1, 8)]


def line(ios, d, h):
    return ('ip route %s 255.255.0.0 %s' % (DSTS[d], HOPS[h])) if ios else ('route inside %s 255.255.0.0 %s' % (DSTS[d], HOPS[h]))


def gen_case(rng):
    n = rng.randint(1, 7)
    a = dict((d, rng.randrange(len(HOPS))) for d in rng.sample(range(len(DSTS)), n))
    b = dict(a)
    for _ in range(rng.choice([1, 1, 2, 3, 4])):
        op = rng.random()
        if op < 0.4 and b:
            d = rng.choice(sorted(b))
            b[d] = rng.choice([h for h in range(len(HOPS)) if h != b[d]])       # another next hop
        elif op < 0.65:
            free = [d for d in range(len(DSTS)) if d not in b]
            if free:
                b[rng.choice(free)] = rng.randrange(len(HOPS))
        elif len(b) > 1:
            b.pop(rng.choice(sorted(b)))
    return sorted(a.items()), sorted(b.items())


def render(ios, routes, device):
    ls = [line(ios, d, h) for d, h in routes]
    if ios:
        return '\n'.join(ls) + '\n'
    return ('interface Ethernet0/0\n nameif inside\n' if device else '') + '\n'.join(ls) + '\n'


def parse(ios, text, table):
    """one output line -> Coq term of Cisco.Routes.rcmd"""
    def route(s):
        s = s.strip()
        if s not in table:
            raise ValueError(s)
        return '(%d, %d)' % table[s]
    if '\\N ' in text:
        a, b = text.split('\\N ', 1)
        if not a.startswith('no '):
            raise ValueError(text)
        return '(RRepl %s %s)' % (route(a[3:]), route(b))
    if text.startswith('no '):
        return '(RDel %s)' % route(text[3:])
    return '(RAdd %s)' % route(text)


def check(ctx, n):
    """-> (cases compared, list of mismatch dicts)"""
    bad, total = [], 0
    for ios in (False, True):
        model = 'IOS' if ios else 'ASA'
        table = dict((line(ios, d, h), (d, h)) for d in range(len(DSTS)) for h in range(len(HOPS)))
        cases = [gen_case(ctx.rng) for _ in range(n)]
        jobs = [dict(model=model, device=render(ios, a, True), netspoc=render(ios, b, False)) for a, b in cases]
        res = drcrun.run_many(ctx, jobs)
        # the tool compares the route commands in sorted order
        keyed = [(sorted(a, key=lambda r: line(ios, *r)), sorted(b, key=lambda r: line(ios, *r))) for a, b in cases]
        rs = K.myers_ranges(ctx, [([line(ios, *r) for r in a], [line(ios, *r) for r in b]) for a, b in keyed])
        items, used = [], []
        for i, ((a, b), ranges, r) in enumerate(zip(keyed, rs, res)):
            if r['rc'] != 0:
                bad.append(dict(what='drc rejects generated routes', family=model, device=jobs[i]['device'], netspoc=jobs[i]['netspoc'], stderr=r['err'][-300:]))
                continue
            m = K.ranges_to_script(ranges, a, b)
            lines_ = [l for l in r['out'].split('\n') if l.strip()]
            try:
                impl = [parse(ios, l, table) for l in lines_]
            except ValueError:
                impl = ['(RDel (999, 999))']
            items.append('(%s, %s)' % (C.clist(['(%s, (%d, %d))' % (t, e[0], e[1]) for t, e in m]), C.clist(impl)))
            used.append(i)
        text = ('From Coq Require Import List.\nFrom NA Require Import Cisco.Routes Cisco.RoutesCheck.\nImport ListNotations.\n'
                'Definition V := Eval vm_compute in route_verdicts %s.\nPrint V.\n' % C.clist(items))
        v = C.parse_verdict_list(ctx.coq_eval('routes_%s' % model, text), 2 * len(items))
        for k, i in enumerate(used):
            if v[2 * k] or v[2 * k + 1]:
                bad.append(dict(model_vs_impl=v[2 * k], impl_diverges=v[2 * k + 1], family=model, device=jobs[i]['device'], netspoc=jobs[i]['netspoc'],
                                stdout=res[i]['out'], ranges=rs[i]))
        total += len(used)
    return total, bad
