"""Tie of Cisco/Routes.v (diff_croutes_vrf) to cisco.diffRoutes: generated route lists for ASA (one routing
table, one route per destination) and IOS (global table and VRFs, several routes per destination, VRFs
for which the target has no route); the commands printed by drc (add, delete, replacement in one
transaction) must be exactly the commands of the Gallina model for the edit script of the library the tool
calls (on the sorted route lines), and executing them on the routing table of the model must end in the
target routes plus the untouched routes of the VRFs the target does not mention."""
from vlib import common as C
from vlib import cisco as K
from vlib import drcrun

NDST = 16
DSTS = ['10.%d.0.0' % k for k in range(10, 10 + NDST)]
HOPS = ['10.9.9.%d' % k for k in range(1, 8)]
VRFS = [None, '013', '014']          # id of a route's destination in the model: index of the VRF * 1000 + index of the destination


def line(ios, r):
    v, d, h = r
    if not ios:
        return 'route inside %s 255.255.0.0 %s' % (DSTS[d], HOPS[h])
    return 'ip route %s%s 255.255.0.0 %s' % (('vrf %s ' % VRFS[v]) if VRFS[v] else '', DSTS[d], HOPS[h])


def gen_case(rng, ios):
    nv = rng.choice([1, 1, 2, 3]) if ios else 1
    a = set()
    for v in range(nv):
        for d in rng.sample(range(NDST), rng.randint(0 if v else 1, 5)):
            a.add((v, d, rng.randrange(len(HOPS))))
            if ios and rng.random() < 0.25:
                a.add((v, d, rng.randrange(len(HOPS))))          # a second next hop for the same destination
    b = set(a)
    # one route per destination in the target
    seen = set()
    for r in sorted(b):
        if (r[0], r[1]) in seen:
            b.discard(r)
        seen.add((r[0], r[1]))
    for _ in range(rng.choice([1, 1, 2, 3, 4])):
        op = rng.random()
        bl = sorted(b)
        if op < 0.4 and bl:
            v, d, h = rng.choice(bl)
            b.discard((v, d, h))
            b.add((v, d, rng.choice([x for x in range(len(HOPS)) if x != h])))       # another next hop
        elif op < 0.6:
            v = rng.randrange(nv)
            free = [d for d in range(NDST) if not any(r[0] == v and r[1] == d for r in b)]
            if free:
                b.add((v, rng.choice(free), rng.randrange(len(HOPS))))
        elif op < 0.8 and len(bl) > 1:
            b.discard(rng.choice(bl))
        elif ios and nv > 1:
            v = rng.randrange(nv)                                                   # the target says nothing about one VRF
            b = set(r for r in b if r[0] != v)
            # ... and drops the route that stands directly in front of this VRF in the sorted list (one delete range over two VRFs)
            prev = [r for r in sorted(a, key=lambda r: line(ios, r)) if r[0] < v]
            if prev and rng.random() < 0.7:
                b.discard(prev[-1])
                b = set(r for r in b if not (r[0] == prev[-1][0] and r[1] == prev[-1][1]))
    if not b:
        b.add((0, 0, 0))
    return sorted(a), sorted(b)


def render(ios, routes, device, vrfs=()):
    ls = [line(ios, r) for r in routes]
    if ios:
        # every VRF of the device is known to the target through an interface, also those for which the target has no route
        vr = sorted(set(VRFS[v] for v in vrfs if VRFS[v]))
        intf = ''.join('interface Ethernet%d\n ip address 10.0.%d.1 255.255.255.0\n ip vrf forwarding %s\n' % (i + 1, i + 1, v) for i, v in enumerate(vr))
        return ''.join('ip vrf %s\n' % v for v in vr) + intf + '\n'.join(ls) + '\n'
    return ('interface Ethernet0/0\n nameif inside\n' if device else '') + '\n'.join(ls) + '\n'


def cterm(r):
    return '(%d, %d)' % (r[0] * 1000 + r[1], r[2])


def parse(text, table):
    """one output line -> Coq term of Cisco.Routes.rcmd"""
    def route(s_):
        s_ = s_.strip()
        if s_ not in table:
            raise ValueError(s_)
        return cterm(table[s_])
    if '\\N ' in text:
        a, b = text.split('\\N ', 1)
        if not a.startswith('no '):
            raise ValueError(text)
        return '(RRepl %s %s)' % (route(a[3:]), route(b))
    if text.startswith('no '):
        return '(RDel %s)' % route(text[3:])
    return '(RAdd %s)' % route(text)


def check(ctx, n):
    """-> (cases compared, list of mismatch dicts)"""
    bad, total = [], 0
    for ios in (False, True):
        model = 'IOS' if ios else 'ASA'
        table = dict((line(ios, (v, d, h)), (v, d, h)) for v in range(len(VRFS) if ios else 1) for d in range(NDST) for h in range(len(HOPS)))
        cases = [gen_case(ctx.rng, ios) for _ in range(n)]
        jobs = [dict(model=model, device=render(ios, a, True, set(r[0] for r in a + b)), netspoc=render(ios, b, False, set(r[0] for r in a + b))) for a, b in cases]
        res = drcrun.run_many(ctx, jobs)
        # the tool compares the route commands in sorted order (equal masks here: by text)
        keyed = [(sorted(a, key=lambda r: line(ios, r)), sorted(b, key=lambda r: line(ios, r))) for a, b in cases]
        rs = K.myers_ranges(ctx, [([line(ios, r) for r in a], [line(ios, r) for r in b]) for a, b in keyed])
        items, used = [], []
        for i, ((a, b), ranges, r) in enumerate(zip(keyed, rs, res)):
            if r['rc'] != 0:
                bad.append(dict(what='drc rejects generated routes', family=model, device=jobs[i]['device'], netspoc=jobs[i]['netspoc'], stderr=r['err'][-300:]))
                continue
            m = K.ranges_to_script(ranges, a, b)
            lines_ = [l for l in r['out'].split('\n') if l.strip()]
            try:
                impl = [parse(l, table) for l in lines_]
            except ValueError:
                impl = ['(RDel (999999, 999))']
            items.append('(%s, %s)' % (C.clist(['(%s, %s)' % (t, cterm(e)) for t, e in m]), C.clist(impl)))
            used.append(i)
        text = ('From Coq Require Import List.\nFrom NA Require Import Cisco.Routes Cisco.RoutesCheck.\nImport ListNotations.\n'
                'Definition V := Eval vm_compute in route_verdicts_vrf %s %s.\nPrint V.\n' % ('true' if ios else 'false', C.clist(items)))
        v = C.parse_verdict_list(ctx.coq_eval('routes_%s' % model, text), 2 * len(items))
        for k, i in enumerate(used):
            if v[2 * k] or v[2 * k + 1]:
                bad.append(dict(model_vs_impl=v[2 * k], impl_diverges=v[2 * k + 1], family=model, device=jobs[i]['device'], netspoc=jobs[i]['netspoc'],
                                stdout=res[i]['out'], ranges=rs[i]))
        total += len(used)
    return total, bad
