"""C03 — PAN-OS approve converges to the Netspoc-equivalent rulebase.

Proof: coq/theories/Panos/*.v, Properties/C03.v.  Tie / search: generated pairs of
vsys configurations; the commands printed by the built drc are executed by the
Gallina device semantics (set = merge, edit = replace, delete, move before;
references must exist, referenced objects cannot be deleted), the result is
judged by the oracle (rules in order, members by expanded content), rendered and
compared a second time by drc."""
import json
from vlib import common as C
from vlib import panos as P
from vlib import drcrun
from vlib.cisco import parse_coq_term

WHY = {1: 'an object that does not exist is referenced', 2: 'an object that is still referenced is deleted', 3: 'no such entry',
       4: 'an entry with this name exists already', 5: 'the member to be removed is not in the list', 6: 'the rule to move before does not exist'}


def gen_case(rng):
    nv = rng.choice([1, 1, 1, 2])
    tgt, dev, edits = [], [], []
    for i in range(nv):
        t = P.gen_target(rng)
        d, e = P.mutate(rng, t)
        if rng.random() < 0.08:
            d = P.new_vsys()                      # empty device
        name = 'vsys%d' % (i + 1)
        tgt.append((name, t))
        dev.append((name, d))
        edits.append(e)
    if nv == 2 and rng.random() < 0.3:
        tgt = tgt[:1]                             # second vsys on the device is left alone
    return dict(tgt=tgt, dev=dev, edits=edits)


def corpus():
    """inputs of the defects found, run first"""
    R = lambda name, dst, action='allow', frm='z1': dict(name=name, action=action, frm=frm, to='z2', src=['any'], dst=[dst], srv=['any'], extra='')
    out = []
    # F-C03-1: the new name of a clashing rule / group is the name of another object of the target
    t = P.new_vsys(); t['rules'] = [R('x', 'IP_10.1.1.10'), R('x-1', 'IP_10.1.1.11')]; P.finish_objects(t)
    d = P.new_vsys(); d['rules'] = [R('x', 'IP_10.1.1.12', 'deny', 'z9')]; P.finish_objects(d)
    out.append(dict(tgt=[('vsys1', t)], dev=[('vsys1', d)], edits=[['corpus-rule-name-clash']]))
    t = P.new_vsys(); t['grp'] = {'g': ['IP_10.1.1.10', 'IP_10.1.1.11'], 'g-1': ['IP_10.1.1.12', 'IP_10.1.1.13']}
    t['rules'] = [R('r1', 'g'), R('r2', 'g-1')]; P.finish_objects(t)
    d = P.new_vsys(); d['grp'] = {'g': ['IP_10.1.1.14', 'IP_10.1.1.15', 'IP_10.1.1.16']}
    d['rules'] = [R('r9', 'g', 'deny', 'z9')]; P.finish_objects(d)
    out.append(dict(tgt=[('vsys1', t)], dev=[('vsys1', d)], edits=[['corpus-group-name-clash']]))
    # F-C03-2
    t = P.new_vsys(); t['sgrp'] = {'test': ['tcp 443', 'tcp 22']}
    t['rules'] = [dict(R('r1', 'IP_10.1.1.10'), srv=['test'])]; P.finish_objects(t)
    d = P.copy_vsys(t); d['sgrp'] = {'test': ['tcp 80', 'tcp 443']}; P.finish_objects(d)
    out.append(dict(tgt=[('vsys1', t)], dev=[('vsys1', d)], edits=[['corpus-service-group-member-removed']]))
    # F-C03-3: the first rule is pointed at the target's group under its (uniquified) own name, a later rule equalizes another
    # device group with it incrementally and cancels the transfer
    t = P.new_vsys(); t['grp'] = {'g0': ['IP_10.1.1.11', 'NET_10.1.3.0_24']}
    t['rules'] = [R('r1', 'g0', 'deny'), R('r2', 'g0')]; P.finish_objects(t)
    d = P.new_vsys(); d['grp'] = {'g0': ['NET_10.1.7.0_24', 'NET_10.1.4.0_24', 'NET_10.1.2.0_24'], 'g0b': ['IP_10.1.1.11']}
    d['rules'] = [R('r1', 'g0', 'deny'), R('r2', 'g0b')]; P.finish_objects(d)
    out.append(dict(tgt=[('vsys1', t)], dev=[('vsys1', d)], edits=[['corpus-group-transfer-cancelled']]))
    # a service of the same name and port, of the other protocol (services are compared by their definitions)
    t = P.new_vsys(); t['rules'] = [dict(R('r1', 'IP_10.1.1.10'), srv=['udp 53'])]; P.finish_objects(t)
    d = P.copy_vsys(t); d['svc']['udp 53'] = 'tcp 53'
    out.append(dict(tgt=[('vsys1', t)], dev=[('vsys1', d)], edits=[['corpus-service-other-protocol']]))
    return out


def classify(case, per):
    """known-finding predicates on the input"""
    hit = []
    for (name, t) in case['tgt']:
        d = dict(case['dev']).get(name)
        if d is None:
            continue
        for g, ms in t['sgrp'].items():
            if g in d['sgrp'] and sorted(d['sgrp'][g]) != sorted(ms) and not set(d['sgrp'][g]) <= set(ms):
                hit.append('sgrp_members_removed')
    return hit


def misc_table(case):
    tab = {}
    for _, v in case['tgt'] + case['dev']:
        for r in v['rules']:
            tab[P.rule_misc(r)] = dict(action=r['action'], frm=r['frm'], to=r['to'], extra=r.get('extra', ''))
    return tab


def evaluate(ctx, n, with_second=True):
    """-> (failing, breaks, coverage dict); failing entries carry a key ('refused-..', 'not-converged', ...)"""
    failing, breaks, cov = [], [], {}
    cases = corpus() + [gen_case(ctx.rng) for _ in range(n)]
    jobs = [dict(model='PAN-OS', device=P.config_xml(c['dev']), netspoc=P.config_xml(c['tgt'])) for c in cases]
    res = drcrun.run_many(ctx, jobs)
    items, meta = [], []
    for i, (c, job, r) in enumerate(zip(cases, jobs, res)):
        rep = dict(property='C03', command='drc -q device code/router', device=job['device'], netspoc=job['netspoc'],
                   edits=c['edits'], stdout=r['out'], stderr=r['err'][-500:], rc=r['rc'])
        if r['panic'] or r['rc'] not in (0, 1):
            failing.append(dict(what='drc crashes', replay=rep, finding=None, key='crash'))
            continue
        if r['rc'] != 0:
            breaks.append(dict(correspondence='generated PAN-OS pair rejected by drc', case=rep))
            continue
        per, bad = P.parse_script(r['out'])
        if bad:
            breaks.append(dict(correspondence='command not understood by the PAN-OS device model', case=dict(rep, commands=bad[:3])))
            continue
        devd = dict(c['dev'])
        for name, t in c['tgt']:
            d = devd[name]
            items.append('{| pc_dev := %s; pc_tgt := %s; pc_ops := %s |}' % (P.c_vsys(d), P.c_vsys(t), C.clist(per.get(name, []))))
            meta.append((i, name, rep, bool(per.get(name))))
        for name in per:
            if name not in dict(c['tgt']):
                failing.append(dict(what='commands for vsys %s that the target does not contain' % name, replay=rep, finding=None, key='foreign-vsys'))
    verdicts = []
    for k in range(0, len(items), 200):
        text = ('From Coq Require Import List String.\nFrom NA Require Import Robust.GoStr Panos.Device Panos.Oracle Panos.Rules Panos.Proofs Panos.Check.\nImport ListNotations.\nOpen Scope string_scope.\n'
                'Definition V := Eval vm_compute in map (fun c => (judge c, already_equiv c, plan_verdict (names (pc_dev c)) (pc_ops c), uniq_verdict (names (pc_dev c)) (names (pc_tgt c)) (pc_ops c))) %s.\nPrint V.\n' % C.clist(items[k:k + 200]))
        verdicts += parse_coq_term(ctx.coq_eval('c03_%d' % k, text))
    if len(verdicts) != len(items):
        raise RuntimeError('verdict count %d != %d' % (len(verdicts), len(items)))
    second, second_meta = [], []
    nontrivial = 0
    for (i, name, rep, has_cmds), v in zip(meta, verdicts):
        (pos, why, conv, unused, rendered, already, pv, uv) = v
        if uv != 'true':
            breaks.append(dict(correspondence='a new rule is sent under a name that Panos/Uniq.v (genUniqRuleNames) does not compute', case=dict(rep, vsys=name)))
        if pv:
            breaks.append(dict(correspondence='rule commands are not the plan of Panos/Rules.v for the reconstructed edit script (%s)' % ('shape' if pv == 1 else 'hypotheses'), case=dict(rep, vsys=name)))
        conv, already = (conv == 'true'), (already == 'true')
        c = cases[i]
        fnd = classify(c, None)
        fid = 'F-C03-2' if 'sgrp_members_removed' in fnd else None
        if has_cmds:
            nontrivial += 1
        if pos:
            failing.append(dict(what='vsys %s: command %d is refused by the device: %s' % (name, pos, WHY.get(why, why)),
                                replay=dict(rep, vsys=name, refused_command=pos, reason=WHY.get(why, why)), finding=fid, key='refused-%d' % why))
            continue
        if not conv:
            failing.append(dict(what='vsys %s: after the commands the rulebase is not equivalent to the target' % name,
                                replay=dict(rep, vsys=name, final_state=rendered), finding=fid, key='not-converged'))
            continue
        if not has_cmds and not already:
            failing.append(dict(what='vsys %s: no change reported although the rulebase is not equivalent to the target' % name,
                                replay=dict(rep, vsys=name), finding=fid, key='silent-difference'))
            continue
        # second compare on the resulting state
        fin = P.vsys_from_render(rendered, misc_table(c))
        devs = [(nm, fin if nm == name else dv) for nm, dv in c['dev']]
        second.append(dict(model='PAN-OS', device=P.config_xml(devs), netspoc=P.config_xml([(nm, t) for nm, t in c['tgt'] if nm == name])))
        second_meta.append((i, name, rep, fid))
    res2 = drcrun.run_many(ctx, second)
    for (i, name, rep, fid), job, r in zip(second_meta, second, res2):
        per2, _ = P.parse_script(r['out'])
        if r['rc'] != 0 or per2:
            failing.append(dict(what='vsys %s: the second compare on the resulting configuration reports changes again' % name,
                                replay=dict(rep, vsys=name, second_device=job['device'], second_stdout=r['out'], second_stderr=r['err'][-300:]),
                                finding=fid, key='not-idempotent'))
    import collections
    ed = collections.Counter(e for c in cases for el in c['edits'] for e in el)
    cov = dict(evaluations=len(cases) + len(second), distinct_nontrivial=len(set(items)), scripts_with_commands=nontrivial,
               rule='generated vsys pairs: 0-6 rules over 16 addresses, 0-3 address-groups, service-group, 1-2 vsys; device = target after 0-4 edits '
                    '(rule deleted / inserted / moved / renamed, group renamed / grown / shrunk / split / shared / replaced by its members, address or '
                    'service value changed under the same name, spare objects and groups, name clashes of rules and groups, extra attributes); '
                    'distinct by (device, target, script)',
               edit_distribution=dict(ed), traces_validated_against_impl=len(items), second_compares=len(second),
               samples=[meta[0][2]] if meta else [])
    return failing, breaks, cov


def main(ctx):
    st = ctx.proof_status()
    failing, breaks, cov = [], [], {}
    if ctx.build_impl():
        failing, breaks, cov = evaluate(ctx, 150 if ctx.tier == 'quick' else 3000)
    cov = C.proof_coverage(ctx, cov)
    return C.finish(ctx, failing, breaks, cov,
                    ['XML-API semantics assumed by Panos/Device.v: set creates an entry or merges into an existing one (members are added, never removed), '
                     'edit replaces, delete of a referenced object and use of an undefined object are refused, move before needs the target rule; '
                     'taken from the PAN-OS XML API documentation, not validated against a device',
                     'IPv6 / raw merges of PAN-OS are covered by C18; <shared> objects are not generated',
                     'rule equality covers action, zones, application, log settings, rule type and other attributes as canonical text'])
